package c18

import (
	"bytes"
	"fmt"
	"math/big"
	"math/rand"
	"net"
	"time"

	"github.com/gogo/protobuf/proto"

	"github.com/kardiachain/go-kardia/blockchain"
	"github.com/kardiachain/go-kardia/consensus"
	cstypes "github.com/kardiachain/go-kardia/consensus/types"
	cmn "github.com/kardiachain/go-kardia/lib/common"
	"github.com/kardiachain/go-kardia/lib/crypto"
	"github.com/kardiachain/go-kardia/lib/merkle"
	"github.com/kardiachain/go-kardia/lib/p2p"
	"github.com/kardiachain/go-kardia/mainchain/tx_pool"
	bcproto "github.com/kardiachain/go-kardia/proto/kardiachain/blockchain"
	kcons "github.com/kardiachain/go-kardia/proto/kardiachain/consensus"
	kp2p "github.com/kardiachain/go-kardia/proto/kardiachain/p2p"
	prototx "github.com/kardiachain/go-kardia/proto/kardiachain/txpool"
	kproto "github.com/kardiachain/go-kardia/proto/kardiachain/types"
	"github.com/kardiachain/go-kardia/trie"
	"github.com/kardiachain/go-kardia/types"
	"github.com/kardiachain/go-kardia/types/evidence"

	"verifharness/core"
	"verifharness/netsim"
)

// Round trip: every generated WELL-FORMED message of every type survives
// encode -> bytes -> decode unchanged (field by field), and re-encodes to the same bytes.

func rHash(r *rand.Rand) cmn.Hash {
	var h cmn.Hash
	r.Read(h[:])
	if h.IsZero() {
		h[0] = 1
	}
	return h
}

func rBID(r *rand.Rand) types.BlockID {
	return types.BlockID{Hash: rHash(r), PartsHeader: types.PartSetHeader{Total: uint32(1 + r.Intn(types.MaxBlockPartsCount)), Hash: rHash(r)}}
}

func rTime(r *rand.Rand) time.Time {
	return time.Unix(1600000000+int64(r.Intn(400000000)), int64(r.Intn(1000000000))).UTC()
}

func rSig(r *rand.Rand) []byte {
	b := make([]byte, 65)
	r.Read(b)
	return b
}

func rBitsN(r *rand.Rand, n int) *cmn.BitArray {
	b := cmn.NewBitArray(n)
	for i := 0; i < n; i++ {
		if r.Intn(2) == 0 {
			b.SetIndex(i, true)
		}
	}
	return b
}

func rU64(r *rand.Rand) uint64 {
	switch r.Intn(5) {
	case 0:
		return 1
	case 1:
		return uint64(r.Intn(1000)) + 1
	case 2:
		return 1<<63 - 1
	case 3:
		return 1<<64 - 1
	}
	return r.Uint64() | 1
}

func rU32(r *rand.Rand) uint32 {
	switch r.Intn(4) {
	case 0:
		return 0
	case 1:
		return uint32(r.Intn(100))
	case 2:
		return 1<<32 - 1
	}
	return r.Uint32()
}

func rVote(r *rand.Rand) *types.Vote {
	v := &types.Vote{ValidatorIndex: rU32(r), Height: rU64(r), Round: rU32(r), Timestamp: rTime(r), Type: kproto.SignedMsgType(1 + r.Intn(2)), Signature: rSig(r)}
	r.Read(v.ValidatorAddress[:])
	if r.Intn(3) != 0 {
		v.BlockID = rBID(r)
	}
	return v
}

func rPart(r *rand.Rand) *types.Part {
	n := []int{0, 1, 100, 5000, types.BlockPartSizeBytes}[r.Intn(5)]
	p := &types.Part{Index: rU32(r), Bytes: make([]byte, n)}
	r.Read(p.Bytes)
	p.Proof = merkle.SimpleProof{Total: rU64(r), Index: rU64(r), LeafHash: rHash(r).Bytes()}
	for i, k := 0, r.Intn(12); i < k; i++ {
		p.Proof.Aunts = append(p.Proof.Aunts, rHash(r).Bytes())
	}
	return p
}

func wellFormedCons(r *rand.Rand, kind string) consensus.Message {
	switch kind {
	case "NewRoundStep":
		return &consensus.NewRoundStepMessage{Height: rU64(r), Round: rU32(r), Step: cstypes.RoundStepType(1 + r.Intn(8)), SecondsSinceStartTime: rU64(r), LastCommitRound: rU32(r)}
	case "NewValidBlock":
		hd := rBID(r).PartsHeader
		return &consensus.NewValidBlockMessage{Height: rU64(r), Round: rU32(r), BlockPartsHeader: hd, BlockParts: rBitsN(r, int(hd.Total)), IsCommit: r.Intn(2) == 0}
	case "Proposal":
		rd := 1 + rU32(r)%1000
		return &consensus.ProposalMessage{Proposal: &types.Proposal{Height: rU64(r), Round: rd, POLRound: uint32(r.Intn(int(rd))), POLBlockID: rBID(r), Timestamp: rTime(r), Signature: rSig(r)}}
	case "ProposalPOL":
		return &consensus.ProposalPOLMessage{Height: rU64(r), ProposalPOLRound: rU32(r), ProposalPOL: rBitsN(r, 1+r.Intn(300))}
	case "BlockPart":
		return &consensus.BlockPartMessage{Height: rU64(r), Round: rU32(r), Part: rPart(r)}
	case "Vote":
		return &consensus.VoteMessage{Vote: rVote(r)}
	case "HasVote":
		return &consensus.HasVoteMessage{Height: rU64(r), Round: rU32(r), Type: kproto.SignedMsgType(1 + r.Intn(2)), Index: rU32(r)}
	case "VoteSetMaj23":
		return &consensus.VoteSetMaj23Message{Height: rU64(r), Round: rU32(r), Type: kproto.SignedMsgType(1 + r.Intn(2)), BlockID: rBID(r)}
	case "VoteSetBits":
		var b *cmn.BitArray
		if r.Intn(4) != 0 {
			b = rBitsN(r, 1+r.Intn(types.MaxVotesCount))
		}
		return &consensus.VoteSetBitsMessage{Height: rU64(r), Round: rU32(r), Type: kproto.SignedMsgType(1 + r.Intn(2)), BlockID: rBID(r), Votes: b}
	}
	panic(kind)
}

func eqBits(a, b *cmn.BitArray) string {
	if a.Size() == 0 && b.Size() == 0 {
		return "" // nil and empty are the same bit array
	}
	if a.Size() != b.Size() {
		return fmt.Sprintf("bit array size %d != %d", a.Size(), b.Size())
	}
	for i := 0; i < a.Size(); i++ {
		if a.GetIndex(i) != b.GetIndex(i) {
			return fmt.Sprintf("bit %d differs", i)
		}
	}
	if len(a.Elems) != len(b.Elems) {
		return fmt.Sprintf("bit array word count %d != %d", len(a.Elems), len(b.Elems))
	}
	return ""
}

func eqVote(a, b *types.Vote) string {
	switch {
	case (a == nil) != (b == nil):
		return "vote nil-ness"
	case a == nil:
		return ""
	case a.ValidatorAddress != b.ValidatorAddress:
		return "vote address"
	case a.ValidatorIndex != b.ValidatorIndex:
		return "vote index"
	case a.Height != b.Height:
		return "vote height"
	case a.Round != b.Round:
		return "vote round"
	case !a.Timestamp.Equal(b.Timestamp):
		return fmt.Sprintf("vote time %v != %v", a.Timestamp, b.Timestamp)
	case a.Type != b.Type:
		return "vote type"
	case !a.BlockID.Equal(b.BlockID) || a.BlockID.PartsHeader.Total != b.BlockID.PartsHeader.Total:
		return "vote block id"
	case !bytes.Equal(a.Signature, b.Signature):
		return "vote signature"
	}
	return ""
}

func eqCons(a, b consensus.Message) string {
	switch x := a.(type) {
	case *consensus.NewRoundStepMessage:
		y, ok := b.(*consensus.NewRoundStepMessage)
		if !ok || *x != *y {
			return "NewRoundStep differs"
		}
	case *consensus.NewValidBlockMessage:
		y, ok := b.(*consensus.NewValidBlockMessage)
		if !ok || x.Height != y.Height || x.Round != y.Round || x.BlockPartsHeader != y.BlockPartsHeader || x.IsCommit != y.IsCommit {
			return "NewValidBlock scalar fields differ"
		}
		return eqBits(x.BlockParts, y.BlockParts)
	case *consensus.ProposalMessage:
		y, ok := b.(*consensus.ProposalMessage)
		if !ok || y.Proposal == nil {
			return "Proposal missing"
		}
		p, q := x.Proposal, y.Proposal
		if p.Height != q.Height || p.Round != q.Round || p.POLRound != q.POLRound || p.POLBlockID != q.POLBlockID || !p.Timestamp.Equal(q.Timestamp) || !bytes.Equal(p.Signature, q.Signature) {
			return fmt.Sprintf("Proposal differs: %v != %v", p, q)
		}
	case *consensus.ProposalPOLMessage:
		y, ok := b.(*consensus.ProposalPOLMessage)
		if !ok || x.Height != y.Height || x.ProposalPOLRound != y.ProposalPOLRound {
			return "ProposalPOL scalar fields differ"
		}
		return eqBits(x.ProposalPOL, y.ProposalPOL)
	case *consensus.BlockPartMessage:
		y, ok := b.(*consensus.BlockPartMessage)
		if !ok || y.Part == nil || x.Height != y.Height || x.Round != y.Round {
			return "BlockPart scalar fields differ"
		}
		p, q := x.Part, y.Part
		if p.Index != q.Index || !bytes.Equal(p.Bytes, q.Bytes) || p.Proof.Total != q.Proof.Total || p.Proof.Index != q.Proof.Index || !bytes.Equal(p.Proof.LeafHash, q.Proof.LeafHash) || len(p.Proof.Aunts) != len(q.Proof.Aunts) {
			return "BlockPart part differs"
		}
		for i := range p.Proof.Aunts {
			if !bytes.Equal(p.Proof.Aunts[i], q.Proof.Aunts[i]) {
				return "BlockPart proof aunt differs"
			}
		}
	case *consensus.VoteMessage:
		y, ok := b.(*consensus.VoteMessage)
		if !ok {
			return "Vote type"
		}
		return eqVote(x.Vote, y.Vote)
	case *consensus.HasVoteMessage:
		y, ok := b.(*consensus.HasVoteMessage)
		if !ok || *x != *y {
			return "HasVote differs"
		}
	case *consensus.VoteSetMaj23Message:
		y, ok := b.(*consensus.VoteSetMaj23Message)
		if !ok || *x != *y {
			return "VoteSetMaj23 differs"
		}
	case *consensus.VoteSetBitsMessage:
		y, ok := b.(*consensus.VoteSetBitsMessage)
		if !ok || x.Height != y.Height || x.Round != y.Round || x.Type != y.Type || x.BlockID != y.BlockID {
			return "VoteSetBits scalar fields differ"
		}
		return eqBits(x.Votes, y.Votes)
	default:
		return fmt.Sprintf("unknown type %T", a)
	}
	return ""
}

func rtCons(c *core.Case, kind string) {
	m := wellFormedCons(c.R, kind)
	wit := func() interface{} {
		return map[string]interface{}{"type": kind, "message": short(fmt.Sprintf("%+v", m), 600)}
	}
	c.Guard("round trip consensus "+kind, wit, func() {
		if err := m.ValidateBasic(); err != nil {
			c.Run.Count("roundtrip_generator_rejected:"+kind, 1)
			return
		}
		b := consensus.MustEncode(m)
		pb := &kcons.Message{}
		if err := proto.Unmarshal(b, pb); err != nil {
			c.Violation("roundtrip:consensus:"+kind+":unmarshal", "well-formed message does not unmarshal: "+err.Error(), wit())
			return
		}
		m2, err := consensus.MsgFromProto(pb)
		if err != nil {
			c.Violation("roundtrip:consensus:"+kind+":decode", "well-formed message is refused by the decoder: "+err.Error(), wit())
			return
		}
		if d := eqCons(m, m2); d != "" {
			c.Violation("roundtrip:consensus:"+kind+":changed", "message changed by encode/decode: "+d, wit())
			return
		}
		if b2 := consensus.MustEncode(m2); !bytes.Equal(b, b2) {
			c.Violation("roundtrip:consensus:"+kind+":re-encode", "decoded message encodes to different bytes", wit())
			return
		}
		c.Run.Count("roundtrips", 1)
		c.Run.Count("roundtrips:consensus", 1)
		c.Run.Distinct("roundtrip_type", "consensus:"+kind)
	})
}

func rTx(r *rand.Rand) *types.Transaction {
	key, _ := crypto.ToECDSA(cmn.Hex2Bytes(fmt.Sprintf("%064x", 0x2000+r.Intn(50))))
	data := make([]byte, []int{0, 0, 4, 68, 1000}[r.Intn(5)])
	r.Read(data)
	var tx *types.Transaction
	amount := new(big.Int).Lsh(big.NewInt(int64(r.Intn(1000))), uint(r.Intn(200)))
	price := big.NewInt(int64(r.Intn(1 << 30)))
	if r.Intn(4) == 0 {
		tx = types.NewContractCreation(rU64(r), amount, rU64(r), price, data)
	} else {
		var to cmn.Address
		r.Read(to[:])
		tx = types.NewTransaction(rU64(r), to, amount, rU64(r), price, data)
	}
	stx, err := types.SignTx(types.HomesteadSigner{}, tx, key)
	if err != nil {
		panic(err)
	}
	return stx
}

func rtTxpool(c *core.Case, kind string) {
	r := c.R
	var b []byte
	var txs []*types.Transaction
	var hashes []cmn.Hash
	n := 1 + r.Intn(5)
	for i := 0; i < n; i++ {
		tx := rTx(r)
		txs = append(txs, tx)
		hashes = append(hashes, tx.Hash())
	}
	wit := func() interface{} { return map[string]interface{}{"type": kind, "n": n} }
	c.Guard("round trip txpool "+kind, wit, func() {
		switch kind {
		case "PooledTransactions":
			b = tx_pool.MustEncode(tx_pool.PooledTransactions(txs))
		case "PooledTransactionHashes":
			b = tx_pool.MustEncode(tx_pool.NewPooledTransactionHashes(hashes))
		case "RequestPooledTransactions":
			b = tx_pool.MustEncode(tx_pool.RequestPooledTransactionHashes(hashes))
		case "Txs":
			var raw [][]byte
			for _, tx := range txs {
				raw = append(raw, txRLP(tx))
			}
			b = marshal(&prototx.Message{Sum: &prototx.Message_Txs{Txs: &prototx.Txs{Txs: raw}}})
		}
		m, err := tx_pool.VerifDecodeMsg(b)
		if err != nil {
			c.Violation("roundtrip:txpool:"+kind+":decode", "well-formed message is refused by the decoder: "+err.Error(), wit())
			return
		}
		var gotTxs []*types.Transaction
		var gotHashes []cmn.Hash
		switch x := m.(type) {
		case tx_pool.TxsMessage:
			gotTxs = x.Txs
		case tx_pool.PooledTransactions:
			gotTxs = x
		case tx_pool.NewPooledTransactionHashes:
			gotHashes = x
		case tx_pool.RequestPooledTransactionHashes:
			gotHashes = x
		}
		bad := ""
		if kind == "Txs" || kind == "PooledTransactions" {
			if len(gotTxs) != len(txs) {
				bad = "transaction count"
			} else {
				for i := range txs {
					if gotTxs[i].Hash() != txs[i].Hash() || !bytes.Equal(txRLP(gotTxs[i]), txRLP(txs[i])) {
						bad = fmt.Sprintf("transaction %d differs", i)
					}
				}
			}
		} else {
			if len(gotHashes) != len(hashes) {
				bad = "hash count"
			} else {
				for i := range hashes {
					if gotHashes[i] != hashes[i] {
						bad = fmt.Sprintf("hash %d differs", i)
					}
				}
			}
		}
		if bad != "" {
			c.Violation("roundtrip:txpool:"+kind+":changed", "message changed by encode/decode: "+bad, wit())
			return
		}
		c.Run.Count("roundtrips", 1)
		c.Run.Count("roundtrips:txpool", 1)
		c.Run.Distinct("roundtrip_type", "txpool:"+kind)
	})
}

func rtEvidence(c *core.Case) {
	r := c.R
	var evs []types.Evidence
	n := 1 + r.Intn(3)
	for i := 0; i < n; i++ {
		a, b := rVote(r), rVote(r)
		b.ValidatorAddress, b.ValidatorIndex, b.Height, b.Round, b.Type = a.ValidatorAddress, a.ValidatorIndex, a.Height, a.Round, a.Type
		a.BlockID, b.BlockID = rBID(r), rBID(r)
		if a.BlockID.Key() > b.BlockID.Key() {
			a, b = b, a
		}
		evs = append(evs, &types.DuplicateVoteEvidence{VoteA: a, VoteB: b, TotalVotingPower: int64(r.Intn(1 << 40)), ValidatorPower: int64(r.Intn(1 << 30)), Timestamp: rTime(r)})
	}
	wit := func() interface{} {
		return map[string]interface{}{"type": "EvidenceList", "evidence": short(fmt.Sprint(evs), 800)}
	}
	c.Guard("round trip evidence", wit, func() {
		for _, ev := range evs {
			if err := ev.ValidateBasic(); err != nil {
				c.Run.Count("roundtrip_generator_rejected:EvidenceList", 1)
				return
			}
		}
		b, err := evidence.VerifEncodeMsg(evs)
		if err != nil {
			c.Violation("roundtrip:evidence:EvidenceList:encode", "well-formed evidence does not encode: "+err.Error(), wit())
			return
		}
		got, err := evidence.VerifDecodeMsg(b)
		if err != nil {
			c.Violation("roundtrip:evidence:EvidenceList:decode", "well-formed evidence is refused by the decoder: "+err.Error(), wit())
			return
		}
		if len(got) != len(evs) {
			c.Violation("roundtrip:evidence:EvidenceList:changed", "evidence count changed", wit())
			return
		}
		for i := range evs {
			x, y := evs[i].(*types.DuplicateVoteEvidence), got[i].(*types.DuplicateVoteEvidence)
			d := eqVote(x.VoteA, y.VoteA) + eqVote(x.VoteB, y.VoteB)
			if x.TotalVotingPower != y.TotalVotingPower || x.ValidatorPower != y.ValidatorPower || !x.Timestamp.Equal(y.Timestamp) {
				d += " powers/time"
			}
			if x.Hash() != y.Hash() {
				d += " hash"
			}
			if d != "" {
				c.Violation("roundtrip:evidence:EvidenceList:changed", "evidence changed by encode/decode: "+d, wit())
				return
			}
		}
		c.Run.Count("roundtrips", 1)
		c.Run.Count("roundtrips:evidence", 1)
		c.Run.Distinct("roundtrip_type", "evidence:EvidenceList")
	})
}

func rtPex(c *core.Case) {
	r := c.R
	var addrs []*p2p.NetAddress
	for i, n := 0, r.Intn(6); i < n; i++ {
		var ip net.IP
		if r.Intn(3) == 0 {
			ip = make(net.IP, 16)
			r.Read(ip)
			ip[0] = 0x20
		} else {
			ip = net.IPv4(byte(1+r.Intn(200)), byte(r.Intn(256)), byte(r.Intn(256)), byte(1+r.Intn(250)))
		}
		a := p2p.NewNetAddressIPPort(ip, uint16(r.Intn(65536)))
		a.ID = p2p.ID(fmt.Sprintf("%040x", r.Uint64()))
		addrs = append(addrs, a)
	}
	wit := func() interface{} { return map[string]interface{}{"type": "PexAddrs", "addrs": fmt.Sprint(addrs)} }
	c.Guard("round trip pex", wit, func() {
		var pb proto.Message = &kp2p.Message{Sum: &kp2p.Message_PexAddrs{PexAddrs: &kp2p.PexAddrs{Addrs: p2p.NetAddressesToProto(addrs)}}}
		kind := "PexAddrs"
		if len(addrs) == 0 && r.Intn(2) == 0 {
			pb, kind = &kp2p.Message{Sum: &kp2p.Message_PexRequest{PexRequest: &kp2p.PexRequest{}}}, "PexRequest"
		}
		b := marshal(pb)
		back := &kp2p.Message{}
		if err := back.Unmarshal(b); err != nil {
			c.Violation("roundtrip:pex:"+kind+":decode", err.Error(), wit())
			return
		}
		if kind == "PexRequest" {
			if _, ok := back.Sum.(*kp2p.Message_PexRequest); !ok {
				c.Violation("roundtrip:pex:PexRequest:changed", "request decoded as another message", wit())
				return
			}
		} else {
			pa, ok := back.Sum.(*kp2p.Message_PexAddrs)
			if !ok {
				c.Violation("roundtrip:pex:PexAddrs:changed", "address list decoded as another message", wit())
				return
			}
			got, err := p2p.NetAddressesFromProto(pa.PexAddrs.Addrs)
			if err != nil {
				c.Violation("roundtrip:pex:PexAddrs:decode", "well-formed address list refused: "+err.Error(), wit())
				return
			}
			if len(got) != len(addrs) {
				c.Violation("roundtrip:pex:PexAddrs:changed", "address count changed", wit())
				return
			}
			for i := range got {
				if got[i].ID != addrs[i].ID || !got[i].IP.Equal(addrs[i].IP) || got[i].Port != addrs[i].Port {
					c.Violation("roundtrip:pex:PexAddrs:changed", fmt.Sprintf("address %d changed: %v != %v", i, got[i], addrs[i]), wit())
					return
				}
			}
		}
		c.Run.Count("roundtrips", 1)
		c.Run.Count("roundtrips:pex", 1)
		c.Run.Distinct("roundtrip_type", "pex:"+kind)
	})
}

// rtBlocks: blocks of a live chain (with transactions) and the plain block-sync messages.
func rtBlocks(c *core.Case, blocks []*types.Block) {
	r := c.R
	for _, kind := range []string{"BlockRequest", "NoBlockResponse", "StatusRequest", "StatusResponse"} {
		var pb proto.Message
		h, b0 := rU64(r), rU64(r)
		switch kind {
		case "BlockRequest":
			pb = &bcproto.BlockRequest{Height: h}
		case "NoBlockResponse":
			pb = &bcproto.NoBlockResponse{Height: h}
		case "StatusRequest":
			pb = &bcproto.StatusRequest{}
		case "StatusResponse":
			if b0 > h {
				b0, h = h, b0
			}
			pb = &bcproto.StatusResponse{Base: b0, Height: h}
		}
		k := kind
		c.Guard("round trip blocksync "+k, func() interface{} { return fmt.Sprintf("%s %+v", k, pb) }, func() {
			b, err := blockchain.EncodeMsg(pb)
			if err != nil {
				c.Violation("roundtrip:blocksync:"+k+":encode", err.Error(), fmt.Sprintf("%+v", pb))
				return
			}
			m, err := blockchain.DecodeMsg(b)
			if err == nil {
				err = blockchain.ValidateMsg(m)
			}
			if err != nil {
				c.Violation("roundtrip:blocksync:"+k+":decode", "well-formed message refused: "+err.Error(), fmt.Sprintf("%+v", pb))
				return
			}
			if !proto.Equal(m, pb) {
				c.Violation("roundtrip:blocksync:"+k+":changed", fmt.Sprintf("%+v != %+v", m, pb), nil)
				return
			}
			c.Run.Count("roundtrips", 1)
			c.Run.Count("roundtrips:blocksync", 1)
			c.Run.Distinct("roundtrip_type", "blocksync:"+k)
		})
	}
	for _, blk := range blocks {
		blk := blk
		wit := func() interface{} { return fmt.Sprintf("block %d %x", blk.Height(), blk.Hash()) }
		c.Guard("round trip blocksync BlockResponse", wit, func() {
			pb, err := blk.ToProto()
			if err != nil {
				c.Violation("roundtrip:blocksync:BlockResponse:encode", err.Error(), wit())
				return
			}
			b, err := blockchain.EncodeMsg(&bcproto.BlockResponse{Block: pb})
			if err != nil {
				c.Violation("roundtrip:blocksync:BlockResponse:encode", err.Error(), wit())
				return
			}
			m, err := blockchain.DecodeMsg(b)
			if err == nil {
				err = blockchain.ValidateMsg(m)
			}
			if err != nil {
				c.Violation("roundtrip:blocksync:BlockResponse:decode", "genuine block refused: "+err.Error(), wit())
				return
			}
			b2, err := types.BlockFromProto(m.(*bcproto.BlockResponse).Block, trie.NewStackTrie(nil))
			if err != nil {
				c.Violation("roundtrip:blocksync:BlockResponse:decode", "genuine block refused: "+err.Error(), wit())
				return
			}
			pb2, _ := b2.ToProto()
			switch {
			case b2.Hash() != blk.Hash():
				c.Violation("roundtrip:blocksync:BlockResponse:changed", "block hash changed", wit())
			case !bytes.Equal(marshal(pb2), marshal(pb)):
				c.Violation("roundtrip:blocksync:BlockResponse:re-encode", "decoded block encodes to different bytes", wit())
			case len(b2.Transactions()) != len(blk.Transactions()):
				c.Violation("roundtrip:blocksync:BlockResponse:changed", "transaction count changed", wit())
			case (b2.LastCommit() == nil) != (blk.LastCommit() == nil) || (blk.LastCommit() != nil && b2.LastCommit().Hash() != blk.LastCommit().Hash()):
				c.Violation("roundtrip:blocksync:BlockResponse:changed", "last commit changed", wit())
			default:
				c.Run.Count("roundtrips", 1)
				c.Run.Count("roundtrips:blocksync", 1)
				c.Run.Distinct("roundtrip_type", "blocksync:BlockResponse")
				if len(blk.Transactions()) > 0 {
					c.Run.Count("roundtrip_blocks_with_transactions", 1)
				}
				if len(blk.Evidence().Evidence) > 0 {
					c.Run.Count("roundtrip_blocks_with_evidence", 1)
				}
			}
		})
	}
}

func roundtripGroup(r *core.Run) {
	per := r.N(100, 3000)
	r.Cases("roundtrip", r.N(16, 64), childOpts, func(c *core.Case) {
		for i := 0; i < per; i++ {
			for _, k := range consKinds {
				rtCons(c, k)
			}
			for _, k := range otherKinds["txpool"] {
				rtTxpool(c, k)
			}
			rtEvidence(c)
			rtPex(c)
			c.Run.Eval(len(consKinds) + 4 + 2)
		}
		// blocks of a live chain, some carrying transactions and evidence
		nt, err := netsim.NewNet(netsim.NetOpts{N: 4, Powers: []int64{20, 20, 20, 20}})
		if err != nil {
			r.Inconclusive("roundtrip: network: " + err.Error())
			return
		}
		defer nt.Close()
		if err := nt.StartAll(); err != nil {
			r.Inconclusive("roundtrip: network start: " + err.Error())
			return
		}
		l := &live{e: &Env{Net: nt, V: nt.Nodes[0], AdvIdx: 3, Adv: netsim.NewAdversary(nt)}}
		for i := 0; i < 6; i++ {
			nt.Nodes[i%4].Pool.AddRemotes([]*types.Transaction{l.tx(c.R, i)})
		}
		nt.RunSync(4, 40, nil)
		var blocks []*types.Block
		for h := uint64(1); h <= nt.Nodes[0].BO.Height(); h++ {
			if b := nt.Nodes[0].BO.LoadBlock(h); b != nil {
				blocks = append(blocks, b)
			}
		}
		rtBlocks(c, blocks)
		c.Run.Eval(4 + len(blocks))
	})
}
