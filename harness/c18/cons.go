package c18

import (
	"fmt"
	"math/rand"
	"time"

	"github.com/gogo/protobuf/proto"

	"github.com/kardiachain/go-kardia/consensus"
	cstypes "github.com/kardiachain/go-kardia/consensus/types"
	cmn "github.com/kardiachain/go-kardia/lib/common"
	kcons "github.com/kardiachain/go-kardia/proto/kardiachain/consensus"
	kproto "github.com/kardiachain/go-kardia/proto/kardiachain/types"
	"github.com/kardiachain/go-kardia/types"

	"verifharness/netsim"
)

// Msg is one message to deliver to a reactor.
type Msg struct {
	Ch      byte
	Kind    string // message type of the (unmutated) template
	Mut     string // mutation applied ("valid": none)
	Level   string // valid | go | proto | bytes
	Bytes   []byte
	Subject bool // the message under test (as opposed to prelude / postlude)
}

func (m Msg) desc() string {
	return fmt.Sprintf("ch=%02x %s [%s] %s", m.Ch, m.Kind, m.Level, m.Mut)
}

var consChannels = []byte{consensus.StateChannel, consensus.DataChannel, consensus.VoteChannel, consensus.VoteSetBitsChannel}

func consChannelOf(kind string) byte {
	switch kind {
	case "NewRoundStep", "NewValidBlock", "HasVote", "VoteSetMaj23":
		return consensus.StateChannel
	case "Proposal", "ProposalPOL", "BlockPart":
		return consensus.DataChannel
	case "Vote":
		return consensus.VoteChannel
	case "VoteSetBits":
		return consensus.VoteSetBitsChannel
	}
	return consensus.StateChannel
}

var consKinds = []string{"NewRoundStep", "NewValidBlock", "Proposal", "ProposalPOL", "BlockPart", "Vote", "HasVote", "VoteSetMaj23", "VoteSetBits"}

// live is a snapshot of the live state messages are generated from.
type live struct {
	e           *Env
	H           uint64 // victim's consensus height (syncing: height of the running network)
	R           uint32
	Step        cstypes.RoundStepType
	NVals       int
	LCR         uint32       // last commit round
	StoreH      uint64       // height of the reference block store
	Ref         *netsim.Node // node whose store / round state provides real data (victim when caught up)
	Prop        *types.Proposal
	Parts       *types.PartSet
	RealBID     types.BlockID
	FakeBID     types.BlockID
	Votes       []*types.Vote // real votes of the current height known to some node
	AdvProposer bool          // the attacker's validator is the proposer of (H,R)
	Tmpl        int           // template variant of the well-formed messages: 0 prevote-flavoured, 1 precommit-flavoured
	cache       map[string]Msg
}

func snapshot(e *Env) *live {
	l := &live{e: e}
	ref := e.V
	if e.Mode == "syncing" {
		ref = e.Net.Nodes[1]
	}
	l.Ref = ref
	rs := ref.CS.GetRoundState()
	l.H, l.R, l.Step = rs.Height, rs.Round, rs.Step
	l.NVals = rs.Validators.Size()
	if rs.LastCommit != nil {
		l.LCR = rs.LastCommit.GetRound()
	}
	l.StoreH = ref.BO.Height()
	l.FakeBID = types.BlockID{Hash: cmn.BytesToHash([]byte("c18 fabricated block hash......")), PartsHeader: types.PartSetHeader{Total: 3, Hash: cmn.BytesToHash([]byte("c18 fabricated parts hash......"))}}
	// a real proposal / part set of the current height from whichever node has it
	for _, n := range e.Net.Nodes {
		if n == nil || n.Dead {
			continue
		}
		nrs := n.CS.GetRoundState()
		if nrs.Height != l.H {
			continue
		}
		if l.Prop == nil && nrs.Proposal != nil && nrs.ProposalBlockParts != nil && nrs.ProposalBlockParts.IsComplete() {
			l.Prop, l.Parts = nrs.Proposal, nrs.ProposalBlockParts
			l.RealBID = nrs.Proposal.POLBlockID
		}
		if nrs.Votes != nil {
			for r := uint32(1); r <= nrs.Round; r++ {
				for _, vs := range []*types.VoteSet{nrs.Votes.Prevotes(r), nrs.Votes.Precommits(r)} {
					if vs == nil {
						continue
					}
					for i := 0; i < vs.Size(); i++ {
						if v := vs.GetByIndex(uint32(i)); v != nil && len(l.Votes) < 64 {
							l.Votes = append(l.Votes, v)
						}
					}
				}
			}
		}
	}
	if l.Parts == nil && l.StoreH >= 1 {
		// fall back to the last stored block (parts of height StoreH)
		if meta := ref.BO.LoadBlockMeta(l.StoreH); meta != nil {
			ps := types.NewPartSetFromHeader(meta.BlockID.PartsHeader)
			for i := 0; i < int(meta.BlockID.PartsHeader.Total); i++ {
				if p := ref.BO.LoadBlockPart(l.StoreH, i); p != nil {
					ps.AddPart(p)
				}
			}
			l.Parts = ps
			l.RealBID = meta.BlockID
		}
	}
	if l.RealBID.Hash.IsZero() {
		l.RealBID = l.FakeBID
	}
	if p := rs.Validators.GetProposer(); p != nil {
		l.AdvProposer = p.Address == e.Net.Addrs[e.AdvIdx]
	}
	return l
}

// advVote is a vote of the attacker's validator, correctly signed whatever its content.
func (l *live) advVote(h uint64, r uint32, t kproto.SignedMsgType, bid types.BlockID) *types.Vote {
	return l.e.Adv.SignVote(l.Ref, l.e.AdvIdx, t, h, r, bid, time.Unix(1700000200, 0).UTC())
}

func (l *live) part(i int) *types.Part {
	if l.Parts == nil || l.Parts.Total() == 0 {
		ps := types.NewPartSetFromData(make([]byte, 3000), 1000)
		return ps.GetPart(i % 3)
	}
	return l.Parts.GetPart(i % int(l.Parts.Total()))
}

func bits(n int, set ...int) *cmn.BitArray {
	b := cmn.NewBitArray(n)
	for _, i := range set {
		b.SetIndex(i, true)
	}
	return b
}

// valid returns a well-formed message of the given kind for peer height h / round r.
func (l *live) valid(kind string, h uint64, r uint32) consensus.Message {
	vt, isCommit := kproto.PrevoteType, false
	if l.Tmpl == 1 {
		vt, isCommit = kproto.PrecommitType, true
	}
	lcr := l.LCR
	if h <= 1 {
		lcr = 0
	} else if lcr == 0 {
		lcr = 1
	}
	switch kind {
	case "NewRoundStep":
		return &consensus.NewRoundStepMessage{Height: h, Round: r, Step: cstypes.RoundStepPropose, SecondsSinceStartTime: 1, LastCommitRound: lcr}
	case "NewValidBlock":
		hd := l.RealBID.PartsHeader
		if hd.Total == 0 {
			hd = l.FakeBID.PartsHeader
		}
		return &consensus.NewValidBlockMessage{Height: h, Round: r, BlockPartsHeader: hd, BlockParts: bits(int(hd.Total), 0), IsCommit: isCommit}
	case "Proposal":
		if l.Prop != nil && l.Prop.Height == h && l.Prop.Round == r {
			return &consensus.ProposalMessage{Proposal: l.Prop}
		}
		return &consensus.ProposalMessage{Proposal: l.e.Adv.SignProposal(l.e.AdvIdx, h, r, 0, l.RealBID)}
	case "ProposalPOL":
		return &consensus.ProposalPOLMessage{Height: h, ProposalPOLRound: 1, ProposalPOL: bits(l.NVals, 1)}
	case "BlockPart":
		return &consensus.BlockPartMessage{Height: h, Round: r, Part: l.part(0)}
	case "Vote":
		return &consensus.VoteMessage{Vote: l.advVote(h, r, vt, l.RealBID)}
	case "HasVote":
		return &consensus.HasVoteMessage{Height: h, Round: r, Type: vt, Index: 1}
	case "VoteSetMaj23":
		return &consensus.VoteSetMaj23Message{Height: h, Round: r, Type: vt, BlockID: l.RealBID}
	case "VoteSetBits":
		return &consensus.VoteSetBitsMessage{Height: h, Round: r, Type: vt, BlockID: l.RealBID, Votes: bits(l.NVals, 1)}
	}
	panic("unknown kind " + kind)
}

func kindOf(m consensus.Message) string {
	switch m.(type) {
	case *consensus.NewRoundStepMessage:
		return "NewRoundStep"
	case *consensus.NewValidBlockMessage:
		return "NewValidBlock"
	case *consensus.ProposalMessage:
		return "Proposal"
	case *consensus.ProposalPOLMessage:
		return "ProposalPOL"
	case *consensus.BlockPartMessage:
		return "BlockPart"
	case *consensus.VoteMessage:
		return "Vote"
	case *consensus.HasVoteMessage:
		return "HasVote"
	case *consensus.VoteSetMaj23Message:
		return "VoteSetMaj23"
	case *consensus.VoteSetBitsMessage:
		return "VoteSetBits"
	}
	return fmt.Sprintf("%T", m)
}

// toPB converts a Go message to its protobuf struct (nil if the product's own
// encoder refuses or panics on it: such a value cannot be put on the wire this way).
func toPB(m consensus.Message) (pb *kcons.Message) {
	defer func() {
		if recover() != nil {
			pb = nil
		}
	}()
	pb, err := consensus.MsgToProto(m)
	if err != nil {
		return nil
	}
	return pb
}

func marshal(pb proto.Message) (out []byte) {
	defer func() {
		if recover() != nil { // e.g. a nil element in a repeated message field: not expressible on the wire
			out = nil
		}
	}()
	b, err := proto.Marshal(pb)
	if err != nil {
		return nil
	}
	return b
}

func (l *live) validMsg(kind string, h uint64, r uint32) (Msg, bool) {
	key := fmt.Sprintf("%s/%d/%d/%d", kind, h, r, l.Tmpl)
	if m, ok := l.cache[key]; ok {
		return m, true
	}
	m0, ok := l.validMsg0(kind, h, r)
	if ok {
		if l.cache == nil {
			l.cache = map[string]Msg{}
		}
		l.cache[key] = m0
	}
	return m0, ok
}

func (l *live) validMsg0(kind string, h uint64, r uint32) (Msg, bool) {
	m := l.valid(kind, h, r)
	pb := toPB(m)
	if pb == nil {
		return Msg{}, false
	}
	return Msg{Ch: consChannelOf(kind), Kind: kind, Mut: fmt.Sprintf("valid h=%d r=%d", h, r), Level: "valid", Bytes: marshal(pb)}, true
}

// peerHR returns the height/round a prelude variant places the peer at.
func (l *live) peerHR(variant string) (uint64, uint32, bool) {
	switch variant {
	case "same":
		return l.H, l.R, true
	case "lag1":
		if l.H < 2 {
			return 0, 0, false
		}
		return l.H - 1, l.LCR, true
	case "lag2":
		if l.H < 3 {
			return 0, 0, false
		}
		return l.H - 2, 1, true
	case "ahead":
		return l.H + 1, 1, true
	}
	return 0, 0, false
}

var preludes = []string{"none", "same", "lag1", "lag2", "ahead"}

// prelude shapes the node's PeerState for this peer with well-formed messages.
func (l *live) prelude(variant string, r *rand.Rand) []Msg {
	h, rd, ok := l.peerHR(variant)
	if !ok {
		return nil
	}
	var out []Msg
	add := func(kind string, hh uint64, rr uint32) {
		if m, ok := l.validMsg(kind, hh, rr); ok {
			out = append(out, m)
		}
	}
	add("NewRoundStep", h, rd)
	switch r.Intn(3) {
	case 0:
		add("NewValidBlock", h, rd)
	case 1:
		add("Proposal", h, rd)
	}
	if r.Intn(2) == 0 {
		add("Vote", h, rd)
	}
	return out
}

// postlude exercises the shaped PeerState with well-formed messages at the peer's height/round.
func (l *live) postlude(variant string) []Msg {
	h, rd, ok := l.peerHR(variant)
	if !ok {
		h, rd = 0, 0
	}
	var out []Msg
	for _, k := range []string{"BlockPart", "HasVote", "Vote", "VoteSetBits"} {
		if m, ok := l.validMsg(k, h, rd); ok {
			out = append(out, m)
		}
	}
	return out
}

// protoMutant: the k-th structural mutation of the valid message of a kind.
func (l *live) protoMutant(kind string, h uint64, rd uint32, k int, r *rand.Rand) (Msg, bool) {
	pb := toPB(l.valid(kind, h, rd))
	if pb == nil {
		return Msg{}, false
	}
	label := ApplyMutation(pb, k, r)
	if label == "" {
		return Msg{}, false
	}
	b := marshal(pb)
	if b == nil {
		return Msg{}, false
	}
	return Msg{Ch: consChannelOf(kind), Kind: kind, Mut: fmt.Sprintf("h=%d r=%d %s", h, rd, label), Level: "proto", Bytes: b, Subject: true}, true
}

func (l *live) countProto(kind string, h uint64, rd uint32) int {
	pb := toPB(l.valid(kind, h, rd))
	if pb == nil {
		return 0
	}
	return CountMutations(pb)
}

// ---- Go-level mutants: field values chosen relative to the live state; votes and
// proposals are re-signed with the attacker's validator key after the change, so the
// signature check passes and the message reaches the code behind it.

func (l *live) heights(r *rand.Rand) uint64 {
	hs := []uint64{l.H, l.H, l.H, l.H - 1, l.H - 2, l.H + 1, 0, 1, 1 << 62, 1<<64 - 1}
	return hs[r.Intn(len(hs))]
}

func (l *live) rounds(r *rand.Rand) uint32 {
	rs := []uint32{l.R, l.R, l.R, l.R + 1, l.R - 1, 0, 1, l.R + 2, 1 << 31, 1<<32 - 1, l.LCR}
	return rs[r.Intn(len(rs))]
}

func (l *live) bids(r *rand.Rand) types.BlockID {
	b := l.RealBID
	switch r.Intn(10) {
	case 8: // hash without a parts header: neither empty nor complete
		b.PartsHeader = types.PartSetHeader{}
	case 9: // parts header without a hash
		b.Hash = cmn.Hash{}
	case 0:
		return types.BlockID{}
	case 1:
		return l.FakeBID
	case 2:
		b.PartsHeader.Total = 1<<32 - 1
	case 3:
		b.PartsHeader.Total = types.MaxBlockPartsCount + 1
	case 4:
		b.PartsHeader.Total = 1 << 20
	case 5:
		b.PartsHeader.Total++
	}
	return b
}

func sizes(r *rand.Rand, n int) int {
	ss := []int{0, 1, 2, n - 1, n, n + 1, 63, 64, 65, 128, 129, 1000, types.MaxVotesCount, types.MaxVotesCount + 1, types.MaxBlockPartsCount, types.MaxBlockPartsCount + 1}
	return ss[r.Intn(len(ss))]
}

func randBits(r *rand.Rand, n int) *cmn.BitArray {
	b := cmn.NewBitArray(n)
	if b == nil {
		return nil
	}
	for i := 0; i < n && i < 256; i++ {
		if r.Intn(2) == 0 {
			b.SetIndex(i, true)
		}
	}
	if r.Intn(3) == 0 {
		for i := range b.Elems {
			b.Elems[i] = ^uint64(0)
		}
	}
	return b
}

func (l *live) goMutant(kind string, r *rand.Rand) (Msg, bool) {
	var m consensus.Message
	var what string
	h, rd := l.heights(r), l.rounds(r)
	vt := kproto.SignedMsgType(1 + r.Intn(2))
	switch kind {
	case "NewRoundStep":
		steps := []cstypes.RoundStepType{1, 2, 3, 4, 5, 6, 7, 8}
		lcr := []uint32{0, 1, l.LCR, l.R, 1<<32 - 1}[r.Intn(5)]
		ss := []uint64{0, 1, 1 << 62, 1<<64 - 1}[r.Intn(4)]
		m = &consensus.NewRoundStepMessage{Height: h, Round: rd, Step: steps[r.Intn(len(steps))], SecondsSinceStartTime: ss, LastCommitRound: lcr}
	case "NewValidBlock":
		hd := l.bids(r).PartsHeader
		n := int(hd.Total)
		if r.Intn(3) == 0 {
			n = sizes(r, n)
		}
		if n > 1<<22 {
			n = 1 << 22
		}
		m = &consensus.NewValidBlockMessage{Height: h, Round: rd, BlockPartsHeader: hd, BlockParts: randBits(r, n), IsCommit: r.Intn(2) == 0}
	case "Proposal":
		pol := []uint32{0, 1, l.R, l.R - 1, l.R + 1, 1<<32 - 1}[r.Intn(6)]
		m = &consensus.ProposalMessage{Proposal: l.e.Adv.SignProposal(l.e.AdvIdx, h, rd, pol, l.bids(r))}
	case "ProposalPOL":
		pol := []uint32{0, 1, l.R, l.R - 1, l.R + 1, 1<<32 - 1}[r.Intn(6)]
		m = &consensus.ProposalPOLMessage{Height: h, ProposalPOLRound: pol, ProposalPOL: randBits(r, sizes(r, l.NVals))}
	case "BlockPart":
		p := *l.part(r.Intn(4))
		switch r.Intn(8) {
		case 0:
			p.Index = []uint32{0, 1, 2, 1000, 1 << 31, 1<<32 - 1}[r.Intn(6)]
		case 1:
			p.Proof.Aunts = nil
		case 2:
			p.Proof.Total = []uint64{0, 1, 2, 1 << 31, 1 << 62, 1<<64 - 1}[r.Intn(6)]
		case 3:
			p.Proof.Index = []uint64{0, 1, 2, 1 << 31, 1 << 62, 1<<64 - 1}[r.Intn(6)]
		case 4:
			p.Bytes = nil
		case 5:
			p.Proof.LeafHash = nil
		case 6:
			p.Bytes = append(append([]byte(nil), p.Bytes...), 0)
		}
		m = &consensus.BlockPartMessage{Height: h, Round: rd, Part: &p}
	case "Vote":
		v := l.advVote(h, rd, vt, l.bids(r))
		switch r.Intn(6) {
		case 0:
			v.ValidatorIndex = []uint32{0, 1, 2, uint32(l.NVals), 1 << 31, 1<<32 - 1}[r.Intn(6)]
			what = "index changed after signing"
		case 1: // index of another validator, signed by the attacker over that index
			v.ValidatorIndex = uint32(r.Intn(l.NVals + 1))
			v2 := v.ToProto()
			if err := types.NewDefaultPrivValidator(l.e.Net.Keys[l.e.AdvIdx]).SignVote(l.e.Net.ChainID, v2); err == nil {
				v.Signature = v2.Signature
			}
			what = "foreign index, re-signed"
		case 2:
			v.Timestamp = time.Time{}
			what = "zero time"
		case 3:
			if len(l.Votes) > 0 { // replay of a real vote of another validator
				v = l.Votes[r.Intn(len(l.Votes))].Copy()
				what = "replay of a real vote"
			}
		}
		m = &consensus.VoteMessage{Vote: v}
	case "HasVote":
		idx := []uint32{0, 1, uint32(l.NVals - 1), uint32(l.NVals), 64, 1 << 31, 1<<32 - 1}[r.Intn(7)]
		m = &consensus.HasVoteMessage{Height: h, Round: rd, Type: vt, Index: idx}
	case "VoteSetMaj23":
		m = &consensus.VoteSetMaj23Message{Height: h, Round: rd, Type: vt, BlockID: l.bids(r)}
	case "VoteSetBits":
		m = &consensus.VoteSetBitsMessage{Height: h, Round: rd, Type: vt, BlockID: l.bids(r), Votes: randBits(r, sizes(r, l.NVals))}
	}
	pb := toPB(m)
	if pb == nil {
		return Msg{}, false
	}
	b := marshal(pb)
	if b == nil {
		return Msg{}, false
	}
	return Msg{Ch: consChannelOf(kind), Kind: kind, Mut: fmt.Sprintf("h=%d r=%d %s %s", h, rd, what, short(fmt.Sprintf("%+v", m), 160)), Level: "go", Bytes: b, Subject: true}, true
}

func short(s string, n int) string {
	if len(s) > n {
		return s[:n] + "..."
	}
	return s
}

// bytesMutant: structure-aware byte mutation of a valid message.
func (l *live) bytesMutant(kind string, h uint64, rd uint32, r *rand.Rand) (Msg, bool) {
	v, ok := l.validMsg(kind, h, rd)
	if !ok {
		return Msg{}, false
	}
	b, label := MutateBytes(v.Bytes, r)
	for i := r.Intn(3); i > 0; i-- { // sometimes compound
		var l2 string
		b, l2 = MutateBytes(b, r)
		label += "; " + l2
	}
	ch := v.Ch
	if r.Intn(10) == 0 {
		ch = consChannels[r.Intn(4)]
	}
	return Msg{Ch: ch, Kind: kind, Mut: label, Level: "bytes", Bytes: b, Subject: true}, true
}
