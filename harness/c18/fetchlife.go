package c18

import (
	"fmt"
	"math/big"
	"math/rand"
	"os"
	"strings"
	"sync/atomic"
	"time"

	cmn "github.com/kardiachain/go-kardia/lib/common"
	"github.com/kardiachain/go-kardia/mainchain/tx_pool"
	prototx "github.com/kardiachain/go-kardia/proto/kardiachain/txpool"
	"github.com/kardiachain/go-kardia/types"

	"verifharness/core"
	"verifharness/netsim"
)

// Life cycles of announced transactions over several peers.
//
// The transaction fetcher behind the pool reactor keeps, per announced hash, who
// announced it, whom it asked and who else could be asked; peers come and go at every
// stage: announce -> (500 ms without a broadcast) -> request to one announcer -> reply |
// no reply (5 s) | the peer leaves -> delivery by somebody else. A scenario is a script
// over a few stub peers and transactions; many scenarios (own peers, own transactions)
// run side by side on one node so that the two real-time waits of the fetcher (500 ms,
// 5 s) are paid once per case. Sleeping is a stimulus only: every step is executed
// after the event it depends on has been OBSERVED (the node's request in the outbox of a
// stub peer). The oracle is that of every session: no panic, no process death (the
// fetcher loop and its request goroutines have no recover), no call that hangs, no
// mutex left locked, and the node still serves a fresh announcement at the end.

const (
	stWait    = "before-request"
	stFlight  = "request-in-flight"
	stTimeout = "after-request-timeout"
	stEnd     = "end"
)

var lcStages = []string{stWait, stFlight, stTimeout, stEnd}

type lcTx struct {
	tx      *types.Transaction
	raw     []byte
	hash    cmn.Hash
	flavour string
}

type lcStep struct {
	Stage string
	Op    string // announce | leave | leave-error | deliver-txs | deliver-pooled | reply-exact | reply-subset | reply-other | reply-mixed | reply-twice | request
	Role  string // A0 A1 A2 (announcers), B (bystander: never announces), N (joins later), REQ (whoever holds the open request), ALT (an announcer that does not)
	Txs   []int  // indices into the scenario's transactions; >= 100: the scenario's never-announced transactions
}

func (s lcStep) String() string {
	return fmt.Sprintf("[%s] %s %s %v", s.Stage, s.Role, s.Op, s.Txs)
}

type lcRequest struct {
	hashes   []cmn.Hash
	answered bool
}

type lcPeer struct {
	role      string
	p         *StubPeer
	announced map[int]bool
	requests  []*lcRequest
	left      string // stage at which the peer left ("" while connected)
	hadOpen   bool   // it left while its request was unanswered
}

type lcScenario struct {
	id    int
	name  string
	txs   []*lcTx
	extra []*lcTx
	steps []lcStep
	peers map[string]*lcPeer
	order []string // roles in order of creation
	// evidence
	delivered        map[int]bool
	announcerLeft    map[string]bool // stages at which an announcer left before the transactions were delivered
	soleLeftInFlight bool            // the only announcer left while its request was unanswered
	requestsSeen     int
}

type lifecycle struct {
	rn   *Runner
	r    *rand.Rand
	e    *Env
	B    *StubPeer // the bystander (shared by the scenarios of the case: it only delivers)
	scs  []*lcScenario
	sess []Msg
	ntx  int64
	base uint64
	t0   time.Time
	last time.Time // last request observed
}

func (lc *lifecycle) logf(format string, a ...interface{}) {
	if lc.rn.run.IsChild() {
		os.Stdout.WriteString(fmt.Sprintf(format, a...) + "\n")
	}
	if os.Getenv("C18_DEBUG") != "" {
		fmt.Fprintf(os.Stderr, "LC %6.0fms "+format+"\n", append([]interface{}{float64(time.Since(lc.t0).Microseconds()) / 1000}, a...)...)
	}
}

// newTx makes a transaction that decodes: accepted by the pool (attacker's funded key, next nonces; same-nonce
// transactions replace each other or are refused as underpriced replacements) or refused by it (unfunded sender).
func (lc *lifecycle) newTx() *lcTx {
	n := atomic.AddInt64(&lc.ntx, 1)
	key := lc.e.Net.Keys[lc.e.AdvIdx]
	flavour := "funded sender"
	nonce := lc.base + uint64(n%3)
	if lc.r.Intn(3) == 0 {
		key = netsim.Key(1000 + int(n))
		flavour = "unfunded sender"
		nonce = uint64(lc.r.Intn(2))
	}
	tx, err := types.SignTx(types.HomesteadSigner{}, types.NewTransaction(nonce, cmn.HexToAddress("0xc18f"), big.NewInt(1000+n), 50000, big.NewInt(int64(1+lc.r.Intn(3))), nil), key)
	if err != nil {
		panic(err)
	}
	return &lcTx{tx: tx, raw: txRLP(tx), hash: tx.Hash(), flavour: fmt.Sprintf("%s nonce %d", flavour, nonce)}
}

func (sc *lcScenario) tx(i int) *lcTx {
	if i >= 100 {
		return sc.extra[(i-100)%len(sc.extra)]
	}
	return sc.txs[i%len(sc.txs)]
}

func (sc *lcScenario) txNames(idx []int) string {
	var s []string
	for _, i := range idx {
		t := sc.tx(i)
		s = append(s, fmt.Sprintf("%x", t.hash[:4]))
	}
	return strings.Join(s, ",")
}

func allTxs(n int) []int {
	out := make([]int, n)
	for i := range out {
		out[i] = i
	}
	return out
}

// ---------------------------------------------------------------- scenario generation

// directedScenarios: the stage at which the announcer leaves x who delivers afterwards x sole / second announcer.
func (lc *lifecycle) directedScenarios() []*lcScenario {
	var out []*lcScenario
	k := 0
	for _, sole := range []bool{true, false} {
		for _, leave := range []string{stWait, stFlight, "replied", stTimeout, "never"} {
			for _, who := range []string{"nobody", "bystander-broadcast", "bystander-pooled", "other-announcer"} {
				if who == "other-announcer" && sole {
					continue
				}
				k++
				sc := &lcScenario{name: fmt.Sprintf("announcer leaves: %s; then delivered by: %s; sole announcer: %v", leave, who, sole)}
				ntx := 1 + k%2
				all := allTxs(ntx)
				sc.steps = append(sc.steps, lcStep{stWait, "announce", "A0", all})
				if !sole {
					sc.steps = append(sc.steps, lcStep{stWait, "announce", "A1", all})
				}
				after := stFlight
				switch leave {
				case stWait:
					sc.steps = append(sc.steps, lcStep{stWait, []string{"leave", "leave-error"}[k%2], "A0", nil})
				case stFlight:
					sc.steps = append(sc.steps, lcStep{stFlight, []string{"leave", "leave", "leave-error"}[k%3], "REQ", nil})
				case "replied":
					sc.steps = append(sc.steps, lcStep{stFlight, []string{"reply-exact", "reply-subset", "reply-other", "reply-mixed"}[k%4], "REQ", nil}, lcStep{stFlight, "leave", "A0", nil})
				case stTimeout:
					sc.steps = append(sc.steps, lcStep{stTimeout, "leave", "REQ", nil})
					after = stTimeout
				}
				switch who {
				case "bystander-broadcast":
					sc.steps = append(sc.steps, lcStep{after, "deliver-txs", "B", all})
				case "bystander-pooled":
					sc.steps = append(sc.steps, lcStep{after, "deliver-pooled", "B", all})
				case "other-announcer":
					if leave == "never" || leave == "replied" {
						sc.steps = append(sc.steps, lcStep{after, "deliver-pooled", "A1", all})
					} else {
						sc.steps = append(sc.steps, lcStep{after, "reply-exact", "REQ", nil}) // the request has moved to the other announcer
					}
				}
				if k%2 == 0 {
					sc.steps = append(sc.steps, lcStep{stEnd, "deliver-txs", "B", all})
				}
				sc.ntxInit(lc, ntx)
				out = append(out, sc)
			}
		}
	}
	// further fixed scripts
	add := func(name string, ntx int, steps ...lcStep) {
		sc := &lcScenario{name: name, steps: steps}
		sc.ntxInit(lc, ntx)
		out = append(out, sc)
	}
	add("duplicate announcements by the same peer before and during the request, then it leaves", 2,
		lcStep{stWait, "announce", "A0", []int{0, 1}}, lcStep{stWait, "announce", "A0", []int{0, 1}}, lcStep{stWait, "announce", "A0", []int{1, 1, 0}},
		lcStep{stFlight, "announce", "REQ", []int{0, 1}}, lcStep{stFlight, "leave", "REQ", nil}, lcStep{stFlight, "deliver-txs", "B", []int{0, 1}})
	add("transactions nobody announced: broadcast, pooled, as a reply", 1,
		lcStep{stWait, "deliver-txs", "B", []int{100}}, lcStep{stWait, "deliver-pooled", "B", []int{101}}, lcStep{stWait, "announce", "A0", []int{0}},
		lcStep{stFlight, "reply-other", "REQ", nil}, lcStep{stFlight, "deliver-pooled", "A0", []int{0}}, lcStep{stFlight, "deliver-pooled", "A0", []int{0}})
	add("second announcer joins while the request is in flight, first one leaves, second one is asked and leaves too, then a broadcast", 2,
		lcStep{stWait, "announce", "A0", []int{0, 1}}, lcStep{stFlight, "announce", "N", []int{0, 1}}, lcStep{stFlight, "leave", "A0", nil},
		lcStep{stFlight, "leave", "REQ", nil}, lcStep{stFlight, "deliver-txs", "B", []int{0, 1}})
	add("delivery stolen by a broadcast while the request is in flight, then the asked peer replies / leaves", 2,
		lcStep{stWait, "announce", "A0", []int{0, 1}}, lcStep{stFlight, "deliver-txs", "B", []int{0}}, lcStep{stFlight, "reply-exact", "REQ", nil}, lcStep{stFlight, "leave", "A0", nil},
		lcStep{stEnd, "deliver-txs", "B", []int{0, 1}})
	add("stolen delivery, then the asked peer leaves without a reply, then the rest is broadcast", 2,
		lcStep{stWait, "announce", "A0", []int{0, 1}}, lcStep{stFlight, "deliver-pooled", "B", []int{1}}, lcStep{stFlight, "leave", "REQ", nil}, lcStep{stFlight, "deliver-txs", "B", []int{0}},
		lcStep{stEnd, "deliver-txs", "B", []int{0, 1}})
	add("request times out, late reply, announcer announces again, leaves, broadcast", 2,
		lcStep{stWait, "announce", "A0", []int{0, 1}}, lcStep{stTimeout, "reply-exact", "REQ", nil}, lcStep{stTimeout, "announce", "A0", []int{0, 1, 100}}, lcStep{stTimeout, "leave", "A0", nil},
		lcStep{stTimeout, "deliver-txs", "B", []int{0, 1, 100}})
	add("request times out with a second announcer: it is asked next; the first leaves, the second replies something else and leaves; broadcast", 1,
		lcStep{stWait, "announce", "A0", []int{0}}, lcStep{stWait, "announce", "A1", []int{0}}, lcStep{stTimeout, "leave", "ALT", nil}, lcStep{stTimeout, "reply-other", "REQ", nil},
		lcStep{stTimeout, "leave", "REQ", nil}, lcStep{stTimeout, "deliver-pooled", "B", []int{0}})
	add("asked peer replies twice, then with garbage", 2,
		lcStep{stWait, "announce", "A0", []int{0, 1}}, lcStep{stFlight, "reply-twice", "REQ", nil}, lcStep{stFlight, "leave-error", "A0", nil}, lcStep{stFlight, "deliver-txs", "B", []int{0, 1}})
	add("all three announcers leave one after the other while asked, then a broadcast", 1,
		lcStep{stWait, "announce", "A0", []int{0}}, lcStep{stWait, "announce", "A1", []int{0}}, lcStep{stWait, "announce", "A2", []int{0}},
		lcStep{stFlight, "leave", "REQ", nil}, lcStep{stFlight, "leave", "REQ", nil}, lcStep{stFlight, "leave", "REQ", nil}, lcStep{stFlight, "deliver-txs", "B", []int{0}})
	add("sole announcer leaves in flight, a newcomer announces the same hash and is asked, the transaction is then broadcast, newcomer replies", 1,
		lcStep{stWait, "announce", "A0", []int{0}}, lcStep{stFlight, "leave", "REQ", nil}, lcStep{stFlight, "announce", "N", []int{0}},
		lcStep{stTimeout, "deliver-txs", "B", []int{0}}, lcStep{stTimeout, "reply-exact", "N", nil}, lcStep{stTimeout, "leave", "N", nil})
	add("peer asks the node for transactions it has and has not", 2,
		lcStep{stWait, "deliver-txs", "B", []int{0}}, lcStep{stWait, "request", "A0", []int{0, 1, 100}}, lcStep{stFlight, "request", "A0", []int{0, 1}})
	return out
}

func (sc *lcScenario) ntxInit(lc *lifecycle, ntx int) {
	for i := 0; i < ntx; i++ {
		sc.txs = append(sc.txs, lc.newTx())
	}
	for i := 0; i < 2; i++ {
		sc.extra = append(sc.extra, lc.newTx())
	}
	sc.peers = map[string]*lcPeer{}
	sc.delivered = map[int]bool{}
	sc.announcerLeft = map[string]bool{}
}

func (lc *lifecycle) randomScenario(long bool) *lcScenario {
	r := lc.r
	sc := &lcScenario{name: "random"}
	nAnn, ntx := 1+r.Intn(3), 1+r.Intn(3)
	sub := func() []int { // a non-empty selection of the transactions
		var s []int
		for i := 0; i < ntx; i++ {
			if r.Intn(2) == 0 {
				s = append(s, i)
			}
		}
		if len(s) == 0 {
			s = []int{r.Intn(ntx)}
		}
		if r.Intn(6) == 0 {
			s = append(s, 100+r.Intn(2))
		}
		return s
	}
	sc.steps = append(sc.steps, lcStep{stWait, "announce", "A0", allTxs(ntx)})
	for a := 1; a < nAnn; a++ {
		sc.steps = append(sc.steps, lcStep{stWait, "announce", fmt.Sprintf("A%d", a), sub()})
	}
	ann := func() string { return fmt.Sprintf("A%d", r.Intn(nAnn)) }
	draw := func(stage string) lcStep {
		if stage == stWait {
			switch r.Intn(8) {
			case 0:
				return lcStep{stage, "announce", ann(), sub()}
			case 1:
				return lcStep{stage, "leave", ann(), nil}
			case 2:
				return lcStep{stage, "leave-error", ann(), nil}
			case 3:
				return lcStep{stage, "deliver-txs", "B", sub()}
			case 4:
				return lcStep{stage, "deliver-pooled", []string{"B", ann()}[r.Intn(2)], sub()}
			case 5:
				return lcStep{stage, "announce", "N", sub()}
			case 6:
				return lcStep{stage, "request", ann(), sub()}
			}
			return lcStep{stage, "deliver-txs", ann(), sub()}
		}
		switch r.Intn(16) {
		case 0, 1, 2:
			return lcStep{stage, []string{"reply-exact", "reply-subset", "reply-other", "reply-mixed", "reply-twice"}[r.Intn(5)], "REQ", nil}
		case 3, 4, 5:
			return lcStep{stage, "leave", "REQ", nil}
		case 6:
			return lcStep{stage, "leave-error", "REQ", nil}
		case 7:
			return lcStep{stage, "leave", "ALT", nil}
		case 8, 9:
			return lcStep{stage, "deliver-txs", "B", sub()}
		case 10:
			return lcStep{stage, "deliver-pooled", []string{"B", "ALT", "REQ"}[r.Intn(3)], sub()}
		case 11:
			return lcStep{stage, "announce", "N", sub()}
		case 12:
			return lcStep{stage, "announce", []string{"REQ", "ALT"}[r.Intn(2)], sub()}
		case 13:
			return lcStep{stage, "deliver-txs", []string{"ALT", "REQ"}[r.Intn(2)], sub()}
		case 14:
			return lcStep{stage, "leave", ann(), nil}
		}
		return lcStep{stage, "request", "B", sub()}
	}
	for i, n := 0, r.Intn(3); i < n; i++ {
		sc.steps = append(sc.steps, draw(stWait))
	}
	for i, n := 0, 1+r.Intn(4); i < n; i++ {
		sc.steps = append(sc.steps, draw(stFlight))
	}
	if long && r.Intn(2) == 0 {
		for i, n := 0, 1+r.Intn(3); i < n; i++ {
			sc.steps = append(sc.steps, draw(stTimeout))
		}
	}
	if r.Intn(5) < 3 {
		sc.steps = append(sc.steps, lcStep{stEnd, []string{"deliver-txs", "deliver-pooled"}[r.Intn(2)], "B", allTxs(ntx)})
	}
	sc.ntxInit(lc, ntx)
	return sc
}

// ---------------------------------------------------------------- execution

func (lc *lifecycle) peerOf(sc *lcScenario, role string) *lcPeer {
	if p := sc.peers[role]; p != nil {
		return p
	}
	var sp *StubPeer
	if role == "B" {
		sp = lc.B
	} else {
		ret, pan := lc.rn.call("AddPeer", "switch", "AddPeer", func() interface{} { return lc.rn.envDesc }, func() { sp = lc.e.AddPeer(len(sc.peers)%2 == 0) })
		if !ret {
			lc.rn.hang("AddPeer", "switch", "AddPeer", "c18.(*Env).AddPeer", lc.rn.envDesc)
			return nil
		}
		if pan || sp == nil {
			lc.rn.broken = true
			return nil
		}
		lc.rn.run.Count("fetch_peers_connected", 1)
	}
	p := &lcPeer{role: role, p: sp, announced: map[int]bool{}}
	sc.peers[role] = p
	sc.order = append(sc.order, role)
	return p
}

// scan digests what the node has sent to the scenario's peers: its requests for transactions.
func (lc *lifecycle) scan() {
	for _, sc := range lc.scs {
		for _, role := range sc.order {
			p := sc.peers[role]
			if role == "B" {
				continue
			}
			for _, o := range p.p.takeOut() {
				if o.Ch != tx_pool.TxpoolChannel {
					continue
				}
				m, err := tx_pool.VerifDecodeMsg(o.Bytes)
				if err != nil {
					continue
				}
				if rq, ok := m.(tx_pool.RequestPooledTransactionHashes); ok {
					p.requests = append(p.requests, &lcRequest{hashes: rq})
					sc.requestsSeen++
					lc.last = time.Now()
					lc.rn.run.Count("fetch_requests_observed", 1)
					if p.left != "" {
						lc.rn.run.Count("fetch_requests_observed_at_a_peer_that_had_left", 1)
					}
					lc.logf("  (scenario %d: node asks %s for %d transactions)", sc.id, role, len(rq))
				}
			}
		}
	}
	lc.B.takeOut()
}

func (p *lcPeer) open() *lcRequest {
	if p.left != "" {
		return nil
	}
	for _, rq := range p.requests {
		if !rq.answered {
			return rq
		}
	}
	return nil
}

// expectsRequest: some connected announcer announced a transaction that nobody has delivered and has no request yet.
func (sc *lcScenario) expectsRequest() bool {
	for _, role := range sc.order {
		p := sc.peers[role]
		if p.left != "" || len(p.requests) > 0 {
			continue
		}
		for i := range p.announced {
			if !sc.delivered[i] {
				return true
			}
		}
	}
	return false
}

func (sc *lcScenario) holder() *lcPeer {
	for _, role := range sc.order {
		if p := sc.peers[role]; p.open() != nil {
			return p
		}
	}
	return nil
}

func (lc *lifecycle) resolve(sc *lcScenario, role string) *lcPeer {
	switch role {
	case "REQ":
		lc.scan()
		if p := sc.holder(); p != nil {
			return p
		}
		// the request may be on its way (it is sent from a goroutine of the fetcher): bounded wait, only if one is due
		for i := 0; i < 150 && sc.expectsRequest(); i++ {
			time.Sleep(2 * time.Millisecond)
			lc.scan()
			if p := sc.holder(); p != nil {
				return p
			}
		}
		return nil
	case "ALT":
		lc.scan()
		h := sc.holder()
		for _, r := range sc.order {
			p := sc.peers[r]
			if p != h && p.left == "" && len(p.announced) > 0 {
				return p
			}
		}
		return nil
	}
	return lc.peerOf(sc, role)
}

func hashesPB(hs []cmn.Hash) []byte {
	hh := make([][]byte, len(hs))
	for i := range hs {
		hh[i] = hs[i].Bytes()
	}
	return marshal(&prototx.Message{Sum: &prototx.Message_PooledTransactionHashes{PooledTransactionHashes: &prototx.PooledTransactionHashes{Hashes: hh}}})
}

func txsPB(raws [][]byte, pooled bool) []byte {
	if pooled {
		return marshal(&prototx.Message{Sum: &prototx.Message_PooledTransactions{PooledTransactions: &prototx.PooledTransactions{Txs: raws}}})
	}
	return marshal(&prototx.Message{Sum: &prototx.Message_Txs{Txs: &prototx.Txs{Txs: raws}}})
}

// send hands one message of a scenario peer to the reactor (with all per-message checks of the runner).
func (lc *lifecycle) send(sc *lcScenario, p *lcPeer, kind, what, level string, b []byte) bool {
	if !p.p.BaseService.IsRunning() {
		return true
	}
	m := Msg{Ch: tx_pool.TxpoolChannel, Kind: kind, Mut: fmt.Sprintf("scenario %d, peer %s: %s", sc.id, p.role, what), Level: level, Bytes: b, Subject: level != "valid"}
	lc.sess = append(lc.sess, m)
	lc.logf("STEP scenario %d peer %s: %s %s", sc.id, p.role, kind, what)
	return lc.rn.deliver(p.p, "fetch-lifecycle", lc.sess, len(lc.sess)-1)
}

func (lc *lifecycle) event(sc *lcScenario, what string) {
	lc.sess = append(lc.sess, Msg{Ch: tx_pool.TxpoolChannel, Kind: "(event)", Mut: fmt.Sprintf("scenario %d: %s", sc.id, what), Level: "event"})
	lc.logf("STEP scenario %d: %s", sc.id, what)
}

// noteDelivery keeps the evidence: who delivered at which point of the announcers' life.
func (lc *lifecycle) noteDelivery(sc *lcScenario, p *lcPeer, idx []int, how string) {
	run := lc.rn.run
	for _, i := range idx {
		if i >= 100 {
			run.Count("fetch_deliveries_of_never_announced_transactions", 1)
			continue
		}
		announcedByOther := false
		for _, role := range sc.order {
			q := sc.peers[role]
			if q != p && q.announced[i%len(sc.txs)] {
				announcedByOther = true
			}
		}
		if !sc.delivered[i%len(sc.txs)] {
			if announcedByOther && !p.announced[i%len(sc.txs)] {
				for st := range sc.announcerLeft {
					run.Count("fetch_delivery_by_another_peer_after_an_announcer_left:"+st, 1)
				}
				if sc.soleLeftInFlight {
					run.Count("fetch_delivery_by_another_peer_after_the_sole_announcer_left_with_its_request_open", 1)
				}
				if h := sc.holder(); h != nil && h != p {
					run.Count("fetch_delivery_by_another_peer_while_a_request_is_open", 1)
				}
			}
			if !announcedByOther && !p.announced[i%len(sc.txs)] {
				run.Count("fetch_deliveries_of_never_announced_transactions", 1)
			}
		} else {
			run.Count("fetch_deliveries_of_transactions_delivered_before", 1)
		}
		sc.delivered[i%len(sc.txs)] = true
	}
	run.Count("fetch_deliveries:"+how, 1)
}

func (lc *lifecycle) exec(sc *lcScenario, st lcStep) bool {
	rn, run := lc.rn, lc.rn.run
	p := lc.resolve(sc, st.Role)
	if rn.broken {
		return false
	}
	if p == nil {
		run.Count("fetch_steps_skipped_no_peer_in_that_role", 1)
		return true
	}
	if p.left != "" {
		run.Count("fetch_steps_skipped_peer_has_left", 1)
		return true
	}
	run.Count("fetch_steps", 1)
	run.Distinct("fetch_step", st.Stage+" "+roleClass(st.Role)+" "+st.Op)
	switch st.Op {
	case "announce":
		var hs []cmn.Hash
		dup := false
		for _, i := range st.Txs {
			hs = append(hs, sc.tx(i).hash)
			if i < 100 {
				dup = dup || p.announced[i%len(sc.txs)]
				p.announced[i%len(sc.txs)] = true
			}
		}
		if dup {
			run.Count("fetch_duplicate_announcements", 1)
		}
		if st.Stage != stWait {
			run.Count("fetch_announcements_after_the_request:"+st.Stage, 1)
		}
		run.Count("fetch_announcements", 1)
		return lc.send(sc, p, "PooledTransactionHashes", "announces "+sc.txNames(st.Txs), "valid", hashesPB(hs))
	case "deliver-txs", "deliver-pooled":
		var raws [][]byte
		for _, i := range st.Txs {
			raws = append(raws, sc.tx(i).raw)
		}
		pooled := st.Op == "deliver-pooled"
		how := "broadcast"
		if pooled && p.open() != nil {
			how = "pooled-while-asked"
		} else if pooled {
			how = "pooled-without-request"
		}
		lc.noteDelivery(sc, p, st.Txs, how)
		if pooled {
			if rq := p.open(); rq != nil {
				rq.answered = true
			}
			return lc.send(sc, p, "PooledTransactions", "delivers "+sc.txNames(st.Txs), "valid", txsPB(raws, true))
		}
		return lc.send(sc, p, "Txs", "broadcasts "+sc.txNames(st.Txs), "valid", txsPB(raws, false))
	case "request":
		var hh [][]byte
		for _, i := range st.Txs {
			hh = append(hh, sc.tx(i).hash.Bytes())
		}
		run.Count("fetch_requests_by_peers", 1)
		return lc.send(sc, p, "RequestPooledTransactions", "asks the node for "+sc.txNames(st.Txs), "valid",
			marshal(&prototx.Message{Sum: &prototx.Message_RequestPooledTransactions{RequestPooledTransactions: &prototx.RequestPooledTransactions{Hashes: hh}}}))
	case "reply-exact", "reply-subset", "reply-other", "reply-mixed", "reply-twice":
		rq := p.open()
		if rq == nil {
			run.Count("fetch_steps_skipped_no_open_request", 1)
			return true
		}
		var idx []int
		for _, h := range rq.hashes {
			for i, t := range sc.txs {
				if t.hash == h {
					idx = append(idx, i)
				}
			}
		}
		switch st.Op {
		case "reply-subset":
			idx = idx[:(len(idx)+1)/2]
			if len(idx) > 1 {
				idx = idx[1:] // not the first one asked for
			}
		case "reply-other":
			idx = []int{100, 101}
		case "reply-mixed":
			idx = append([]int{100}, idx[:(len(idx)+1)/2]...)
		}
		if len(idx) == 0 {
			idx = []int{100}
		}
		var raws [][]byte
		for _, i := range idx {
			raws = append(raws, sc.tx(i).raw)
		}
		rq.answered = true
		lc.noteDelivery(sc, p, idx, st.Op)
		run.Count("fetch_replies:"+st.Op+":"+st.Stage, 1)
		ok := lc.send(sc, p, "PooledTransactions", fmt.Sprintf("replies (%s) to the request for %d transactions with %s", st.Op, len(rq.hashes), sc.txNames(idx)), "valid", txsPB(raws, true))
		if ok && st.Op == "reply-twice" {
			ok = lc.send(sc, p, "PooledTransactions", "replies once more with the same transactions", "valid", txsPB(raws, true))
		}
		return ok
	case "leave", "leave-error":
		isAnnouncer := len(p.announced) > 0
		hadOpen := p.open() != nil
		undelivered := false
		for i := range p.announced {
			undelivered = undelivered || !sc.delivered[i]
		}
		othersLeft := 0
		for _, role := range sc.order {
			if q := sc.peers[role]; q != p && q.left == "" && len(q.announced) > 0 {
				othersLeft++
			}
		}
		stage := st.Stage
		if hadOpen && stage == stWait {
			stage = stFlight
		}
		label := stage
		if hadOpen {
			label += ":request-open"
		} else if len(p.requests) > 0 {
			label += ":request-answered"
		} else {
			label += ":never-asked"
		}
		if isAnnouncer {
			run.Count("fetch_announcer_left:"+label, 1)
			if undelivered {
				sc.announcerLeft[label] = true
			}
			if hadOpen && othersLeft == 0 && undelivered {
				sc.soleLeftInFlight = true
				run.Count("fetch_sole_announcer_left_with_its_request_open", 1)
			}
			if hadOpen && othersLeft > 0 {
				run.Count("fetch_asked_announcer_left_while_another_announcer_remains", 1)
			}
		}
		p.left, p.hadOpen = stage, hadOpen
		if st.Op == "leave-error" {
			run.Count("fetch_peers_left:stopped-for-error", 1)
			ok := lc.send(sc, p, "PooledTransactions", "sends bytes that do not decode (the reactor stops the peer for error)", "bytes", []byte{0x1a, 0x03, 0x0a, 0x01, 0xff})
			if p.p.BaseService.IsRunning() { // (should the reactor ever tolerate it, the peer hangs up by itself)
				lc.drop(sc, p)
			}
			return ok
		}
		run.Count("fetch_peers_left:disconnected", 1)
		lc.event(sc, fmt.Sprintf("peer %s disconnects (%s)", p.role, label))
		return lc.drop(sc, p)
	}
	panic("unknown op " + st.Op)
}

func roleClass(role string) string {
	if strings.HasPrefix(role, "A") && role != "ALT" {
		return "announcer"
	}
	return role
}

func (lc *lifecycle) drop(sc *lcScenario, p *lcPeer) bool {
	rn := lc.rn
	wit := func() interface{} { return rn.witness("fetch-lifecycle", lc.sess, len(lc.sess)-1, nil) }
	ret, _ := rn.call("RemovePeer", "txpool", "disconnect", wit, func() { lc.e.DropPeer(p.p) })
	if !ret {
		rn.hang("RemovePeer during transaction life cycles", "txpool", "disconnect", "c18.(*Env).DropPeer", wit())
		return false
	}
	return true
}

// FetchLifecycles runs the scenarios of one case side by side, stage by stage.
func (rn *Runner) FetchLifecycles(r *rand.Rand, caseIdx, slices int, long bool, nRandom int) {
	e := rn.e
	lc := &lifecycle{rn: rn, r: r, e: e, base: e.V.Pool.Nonce(e.Net.Addrs[e.AdvIdx]), t0: time.Now()}
	run := rn.run
	for i, sc := range lc.directedScenarios() {
		if i%slices == caseIdx%slices {
			lc.scs = append(lc.scs, sc)
		}
	}
	for i := 0; i < nRandom; i++ {
		lc.scs = append(lc.scs, lc.randomScenario(long))
	}
	r.Shuffle(len(lc.scs), func(i, j int) { lc.scs[i], lc.scs[j] = lc.scs[j], lc.scs[i] })
	atomic.StoreInt32(&formatLogs, 1)
	defer atomic.StoreInt32(&formatLogs, 0)
	rn.resetChildLog("fetch-lifecycle", nil)
	for i, sc := range lc.scs {
		sc.id = i
		var ss []string
		for _, st := range sc.steps {
			ss = append(ss, st.String())
		}
		lc.logf("PLAN scenario %d (%s): %s", i, sc.name, strings.Join(ss, "; "))
	}
	rn.outbound = false
	lc.B = e.AddPeer(false)
	rn.a0 = heapAllocs()
	run.Count("sessions", 1)
	stage := func(name string) bool {
		// the scenarios take turns, one step each, so that their steps interleave
		pos := make([]int, len(lc.scs))
		for progress := true; progress; {
			progress = false
			for i, sc := range lc.scs {
				for pos[i] < len(sc.steps) && sc.steps[pos[i]].Stage != name {
					pos[i]++
				}
				if pos[i] >= len(sc.steps) {
					continue
				}
				st := sc.steps[pos[i]]
				pos[i]++
				progress = true
				if !lc.exec(sc, st) || rn.broken {
					return false
				}
			}
		}
		return true
	}
	// ---- before the request
	lc.t0 = time.Now()
	if !stage(stWait) {
		return
	}
	if d := time.Since(lc.t0); d > 350*time.Millisecond {
		run.Count("fetch_cases_whose_first_stage_took_longer_than_350ms", 1)
	}
	// ---- the fetcher's arrival timeout passes; wait until every request that is due has been seen (bounded)
	time.Sleep(time.Until(lc.t0.Add(520 * time.Millisecond)))
	deadline := time.Now().Add(10 * time.Second)
	for {
		lc.scan()
		due := 0
		for _, sc := range lc.scs {
			if sc.requestsSeen == 0 && sc.expectsRequest() {
				due++
			}
		}
		if due == 0 {
			break
		}
		if time.Now().After(deadline) {
			run.Count("fetch_scenarios_without_the_expected_request", due)
			break
		}
		time.Sleep(5 * time.Millisecond)
	}
	for _, sc := range lc.scs {
		if sc.requestsSeen > 0 {
			run.Count("fetch_lifecycles_that_reached_a_request", 1)
		}
	}
	if !stage(stFlight) {
		return
	}
	lc.scan()
	// ---- the request timeout passes (5 s after the last request)
	if long {
		open := 0
		for _, sc := range lc.scs {
			if sc.holder() != nil {
				open++
			}
		}
		run.Count("fetch_requests_left_to_time_out", open)
		if lc.last.IsZero() {
			lc.last = time.Now()
		}
		time.Sleep(time.Until(lc.last.Add(5300 * time.Millisecond)))
		time.Sleep(100 * time.Millisecond)
		before := run.Counter("fetch_requests_observed")
		lc.scan()
		run.Count("fetch_requests_moved_to_another_announcer_after_the_timeout", int(run.Counter("fetch_requests_observed")-before))
		if !stage(stTimeout) {
			return
		}
	}
	if !stage(stEnd) {
		return
	}
	// ---- everybody leaves, in random order
	type pp struct {
		sc *lcScenario
		p  *lcPeer
	}
	var rest []pp
	for _, sc := range lc.scs {
		for _, role := range sc.order {
			if p := sc.peers[role]; role != "B" && p.left == "" {
				rest = append(rest, pp{sc, p})
			}
		}
	}
	r.Shuffle(len(rest), func(i, j int) { rest[i], rest[j] = rest[j], rest[i] })
	for _, x := range rest {
		if !lc.exec(x.sc, lcStep{stEnd, "leave", x.p.role, nil}) || rn.broken {
			return
		}
	}
	for _, sc := range lc.scs {
		run.Count("fetch_lifecycles", 1)
		run.Nontrivial("fetch-lifecycle " + fmt.Sprint(sc.steps))
	}
	// ---- the node still serves announcements: a fresh peer announces a fresh transaction and is asked for it
	probe := &lcScenario{id: len(lc.scs), name: "responsiveness probe"}
	probe.ntxInit(lc, 1)
	lc.scs = append(lc.scs, probe)
	if !lc.exec(probe, lcStep{stEnd, "announce", "A0", []int{0}}) || rn.broken {
		return
	}
	t1 := time.Now()
	for probe.requestsSeen == 0 && time.Since(t1) < 20*time.Second {
		time.Sleep(5 * time.Millisecond)
		lc.scan()
	}
	wit := rn.witness("fetch-lifecycle", lc.sess, len(lc.sess)-1, nil)
	if probe.requestsSeen == 0 {
		st := goroutineOf("fetcher.(*TxFetcher).loop(")
		head := firstLines(st, 1)
		blocked := false
		for _, w := range []string{"[chan send", "[chan receive", "[semacquire", "[sync.", "[IO wait", "[sleep"} {
			blocked = blocked || strings.Contains(head, w)
		}
		switch {
		case st == "":
			rn.broken = true
			rn.c.Violation("goroutine-dead:txpool:fetcher-loop", "the transaction fetcher's loop is gone: announcements are no longer served", wit)
		case blocked:
			rn.broken = true
			wit["goroutine"] = firstLines(st, 30)
			rn.c.Violation("hang:txpool:lifecycle:"+frameKey(st), "the transaction fetcher's loop is blocked: a fresh announcement was not followed by a request within 20 s", wit)
		default:
			run.Inconclusive("transaction life cycles: a fresh announcement was not followed by a request within 20 s although the fetcher loop is idle")
		}
		return
	}
	run.Count("fetch_probe_requests", 1)
	lc.exec(probe, lcStep{stEnd, "reply-exact", "REQ", nil})
	lc.exec(probe, lcStep{stEnd, "leave", "A0", nil})
	e.DropPeer(lc.B)
	if rn.broken {
		return
	}
	total := 0
	for _, m := range lc.sess {
		total += len(m.Bytes)
	}
	if d := heapAllocs() - rn.a0; d > uint64(allocConst+allocFactor*total)+64<<20 {
		rn.c.Violation("alloc:txpool:lifecycle", fmt.Sprintf("life cycles of %d message bytes made the node allocate %d bytes", total, d), wit)
	}
	if !tryLock(e.V.Pool.VerifTryLock) {
		rn.broken = true
		rn.c.Violation("mutex-held:txpool:lifecycle:TxPool.mu", "TxPool.mu still held after the transaction life cycles", wit)
		return
	}
	if !tryLock(e.V.CS.VerifTryLock) {
		rn.broken = true
		rn.c.Violation("mutex-held:txpool:lifecycle:ConsensusState.mtx", "ConsensusState.mtx still held after the transaction life cycles", wit)
		return
	}
	if rn.c.I == 0 {
		var plan []string
		for _, sc := range lc.scs[:3] {
			plan = append(plan, fmt.Sprintf("%s: %v (requests seen: %d)", sc.name, sc.steps, sc.requestsSeen))
		}
		run.Sample(map[string]interface{}{"group": rn.c.Group, "case": rn.c.I, "node": rn.envDesc, "scenarios_side_by_side": len(lc.scs), "three_of_them": plan, "messages_and_events": len(lc.sess)})
	}
}

// fetchLifecycle: the group.
func fetchLifecycle(r *core.Run) {
	r.Cases("txpool-fetch-lifecycle", r.N(16, 96), childOpts, func(c *core.Case) {
		GossipSleep = 25 * time.Millisecond // (dozens of idle peers: the consensus gossip routines are not the subject here)
		defer func() { GossipSleep = time.Millisecond }()
		rn := open(c, envSpec{Mode: "caughtup", Height: uint64(1 + c.I%2)})
		if rn == nil {
			return
		}
		defer func() { rn.close() }()
		// every fourth directed script in each case (all of them in any four consecutive cases), plus random ones; the
		// 5 s request timeout passes once per case
		rn.FetchLifecycles(c.R, c.I, 4, true, 10)
	})
}
