package c18

import (
	"fmt"
	"math/big"
	"math/rand"
	"time"

	"github.com/gogo/protobuf/proto"

	"github.com/kardiachain/go-kardia/blockchain"
	cmn "github.com/kardiachain/go-kardia/lib/common"
	"github.com/kardiachain/go-kardia/lib/p2p"
	"github.com/kardiachain/go-kardia/lib/p2p/pex"
	"github.com/kardiachain/go-kardia/lib/rlp"
	"github.com/kardiachain/go-kardia/mainchain/tx_pool"
	bcproto "github.com/kardiachain/go-kardia/proto/kardiachain/blockchain"
	ep "github.com/kardiachain/go-kardia/proto/kardiachain/evidence"
	kp2p "github.com/kardiachain/go-kardia/proto/kardiachain/p2p"
	prototx "github.com/kardiachain/go-kardia/proto/kardiachain/txpool"
	kproto "github.com/kardiachain/go-kardia/proto/kardiachain/types"
	"github.com/kardiachain/go-kardia/types"
	"github.com/kardiachain/go-kardia/types/evidence"
)

// otherKinds lists the message types of the non-consensus reactors.
var otherKinds = map[string][]string{
	"blocksync": {"BlockRequest", "NoBlockResponse", "BlockResponse", "StatusRequest", "StatusResponse"},
	"txpool":    {"Txs", "PooledTransactionHashes", "PooledTransactions", "RequestPooledTransactions"},
	"evidence":  {"EvidenceList"},
	"pex":       {"PexRequest", "PexAddrs"},
}

var otherReactors = []string{"blocksync", "txpool", "evidence", "pex"}

func channelOfReactor(reactor string) byte {
	switch reactor {
	case "blocksync":
		return blockchain.BlockchainChannel
	case "txpool":
		return tx_pool.TxpoolChannel
	case "evidence":
		return evidence.EvidenceChannel
	case "pex":
		return pex.PexChannel
	}
	return 0xff
}

// ---- live material

func (l *live) blockPB(h uint64) *kproto.Block {
	b := l.Ref.BO.LoadBlock(h)
	if b == nil {
		return nil
	}
	pb, err := b.ToProto()
	if err != nil {
		return nil
	}
	return pb
}

func (l *live) tx(r *rand.Rand, i int) *types.Transaction {
	key := l.e.Net.Keys[l.e.AdvIdx]
	nonce := l.e.V.Pool.Nonce(l.e.Net.Addrs[l.e.AdvIdx]) + uint64(i)
	tx, err := types.SignTx(types.HomesteadSigner{}, types.NewTransaction(nonce, cmn.HexToAddress("0xc18c18"), big.NewInt(int64(1+r.Intn(1000))), 50000, big.NewInt(int64(1+r.Intn(5))), nil), key)
	if err != nil {
		panic(err)
	}
	return tx
}

func txRLP(tx *types.Transaction) []byte {
	b, err := rlp.EncodeToBytes(tx)
	if err != nil {
		panic(err)
	}
	return b
}

// evidenceAt builds well-formed duplicate-vote evidence of the attacker's validator at height h.
func (l *live) evidenceAt(h uint64, r *rand.Rand) *types.DuplicateVoteEvidence {
	st := l.Ref.CS.VerifState()
	bidA := types.BlockID{Hash: cmn.BytesToHash([]byte(fmt.Sprintf("evidence block A %d..............", r.Intn(1000)))), PartsHeader: types.PartSetHeader{Total: 1, Hash: cmn.BytesToHash([]byte("parts A"))}}
	bidB := types.BlockID{Hash: cmn.BytesToHash([]byte(fmt.Sprintf("evidence block B %d..............", r.Intn(1000)))), PartsHeader: types.PartSetHeader{Total: 1, Hash: cmn.BytesToHash([]byte("parts B"))}}
	tm := time.Unix(1700000150, 0).UTC()
	if meta := l.Ref.BO.LoadBlockMeta(h); meta != nil {
		tm = meta.Header.Time
	}
	rd := uint32(1 + r.Intn(2))
	vA := l.e.Adv.SignVote(l.Ref, l.e.AdvIdx, kproto.PrevoteType, h, rd, bidA, tm)
	vB := l.e.Adv.SignVote(l.Ref, l.e.AdvIdx, kproto.PrevoteType, h, rd, bidB, tm)
	return types.NewDuplicateVoteEvidence(vA, vB, tm, st.Validators)
}

func netAddr(i int) kp2p.NetAddress {
	return kp2p.NetAddress{ID: fmt.Sprintf("%040x", 0xfeed0000+i), IP: fmt.Sprintf("52.%d.%d.%d", 1+i%200, (i/7)%250, 1+(i*13)%250), Port: uint32(26656 + i%10)}
}

// validOther returns a well-formed protobuf message of the kind.
func (l *live) validOther(reactor, kind string, r *rand.Rand) proto.Message {
	switch kind {
	case "BlockRequest":
		h := uint64(1)
		if l.StoreH > 0 {
			h = 1 + uint64(r.Intn(int(l.StoreH)))
		}
		return &bcproto.Message{Sum: &bcproto.Message_BlockRequest{BlockRequest: &bcproto.BlockRequest{Height: h}}}
	case "NoBlockResponse":
		return &bcproto.Message{Sum: &bcproto.Message_NoBlockResponse{NoBlockResponse: &bcproto.NoBlockResponse{Height: 1 + uint64(r.Intn(int(l.StoreH)+2))}}}
	case "StatusRequest":
		return &bcproto.Message{Sum: &bcproto.Message_StatusRequest{StatusRequest: &bcproto.StatusRequest{}}}
	case "StatusResponse":
		return &bcproto.Message{Sum: &bcproto.Message_StatusResponse{StatusResponse: &bcproto.StatusResponse{Base: minU64(1, l.StoreH), Height: l.StoreH}}}
	case "BlockResponse":
		h := uint64(1)
		if l.StoreH > 0 {
			h = 1 + uint64(r.Intn(int(l.StoreH)))
		}
		return &bcproto.Message{Sum: &bcproto.Message_BlockResponse{BlockResponse: &bcproto.BlockResponse{Block: l.blockPB(h)}}}
	case "Txs":
		return &prototx.Message{Sum: &prototx.Message_Txs{Txs: &prototx.Txs{Txs: [][]byte{txRLP(l.tx(r, 0)), txRLP(l.tx(r, 1))}}}}
	case "PooledTransactions":
		return &prototx.Message{Sum: &prototx.Message_PooledTransactions{PooledTransactions: &prototx.PooledTransactions{Txs: [][]byte{txRLP(l.tx(r, 0)), txRLP(l.tx(r, 1))}}}}
	case "PooledTransactionHashes":
		return &prototx.Message{Sum: &prototx.Message_PooledTransactionHashes{PooledTransactionHashes: &prototx.PooledTransactionHashes{Hashes: [][]byte{l.tx(r, 0).Hash().Bytes(), l.tx(r, 5).Hash().Bytes()}}}}
	case "RequestPooledTransactions":
		hs := [][]byte{l.tx(r, 0).Hash().Bytes()}
		if pend, _ := l.e.V.Pool.Pending(); len(pend) > 0 {
			for _, txs := range pend {
				for _, tx := range txs {
					if len(hs) < 4 {
						hs = append(hs, tx.Hash().Bytes())
					}
				}
			}
		}
		return &prototx.Message{Sum: &prototx.Message_RequestPooledTransactions{RequestPooledTransactions: &prototx.RequestPooledTransactions{Hashes: hs}}}
	case "EvidenceList":
		h := l.StoreH
		if h == 0 {
			h = 1
		}
		if r.Intn(2) == 0 && h > 1 {
			h = 1 + uint64(r.Intn(int(h)))
		}
		ev := l.evidenceAt(h, r)
		pev, err := types.EvidenceToProto(ev)
		if err != nil {
			return nil
		}
		return &ep.List{Evidence: []*kproto.Evidence{pev}}
	case "PexRequest":
		return &kp2p.Message{Sum: &kp2p.Message_PexRequest{PexRequest: &kp2p.PexRequest{}}}
	case "PexAddrs":
		var as []kp2p.NetAddress
		for i, n := 0, 1+r.Intn(4); i < n; i++ {
			as = append(as, netAddr(r.Intn(100000)))
		}
		return &kp2p.Message{Sum: &kp2p.Message_PexAddrs{PexAddrs: &kp2p.PexAddrs{Addrs: as}}}
	}
	panic("unknown kind " + kind)
}

func (l *live) validOtherMsg(reactor, kind string, r *rand.Rand) (Msg, bool) {
	pb := l.validOther(reactor, kind, r)
	if pb == nil {
		return Msg{}, false
	}
	b := marshal(pb)
	if b == nil {
		return Msg{}, false
	}
	return Msg{Ch: channelOfReactor(reactor), Kind: kind, Mut: "valid", Level: "valid", Bytes: b}, true
}

func (l *live) countOther(reactor, kind string, r *rand.Rand) int {
	pb := l.validOther(reactor, kind, rand.New(rand.NewSource(1)))
	if pb == nil {
		return 0
	}
	return CountMutations(pb)
}

func (l *live) protoMutantOther(reactor, kind string, k int, r *rand.Rand, fixed bool) (Msg, bool) {
	src := r
	if fixed {
		src = rand.New(rand.NewSource(1)) // the same template as countOther saw
	}
	pb := l.validOther(reactor, kind, src)
	if pb == nil {
		return Msg{}, false
	}
	label := ApplyMutation(pb, k, r)
	if label == "" {
		return Msg{}, false
	}
	b := marshal(pb)
	if b == nil {
		return Msg{}, false
	}
	return Msg{Ch: channelOfReactor(reactor), Kind: kind, Mut: label, Level: "proto", Bytes: b, Subject: true}, true
}

func (l *live) bytesMutantOther(reactor, kind string, r *rand.Rand) (Msg, bool) {
	v, ok := l.validOtherMsg(reactor, kind, r)
	if !ok {
		return Msg{}, false
	}
	b, label := MutateBytes(v.Bytes, r)
	for i := r.Intn(3); i > 0; i-- {
		var l2 string
		b, l2 = MutateBytes(b, r)
		label += "; " + l2
	}
	return Msg{Ch: v.Ch, Kind: kind, Mut: label, Level: "bytes", Bytes: b, Subject: true}, true
}

// ---- Go-level mutants of the other reactors

func bigs(r *rand.Rand) *big.Int {
	switch r.Intn(7) {
	case 0:
		return big.NewInt(0)
	case 1:
		return big.NewInt(1)
	case 2:
		return new(big.Int).Lsh(big.NewInt(1), 255)
	case 3:
		return new(big.Int).Sub(new(big.Int).Lsh(big.NewInt(1), 256), big.NewInt(1))
	case 4:
		return new(big.Int).Lsh(big.NewInt(1), 300) // does not fit 256 bits
	case 5:
		return new(big.Int).Lsh(big.NewInt(1), 4096)
	}
	return big.NewInt(int64(r.Intn(1 << 30)))
}

// rawTx encodes a transaction-shaped RLP list with arbitrary field values (including shapes the
// typed constructor cannot produce).
func rawTx(r *rand.Rand, l *live) ([]byte, string) {
	good := l.tx(r, r.Intn(3))
	v, rr, s := good.RawSignatureValues()
	to := cmn.HexToAddress("0xc18c18").Bytes()
	fields := []interface{}{good.Nonce(), good.GasPrice(), good.Gas(), to, good.Value(), good.Data(), v, rr, s}
	what := ""
	switch r.Intn(14) {
	case 0:
		fields[0] = uint64(1<<64 - 1)
		what = "nonce max"
	case 1:
		fields[1] = bigs(r)
		what = fmt.Sprintf("gas price %d bits", fields[1].(*big.Int).BitLen())
	case 2:
		fields[2] = []uint64{0, 1, 20999, 1<<63 - 1, 1<<64 - 1}[r.Intn(5)]
		what = fmt.Sprintf("gas limit %d", fields[2])
	case 3:
		fields[3] = []byte{}
		what = "contract creation"
	case 4:
		fields[3] = make([]byte, []int{1, 19, 21, 32}[r.Intn(4)])
		what = fmt.Sprintf("recipient of %d bytes", len(fields[3].([]byte)))
	case 5:
		fields[4] = bigs(r)
		what = fmt.Sprintf("value %d bits", fields[4].(*big.Int).BitLen())
	case 6:
		d := make([]byte, []int{1, 32 * 1024, 128 * 1024, 129 * 1024, 600 * 1024}[r.Intn(5)])
		fields[5] = d
		what = fmt.Sprintf("data %d bytes", len(d))
	case 7:
		fields[6] = bigs(r)
		what = "V " + fields[6].(*big.Int).String()[:1] + "..."
	case 8:
		fields[7] = bigs(r)
		what = "R replaced"
	case 9:
		fields[8] = bigs(r)
		what = "S replaced"
	case 10:
		fields[6], fields[7], fields[8] = big.NewInt(0), big.NewInt(0), big.NewInt(0)
		what = "unsigned (V=R=S=0)"
	case 11:
		fields = fields[:r.Intn(len(fields))]
		what = fmt.Sprintf("only %d fields", len(fields))
	case 12:
		fields = append(fields, uint64(7), []byte("extra"))
		what = "two extra fields"
	case 13:
		fields[r.Intn(len(fields))] = []interface{}{uint64(1), []byte{2}}
		what = "a field replaced by a list"
	}
	b, err := rlp.EncodeToBytes(fields)
	if err != nil {
		return txRLP(good), "valid"
	}
	return b, what
}

func (l *live) goMutantOther(reactor, kind string, r *rand.Rand) (Msg, bool) {
	var pb proto.Message
	what := ""
	hs := []uint64{0, 1, l.StoreH, l.StoreH + 1, l.StoreH - 1, 1 << 31, 1 << 62, 1<<64 - 1}
	switch kind {
	case "BlockRequest":
		h := hs[r.Intn(len(hs))]
		pb, what = &bcproto.Message{Sum: &bcproto.Message_BlockRequest{BlockRequest: &bcproto.BlockRequest{Height: h}}}, fmt.Sprint("height ", h)
	case "NoBlockResponse":
		h := hs[r.Intn(len(hs))]
		pb, what = &bcproto.Message{Sum: &bcproto.Message_NoBlockResponse{NoBlockResponse: &bcproto.NoBlockResponse{Height: h}}}, fmt.Sprint("height ", h)
	case "StatusRequest":
		pb, what = &bcproto.Message{Sum: &bcproto.Message_StatusRequest{StatusRequest: &bcproto.StatusRequest{}}}, "plain"
	case "StatusResponse":
		b, h := hs[r.Intn(len(hs))], hs[r.Intn(len(hs))]
		pb, what = &bcproto.Message{Sum: &bcproto.Message_StatusResponse{StatusResponse: &bcproto.StatusResponse{Base: b, Height: h}}}, fmt.Sprintf("base %d height %d", b, h)
	case "BlockResponse":
		// a block that decodes but is not the block the node expects / fails ValidateBasic
		h := uint64(1)
		if l.StoreH > 0 {
			h = 1 + uint64(r.Intn(int(l.StoreH)))
		}
		bp := l.blockPB(h)
		if bp == nil {
			return Msg{}, false
		}
		switch r.Intn(6) {
		case 0:
			bp.Header.Height = hs[r.Intn(len(hs))]
			what = fmt.Sprint("header height ", bp.Header.Height)
		case 1:
			bp.LastCommit = nil
			what = "no last commit"
		case 2:
			if bp.LastCommit != nil && len(bp.LastCommit.Signatures) > 0 {
				bp.LastCommit.Signatures[0].Signature = bp.LastCommit.Signatures[0].Signature[:r.Intn(65)]
				what = fmt.Sprintf("commit signature of %d bytes", len(bp.LastCommit.Signatures[0].Signature))
			}
		case 3:
			bp.Header.NumTxs = 1 << 40
			what = "NumTxs 2^40"
		case 4:
			bp.Data.Txs = append(bp.Data.Txs, []byte{0xc0}, []byte{0xff, 0xff})
			what = "garbage transactions"
		case 5:
			bp.Header.ChainID = "other-chain"
			what = "other chain id"
		}
		pb = &bcproto.Message{Sum: &bcproto.Message_BlockResponse{BlockResponse: &bcproto.BlockResponse{Block: bp}}}
	case "Txs", "PooledTransactions":
		var txs [][]byte
		for i, n := 0, 1+r.Intn(3); i < n; i++ {
			b, w := rawTx(r, l)
			txs = append(txs, b)
			what += w + "; "
		}
		if r.Intn(8) == 0 {
			one := txs[0]
			for len(txs) < 3000 && len(one) < 400 {
				txs = append(txs, one)
			}
			what += "x3000"
		}
		if kind == "Txs" {
			pb = &prototx.Message{Sum: &prototx.Message_Txs{Txs: &prototx.Txs{Txs: txs}}}
		} else {
			pb = &prototx.Message{Sum: &prototx.Message_PooledTransactions{PooledTransactions: &prototx.PooledTransactions{Txs: txs}}}
		}
	case "PooledTransactionHashes", "RequestPooledTransactions":
		n := []int{1, 2, 100, 5000, 40000}[r.Intn(5)]
		hsz := []int{32, 32, 32, 33, 31, 0, 64}[r.Intn(7)]
		var hh [][]byte
		for i := 0; i < n; i++ {
			b := make([]byte, hsz)
			r.Read(b)
			hh = append(hh, b)
		}
		what = fmt.Sprintf("%d hashes of %d bytes", n, hsz)
		if kind == "PooledTransactionHashes" {
			pb = &prototx.Message{Sum: &prototx.Message_PooledTransactionHashes{PooledTransactionHashes: &prototx.PooledTransactionHashes{Hashes: hh}}}
		} else {
			pb = &prototx.Message{Sum: &prototx.Message_RequestPooledTransactions{RequestPooledTransactions: &prototx.RequestPooledTransactions{Hashes: hh}}}
		}
	case "EvidenceList":
		h := hs[r.Intn(len(hs))]
		ev := l.evidenceAt(h, r)
		if ev == nil {
			return Msg{}, false
		}
		what = fmt.Sprint("height ", h)
		switch r.Intn(8) {
		case 0:
			ev.TotalVotingPower = []int64{0, -1, 1, 1<<63 - 1}[r.Intn(4)]
			what += fmt.Sprint(" total power ", ev.TotalVotingPower)
		case 1:
			ev.ValidatorPower = []int64{0, -1, 1, 1<<63 - 1}[r.Intn(4)]
			what += fmt.Sprint(" validator power ", ev.ValidatorPower)
		case 2:
			ev.Timestamp = time.Time{}
			what += " zero time"
		case 3:
			ev.VoteB = ev.VoteA
			what += " same vote twice"
		case 4:
			ev.VoteA.ValidatorIndex = 1<<32 - 1
			what += " index max"
		case 5:
			ev.VoteA.Signature = ev.VoteA.Signature[:r.Intn(65)]
			what += fmt.Sprintf(" signature of %d bytes", len(ev.VoteA.Signature))
		case 6:
			ev.VoteB.ValidatorAddress = l.e.Net.Addrs[0]
			what += " votes of two validators"
		}
		pev, err := types.EvidenceToProto(ev)
		if err != nil {
			return Msg{}, false
		}
		lst := &ep.List{Evidence: []*kproto.Evidence{pev}}
		if r.Intn(6) == 0 {
			for i := 0; i < 500; i++ {
				lst.Evidence = append(lst.Evidence, pev)
			}
			what += " x500"
		}
		pb = lst
	case "PexRequest":
		pb, what = &kp2p.Message{Sum: &kp2p.Message_PexRequest{PexRequest: &kp2p.PexRequest{}}}, "plain"
	case "PexAddrs":
		var as []kp2p.NetAddress
		n := []int{0, 1, 3, 250, 251, 5000}[r.Intn(6)]
		for i := 0; i < n; i++ {
			a := netAddr(r.Intn(1 << 20))
			switch r.Intn(10) {
			case 0:
				a.IP = []string{"", "not-an-ip", "127.0.0.1", "0.0.0.0", "10.0.0.1", "::1", "2001:db8::1", "256.1.1.1", "1.2.3.4.5"}[r.Intn(9)]
			case 1:
				a.Port = []uint32{0, 65535, 65536, 1<<32 - 1}[r.Intn(4)]
			case 2:
				a.ID = []string{"", "zz", "0123", fmt.Sprintf("%042x", 5), string(l.e.SW.NodeInfo().ID())}[r.Intn(5)]
			}
			as = append(as, a)
		}
		what = fmt.Sprintf("%d addresses", n)
		pb = &kp2p.Message{Sum: &kp2p.Message_PexAddrs{PexAddrs: &kp2p.PexAddrs{Addrs: as}}}
	}
	if pb == nil {
		return Msg{}, false
	}
	b := marshal(pb)
	if b == nil {
		return Msg{}, false
	}
	return Msg{Ch: channelOfReactor(reactor), Kind: kind, Mut: what, Level: "go", Bytes: b, Subject: true}, true
}

var _ = p2p.ID("")

func minU64(a, b uint64) uint64 {
	if a < b {
		return a
	}
	return b
}
