package c18

import (
	"bytes"
	"fmt"
	"io"
	"net"
	"os"
	"path/filepath"
	"runtime"
	"strings"
	"sync"
	"sync/atomic"
	"time"

	"github.com/kardiachain/go-kardia/blockchain"
	"github.com/kardiachain/go-kardia/configs"
	"github.com/kardiachain/go-kardia/consensus"
	"github.com/kardiachain/go-kardia/lib/log"
	"github.com/kardiachain/go-kardia/lib/p2p"
	"github.com/kardiachain/go-kardia/lib/p2p/conn"
	"github.com/kardiachain/go-kardia/lib/p2p/pex"
	"github.com/kardiachain/go-kardia/lib/service"
	"github.com/kardiachain/go-kardia/mainchain/tx_pool"
	bcproto "github.com/kardiachain/go-kardia/proto/kardiachain/blockchain"
	"github.com/kardiachain/go-kardia/types"
	"github.com/kardiachain/go-kardia/types/evidence"

	"verifharness/netsim"
)

// ---------------------------------------------------------------- log capture

// Production formats every record at Info level and above with the terminal
// formatter; values supplied by the peer (messages, bit arrays, byte strings) are
// formatted there. The harness does the same into a discarding writer while a
// peer message is being handled (formatting is part of handling the message), and
// captures the "CONSENSUS FAILURE" record, which carries the stack of a panic that
// the consensus loop recovered before terminating.

var formatLogs int32

type consFailure struct {
	Err   string
	Stack string
}

type logCapture struct {
	mu       sync.Mutex
	failures []consFailure
	errors   int64
	stopWhy  string
	fmtr     log.Format
}

var capture = &logCapture{fmtr: log.TerminalFormat(false)}

func (lc *logCapture) Log(r *log.Record) error {
	if r.Msg == "CONSENSUS FAILURE!!!" {
		f := consFailure{}
		for i := 0; i+1 < len(r.Ctx); i += 2 {
			k, _ := r.Ctx[i].(string)
			switch k {
			case "err":
				f.Err = fmt.Sprint(r.Ctx[i+1])
			case "stack":
				f.Stack = fmt.Sprint(r.Ctx[i+1])
			}
		}
		lc.mu.Lock()
		lc.failures = append(lc.failures, f)
		lc.mu.Unlock()
		return nil
	}
	if r.Lvl <= log.LvlError {
		atomic.AddInt64(&lc.errors, 1)
		if r.Msg == "Stopping peer for error" {
			for i := 0; i+1 < len(r.Ctx); i += 2 {
				if k, _ := r.Ctx[i].(string); k == "err" {
					lc.mu.Lock()
					lc.stopWhy = fmt.Sprint(r.Ctx[i+1])
					lc.mu.Unlock()
				}
			}
		}
	}
	if r.Lvl <= log.LvlInfo && atomic.LoadInt32(&formatLogs) != 0 {
		b := lc.fmtr.Format(r)
		if os.Getenv("VERIF_DEBUG_LOG") != "" {
			os.Stdout.Write(b)
		} else {
			io.Discard.Write(b)
		}
	}
	return nil
}

func (lc *logCapture) lastStop() string {
	lc.mu.Lock()
	defer lc.mu.Unlock()
	return lc.stopWhy
}

func (lc *logCapture) takeFailures() []consFailure {
	lc.mu.Lock()
	defer lc.mu.Unlock()
	f := lc.failures
	lc.failures = nil
	return f
}

// ---------------------------------------------------------------- stub peer

type sent struct {
	Ch    byte
	Bytes []byte
	Try   bool
}

// StubPeer implements p2p.Peer. It records everything the node sends to it and
// counts the iterations of the per-peer gossip goroutines (each iteration starts
// with peer.IsRunning()).
type StubPeer struct {
	*service.BaseService
	id       p2p.ID
	addr     *p2p.NetAddress
	outbound bool

	mu    sync.Mutex
	kv    map[string]interface{}
	out   []sent
	nsent int

	iterData  int64 // iterations of gossipDataRoutine
	iterVotes int64
	iterMaj23 int64
	stopped   int32 // Stop() called (by the switch: StopPeerForError / gracefully)
	closed    int32 // CloseConn() called (transport clean-up by the switch)
}

var peerSeq int64

func newStubPeer(outbound bool) *StubPeer {
	n := atomic.AddInt64(&peerSeq, 1)
	id := p2p.ID(fmt.Sprintf("%040x", 0xabc000000+n))
	ip := net.IPv4(41, byte(n>>16), byte(n>>8), byte(n))
	addr := p2p.NewNetAddressIPPort(ip, 26656)
	addr.ID = id
	p := &StubPeer{id: id, addr: addr, outbound: outbound, kv: map[string]interface{}{}}
	p.BaseService = service.NewBaseService(nil, "StubPeer", p)
	return p
}

func (p *StubPeer) OnStart() error { return nil }
func (p *StubPeer) OnStop()        { atomic.StoreInt32(&p.stopped, 1) }

// IsRunning is called at the top of every iteration of the three gossip routines;
// the caller is identified by its function name.
func (p *StubPeer) IsRunning() bool {
	var pcs [3]uintptr
	if n := runtime.Callers(2, pcs[:]); n > 0 {
		fr, _ := runtime.CallersFrames(pcs[:n]).Next()
		switch {
		case strings.HasSuffix(fr.Function, "gossipDataRoutine"):
			atomic.AddInt64(&p.iterData, 1)
		case strings.HasSuffix(fr.Function, "gossipVotesRoutine"):
			atomic.AddInt64(&p.iterVotes, 1)
		case strings.HasSuffix(fr.Function, "queryMaj23Routine"):
			atomic.AddInt64(&p.iterMaj23, 1)
		}
	}
	return p.BaseService.IsRunning()
}

func (p *StubPeer) FlushStop() { p.Stop() }
func (p *StubPeer) record(ch byte, b []byte, try bool) bool {
	p.mu.Lock()
	p.nsent++
	if len(p.out) < 256 {
		p.out = append(p.out, sent{ch, append([]byte(nil), b...), try})
	}
	p.mu.Unlock()
	return p.BaseService.IsRunning()
}
func (p *StubPeer) TrySend(ch byte, b []byte) bool { return p.record(ch, b, true) }
func (p *StubPeer) Send(ch byte, b []byte) bool    { return p.record(ch, b, false) }
func (p *StubPeer) takeOut() []sent {
	p.mu.Lock()
	defer p.mu.Unlock()
	o := p.out
	p.out = nil
	return o
}
func (p *StubPeer) NodeInfo() p2p.NodeInfo {
	return p2p.DefaultNodeInfo{DefaultNodeID: p.id, ListenAddr: p.addr.DialString()}
}
func (p *StubPeer) Status() conn.ConnectionStatus { return conn.ConnectionStatus{} }
func (p *StubPeer) ID() p2p.ID                    { return p.id }
func (p *StubPeer) IsOutbound() bool              { return p.outbound }
func (p *StubPeer) IsPersistent() bool            { return false }
func (p *StubPeer) Get(key string) interface{} {
	p.mu.Lock()
	defer p.mu.Unlock()
	return p.kv[key]
}
func (p *StubPeer) Set(key string, v interface{}) {
	p.mu.Lock()
	p.kv[key] = v
	p.mu.Unlock()
}
func (p *StubPeer) RemoteIP() net.IP            { return p.addr.IP }
func (p *StubPeer) SocketAddr() *p2p.NetAddress { return p.addr }
func (p *StubPeer) RemoteAddr() net.Addr        { return &net.TCPAddr{IP: p.addr.IP, Port: 26656} }
func (p *StubPeer) CloseConn() error            { atomic.AddInt32(&p.closed, 1); return nil }
func (p *StubPeer) Stopped() bool               { return atomic.LoadInt32(&p.stopped) != 0 }

// PeerState returns the consensus reactor's view of this peer.
func (p *StubPeer) PeerState() *consensus.PeerState {
	ps, _ := p.Get(types.PeerStateKey).(*consensus.PeerState)
	return ps
}

// ---------------------------------------------------------------- environment

// Env is one victim node with all its reactors on a real switch, inside a live
// simulated network of four validators.
type Env struct {
	Mode      string // "caughtup": victim is validator 0 taking part in consensus; "syncing": victim is a fresh observer in fast-sync mode
	Net       *netsim.Net
	V         *netsim.Node
	Adv       *netsim.Adversary
	AdvIdx    int // validator whose key the attacker holds
	SW        *p2p.Switch
	Cons      *consensus.ConsensusManager
	BC        *blockchain.BlockchainReactor
	TxR       *tx_pool.Reactor
	EvR       *evidence.Reactor
	Pex       *pex.Reactor
	Book      pex.AddrBook
	Dir       string
	reactors  []p2p.Reactor
	names     []string
	byCh      map[byte]p2p.Reactor
	nameByCh  map[byte]string
	capByCh   map[byte]int // RecvMessageCapacity: the connection layer never delivers a longer message
	DeadWhy   string
	Anchor    *StubPeer
	SeedMode  bool
	Abandoned bool // a violation left goroutines of this environment blocked: do not pull its files from under them
	queued    int  // messages put on the consensus queue while nobody drains it (syncing)
}

// GossipSleep: the sleep of the per-peer consensus gossip routines of the next environment's nodes.
var GossipSleep = time.Millisecond

// PexSeedMode: the next environment runs its PEX reactor in seed mode (answers one request per inbound peer and hangs up).
var PexSeedMode bool

// TxBroadcastOff: the next environment runs its transaction pool reactor with broadcasting disabled (a supported
// configuration: tx_pool.TxPoolConfig.Broadcast = false).
var TxBroadcastOff bool

// SyncPeerTimeout: the block-sync scheduler of the next environment runs with this peer timeout and the production
// sync timeout (0: both one hour, i.e. never during a case). configs.DefaultFastSyncConfig has 15 s.
var SyncPeerTimeout time.Duration

// NoAnchor: the next syncing environment gets no anchor peer (the case scripts all peers itself).
var NoAnchor bool

// scratchDir makes a directory under the run's scratch area (created by the parent process, removed by
// it at the end of the run; tmpfs if available).
func scratchDir() string {
	base := os.Getenv("C18_SCRATCH")
	if base == "" {
		if fi, err := os.Stat("/dev/shm"); err == nil && fi.IsDir() {
			base = "/dev/shm"
		}
	}
	d, err := os.MkdirTemp(base, "c18env")
	if err != nil {
		panic(err)
	}
	return d
}

// NewEnv builds the network, runs it to the given height and wires the victim.
func NewEnv(mode string, height uint64) (*Env, error) {
	tEnv := time.Now()
	defer func() {
		if os.Getenv("C18_DEBUG") != "" {
			fmt.Fprintln(os.Stderr, "NEWENV", mode, height, "took", time.Since(tEnv))
		}
	}()
	e := &Env{Mode: mode, AdvIdx: 3, byCh: map[byte]p2p.Reactor{}, nameByCh: map[byte]string{}, capByCh: map[byte]int{}}
	e.Dir = scratchDir()
	gossipSleep := GossipSleep
	nodeOpts := func(i int) netsim.NodeOpts {
		o := netsim.NodeOpts{Config: func(c *configs.ConsensusConfig) {
			c.PeerGossipSleepDuration = gossipSleep
			c.PeerQueryMaj23SleepDuration = gossipSleep
		}}
		if i == 0 && mode == "caughtup" {
			o.FileWAL = true // restart on the same WAL after a consensus failure
			o.Dir = filepath.Join(e.Dir, "victim")
		}
		return o
	}
	nt, err := netsim.NewNet(netsim.NetOpts{N: 4, Powers: []int64{20, 20, 20, 20}, Node: nodeOpts, Root: filepath.Join(e.Dir, "net")})
	if err != nil {
		return nil, fmt.Errorf("NewNet: %w", err)
	}
	e.Net = nt
	e.Adv = netsim.NewAdversary(nt)
	log.Root().SetHandler(capture)
	for _, n := range nt.Nodes {
		n.CS.Logger.SetHandler(capture)
	}
	if mode == "caughtup" {
		e.V = nt.Nodes[0]
	} else {
		v, err := netsim.BuildNode(9, nt.Gen, netsim.Key(9), nil, nil, nil, netsim.NodeOpts{Dir: filepath.Join(e.Dir, "victim"), Config: nodeOpts(9).Config})
		if err != nil {
			return nil, fmt.Errorf("build observer: %w", err)
		}
		v.CS.Logger.SetHandler(capture)
		e.V = v
	}
	fs := configs.DefaultFastSyncConfig()
	fs.Enable = mode == "syncing"
	// the sync must not end by a timeout while the case runs (wall-clock timers of the scheduler)
	if SyncPeerTimeout > 0 {
		fs.PeerTimeout = SyncPeerTimeout // (group blocksync-withheld-lowest: the scheduler's timers are the subject)
	} else {
		fs.PeerTimeout, fs.SyncTimeout = time.Hour, time.Hour
	}
	e.wire(fs)
	// start: the victim's consensus state is started by its manager, as in production
	for _, n := range nt.Nodes {
		if n == e.V {
			continue
		}
		if err := n.Start(); err != nil {
			return nil, fmt.Errorf("start node %d: %w", n.Idx, err)
		}
	}
	if err := e.startReactors(); err != nil {
		return nil, err
	}
	if mode == "caughtup" && !e.V.Quiesce() {
		return nil, fmt.Errorf("victim not quiescent after start: %s", e.V.DeadWhy)
	}
	if height > 0 {
		res := nt.RunSync(height, 40, nil)
		if !res.Reached {
			return nil, fmt.Errorf("network did not reach height %d: %+v", height, res)
		}
	}
	if mode == "syncing" && !NoAnchor {
		// An honest peer that announced blocks and is slow to deliver them keeps the node in fast-sync
		// mode (without it the scheduler declares the sync finished as soon as the first peer leaves).
		if err := e.anchor(); err != nil {
			return nil, err
		}
	}
	return e, nil
}

// anchor connects an honest peer that announces two blocks, delivers the first one
// (which marks it as responsive) and is slow with the second: the node stays in
// fast-sync mode.
func (e *Env) anchor() error {
	e.Anchor = e.AddPeer(true)
	b, _ := blockchain.EncodeMsg(&bcproto.StatusResponse{Base: 1, Height: 2})
	e.BC.Receive(blockchain.BlockchainChannel, e.Anchor, b)
	deadline := time.Now().Add(10 * time.Second)
	for time.Now().Before(deadline) {
		for _, o := range e.Anchor.takeOut() {
			if o.Ch != blockchain.BlockchainChannel {
				continue
			}
			m, err := blockchain.DecodeMsg(o.Bytes)
			if err != nil {
				continue
			}
			if rq, ok := m.(*bcproto.BlockRequest); ok && rq.Height == 1 {
				blk := e.Net.Nodes[1].BO.LoadBlock(1)
				if blk == nil {
					return fmt.Errorf("anchor: no block 1")
				}
				pb, err := blk.ToProto()
				if err != nil {
					return err
				}
				rb, _ := blockchain.EncodeMsg(&bcproto.BlockResponse{Block: pb})
				e.BC.Receive(blockchain.BlockchainChannel, e.Anchor, rb)
				return nil
			}
		}
		time.Sleep(2 * time.Millisecond)
	}
	return fmt.Errorf("anchor: the node never requested block 1")
}

func (e *Env) add(name string, r p2p.Reactor) {
	e.SW.AddReactor(name, r)
	e.reactors = append(e.reactors, r)
	e.names = append(e.names, name)
	for _, d := range r.GetChannels() {
		e.byCh[d.ID] = r
		e.nameByCh[d.ID] = name
		e.capByCh[d.ID] = d.FillDefaults().RecvMessageCapacity
	}
}

// wire builds the switch and the reactors around the victim's live components, in
// the order and with the names mainchain/backend.go and node/node.go use.
func (e *Env) wire(fs *configs.FastSyncConfig) {
	v := e.V
	p2pCfg := configs.DefaultP2PConfig()
	nodeKey := p2p.NodeKey{PrivKey: netsim.Key(77)}
	nodeInfo := p2p.DefaultNodeInfo{DefaultNodeID: nodeKey.ID(), ListenAddr: "127.0.0.1:26656", Network: "verif", Version: "1.0.0", Moniker: "victim"}
	e.SW = p2p.NewSwitch(p2pCfg, p2p.NewMultiplexTransport(nodeInfo, nodeKey, p2p.MConnConfig(p2pCfg)))
	e.SW.SetNodeInfo(nodeInfo)
	e.SW.SetNodeKey(&nodeKey)
	state, err := v.Store.LoadStateFromDBOrGenesisDoc(v.Gen)
	if err != nil {
		panic(err)
	}
	e.Book = pex.NewAddrBook(filepath.Join(e.Dir, "addrbook.json"), true)
	e.SW.SetAddrBook(e.Book)
	e.Pex = pex.NewReactor(e.Book, &pex.ReactorConfig{SeedMode: PexSeedMode, SeedDisconnectWaitPeriod: 14 * time.Hour})
	e.SeedMode = PexSeedMode
	e.add("PEX", e.Pex)
	e.BC = blockchain.NewBlockchainReactor(state, v.Exec, v.BO, fs)
	e.add("BLOCKCHAIN", e.BC)
	e.Cons = consensus.NewConsensusManager(v.CS, fs)
	e.Cons.SetEventBus(v.Bus)
	e.add("CONSENSUS", e.Cons)
	e.TxR = tx_pool.NewReactor(tx_pool.TxPoolConfig{Broadcast: !TxBroadcastOff}, v.Pool)
	e.add("TXPOOL", e.TxR)
	e.EvR = evidence.NewReactor(v.EvPool)
	e.add("EVIDENCE", e.EvR)
}

func (e *Env) startReactors() error {
	// The PEX reactor's OnStart needs seeds or a non-empty book and starts a dialing routine that
	// has nothing to do with message handling; Receive does not depend on it. The other reactors
	// are started as the switch does.
	if err := e.BC.Start(); err != nil {
		return fmt.Errorf("blockchain reactor start: %w", err)
	}
	if err := e.Cons.Start(); err != nil {
		return fmt.Errorf("consensus manager start: %w", err)
	}
	if err := e.TxR.Start(); err != nil {
		return fmt.Errorf("txpool reactor start: %w", err)
	}
	if err := e.EvR.Start(); err != nil {
		return fmt.Errorf("evidence reactor start: %w", err)
	}
	return nil
}

// AddPeer connects a stub peer exactly as Switch.addPeer does.
func (e *Env) AddPeer(outbound bool) *StubPeer {
	p := newStubPeer(outbound)
	var pp p2p.Peer = p
	for _, r := range e.reactors {
		pp = r.InitPeer(pp)
	}
	if err := p.Start(); err != nil {
		panic(err)
	}
	p2p.AddPeerToSwitchPeerSet(e.SW, p)
	for _, r := range e.reactors {
		r.AddPeer(p)
	}
	return p
}

// DropPeer disconnects a peer the way a closed connection does.
func (e *Env) DropPeer(p *StubPeer) {
	if p.BaseService.IsRunning() {
		e.SW.StopPeerGracefully(p)
	}
}

// WaitGossip waits until the peer's gossip goroutines have gone through at least k
// further iterations each (they have no recover: a panic there ends the process,
// which the parent attributes to this case). Returns the name of a routine that
// made no progress within the watchdog time ("" if all did).
func (e *Env) WaitGossip(p *StubPeer, k int64) string {
	if !p.BaseService.IsRunning() || !e.Cons.IsRunning() {
		return ""
	}
	d0, v0, m0 := atomic.LoadInt64(&p.iterData), atomic.LoadInt64(&p.iterVotes), atomic.LoadInt64(&p.iterMaj23)
	deadline := time.Now().Add(10 * time.Second)
	for {
		d, v, m := atomic.LoadInt64(&p.iterData), atomic.LoadInt64(&p.iterVotes), atomic.LoadInt64(&p.iterMaj23)
		if d-d0 >= k && v-v0 >= k && m-m0 >= 1 {
			return ""
		}
		if !p.BaseService.IsRunning() {
			return ""
		}
		if time.Now().After(deadline) {
			switch {
			case d-d0 < k:
				return "gossipDataRoutine"
			case v-v0 < k:
				return "gossipVotesRoutine"
			}
			return "queryMaj23Routine"
		}
		time.Sleep(200 * time.Microsecond)
	}
}

// Close stops everything.
func (e *Env) Close() {
	t0 := time.Now()
	defer func() {
		if os.Getenv("C18_DEBUG") != "" {
			fmt.Fprintln(os.Stderr, "CLOSE took", time.Since(t0))
		}
	}()
	atomic.StoreInt32(&formatLogs, 0)
	// (a leaked reactor mutex, already reported, may block any of these for ever)
	done := make(chan struct{})
	go func() {
		defer close(done)
		defer func() { recover() }()
		// the block-sync reactor first, as the node's shutdown does: removing the last peers of a syncing node makes
		// its scheduler declare the sync finished and switch to consensus, which must not race with the stop below
		e.BC.Stop()
		if e.Mode == "syncing" {
			// (a switch to consensus that the reactor's event loop had already begun must have completed before the
			// consensus state is stopped: Start racing with Stop makes SwitchToConsensus panic, at shutdown only)
			for i := 0; i < 400 && goroutineOf("blockchain.(*switchIO).trySwitchToConsensus") != ""; i++ {
				time.Sleep(5 * time.Millisecond)
			}
		}
		for _, p := range e.SW.Peers().List() {
			e.SW.StopPeerGracefully(p)
		}
		e.TxR.Stop()
		e.EvR.Stop()
		if e.Cons.IsRunning() {
			e.Cons.Stop()
		}
	}()
	select {
	case <-done:
	case <-time.After(10 * time.Second):
	}
	done2 := make(chan struct{})
	go func() {
		defer close(done2)
		defer func() { recover() }()
		if e.Mode == "syncing" {
			e.V.Stop(false)
		}
		e.Net.Close()
		e.V.WAL.Stop()
	}()
	select {
	case <-done2:
	case <-time.After(15 * time.Second): // a leaked consensus mutex (already reported) blocks the node's Stop
		return // keep the scratch directory: goroutines of the abandoned node may still use it
	}
	if e.Abandoned {
		return // (the parent process removes the whole scratch area at the end of the run)
	}
	os.RemoveAll(e.Dir)
}

// goroutineOf returns the stack of the first goroutine whose dump contains the marker.
func goroutineOf(marker string) string {
	buf := make([]byte, 4<<20)
	buf = buf[:runtime.Stack(buf, true)]
	for _, g := range bytes.Split(buf, []byte("\n\n")) {
		if bytes.Contains(g, []byte(marker)) {
			return string(g)
		}
	}
	return ""
}
