package c18

import (
	"fmt"
	"math/rand"
	"os"
	"sort"
	"strings"
	"sync/atomic"
	"time"

	"github.com/kardiachain/go-kardia/blockchain"
	bcproto "github.com/kardiachain/go-kardia/proto/kardiachain/blockchain"

	"verifharness/core"
)

// Group blocksync-withheld-lowest: life cycles of a block sync over several peers in
// which one peer does not deliver what it was asked for.
//
// The node runs its real block-sync reactor (scheduler, processor and event loop
// goroutines, tickers of 20 ms / 1 s / 10 s, the production peer timeout of 15 s). Stub
// peers report a chain several blocks above the node's; the node's BlockRequest messages
// are read from the stub peers' outboxes. "Honest" peers answer every request (also a
// repeated one) with the genuine block after their latency. The "withholder" answers its
// requests too, EXCEPT the lowest pending heights: those it never answers, answers after
// the scheduler's peer timeout, answers shortly before it, answers once the node has asked
// somebody else, or it disconnects (before / after the timeout). A "silent" peer connects
// and never reports a status. The case lasts until the node has synced as far as the
// reported chain allows (the last block needs its successor's commit: top-1) and every
// scripted action is done, at most 8 s beyond the peer timeout. Sleeping is a stimulus
// only (it lets the reactor's own timers fire); every answer is given after the request
// it answers has been OBSERVED. Oracle: that of every session (no panic or hang in
// Receive, allocation bound per message, bounded growth of the live heap over the case), no process death (the scheduler, processor and event loop
// goroutines have no recover that survives: a panic there ends the process and core
// attributes it to this case), mutexes free and a status request answered afterwards.
// How far the node synced is evidence, not a verdict.

const whPeerTimeout = 15 * time.Second // configs.DefaultFastSyncConfig().PeerTimeout

const whThorough = 16 // cases of the thorough tier (the quick tier runs the directed scripts)

const (
	whNever       = "never"
	whLate        = "late"              // answers 1.5 s after the peer timeout
	whJustInTime  = "just-in-time"      // answers 2.5 s before the peer timeout (slow, not faulty)
	whAfterReask  = "after-re-request"  // answers as soon as the node has asked another peer for that height
	whLeaveBefore = "disconnect-before" // disconnects 3 s after its first withheld request
	whLeaveAfter  = "disconnect-after"  // disconnects 1.5 s after the peer timeout
)

var whThens = []string{whNever, whLate, whJustInTime, whAfterReask, whLeaveBefore, whLeaveAfter}

type whSpec struct {
	Role     string        // withholder | honest | silent
	Join     time.Duration // when it connects (and reports its status), from the start of the case
	Latency  time.Duration // time it takes to answer a block request
	Withhold int           // withholder: how many of the lowest pending heights it does not answer
	Then     string        // withholder: what becomes of the withheld requests
	Lower    uint64        // reports (and has) that many blocks less than the reference chain
}

func (s whSpec) String() string {
	x := fmt.Sprintf("%s joins at %v, latency %v", s.Role, s.Join, s.Latency)
	if s.Role == "withholder" {
		x += fmt.Sprintf(", withholds the lowest %d: %s", s.Withhold, s.Then)
	}
	if s.Lower > 0 {
		x += fmt.Sprintf(", %d blocks behind", s.Lower)
	}
	return x
}

type whScript struct {
	Name   string
	Height uint64 // blocks of the reference chain
	Peers  []whSpec
}

func (s whScript) String() string {
	var ps []string
	for _, p := range s.Peers {
		ps = append(ps, p.String())
	}
	return fmt.Sprintf("%s: chain of %d blocks; %s", s.Name, s.Height, strings.Join(ps, "; "))
}

const ms = time.Millisecond

// whDirected: the fixed scripts (quick tier).
func whDirected() []whScript {
	return []whScript{
		{"the only peer at first delivers all but the lowest block and stays silent about it; an honest peer joins", 7, []whSpec{
			{Role: "withholder", Withhold: 1, Then: whNever}, {Role: "honest", Join: 400 * ms}}},
		{"lowest two withheld and delivered after the timeout; the honest peer is slower", 8, []whSpec{
			{Role: "withholder", Withhold: 2, Then: whLate}, {Role: "honest", Join: 100 * ms, Latency: 60 * ms}}},
		{"three peers; the withheld block arrives once the node has asked somebody else", 9, []whSpec{
			{Role: "withholder", Withhold: 1, Then: whAfterReask}, {Role: "honest", Join: 60 * ms, Latency: 30 * ms}, {Role: "honest", Join: time.Second, Latency: 120 * ms}}},
		{"the withholder disconnects before the timeout (control: the removal is announced)", 6, []whSpec{
			{Role: "withholder", Withhold: 1, Then: whLeaveBefore}, {Role: "honest", Join: 200 * ms, Latency: 40 * ms}}},
	}
}

func whRandom(r *rand.Rand) whScript {
	sc := whScript{Name: "random", Height: uint64(5 + r.Intn(5))}
	w := whSpec{Role: "withholder", Withhold: 1 + r.Intn(2), Then: whThens[r.Intn(len(whThens))], Latency: time.Duration(r.Intn(3)) * 20 * ms}
	if r.Intn(4) == 0 {
		w.Lower = 1
	}
	sc.Peers = append(sc.Peers, w)
	joins := []time.Duration{0, 60 * ms, 100 * ms, 400 * ms, 2 * time.Second, whPeerTimeout - time.Second, whPeerTimeout + 2*time.Second}
	lats := []time.Duration{0, 30 * ms, 80 * ms, 200 * ms}
	for i, n := 0, 1+r.Intn(2); i < n; i++ {
		h := whSpec{Role: "honest", Join: joins[r.Intn(len(joins))], Latency: lats[r.Intn(len(lats))]}
		if i == 1 && r.Intn(2) == 0 {
			h.Join = joins[r.Intn(4)]
		}
		sc.Peers = append(sc.Peers, h)
	}
	if r.Intn(5) == 0 {
		sc.Peers = append(sc.Peers, whSpec{Role: "silent", Join: joins[r.Intn(len(joins))]})
	}
	return sc
}

type whReq struct {
	h        uint64
	at       time.Duration
	withheld bool
	hasDue   bool
	due      time.Duration
	answered bool
}

type whPeer struct {
	name     string
	spec     whSpec
	p        *StubPeer
	left     bool
	leaveAt  time.Duration // 0: stays
	reqs     []*whReq
	withheld []uint64
	top      uint64
}

type whRun struct {
	rn        *Runner
	e         *Env
	l         *live
	sc        whScript
	top       uint64
	peers     []*whPeer
	sess      []Msg
	t0        time.Time
	asked     map[uint64][]string // height -> peers asked, in order
	delivered map[uint64]string   // height -> the peer that answered a request for it first
	busyUntil time.Duration       // the last scripted action that is still to come
}

func (w *whRun) now() time.Duration { return time.Since(w.t0) }

func (w *whRun) logf(format string, a ...interface{}) {
	line := fmt.Sprintf("%7.0fms ", float64(w.now().Microseconds())/1000) + fmt.Sprintf(format, a...)
	if w.rn.run.IsChild() {
		os.Stdout.WriteString(line + "\n") // the child's log is the parent's witness of a process-fatal event
	}
	if os.Getenv("C18_DEBUG") != "" {
		fmt.Fprintln(os.Stderr, "WH", line)
	}
}

func (w *whRun) send(p *whPeer, kind, what string, b []byte) bool {
	if !p.p.BaseService.IsRunning() {
		return true
	}
	w.sess = append(w.sess, Msg{Ch: blockchain.BlockchainChannel, Kind: kind, Mut: fmt.Sprintf("at %v, peer %s (%s): %s", w.now().Round(ms), p.name, p.spec.Role, what), Level: "valid", Bytes: b})
	w.logf("SEND %s %s: %s", p.name, kind, what)
	return w.rn.deliver(p.p, "withheld-lowest", w.sess, len(w.sess)-1)
}

func (w *whRun) event(what string) {
	w.sess = append(w.sess, Msg{Ch: blockchain.BlockchainChannel, Kind: "(event)", Mut: fmt.Sprintf("at %v: %s", w.now().Round(ms), what), Level: "event"})
	w.logf("EVENT %s", what)
}

func (w *whRun) status(p *whPeer) bool {
	b, err := blockchain.EncodeMsg(&bcproto.StatusResponse{Base: 1, Height: p.top})
	if err != nil {
		return true
	}
	return w.send(p, "StatusResponse", fmt.Sprintf("reports blocks 1..%d", p.top), b)
}

func (w *whRun) join(p *whPeer) bool {
	rn := w.rn
	var sp *StubPeer
	ret, pan := rn.call("AddPeer", "switch", "AddPeer", func() interface{} { return rn.envDesc }, func() { sp = w.e.AddPeer(len(w.peers)%2 == 0) })
	if !ret {
		rn.hang("AddPeer", "switch", "AddPeer", "c18.(*Env).AddPeer", rn.envDesc)
		return false
	}
	if pan || sp == nil {
		rn.broken = true
		return false
	}
	p.p = sp
	rn.run.Count("wh_peers_connected:"+p.spec.Role, 1)
	w.event(fmt.Sprintf("peer %s connects (%s)", p.name, p.spec))
	if p.spec.Role == "silent" || p.spec.Role == "probe" {
		return true
	}
	return w.status(p)
}

func (w *whRun) leave(p *whPeer, why string) bool {
	rn := w.rn
	p.left = true
	open := 0
	for _, rq := range p.reqs {
		if !rq.answered {
			open++
		}
	}
	rn.run.Count("wh_peers_disconnected:"+why, 1)
	w.event(fmt.Sprintf("peer %s disconnects (%s; %d of its requests unanswered)", p.name, why, open))
	wit := func() interface{} { return rn.witness("withheld-lowest", w.sess, len(w.sess)-1, nil) }
	ret, _ := rn.call("RemovePeer", "blockchain", "disconnect", wit, func() { w.e.DropPeer(p.p) })
	if !ret {
		rn.hang("RemovePeer during a block sync", "blockchain", "disconnect", "c18.(*Env).DropPeer", wit())
		return false
	}
	return true
}

// frontier: the lowest height nobody has delivered yet.
func (w *whRun) frontier() uint64 {
	h := uint64(1)
	for w.delivered[h] != "" {
		h++
	}
	return h
}

func (w *whRun) busy(t time.Duration) {
	if t > w.busyUntil {
		w.busyUntil = t
	}
}

// request digests one BlockRequest of the node.
func (w *whRun) request(p *whPeer, h uint64) {
	run := w.rn.run
	t := w.now()
	rq := &whReq{h: h, at: t}
	p.reqs = append(p.reqs, rq)
	run.Count("wh_block_requests_seen", 1)
	note := ""
	if prev := w.asked[h]; len(prev) > 0 {
		run.Count("wh_re_requests", 1)
		note = fmt.Sprintf(" (asked before: %v", prev)
		if prev[len(prev)-1] != p.name {
			run.Count("wh_re_requests_to_another_peer", 1)
		}
		if t > whPeerTimeout {
			run.Count("wh_re_requests_after_the_peer_timeout", 1)
		}
		if d := w.delivered[h]; d != "" {
			// the node asks again for a block it has been given: it has dropped the peer that gave it
			run.Count("wh_re_requests_of_heights_already_delivered", 1)
			note += "; delivered before by " + d
		}
		note += ")"
		// the withholder's "once the node has asked somebody else"
		for _, q := range w.peers {
			if q == p || q.left || q.spec.Then != whAfterReask {
				continue
			}
			for _, x := range q.reqs {
				if x.h == h && x.withheld && !x.answered && !x.hasDue {
					x.hasDue, x.due = true, t
				}
			}
		}
	}
	w.asked[h] = append(w.asked[h], p.name)
	w.logf("REQUEST node asks %s for block %d%s", p.name, h, note)
	if p.spec.Role == "withholder" && len(p.withheld) < p.spec.Withhold && h < w.frontier()+uint64(p.spec.Withhold) {
		rq.withheld = true
		p.withheld = append(p.withheld, h)
		run.Count("wh_heights_withheld", 1)
		run.Count("wh_heights_withheld:"+p.spec.Then, 1)
		w.logf("WITHHELD %s does not answer the request for block %d (%s)", p.name, h, p.spec.Then)
		switch p.spec.Then {
		case whLate:
			rq.hasDue, rq.due = true, t+whPeerTimeout+1500*ms
			w.busy(rq.due)
		case whJustInTime:
			rq.hasDue, rq.due = true, t+whPeerTimeout-2500*ms
			w.busy(rq.due)
		case whLeaveBefore:
			if p.leaveAt == 0 {
				p.leaveAt = t + 3*time.Second
				w.busy(p.leaveAt)
			}
		case whLeaveAfter:
			if p.leaveAt == 0 {
				p.leaveAt = t + whPeerTimeout + 1500*ms
				w.busy(p.leaveAt)
			}
		case whNever, whAfterReask:
			w.busy(t + whPeerTimeout + 1500*ms) // (the scheduler looks every second)
		}
		return
	}
	rq.hasDue, rq.due = true, t+p.spec.Latency
}

// scan reads what the node has sent to the peers.
func (w *whRun) scan() bool {
	for _, p := range w.peers {
		if p.p == nil || p.left {
			continue
		}
		for _, o := range p.p.takeOut() {
			if o.Ch != blockchain.BlockchainChannel {
				continue
			}
			m, err := blockchain.DecodeMsg(o.Bytes)
			if err != nil {
				continue
			}
			switch m := m.(type) {
			case *bcproto.BlockRequest:
				w.request(p, m.Height)
			case *bcproto.StatusRequest:
				if p.spec.Role != "silent" {
					w.rn.run.Count("wh_status_requests_answered", 1)
					if !w.status(p) {
						return false
					}
				}
			}
		}
	}
	return true
}

// serve gives the answers that are due.
func (w *whRun) serve() bool {
	run := w.rn.run
	t := w.now()
	for _, p := range w.peers {
		if p.p == nil || p.left {
			continue
		}
		for _, rq := range p.reqs {
			if rq.answered || !rq.hasDue || t < rq.due {
				continue
			}
			rq.answered = true
			pb := w.l.blockPB(rq.h)
			if pb == nil {
				run.Count("wh_requests_for_blocks_the_peer_does_not_have", 1)
				continue
			}
			b, err := blockchain.EncodeMsg(&bcproto.BlockResponse{Block: pb})
			if err != nil {
				continue
			}
			what := fmt.Sprintf("genuine block %d, asked for %v ago", rq.h, (t - rq.at).Round(ms))
			if rq.withheld {
				what += " (withheld until now: " + p.spec.Then + ")"
				run.Count("wh_withheld_blocks_delivered:"+p.spec.Then, 1)
			}
			run.Count("wh_blocks_served", 1)
			if d := w.delivered[rq.h]; d == "" {
				w.delivered[rq.h] = p.name
			} else if d != p.name {
				run.Count("wh_blocks_served_that_another_peer_had_delivered_before", 1)
				what += ", delivered before by " + d
			}
			if !w.send(p, "BlockResponse", what, b) {
				return false
			}
		}
	}
	return true
}

// WithheldLowest runs one script.
func (rn *Runner) WithheldLowest(sc whScript) {
	e, run := rn.e, rn.run
	w := &whRun{rn: rn, e: e, l: snapshot(e), sc: sc, asked: map[uint64][]string{}, delivered: map[uint64]string{}, t0: time.Now()}
	w.top = w.l.StoreH
	if w.top < 3 {
		run.Inconclusive(fmt.Sprintf("withheld-lowest: the reference chain has only %d blocks", w.top))
		return
	}
	nw, nh := 0, 0
	for _, s := range sc.Peers {
		p := &whPeer{spec: s, top: w.top - s.Lower}
		switch s.Role {
		case "withholder":
			nw++
			p.name = fmt.Sprintf("W%d", nw)
		case "honest":
			nh++
			p.name = fmt.Sprintf("H%d", nh)
		default:
			p.name = "S"
		}
		w.peers = append(w.peers, p)
		w.busy(s.Join + 200*ms)
	}
	atomic.StoreInt32(&formatLogs, 1)
	defer atomic.StoreInt32(&formatLogs, 0)
	rn.resetChildLog("withheld-lowest", nil)
	w.logf("PLAN %s (reference chain: %d blocks, peer timeout %v)", sc, w.top, whPeerTimeout)
	rn.outbound = false
	rn.a0 = heapAllocs()
	heap0 := liveHeap()
	run.Count("sessions", 1)
	goal := w.top - 1 // the last block cannot be verified without its successor's commit
	maxWait := whPeerTimeout + 8*time.Second
	w.t0 = time.Now()
	synced := time.Duration(0)
	for {
		t := w.now()
		for _, p := range w.peers {
			if p.p == nil && t >= p.spec.Join {
				if !w.join(p) {
					return
				}
			}
			if p.p != nil && !p.left && p.leaveAt > 0 && t >= p.leaveAt {
				if !w.leave(p, p.spec.Then) {
					return
				}
			}
		}
		if !w.scan() || !w.serve() || rn.broken {
			return
		}
		if synced == 0 && e.BC.SyncHeight() >= goal {
			synced = w.now()
			w.logf("SYNCED the node has applied block %d", e.BC.SyncHeight())
			w.busy(synced + 300*ms) // the switch to consensus
		}
		t = w.now()
		if t > maxWait || (synced > 0 && t > w.busyUntil) {
			break
		}
		time.Sleep(ms)
	}
	// ---- evidence
	got := e.BC.SyncHeight()
	run.Count("wh_cases", 1)
	run.Max("wh_max_height_synced", int64(got))
	var withheld []string
	for _, p := range w.peers {
		if len(p.withheld) > 0 {
			withheld = append(withheld, fmt.Sprintf("%s:%v", p.spec.Then, p.withheld))
		}
	}
	sort.Strings(withheld)
	outcome := "synced to top-1"
	if got < goal {
		outcome = "not synced by the deadline"
		run.Count("wh_cases_not_synced_by_the_deadline", 1)
	} else {
		run.Count("wh_cases_synced_as_far_as_the_reported_chain_allows", 1)
		if !e.Cons.WaitSync() {
			run.Count("wh_cases_switched_to_consensus", 1)
		}
	}
	run.Distinct("wh_outcome", fmt.Sprintf("withheld %v -> %s", withheld, outcome))
	w.logf("END block store at %d, sync height %d of %d, withheld %v", e.V.BO.Height(), got, w.top, withheld)
	wit := func() map[string]interface{} {
		return rn.witness("withheld-lowest", w.sess, len(w.sess)-1, map[string]interface{}{"script": sc.String()})
	}
	// ---- until the switch to consensus (made by the event loop itself) the event loop lives; a panic in it or in the
	// scheduler / processor routines ends the process, which core attributes to this case: this is the belt to those braces
	if e.Cons.WaitSync() && goroutineOf("blockchain.(*BlockchainReactor).demux") == "" && e.Cons.WaitSync() {
		rn.broken = true
		rn.c.Violation("goroutine-dead:blockchain:demux", "the event loop of the block sync is gone although the node has not switched to consensus", wit())
		return
	}
	// ---- the node still answers: a fresh peer asks for its status
	probe := &whPeer{name: "P", spec: whSpec{Role: "probe"}}
	if !w.join(probe) {
		return
	}
	probe.p.takeOut()
	b, _ := blockchain.EncodeMsg(&bcproto.StatusRequest{})
	if !w.send(probe, "StatusRequest", "asks for the node's status", b) {
		return
	}
	answered := false
	for t1 := time.Now(); !answered && time.Since(t1) < 10*time.Second; time.Sleep(2 * ms) {
		for _, o := range probe.p.takeOut() {
			if o.Ch != blockchain.BlockchainChannel {
				continue
			}
			if m, err := blockchain.DecodeMsg(o.Bytes); err == nil {
				if st, ok := m.(*bcproto.StatusResponse); ok {
					answered = true
					run.Max("wh_max_height_reported_by_the_node_afterwards", int64(st.Height))
				}
			}
		}
	}
	if !answered {
		rn.broken = true
		rn.c.Violation("no-answer:blockchain:StatusRequest", "after the sync life cycle the node does not answer a status request within 10 s", wit())
		return
	}
	run.Count("wh_probe_status_answers", 1)
	if !rn.probes(probe.p, "withheld-lowest", w.sess, len(w.sess)-1, "blockchain", "BlockResponse") {
		return
	}
	total := 0
	for _, m := range w.sess {
		total += len(m.Bytes)
	}
	// (the case lasts many seconds of idle gossip and ticker loops: what counts is the memory the node keeps, not what it turned over)
	if h1 := liveHeap(); h1 > heap0+uint64(allocConst+allocFactor*total)+64<<20 {
		rn.c.Violation("alloc:blockchain:withheld-lowest", fmt.Sprintf("after a sync life cycle of %d message bytes the node keeps %d bytes more of live heap (%d before, %d after a collection)", total, h1-heap0, heap0, h1), wit())
	}
	// ---- everybody leaves
	for _, p := range append(w.peers, probe) {
		if p.p != nil && !p.left {
			if !w.leave(p, "end") {
				return
			}
		}
	}
	if len(withheld) > 0 {
		run.Nontrivial("withheld-lowest " + sc.String())
	}
	if rn.c.I < 2 || got < goal {
		var tl []string
		for _, m := range w.sess {
			if len(tl) < 40 {
				tl = append(tl, m.Kind+": "+m.Mut)
			}
		}
		run.Sample(map[string]interface{}{"group": rn.c.Group, "case": rn.c.I, "script": sc.String(), "withheld": withheld, "sync_height": got, "reported_top": w.top, "first_steps": tl})
	}
}

// withheldLowest: the group.
func withheldLowest(r *core.Run) {
	directed := whDirected()
	r.Cases("blocksync-withheld-lowest", r.N(len(directed), whThorough), childOpts, func(c *core.Case) {
		sc := whRandom(c.R)
		if c.I < len(directed) {
			sc = directed[c.I]
		} else {
			sc.Peers[0].Then = whThens[(c.I-len(directed))%len(whThens)] // every variant in any six consecutive cases
		}
		SyncPeerTimeout, NoAnchor = whPeerTimeout, true
		defer func() { SyncPeerTimeout, NoAnchor = 0, false }()
		rn := open(c, envSpec{Mode: "syncing", Height: sc.Height})
		if rn == nil {
			return
		}
		defer func() { rn.close() }()
		rn.WithheldLowest(sc)
	})
}
