package c18

import (
	"fmt"
	"hash"
	"hash/fnv"
	"io"
	"math/rand"
	"net"
	"runtime"
	"sort"
	"strings"
	"sync"
	"sync/atomic"
	"time"

	"github.com/kardiachain/go-kardia/lib/log"
	"github.com/kardiachain/go-kardia/lib/p2p/conn"
	kp2p "github.com/kardiachain/go-kardia/proto/kardiachain/p2p"

	"verifharness/core"
)

// Unterminated messages. A peer is free to send PacketMsg fragments with EOF=false for
// ever. The reference model: the bytes a channel buffers for its unfinished message
// never exceed the channel's RecvMessageCapacity; the fragment that would take it over
// the capacity ends the connection with an error (the switch then drops the peer).
//
// The streams are generated lazily (a stream may be hundreds of megabytes long when the
// node does not stop it). Between the fragments the peer sends complete, well-formed
// messages on other channels. The connection handles frames strictly in the order in
// which they were written, therefore a complete message that is DELIVERED proves that
// every frame written before it was accepted without an error: the verdict "the node
// buffers an unfinished message beyond the capacity" is decided by that delivery and by
// the number of bytes written before it, never by timing.

type sframe struct {
	ch    byte
	n     int  // payload length
	eof   bool // terminates the message on ch
	valid bool // a complete interleaved message (single fragment, EOF)
	ping  bool
}

// streamSpec describes one peer behaviour; frames are a deterministic function of the spec.
type streamSpec struct {
	Name   string
	Chans  []byte // channels carrying an unterminated message (round-robin)
	Frag   int    // payload bytes per fragment
	Beyond int    // bytes the peer goes on sending on each streamed channel after the model's bound was crossed
	Every  int    // a complete message on a side channel after every Every fragments (0: none)
	Side   []byte // side channels (round-robin)
	// shape of the stream
	Mode string // "forever": EOF never set; "exact-then-eof": exactly the capacity, terminated (must be delivered), then exactly the
	// capacity again without EOF (allowed), a side message (must be delivered), then one more byte (must end the connection);
	// "below-then-eof": three terminated messages of capacity-1, capacity, 1 bytes (all delivered);
	// "empty-forever": fragments without payload (never over the capacity: the connection stays up)
	Count int // number of fragments for the modes that do not run to a bound
}

func (s streamSpec) String() string {
	var cs []string
	for _, c := range s.Chans {
		cs = append(cs, fmt.Sprintf("%#02x", c))
	}
	return fmt.Sprintf("%s: %s on channels [%s], %d-byte fragments, complete message on another channel every %d fragments", s.Name, s.Mode, strings.Join(cs, " "), s.Frag, s.Every)
}

// pattern fills b with bytes that depend on the frame number (reassembly is checked by hash).
func pattern(b []byte, k int) {
	x := uint32(k)*2654435761 + 12345
	for i := range b {
		x = x*1664525 + 1013904223
		b[i] = byte(x >> 24)
	}
}

type sdelivery struct {
	ch  byte
	n   int
	sum uint64
}

func sumOf(b []byte) uint64 {
	h := fnv.New64a()
	h.Write(b)
	return h.Sum64()
}

// liveHeap: bytes of live heap objects after a collection.
func liveHeap() uint64 {
	runtime.GC()
	var ms runtime.MemStats
	runtime.ReadMemStats(&ms)
	return ms.HeapAlloc
}

// runStream plays the peer described by spec against a fresh connection.
func (rig *mconnRig) runStream(c *core.Case, spec streamSpec) {
	run := c.Run
	// (at most a few hundred complete messages per stream: each completed message makes the channel allocate a new receive buffer)
	for _, ch := range spec.Chans {
		if spec.Frag > 0 && spec.Every > 0 && spec.Every < rig.caps[ch]/spec.Frag/300 {
			spec.Every = rig.caps[ch] / spec.Frag / 300
		}
	}
	c1, c2 := net.Pipe()
	var mu sync.Mutex
	var got []sdelivery
	var errs []string
	var errored int32
	onReceive := func(ch byte, b []byte) {
		d := sdelivery{ch, len(b), sumOf(b)}
		mu.Lock()
		got = append(got, d)
		mu.Unlock()
	}
	onError := func(r interface{}) {
		mu.Lock()
		errs = append(errs, fmt.Sprint(r))
		mu.Unlock()
		atomic.StoreInt32(&errored, 1)
	}
	heap0 := liveHeap()
	mc := conn.NewMConnectionWithConfig(c2, rig.chDescs, onReceive, onError, rig.cfg)
	pc := &panicCatcher{}
	lg := log.New()
	lg.SetHandler(pc)
	mc.SetLogger(lg)
	if err := mc.Start(); err != nil {
		run.Inconclusive("mconn start: " + err.Error())
		return
	}
	go io.Copy(io.Discard, c1)
	a0 := heapAllocs()

	// ---- model state
	buffered := map[byte]int{}        // bytes of the unfinished message per channel
	hashers := map[byte]hash.Hash64{} // ... and the running hash of its content
	var exp []sdelivery               // deliveries the model demands, in order (everything terminated before the bound)
	crossed := false                  // some channel was asked to buffer more than its capacity: the connection must end, nothing may be delivered any more
	var crossedCh byte                // that channel
	crossedBuffered := 0              // bytes the peer had sent for the unfinished message when it crossed the bound
	sentOn := map[byte]int{}          // payload bytes written for the current unfinished message per channel
	pastBound := 0                    // payload bytes written on the crossed channel from the crossing fragment on
	var probeBytesBefore []int        // for each complete message written after the bound: bytes of the unfinished message written before it
	nFrag, nBytes, nSideMsgs := 0, 0, 0
	total := 0
	var werr error
	buf := make([]byte, 0, rig.cfg.MaxPacketMsgPayloadSize+64)
	frameNo := 0
	write := func(f sframe) bool {
		if frameNo%256 == 0 {
			c1.SetWriteDeadline(time.Now().Add(120 * time.Second)) // (a write returns as soon as the connection has read the frame or was closed)
		}
		frameNo++
		var pkt []byte
		if f.ping {
			pkt = mustMarshal(&kp2p.Packet{Sum: &kp2p.Packet_PacketPing{PacketPing: &kp2p.PacketPing{}}})
		} else {
			buf = buf[:f.n]
			pattern(buf, frameNo)
			pkt = packetMsg(int32(f.ch), buf, f.eof)
			// the model
			if !crossed {
				if buffered[f.ch]+f.n > rig.caps[f.ch] {
					crossed, crossedCh, crossedBuffered = true, f.ch, buffered[f.ch]+f.n
				} else {
					buffered[f.ch] += f.n
					h := hashers[f.ch]
					if h == nil {
						h = fnv.New64a()
						hashers[f.ch] = h
					}
					h.Write(buf)
					if f.eof {
						exp = append(exp, sdelivery{f.ch, buffered[f.ch], h.Sum64()})
						buffered[f.ch] = 0
						delete(hashers, f.ch)
					}
				}
			} else if f.valid {
				probeBytesBefore = append(probeBytesBefore, sentOn[crossedCh])
			}
		}
		fb := delimited(pkt)
		total += len(fb)
		if _, werr = c1.Write(fb); werr != nil {
			return false
		}
		switch {
		case f.ping:
		case f.valid:
			nSideMsgs++
		default:
			nFrag++
			nBytes += f.n
			sentOn[f.ch] += f.n
			if f.eof {
				sentOn[f.ch] = 0
			}
			if crossed && f.ch == crossedCh {
				pastBound += f.n
			}
		}
		return atomic.LoadInt32(&errored) == 0
	}
	side := func(k int) sframe {
		ch := spec.Side[k%len(spec.Side)]
		return sframe{ch: ch, n: 1 + (k*37)%200, eof: true, valid: true}
	}
	play := func() {
		k := 0
		frag := func(ch byte, n int, eof bool) bool {
			if !write(sframe{ch: ch, n: n, eof: eof}) {
				return false
			}
			k++
			if spec.Every > 0 && k%spec.Every == 0 {
				if !write(side(k / spec.Every)) {
					return false
				}
				if k%(3*spec.Every) == 0 && !write(sframe{ping: true}) {
					return false
				}
			}
			return true
		}
		// fill sends exactly n bytes on ch in fragments of spec.Frag, the last one with the given EOF flag
		fill := func(ch byte, n int, eof bool) bool {
			for n > 0 {
				m := spec.Frag
				if m > n {
					m = n
				}
				n -= m
				if !frag(ch, m, eof && n == 0) {
					return false
				}
			}
			return true
		}
		switch spec.Mode {
		case "forever":
			for {
				progress := false
				for _, ch := range spec.Chans {
					if crossed && pastBound >= spec.Beyond {
						return
					}
					if !frag(ch, spec.Frag, false) {
						return
					}
					progress = true
				}
				if !progress {
					return
				}
			}
		case "empty-forever":
			for i := 0; i < spec.Count; i++ {
				if !frag(spec.Chans[i%len(spec.Chans)], 0, false) {
					return
				}
			}
		case "below-then-eof":
			ch := spec.Chans[0]
			capa := rig.caps[ch]
			for _, n := range []int{capa - 1, capa, 1} {
				if !fill(ch, n, true) {
					return
				}
			}
		case "exact-then-eof":
			ch := spec.Chans[0]
			capa := rig.caps[ch]
			if !fill(ch, capa, true) {
				return
			}
			if !fill(ch, capa, false) { // exactly the capacity, unfinished: allowed
				return
			}
			if !write(side(1)) { // ... the connection is still up
				return
			}
			if !frag(ch, 1, false) { // one byte more is too much
				return
			}
			for pastBound < spec.Beyond { // (a node that tolerates it is sent much more)
				if !frag(ch, spec.Frag, false) {
					return
				}
			}
		}
	}
	play()
	// the final complete message: it is delivered if and only if the connection accepted everything before it
	if werr == nil && atomic.LoadInt32(&errored) == 0 {
		write(side(999))
	}
	wantAll := len(exp) + len(probeBytesBefore)
	deadline := time.Now().Add(60 * time.Second)
	for time.Now().Before(deadline) {
		mu.Lock()
		ng, ne := len(got), len(errs)
		mu.Unlock()
		if ne > 0 || ng >= wantAll {
			break
		}
		time.Sleep(200 * time.Microsecond)
	}
	time.Sleep(300 * time.Microsecond)
	mu.Lock()
	gotS, errS := append([]sdelivery(nil), got...), append([]string(nil), errs...)
	mu.Unlock()
	heap1 := liveHeap() // the connection and its buffers are still referenced
	c1.Close()
	stopped := make(chan struct{})
	go func() { mc.Stop(); close(stopped) }()
	wit := map[string]interface{}{"peer": spec.String(), "fragments_written": nFrag, "fragment_bytes_written": nBytes, "complete_messages_written": nSideMsgs,
		"delivered": len(gotS), "errors": errS, "capacities": rig.capsWitness(spec)}
	select {
	case <-stopped:
	case <-time.After(20 * time.Second):
		c.Violation("hang:mconn:Stop", "MConnection.Stop does not return after a stream of fragments", wit)
		return
	}
	alloc := heapAllocs() - a0
	runtime.KeepAlive(mc)

	// ---- oracle
	pc.mu.Lock()
	pstack, perr := pc.stack, pc.err
	pc.mu.Unlock()
	if pstack != "" {
		wit["stack"] = firstLines(skipToPanic(pstack), 30)
		c.Violation("panic:mconn:packet:"+frameKey(skipToPanic(pstack)), "MConnection.recvRoutine panicked (recovered by the connection): "+short(perr, 200), wit)
		return
	}
	for _, e := range errS {
		if strings.Contains(e, "recovered from panic") {
			c.Violation("panic:mconn:packet:unknown-frame", "MConnection panicked: "+short(e, 200), wit)
			return
		}
	}
	for _, d := range gotS {
		if d.n > rig.caps[d.ch] {
			c.Violation("mconn:delivered-beyond-capacity", fmt.Sprintf("a message of %d bytes was delivered on channel %#x whose RecvMessageCapacity is %d", d.n, d.ch, rig.caps[d.ch]), wit)
			return
		}
	}
	// everything terminated before the bound must be delivered, in order and unchanged
	for i := 0; i < len(gotS) && i < len(exp); i++ {
		if gotS[i] != exp[i] {
			c.Violation("mconn:reassembly", fmt.Sprintf("delivery %d differs from the concatenation of the fragments sent (channel %#x/%#x, %d/%d bytes)", i, gotS[i].ch, exp[i].ch, gotS[i].n, exp[i].n), wit)
			return
		}
	}
	if crossed {
		wit["capacity_exceeded_on_channel"] = fmt.Sprintf("%#02x", crossedCh)
		wit["bytes_of_unfinished_message_when_capacity_was_exceeded"] = crossedBuffered
		wit["bytes_written_on_that_channel_from_then_on"] = pastBound
	}
	if len(gotS) > len(exp) {
		if crossed {
			// a complete message written after the bound was delivered: all fragments written before it were accepted
			accepted := crossedBuffered
			if j := len(gotS) - len(exp) - 1; j < len(probeBytesBefore) {
				accepted = probeBytesBefore[j]
			}
			wit["bytes_of_the_unfinished_message_accepted"] = accepted
			c.Violation("mconn:unfinished-message-beyond-capacity", fmt.Sprintf("the connection accepted %d bytes of a message that is never terminated on channel %#x (RecvMessageCapacity %d: %.1fx) and went on delivering the peer's later messages: the buffer is not bounded by the capacity, the peer was not dropped",
				accepted, crossedCh, rig.caps[crossedCh], float64(accepted)/float64(rig.caps[crossedCh])), wit)
			return
		}
		c.Violation("mconn:delivery-not-sent", fmt.Sprintf("%d messages delivered, %d sent", len(gotS), len(exp)), wit)
		return
	}
	if !crossed && len(errS) > 0 {
		c.Violation("mconn:valid-sequence-refused", "no channel was asked to buffer more than its capacity, but the connection ended with an error: "+short(errS[0], 200), wit)
		return
	}
	if len(gotS) < len(exp) && len(errS) > 0 {
		// (the error is raised by the goroutine that delivers, after everything written earlier)
		c.Violation("mconn:message-lost", fmt.Sprintf("%d of the %d well-formed messages that precede the violation of the capacity were delivered", len(gotS), len(exp)), wit)
		return
	}
	if len(errS) > 1 {
		c.Violation("mconn:onError-twice", "onError called more than once", wit)
	}
	if len(errS) == 0 && (crossed || len(gotS) < len(exp)) {
		// neither an error nor the delivery of the final message within a minute: cannot be attributed by counting
		run.Inconclusive(fmt.Sprintf("mconn stream %s: no error raised and the final message not delivered within 60 s (capacity exceeded: %v, %d bytes written past the bound, %d/%d delivered, write error: %v)", spec.Name, crossed, pastBound, len(gotS), len(exp), werr))
		return
	}
	// retained memory: what the connection keeps is bounded by the capacities of the channels used, whatever the number of fragments
	sumCaps := 0
	for _, ch := range spec.Chans {
		sumCaps += rig.caps[ch]
	}
	if heap1 > heap0 {
		run.Max("mconn_stream_max_live_heap_growth_bytes", int64(heap1-heap0))
	}
	if heap1 > heap0 && heap1-heap0 > uint64(2*sumCaps+24<<20) {
		c.Violation("alloc:mconn:unfinished-message-retained", fmt.Sprintf("after %d fragments (%d bytes) of unterminated messages the live heap grew by %d bytes (capacities of the channels used: %d)", nFrag, nBytes, heap1-heap0, sumCaps), wit)
	}
	if alloc > uint64(64<<20+allocFactor*total)+uint64(len(gotS))*(9<<20) {
		c.Violation("alloc:mconn:packet", fmt.Sprintf("%d frame bytes made the connection allocate %d bytes", total, alloc), wit)
	}
	run.Eval(nFrag + nSideMsgs)
	run.Count("frames", nFrag+nSideMsgs)
	run.Count("mconn_streams", 1)
	run.Count("mconn_stream_fragments_without_eof", nFrag)
	run.Count("mconn_stream_bytes_without_eof", nBytes)
	run.Count("mconn_stream_complete_messages_interleaved", nSideMsgs)
	run.Count("mconn_stream_complete_messages_delivered", len(gotS))
	run.Distinct("mconn_stream_shape", fmt.Sprintf("%s x%d frag=%d", spec.Mode, len(spec.Chans), spec.Frag))
	for _, ch := range spec.Chans {
		run.Distinct("mconn_stream_channel", fmt.Sprintf("%#02x capacity %d", ch, rig.caps[ch]))
	}
	if crossed {
		run.Count("mconn_streams_beyond_capacity", 1)
		run.Count("mconn_streams_dropped_for_capacity", 1)
		run.Count("mconn_stream_bytes_written_past_capacity", pastBound)
		run.Max("mconn_stream_max_bytes_written_past_capacity_before_the_drop", int64(pastBound))
		run.Max("mconn_stream_max_bytes_buffered_model", int64(crossedBuffered))
		run.Distinct("mconn_error", classify(errS[0]))
		if rig.caps[crossedCh] <= 1<<16 {
			run.Count("mconn_streams_dropped_for_capacity:small_channel", 1)
		}
		if rig.caps[crossedCh] >= 1<<20 {
			run.Count("mconn_streams_dropped_for_capacity:large_channel", 1)
		}
		if len(spec.Chans) > 1 {
			run.Count("mconn_streams_dropped_for_capacity:several_channels", 1)
		}
	} else {
		run.Count("mconn_streams_within_capacity_all_delivered", 1)
	}
	run.Nontrivial(fmt.Sprintf("mconn-stream %s %v %d %d", spec.Mode, spec.Chans, spec.Frag, spec.Every))
	if c.I < 2 {
		run.Sample(map[string]interface{}{"group": c.Group, "case": c.I, "peer": spec.String(), "fragments_written": nFrag, "bytes_in_fragments": nBytes,
			"complete_messages_delivered": len(gotS), "connection_error": errS, "bytes_written_past_capacity_before_drop": pastBound})
	}
}

func (rig *mconnRig) capsWitness(spec streamSpec) map[string]int {
	out := map[string]int{}
	for _, ch := range spec.Chans {
		out[fmt.Sprintf("%#02x", ch)] = rig.caps[ch]
	}
	return out
}

func (rig *mconnRig) channels() []byte {
	var chs []byte
	for ch := range rig.caps {
		chs = append(chs, ch)
	}
	sort.Slice(chs, func(i, j int) bool { return chs[i] < chs[j] })
	return chs
}

// others returns the channels not in use, in order.
func (rig *mconnRig) others(use []byte) []byte {
	var out []byte
	for _, ch := range rig.channels() {
		in := false
		for _, u := range use {
			in = in || u == ch
		}
		if !in {
			out = append(out, ch)
		}
	}
	return out
}

// beyondFor: how far past the capacity the peer goes on sending (only a node that does not stop it receives that much).
func (rig *mconnRig) beyondFor(chs []byte, quick bool) int {
	maxCap := 0
	for _, ch := range chs {
		if rig.caps[ch] > maxCap {
			maxCap = rig.caps[ch]
		}
	}
	b := 16 * maxCap
	if b < 48<<20 {
		b = 48 << 20
	}
	if maxCap > 32<<20 { // the block-sync channel (100 MB)
		b = maxCap
		if quick {
			b = 8 << 20
		}
	}
	return b
}

// streamCorpus: every channel alone with full-size fragments; small fragments; several channels at once; the edges of the capacity.
func (rig *mconnRig) streamCorpus(quick bool) []streamSpec {
	var out []streamSpec
	chs := rig.channels()
	maxP := rig.cfg.MaxPacketMsgPayloadSize
	for i, ch := range chs {
		use := []byte{ch}
		out = append(out, streamSpec{Name: fmt.Sprintf("solo-%#02x", ch), Chans: use, Frag: maxP, Beyond: rig.beyondFor(use, quick), Every: 5 + i, Side: rig.others(use), Mode: "forever"})
	}
	for i, ch := range chs {
		use := []byte{ch}
		if rig.caps[ch] > 32<<20 && quick {
			continue
		}
		out = append(out, streamSpec{Name: fmt.Sprintf("edge-%#02x", ch), Chans: use, Frag: maxP, Beyond: rig.beyondFor(use, quick), Every: 11 + i, Side: rig.others(use), Mode: "exact-then-eof"})
		out = append(out, streamSpec{Name: fmt.Sprintf("below-%#02x", ch), Chans: use, Frag: maxP - 1, Every: 13 + i, Side: rig.others(use), Mode: "below-then-eof"})
	}
	// small fragments on the channel with the smallest capacity, odd sizes elsewhere
	small := chs[0]
	for _, ch := range chs {
		if rig.caps[ch] < rig.caps[small] {
			small = ch
		}
	}
	for _, fr := range []int{1, 7, 100} {
		use := []byte{small}
		out = append(out, streamSpec{Name: fmt.Sprintf("small-fragments-%d", fr), Chans: use, Frag: fr, Beyond: 16 * rig.caps[small], Every: 50, Side: rig.others(use), Mode: "forever"})
	}
	// several channels at once
	var mid []byte // channels of up to 2 MB
	for _, ch := range chs {
		if rig.caps[ch] <= 2<<20 {
			mid = append(mid, ch)
		}
	}
	if len(mid) >= 3 {
		out = append(out, streamSpec{Name: "all-but-one", Chans: mid[1:], Frag: maxP, Beyond: rig.beyondFor(mid[1:], quick), Every: 9, Side: rig.others(mid[1:]), Mode: "forever"})
		out = append(out, streamSpec{Name: "pair", Chans: mid[len(mid)-2:], Frag: 1000, Beyond: rig.beyondFor(mid, quick), Every: 4, Side: rig.others(mid[len(mid)-2:]), Mode: "forever"})
		out = append(out, streamSpec{Name: "small-and-large", Chans: []byte{small, mid[len(mid)-1]}, Frag: 512, Beyond: rig.beyondFor(mid, quick), Every: 6, Side: rig.others([]byte{small, mid[len(mid)-1]}), Mode: "forever"})
	}
	out = append(out, streamSpec{Name: "empty-fragments", Chans: chs[:3], Frag: 0, Every: 17, Side: rig.others(chs[:3]), Mode: "empty-forever", Count: 20000})
	return out
}

func (rig *mconnRig) randomStream(r *rand.Rand, quick bool) streamSpec {
	chs := rig.channels()
	var cand []byte
	for _, ch := range chs {
		if rig.caps[ch] <= 2<<20 || (!quick && r.Intn(8) == 0) {
			cand = append(cand, ch)
		}
	}
	r.Shuffle(len(cand), func(i, j int) { cand[i], cand[j] = cand[j], cand[i] })
	n := 1 + r.Intn(3)
	if n > len(cand)-1 {
		n = len(cand) - 1
	}
	use := append([]byte(nil), cand[:n]...)
	maxP := rig.cfg.MaxPacketMsgPayloadSize
	fr := []int{maxP, maxP, maxP - 1, 1000, 513, 256}[r.Intn(6)]
	sp := streamSpec{Name: "random", Chans: use, Frag: fr, Beyond: rig.beyondFor(use, quick), Every: 2 + r.Intn(40), Side: rig.others(use), Mode: "forever"}
	switch r.Intn(6) {
	case 0:
		sp.Mode, sp.Chans = "exact-then-eof", use[:1]
		sp.Side, sp.Beyond = rig.others(sp.Chans), rig.beyondFor(sp.Chans, quick)
	case 1:
		sp.Mode, sp.Chans = "below-then-eof", use[:1]
		sp.Side = rig.others(sp.Chans)
	}
	return sp
}

// mconnStreamGroup: unterminated messages on every channel.
func mconnStreamGroup(r *core.Run) {
	quick := r.Quick()
	// the corpus is spread over the first cases; the others draw random peers
	const perCase = 2
	var nCorpus int
	{
		// (the corpus depends only on the channel descriptors, which are constants of the product; 8 channels)
		nCorpus = 8 + 16 + 3 + 3 + 1
	}
	corpusCases := (nCorpus + perCase - 1) / perCase
	r.Cases("mconn-stream", corpusCases+r.N(8, 160), childOpts, func(c *core.Case) {
		e, err := NewEnv("syncing", 2)
		if err != nil {
			r.Inconclusive("environment: " + err.Error())
			return
		}
		defer e.Close()
		rig := newRig(e)
		corpus := rig.streamCorpus(quick)
		if c.I < corpusCases {
			for k := c.I * perCase; k < (c.I+1)*perCase && k < len(corpus); k++ {
				rig.runStream(c, corpus[k])
			}
			if c.I == corpusCases-1 {
				for k := corpusCases * perCase; k < len(corpus); k++ { // (a corpus longer than planned)
					rig.runStream(c, corpus[k])
				}
			}
			return
		}
		for i := 0; i < 3; i++ {
			rig.runStream(c, rig.randomStream(c.R, quick))
		}
	})
}
