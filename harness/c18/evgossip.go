package c18

import (
	"fmt"
	"time"

	"github.com/kardiachain/go-kardia/consensus"
	cstypes "github.com/kardiachain/go-kardia/consensus/types"
	"github.com/kardiachain/go-kardia/types"
	"github.com/kardiachain/go-kardia/types/evidence"

	"verifharness/core"
)

// Group reactor-gossip (registered under C19): whom the real evidence reactor sends pending evidence to. A correct
// peer that is still deciding height h has no block h: it cannot verify evidence of height h or later, rejects it as
// invalid and disconnects the sender - evidence produced by a correct node would be refused by a correct node. Scripted
// peers announce their heights to the node's real consensus reactor (which keeps the peer state the evidence reactor
// reads), then genuine evidence of an earlier height becomes pending in the node's pool and its per-peer broadcast
// routines decide. Every evidence a peer receives must be of a height below the height that peer announced; that the
// peers far enough ahead do receive it is observed (counted, with a floor), not judged on a clock.
func EvidenceGossipCase(c *core.Case) {
	rg, run := c.R, c.Run
	e, err := NewEnv("caughtup", uint64(2+rg.Intn(3)))
	if err != nil {
		run.Inconclusive("environment: " + err.Error())
		return
	}
	defer e.Close()
	l := snapshot(e)
	H := l.H // the node decides H; blocks 1..H-1 exist
	if H < 2 {
		run.Inconclusive("no committed height")
		return
	}
	evH := uint64(1 + rg.Intn(int(H-1)))
	ev := l.evidenceAt(evH, rg)
	if ev == nil {
		run.Inconclusive("cannot build evidence")
		return
	}
	type sp struct {
		p  *StubPeer
		ph uint64
	}
	var peers []sp
	heights := []uint64{evH, evH + 1, evH, H, H + 1}
	if evH > 1 {
		heights = append(heights, evH-1)
	}
	// Composition: in the node the evidence reactor reads the peer state the consensus reactor keeps. That type
	// (consensus.PeerState) has no GetHeight method, so the evidence reactor's type assertion fails and it never sends
	// anything (observed in the even cases: counted, nothing to judge). The odd cases give the peers a state object
	// that does implement the interface the evidence reactor declares: the send rule is decided there.
	conforming := c.I%2 == 1
	for _, ph := range heights {
		p := e.AddPeer(rg.Intn(2) == 0)
		if conforming {
			p.Set(types.PeerStateKey, heightState(ph))
		} else {
			lcr := uint32(1)
			if ph == 1 {
				lcr = 0
			}
			e.Cons.Receive(consensus.StateChannel, p, consensus.MustEncode(&consensus.NewRoundStepMessage{Height: ph, Round: 1, Step: cstypes.RoundStepType(1 + rg.Intn(6)), LastCommitRound: lcr}))
			if !p.BaseService.IsRunning() {
				run.Inconclusive("the node refused a peer's announcement: " + capture.lastStop())
				return
			}
		}
		p.takeOut()
		peers = append(peers, sp{p, ph})
	}
	if err := e.V.EvPool.AddEvidence(ev); err != nil {
		run.Inconclusive("the node's pool refuses genuine evidence: " + err.Error())
		return
	}
	run.Eval(1)
	// observe: until every peer that is far enough ahead has the evidence (bounded), then a little longer
	got := make([][]uint64, len(peers))
	collect := func() {
		for i, s := range peers {
			for _, o := range s.p.takeOut() {
				if o.Ch != evidence.EvidenceChannel {
					continue
				}
				evs, err := evidence.VerifDecodeMsg(o.Bytes)
				if err != nil {
					continue
				}
				for _, x := range evs {
					got[i] = append(got[i], x.Height())
				}
			}
		}
	}
	maxPolls := 1500
	if !conforming {
		maxPolls = 100
	}
	for poll := 0; poll < maxPolls; poll++ {
		collect()
		all := true
		for i, s := range peers {
			if s.ph > evH && len(got[i]) == 0 {
				all = false
			}
		}
		if all {
			break
		}
		time.Sleep(2 * time.Millisecond)
	}
	time.Sleep(150 * time.Millisecond)
	collect()
	for i, s := range peers {
		rel := "ahead"
		if s.ph <= evH {
			rel = "deciding-the-evidence-height-or-behind"
		}
		comp := "node-composition:"
		if conforming {
			comp = "conforming-peer-state:"
		}
		if len(got[i]) > 0 {
			run.Count("evidence_gossip_received_by_peers:"+comp+rel, 1)
		} else {
			run.Count("evidence_gossip_not_received_by_peers:"+comp+rel, 1)
		}
		for _, h := range got[i] {
			if h >= s.ph {
				c.Violation("evidence-gossip:sent-to-a-peer-that-cannot-verify-it", fmt.Sprintf("the evidence reactor sent evidence of height %d to a peer that announced height %d (it is still deciding that height and has no block %d: a correct peer rejects the evidence as invalid and disconnects the sender); the node is at height %d", h, s.ph, h, H),
					map[string]interface{}{"evidence_height": h, "peer_height": s.ph, "node_height": H})
				return
			}
		}
	}
	run.Nontrivial(fmt.Sprint("evgossip", c.I, evH, H))
}

// heightState implements the PeerState interface types/evidence/reactor.go declares.
type heightState uint64

func (h heightState) GetHeight() uint64 { return uint64(h) }
