package c18

import (
	"encoding/binary"
	"fmt"
	"math/rand"
)

// Protobuf-structure-aware mutation of encoded messages: the wire format is parsed
// into a tree of fields (length-delimited payloads that parse cleanly are treated as
// nested messages); a mutation changes one field number, wire type, length prefix,
// truncates, duplicates, deletes or reorders fields, or falls back to plain byte
// noise.

type wfield struct {
	num    uint64
	wt     uint64
	start  int // offset of the key
	vstart int // offset of the value (after key, and after the length prefix for wt 2)
	end    int
	lenAt  int // offset of the length prefix (wt 2), else -1
}

func parseFields(b []byte, base int) ([]wfield, bool) {
	var out []wfield
	i := 0
	for i < len(b) {
		key, n := binary.Uvarint(b[i:])
		if n <= 0 {
			return out, false
		}
		f := wfield{num: key >> 3, wt: key & 7, start: base + i, lenAt: -1}
		i += n
		switch f.wt {
		case 0:
			_, m := binary.Uvarint(b[i:])
			if m <= 0 {
				return out, false
			}
			f.vstart = base + i
			i += m
		case 1:
			f.vstart = base + i
			i += 8
		case 5:
			f.vstart = base + i
			i += 4
		case 2:
			l, m := binary.Uvarint(b[i:])
			if m <= 0 || l > uint64(len(b)-i-m) {
				return out, false
			}
			f.lenAt = base + i
			i += m
			f.vstart = base + i
			i += int(l)
		default:
			return out, false
		}
		if i > len(b) || f.num == 0 {
			return out, false
		}
		f.end = base + i
		out = append(out, f)
	}
	return out, true
}

// allFields lists the fields of the message and of every nested payload that parses
// as a message (depth-limited).
func allFields(b []byte) []wfield {
	var out []wfield
	var rec func(lo, hi, depth int)
	rec = func(lo, hi, depth int) {
		fs, ok := parseFields(b[lo:hi], lo)
		if !ok && depth > 0 {
			return
		}
		out = append(out, fs...)
		if depth >= 6 {
			return
		}
		for _, f := range fs {
			if f.wt == 2 && f.end-f.vstart >= 2 {
				if _, ok := parseFields(b[f.vstart:f.end], f.vstart); ok {
					rec(f.vstart, f.end, depth+1)
				}
			}
		}
	}
	rec(0, len(b), 0)
	return out
}

func putUvarint(x uint64) []byte {
	var tmp [binary.MaxVarintLen64]byte
	return append([]byte(nil), tmp[:binary.PutUvarint(tmp[:], x)]...)
}

func splice(b []byte, lo, hi int, repl []byte) []byte {
	out := make([]byte, 0, len(b)+len(repl))
	out = append(out, b[:lo]...)
	out = append(out, repl...)
	return append(out, b[hi:]...)
}

// fixLengths is NOT applied: a nested change leaves the enclosing length prefixes as
// they were, which is itself one of the interesting malformations; mutations that
// want consistent framing operate on top-level fields.

// MutateBytes applies one structure-aware mutation; returns the result and a label.
func MutateBytes(in []byte, r *rand.Rand) ([]byte, string) {
	b := append([]byte(nil), in...)
	fs := allFields(b)
	if len(fs) == 0 || r.Intn(8) == 0 {
		return noise(b, r)
	}
	f := fs[r.Intn(len(fs))]
	keyLen := func() int {
		_, n := binary.Uvarint(b[f.start:])
		return n
	}
	switch r.Intn(13) {
	case 0: // field number
		nums := []uint64{0, 1, 2, 3, 4, 5, 6, 7, 8, 9, 10, 15, 16, 100, 1<<29 - 1, 1 << 29, f.num + 1}
		nn := nums[r.Intn(len(nums))]
		return splice(b, f.start, f.start+keyLen(), putUvarint(nn<<3|f.wt)), fmt.Sprintf("field %d: number -> %d", f.num, nn)
	case 1: // wire type
		nw := uint64(r.Intn(8))
		return splice(b, f.start, f.start+keyLen(), putUvarint(f.num<<3|nw)), fmt.Sprintf("field %d: wire type %d -> %d", f.num, f.wt, nw)
	case 2: // length prefix
		if f.lenAt < 0 {
			return noise(b, r)
		}
		cur := uint64(f.end - f.vstart)
		ls := []uint64{0, 1, cur - 1, cur + 1, cur + 2, cur * 2, 127, 128, 1 << 20, 1<<31 - 1, 1 << 31, 1<<32 - 1, 1 << 32, 1<<63 - 1, 1<<64 - 1}
		nl := ls[r.Intn(len(ls))]
		return splice(b, f.lenAt, f.vstart, putUvarint(nl)), fmt.Sprintf("field %d: length %d -> %d", f.num, cur, nl)
	case 3: // truncate inside / at the end of the field
		cut := f.start + r.Intn(f.end-f.start+1)
		return b[:cut], fmt.Sprintf("truncate at %d (in field %d)", cut, f.num)
	case 4: // duplicate the field in place
		return splice(b, f.end, f.end, b[f.start:f.end]), fmt.Sprintf("duplicate field %d", f.num)
	case 5: // duplicate it many times
		k := 2 + r.Intn(200)
		var rep []byte
		for i := 0; i < k && len(rep) < 1<<19; i++ {
			rep = append(rep, b[f.start:f.end]...)
		}
		return splice(b, f.end, f.end, rep), fmt.Sprintf("field %d repeated %d times", f.num, k)
	case 6: // delete
		return splice(b, f.start, f.end, nil), fmt.Sprintf("delete field %d", f.num)
	case 7: // move to the front (field order)
		g := fs[r.Intn(len(fs))]
		return splice(b, g.start, g.start, b[f.start:f.end]), fmt.Sprintf("copy field %d before field %d", f.num, g.num)
	case 8: // varint value
		if f.wt != 0 {
			return noise(b, r)
		}
		vs := []uint64{0, 1, 2, 3, 127, 128, 1<<31 - 1, 1 << 31, 1<<32 - 1, 1 << 32, 1<<63 - 1, 1 << 63, 1<<64 - 1}
		nv := vs[r.Intn(len(vs))]
		return splice(b, f.vstart, f.end, putUvarint(nv)), fmt.Sprintf("field %d: varint -> %d", f.num, nv)
	case 9: // over-long varint (11 bytes) or unterminated varint
		if f.wt != 0 {
			return noise(b, r)
		}
		ov := []byte{0x80, 0x80, 0x80, 0x80, 0x80, 0x80, 0x80, 0x80, 0x80, 0x80, 0x01}
		if r.Intn(2) == 0 {
			ov = []byte{0xff, 0xff, 0xff, 0xff, 0xff, 0xff, 0xff, 0xff, 0xff, 0xff, 0xff, 0xff}
		}
		return splice(b, f.vstart, f.end, ov), fmt.Sprintf("field %d: over-long varint", f.num)
	case 10: // insert an unknown field (group start / unknown number)
		ins := [][]byte{{0x0b}, {0x0c}, {0xf8, 0x07, 0x01}, {0xfa, 0x07, 0x02, 0x00, 0x00}, {0x00}, {0x07}}[r.Intn(6)]
		return splice(b, f.start, f.start, ins), fmt.Sprintf("insert %x before field %d", ins, f.num)
	case 11: // empty payload for a nested message
		if f.lenAt < 0 {
			return noise(b, r)
		}
		return splice(b, f.lenAt, f.end, []byte{0}), fmt.Sprintf("field %d: empty payload", f.num)
	default: // payload replaced by random bytes of the same length
		if f.end-f.vstart == 0 {
			return noise(b, r)
		}
		nb := append([]byte(nil), b...)
		r.Read(nb[f.vstart:f.end])
		return nb, fmt.Sprintf("field %d: payload randomised", f.num)
	}
}

func noise(b []byte, r *rand.Rand) ([]byte, string) {
	if len(b) == 0 {
		nb := make([]byte, 1+r.Intn(64))
		r.Read(nb)
		return nb, "random bytes"
	}
	switch r.Intn(6) {
	case 0:
		i := r.Intn(len(b))
		b[i] ^= 1 << uint(r.Intn(8))
		return b, fmt.Sprintf("bit flip at %d", i)
	case 1:
		i := r.Intn(len(b))
		b[i] = byte(r.Intn(256))
		return b, fmt.Sprintf("byte set at %d", i)
	case 2:
		return b[:r.Intn(len(b))], "truncate"
	case 3:
		i := r.Intn(len(b))
		return splice(b, i, i+1, nil), fmt.Sprintf("delete byte %d", i)
	case 4:
		i := r.Intn(len(b))
		ins := []byte{0xff, 0xff, 0xff, 0xff, 0x0f}[:1+r.Intn(5)]
		return splice(b, i, i, ins), fmt.Sprintf("insert %x at %d", ins, i)
	default:
		nb := make([]byte, r.Intn(2*len(b)+2))
		r.Read(nb)
		return nb, "random bytes"
	}
}
