package c18

import (
	"fmt"
	"math/big"
	"math/rand"
	"sort"
	"strings"
	"sync/atomic"
	"time"

	"github.com/gogo/protobuf/proto"

	"github.com/kardiachain/go-kardia/consensus"
	cstypes "github.com/kardiachain/go-kardia/consensus/types"
	"github.com/kardiachain/go-kardia/lib/common"
	kcons "github.com/kardiachain/go-kardia/proto/kardiachain/consensus"
	kproto "github.com/kardiachain/go-kardia/proto/kardiachain/types"
	"github.com/kardiachain/go-kardia/types"

	"verifharness/core"
	"verifharness/netsim"
)

// Group gossip-delivery (registered under C04): what the real consensus reactor delivers to a lagging peer.
//
// The simulator that decides C04 replaces the reactor's gossip by an emulation of what a correct reactor sends, so a
// reactor that stops sending something a lagging node needs is invisible there. Here the node is frozen in a state
// reached by the simulator (some height, some round, with or without proposal, partial or full vote sets, single- or
// multi-part blocks), its REAL ConsensusManager runs with its three gossip goroutines, and scripted stub peers announce
// a position (height, round, step) and, for the block data, which parts they hold. The goroutines run until they find
// nothing more to send (logical quiescence: full iterations of both routines without a send - the node's state does not
// change meanwhile), and the monitor compares what the peer received with what it needs to leave that position:
//
//   same height, round r <= the node's round: every prevote the node holds for r; every precommit for r unless the
//     peer is past PrecommitWait; the last commit's precommits while the peer is in NewHeight; the proposal and every
//     part the node holds when the rounds are equal; after every NewValidBlock announcement of the peer, every part the
//     node holds and the announcement lists as missing (the peer's latest announcement is what it has).
//   one height behind: every precommit of the node's LastCommit and every part of that block;
//   two or more behind: every signature of the stored commit for that height and every part of the block.
//
// The verdict is on logical steps; a wall-clock watchdog on the goroutines' progress makes the case inconclusive.

// GossipCase is one case of the group.
func GossipCase(c *core.Case) {
	rg, run := c.R, c.Run
	GossipSleep = time.Millisecond
	e, err := NewEnv("caughtup", uint64(1+rg.Intn(2)))
	if err != nil {
		run.Inconclusive("environment: " + err.Error())
		return
	}
	defer e.Close()
	big := func() {
		k := e.Net.Keys[1]
		payload := make([]byte, 70000+rg.Intn(90000))
		for _, n := range e.Net.Alive() {
			nonce := n.Pool.Nonce(e.Net.Addrs[1])
			if tx, err := types.SignTx(types.HomesteadSigner{}, types.NewTransaction(nonce, common.HexToAddress("0xbeef"), bigInt(7), uint64(50000+len(payload)*20), bigInt(1), payload), k); err == nil {
				n.Pool.AddLocal(tx)
			}
		}
	}
	if rg.Intn(2) == 0 {
		big()
	}
	if res := e.Net.RunSync(e.Net.MaxHeight()+uint64(1+rg.Intn(2)), 40, nil); !res.Reached {
		run.Inconclusive(fmt.Sprintf("network did not advance: %+v", res))
		return
	}
	if rg.Intn(2) == 0 {
		big()
	}
	// the node's position: k rounds without a proposal, then a random number of single scheduler steps
	H := e.V.CS.GetRoundState().Height
	k := uint32(rg.Intn(4))
	e.Net.Filter = func(from, to *netsim.Node, m consensus.Message) bool {
		switch x := m.(type) {
		case *consensus.ProposalMessage:
			return !(x.Proposal.Height == H && x.Proposal.Round <= k)
		case *consensus.BlockPartMessage:
			return !(x.Height == H && x.Round <= k)
		}
		return true
	}
	for i := 0; i < 200; i++ {
		rs := e.V.CS.GetRoundState()
		if rs.Height != H || rs.Round > k {
			break
		}
		if _, ok := e.Net.Fixpoint(200); !ok {
			break
		}
		if rs := e.V.CS.GetRoundState(); rs.Height != H || rs.Round > k {
			break
		}
		if !e.Net.FireEarliest() {
			break
		}
	}
	e.Net.Filter = nil
	srng := rand.New(rand.NewSource(rg.Int63()))
	for i, n := 0, rg.Intn(30); i < n && !e.V.Dead; i++ {
		e.Net.AdvStep(srng, nil)
	}
	if e.V.Dead {
		run.Inconclusive("the node's consensus routine ended while the position was built: " + e.V.DeadWhy)
		return
	}
	if !e.V.Quiesce() {
		run.Inconclusive("node not quiescent")
		return
	}
	rs := e.V.CS.GetRoundState()
	run.Distinct("gossip_node_position", fmt.Sprintf("r%d %v proposal=%v parts=%s lastcommit=%v", minU32(rs.Round, 5), rs.Step, rs.Proposal != nil, partsDesc(rs.ProposalBlockParts), rs.LastCommit != nil))

	npeers := 3 + rg.Intn(3)
	for pi := 0; pi < npeers; pi++ {
		if !gossipPeer(c, e, rs, pi) {
			return
		}
	}
	// the node did not move while the peers were served (otherwise the expectations above were taken from another state)
	rs2 := e.V.CS.GetRoundState()
	if rs2.Height != rs.Height || rs2.Round != rs.Round || rs2.Step != rs.Step {
		run.Inconclusive("the node moved during the case")
		return
	}
	run.Nontrivial(fmt.Sprint("gossip", c.I))
}

func bigInt(v int64) *big.Int { return big.NewInt(v) }

func partsDesc(ps *types.PartSet) string {
	if ps == nil {
		return "none"
	}
	t := ps.Total()
	if t > 3 {
		t = 3
	}
	if ps.IsComplete() {
		return fmt.Sprintf("complete/%d", t)
	}
	return fmt.Sprintf("partial/%d", t)
}

type voteKey struct {
	T kproto.SignedMsgType
	H uint64
	R uint32
	I uint32
}

func (k voteKey) String() string {
	t := "prevote"
	if k.T == kproto.PrecommitType {
		t = "precommit"
	}
	return fmt.Sprintf("%s h%d r%d #%d", t, k.H, k.R, k.I)
}

type gossipGot struct {
	votes    map[voteKey]bool
	parts    map[string]bool // "<height>/<parts hash prefix>/<index>"
	proposal bool
	n        int
}

func decodeOut(out []sent, g *gossipGot) {
	for _, o := range out {
		pb := &kcons.Message{}
		if proto.Unmarshal(o.Bytes, pb) != nil {
			continue
		}
		m, err := consensus.MsgFromProto(pb)
		if err != nil {
			continue
		}
		g.n++
		switch x := m.(type) {
		case *consensus.VoteMessage:
			g.votes[voteKey{x.Vote.Type, x.Vote.Height, x.Vote.Round, x.Vote.ValidatorIndex}] = true
		case *consensus.BlockPartMessage:
			g.parts[fmt.Sprintf("%d/%d", x.Height, x.Part.Index)] = true
		case *consensus.ProposalMessage:
			g.proposal = true
		}
	}
}

// settle waits until both gossip routines went through full iterations without sending anything.
// Returns "" on quiescence, otherwise the reason the watchdog fired.
func settle(e *Env, p *StubPeer) string {
	for round := 0; round < 100000; round++ {
		p.mu.Lock()
		n0 := p.nsent
		p.mu.Unlock()
		d0, v0 := atomic.LoadInt64(&p.iterData), atomic.LoadInt64(&p.iterVotes)
		deadline := time.Now().Add(30 * time.Second)
		for atomic.LoadInt64(&p.iterData)-d0 < 3 || atomic.LoadInt64(&p.iterVotes)-v0 < 3 {
			if !p.BaseService.IsRunning() {
				return "the node stopped the peer: " + capture.lastStop()
			}
			if time.Now().After(deadline) {
				return "a gossip routine made no iteration in 30 s"
			}
			time.Sleep(300 * time.Microsecond)
		}
		p.mu.Lock()
		n1 := p.nsent
		p.mu.Unlock()
		if n1 == n0 {
			return ""
		}
	}
	return "the gossip routines never stop sending"
}

func votesOf(vs types.VoteSetReader, h uint64) []voteKey {
	var out []voteKey
	if vs == nil || vs.Size() == 0 {
		return nil
	}
	ba := vs.BitArray()
	for i := 0; i < vs.Size(); i++ {
		if ba.GetIndex(i) {
			if v := vs.GetByIndex(uint32(i)); v != nil {
				out = append(out, voteKey{v.Type, v.Height, v.Round, v.ValidatorIndex})
			}
		}
	}
	return out
}

// gossipPeer scripts one stub peer against the frozen node. Returns false if the case ended.
func gossipPeer(c *core.Case, e *Env, rs *cstypes.RoundState, pi int) bool {
	rg, run := c.R, c.Run
	H, R := rs.Height, rs.Round
	// position of the peer
	var ph uint64
	var pr uint32
	var pstep cstypes.RoundStepType
	kind := rg.Intn(10)
	switch {
	case kind < 6 || H <= 1: // same height
		ph = H
		switch rg.Intn(4) {
		case 0:
			pr = R
		case 1:
			if R > 1 {
				pr = R - 1
			} else {
				pr = R
			}
		default:
			pr = 1 + uint32(rg.Intn(int(R)))
		}
		steps := []cstypes.RoundStepType{cstypes.RoundStepNewHeight, cstypes.RoundStepNewRound, cstypes.RoundStepPropose, cstypes.RoundStepPrevote, cstypes.RoundStepPrevoteWait, cstypes.RoundStepPrecommit, cstypes.RoundStepPrecommitWait, cstypes.RoundStepCommit}
		pstep = steps[rg.Intn(len(steps))]
	case kind < 8: // one behind
		ph = H - 1
		pr = 1 + uint32(rg.Intn(3))
		pstep = cstypes.RoundStepType(1 + rg.Intn(8))
	default:
		ph = 1 + uint64(rg.Intn(int(H-1)))
		pr = 1 + uint32(rg.Intn(3))
		pstep = cstypes.RoundStepType(1 + rg.Intn(8))
	}
	var lcr uint32
	if ph > 1 {
		lcr = 1
		if ph == H && rs.LastCommit != nil && rs.LastCommit.GetRound() > 0 && rg.Intn(4) != 0 {
			lcr = rs.LastCommit.GetRound()
		} else if rg.Intn(3) == 0 {
			lcr = 1 + uint32(rg.Intn(3))
		}
	}
	p := e.AddPeer(rg.Intn(2) == 0)
	defer e.DropPeer(p)
	desc := fmt.Sprintf("node at %d/%d/%v (proposal=%v, parts %s); peer announces %d/%d/%v lastCommitRound=%d", H, R, rs.Step, rs.Proposal != nil, partsDesc(rs.ProposalBlockParts), ph, pr, pstep, lcr)
	wit := func(extra string) interface{} {
		return map[string]interface{}{"position": desc, "detail": extra}
	}
	if why := settle(e, p); why != "" {
		run.Inconclusive("gossip watchdog (before the announcement): " + why)
		return false
	}
	p.takeOut()
	e.Cons.Receive(consensus.StateChannel, p, consensus.MustEncode(&consensus.NewRoundStepMessage{Height: ph, Round: pr, Step: pstep, SecondsSinceStartTime: uint64(rg.Intn(5)), LastCommitRound: lcr}))
	if !p.BaseService.IsRunning() {
		run.Inconclusive("the node refused the announcement: " + capture.lastStop())
		return false
	}
	if why := settle(e, p); why != "" {
		run.Inconclusive("gossip watchdog: " + why)
		return false
	}
	got := &gossipGot{votes: map[voteKey]bool{}, parts: map[string]bool{}}
	decodeOut(p.takeOut(), got)
	run.Eval(1)
	rel := "same-height"
	if ph+1 == H {
		rel = "one-behind"
	} else if ph < H {
		rel = "far-behind"
	}
	run.Distinct("gossip_peer_position", fmt.Sprintf("%s round%+d %v", rel, clampI(int(pr)-int(R), -2, 1), pstep))
	run.Count("gossip_messages_received_by_scripted_peers", got.n)

	// ---- votes
	type want struct {
		what string
		keys []voteKey
	}
	var wants []want
	switch {
	case ph == H:
		if pr <= R {
			wants = append(wants, want{"prevotes-of-the-peers-round", votesOf(rs.Votes.Prevotes(pr), H)})
			if pstep <= cstypes.RoundStepPrecommitWait {
				wants = append(wants, want{"precommits-of-the-peers-round", votesOf(rs.Votes.Precommits(pr), H)})
			}
		}
		if pstep == cstypes.RoundStepNewHeight && rs.LastCommit != nil && rs.LastCommit.GetRound() == lcr {
			wants = append(wants, want{"last-commit-for-a-peer-in-new-height", votesOf(rs.LastCommit, H-1)})
		}
	case ph+1 == H:
		if rs.LastCommit != nil {
			wants = append(wants, want{"last-commit-for-a-peer-one-height-behind", votesOf(rs.LastCommit, ph)})
		}
	default:
		if cm := e.V.BO.LoadBlockCommit(ph); cm != nil {
			wants = append(wants, want{"stored-commit-for-a-peer-further-behind", votesOf(cm, ph)})
		}
	}
	for _, w := range wants {
		var missing []string
		for _, k := range w.keys {
			if !got.votes[k] {
				missing = append(missing, k.String())
			}
		}
		run.Count("gossip_votes_expected:"+w.what, len(w.keys))
		if len(missing) > 0 {
			sort.Strings(missing)
			c.Violation("gossip:votes-never-sent:"+w.what, fmt.Sprintf("%s: the gossip routines went quiet (full iterations without a send) and the peer never received %d of the %d votes it needs: %s", desc, len(missing), len(w.keys), strings.Join(missing, ", ")), wit(strings.Join(missing, ", ")))
			return false
		}
	}

	// ---- block data
	if ph < H {
		meta := e.V.BO.LoadBlockMeta(ph)
		if meta == nil {
			return true
		}
		total := int(meta.BlockID.PartsHeader.Total)
		var missing []int
		for i := 0; i < total; i++ {
			if !got.parts[fmt.Sprintf("%d/%d", ph, i)] {
				missing = append(missing, i)
			}
		}
		run.Count("gossip_parts_expected:catch-up", total)
		run.Max("gossip_max_parts_of_a_catch_up_block", int64(total))
		if len(missing) > 0 {
			c.Violation("gossip:parts-never-sent:catch-up", fmt.Sprintf("%s: the peer never received parts %v of the %d parts of block %d", desc, missing, total, ph), wit(fmt.Sprint(missing)))
			return false
		}
		// the peer tells which parts it really has (it may have dropped what it was sent): the rest must come again
		return reannounce(c, e, p, desc, ph, pr, meta.BlockID.PartsHeader, nil, total, "catch-up")
	}
	if rs.ProposalBlockParts == nil {
		return true
	}
	have := rs.ProposalBlockParts.BitArray()
	total := int(rs.ProposalBlockParts.Total())
	if pr == R && rs.Proposal != nil {
		run.Count("gossip_proposals_expected", 1)
		if !got.proposal {
			c.Violation("gossip:proposal-never-sent", desc+": the peer is in the node's round and never received the proposal the node holds", wit(""))
			return false
		}
		var missing []int
		for i := 0; i < total; i++ {
			if have.GetIndex(i) && !got.parts[fmt.Sprintf("%d/%d", H, i)] {
				missing = append(missing, i)
			}
		}
		run.Count("gossip_parts_expected:same-round", total)
		if len(missing) > 0 {
			c.Violation("gossip:parts-never-sent:same-round", fmt.Sprintf("%s: the peer never received parts %v of the proposal block (%d parts, the node holds %v)", desc, missing, total, have), wit(fmt.Sprint(missing)))
			return false
		}
	}
	return reannounce(c, e, p, desc, ph, pr, rs.ProposalBlockParts.Header(), have, total, "valid-block")
}

// reannounce: the peer announces (NewValidBlock) which parts of the block it holds, twice with different bit arrays;
// after each announcement every part the node holds and the peer lacks must arrive.
func reannounce(c *core.Case, e *Env, p *StubPeer, desc string, ph uint64, pr uint32, hdr types.PartSetHeader, have *common.BitArray, total int, what string) bool {
	rg, run := c.R, c.Run
	for round := 0; round < 2; round++ {
		bits := common.NewBitArray(total)
		mode := rg.Intn(3)
		for i := 0; i < total; i++ {
			switch mode {
			case 0: // nothing
			case 1:
				bits.SetIndex(i, rg.Intn(2) == 0)
			case 2:
				bits.SetIndex(i, i != total-1) // all but the last
			}
		}
		isCommit := rg.Intn(2) == 0
		p.takeOut()
		e.Cons.Receive(consensus.StateChannel, p, consensus.MustEncode(&consensus.NewValidBlockMessage{Height: ph, Round: pr, BlockPartsHeader: hdr, BlockParts: bits, IsCommit: isCommit}))
		if !p.BaseService.IsRunning() {
			run.Inconclusive("the node refused the NewValidBlock announcement: " + capture.lastStop())
			return false
		}
		if why := settle(e, p); why != "" {
			run.Inconclusive("gossip watchdog: " + why)
			return false
		}
		got := &gossipGot{votes: map[voteKey]bool{}, parts: map[string]bool{}}
		decodeOut(p.takeOut(), got)
		var missing []int
		exp := 0
		for i := 0; i < total; i++ {
			if bits.GetIndex(i) || (have != nil && !have.GetIndex(i)) {
				continue
			}
			exp++
			found := false
			for k := range got.parts {
				if strings.HasSuffix(k, fmt.Sprintf("/%d", i)) {
					found = true
				}
			}
			if !found {
				missing = append(missing, i)
			}
		}
		run.Count("gossip_parts_expected:after-announcement:"+what, exp)
		run.Distinct("gossip_announcement", fmt.Sprintf("%s #%d bits-mode=%d commit=%v parts=%d", what, round, mode, isCommit, minInt(total, 3)))
		if len(missing) > 0 {
			c.Violation("gossip:parts-never-sent:after-announcement:"+what, fmt.Sprintf("%s; then (announcement #%d) the peer announced that of the %d parts of the block it holds %v (commit=%v): parts %v never arrived although the node holds them", desc, round+1, total, bits, isCommit, missing), map[string]interface{}{"position": desc, "announced": bits.String(), "missing": missing})
			return false
		}
	}
	return true
}

func clampI(v, lo, hi int) int {
	if v < lo {
		return lo
	}
	if v > hi {
		return hi
	}
	return v
}

func minInt(a, b int) int {
	if a < b {
		return a
	}
	return b
}
