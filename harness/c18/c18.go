// Package c18 decides C18: no message from a peer can crash the node.
//
// Every reactor is built as production builds it around the live components of a
// node inside a simulated four-validator network; stub peers are connected through
// the real switch; messages are generated from the live state and mutated at three
// levels (Go values, protobuf structs, bytes); after every message the node must
// still be alive, unlocked and within its allocation bound.
package c18

import (
	"fmt"
	"math/rand"
	"os"
	"strings"
	"sync"
	"sync/atomic"
	"time"

	"github.com/kardiachain/go-kardia/blockchain"
	"github.com/kardiachain/go-kardia/consensus"
	cmn "github.com/kardiachain/go-kardia/lib/common"
	"github.com/kardiachain/go-kardia/lib/p2p"
	"github.com/kardiachain/go-kardia/lib/rlp"
	"github.com/kardiachain/go-kardia/mainchain/tx_pool"
	bcproto "github.com/kardiachain/go-kardia/proto/kardiachain/blockchain"
	prototx "github.com/kardiachain/go-kardia/proto/kardiachain/txpool"
	kproto "github.com/kardiachain/go-kardia/proto/kardiachain/types"
	"github.com/kardiachain/go-kardia/trie"
	"github.com/kardiachain/go-kardia/types"

	cstypes "github.com/kardiachain/go-kardia/consensus/types"

	"verifharness/core"
)

func init() { core.Register("C18", Main) }

var scratchRoot string

var childOpts = core.Opts{Procs: 16, Workers: 1, HangIsViolation: true, StallSec: 180, MemMB: 8192, Env: []string{"GOTRACEBACK=single"}}

type envSpec struct {
	Mode   string
	Height uint64
	Stage  int // 0: as the synchronous run left the node (new height); >0: that many scheduler steps into the next height
}

func (s envSpec) String() string { return fmt.Sprintf("%s h=%d stage=%d", s.Mode, s.Height, s.Stage) }

// open builds an environment per spec (deterministic in the spec).
func open(c *core.Case, s envSpec) *Runner {
	e, err := NewEnv(s.Mode, s.Height)
	if err != nil {
		c.Run.Inconclusive("environment: " + err.Error())
		return nil
	}
	if s.Stage > 0 && s.Mode == "caughtup" {
		rng := rand.New(rand.NewSource(int64(s.Stage)))
		for i := 0; i < s.Stage && !e.V.Dead; i++ {
			e.Net.AdvStep(rng, nil)
		}
	}
	if s.Stage < 0 && s.Mode == "caughtup" {
		// mid-round: the victim holds the round's proposal and its complete block and has prevoted
		rng := rand.New(rand.NewSource(int64(-s.Stage)))
		for i := 0; i < 400 && !e.V.Dead; i++ {
			rs := e.V.CS.GetRoundState()
			if rs.Proposal != nil && rs.ProposalBlock != nil && rs.Step >= cstypes.RoundStepPrevote && rs.Step <= cstypes.RoundStepPrecommit {
				break
			}
			e.Net.AdvStep(rng, nil)
		}
	}
	rn := &Runner{c: c, run: c.Run, e: e}
	rn.describe()
	return rn
}

func (rn *Runner) describe() {
	e := rn.e
	rs := e.V.CS.GetRoundState()
	rn.envDesc = fmt.Sprintf("%s victim at %d/%d/%v proposal=%v network: %s", e.Mode, rs.Height, rs.Round, rs.Step, rs.Proposal != nil, e.Net.Heights())
	if e.Mode == "caughtup" {
		rn.run.Distinct("victim_step", rs.Step.String())
		rn.run.Distinct("victim_state", fmt.Sprintf("%v r%d prop=%v locked=%v", rs.Step, minU32(rs.Round, 3), rs.Proposal != nil, rs.LockedBlock != nil))
	}
	rn.run.Distinct("env_mode", fmt.Sprintf("%s pex-seed=%v", e.Mode, e.SeedMode))
}

func minU32(a, b uint32) uint32 {
	if a < b {
		return a
	}
	return b
}

// close ends the case's environment. If a finding left goroutines of the node blocked or orphaned,
// its files stay until the parent removes the run's scratch area.
func (rn *Runner) close() {
	if rn.broken && !rn.calib {
		rn.e.Abandoned = true
	}
	rn.e.Close()
}

// reopen replaces a broken environment.
func (rn *Runner) reopen(s envSpec) bool {
	rn.close()
	rn.run.Count("environment_rebuilds", 1)
	n := open(rn.c, s)
	if n == nil {
		return false
	}
	*rn = *n
	return true
}

// advance lets the network make some progress so that the victim moves through steps and heights.
func (rn *Runner) advance(r *rand.Rand, steps int) {
	if rn.e.Mode != "caughtup" || rn.broken {
		return
	}
	for i := 0; i < steps && !rn.e.V.Dead; i++ {
		rn.e.Net.AdvStep(r, nil)
	}
	if rn.e.V.Dead {
		// the node died while handling honest traffic after attacker sessions: a delayed effect
		rn.broken = true
		fs := capture.takeFailures()
		frame, errs, stack := "no-failure-record", rn.e.V.DeadWhy, ""
		if len(fs) > 0 {
			frame, errs, stack = frameKey(skipToPanic(fs[0].Stack)), fs[0].Err, firstLines(skipToPanic(fs[0].Stack), 30)
		}
		rn.c.Violation("consensus-loop-dead:consensus:delayed:"+frame, "the consensus loop terminated while the network advanced after attacker sessions: "+short(errs, 200),
			map[string]interface{}{"env": rn.envDesc, "recent_sessions": rn.recent, "stack": stack})
		return
	}
	rn.describe()
}

var _ = cstypes.RoundStepNewHeight

func Main() {
	r := core.Start("C18", "exploration")
	if !r.IsChild() {
		base := os.Getenv("VERIF_SCRATCH") // the run's scratch directory (core removes it in Finish)
		if fi, err := os.Stat("/dev/shm"); base == "" && err == nil && fi.IsDir() {
			base = "/dev/shm"
		}
		if d, err := os.MkdirTemp(base, "c18run"); err == nil {
			os.Setenv("C18_SCRATCH", d) // inherited by the child processes
			defer os.RemoveAll(d)
			scratchRoot = d
		}
	}
	r.SetRule("evaluation = one message handed to Reactor.Receive of a reactor built as in production around a live node (4-validator simulated network; victim caught up at some consensus step, at the initial height, or fast-syncing), sent by a stub peer connected through the real switch (+ one raw frame written to a real MConnection in groups mconn and mconn-stream, + one encode/decode round trip of a generated well-formed message in group roundtrip, + one block pair given to the block-sync processor in group blocksync-processor); non-trivial = a distinct mutated message (reactor, type, mutation, peer-state prelude) that passed decoding and validation, i.e. reached the handler and the live state instead of being refused at the door, or a frame sequence whose outcome the reference model predicted exactly, or a distinct stream of fragments without EOF (channels, fragment size, interleaving) judged against the capacity model, or a distinct multi-peer script of the life cycle of announced transactions (announce, wait, request, reply / no reply / peer leaves, delivery by another peer) that ran to its end, or a distinct multi-peer script of a block sync in which one peer withheld the lowest pending blocks (group blocksync-withheld-lowest) that ran to its end")
	r.Assume("the attacker is any network peer and additionally holds the key of ONE of the four validators (index 3): messages that need a validator signature are signed with that key; honest validators' messages are only replayed")
	r.Assume("messages longer than the channel's RecvMessageCapacity are not handed to Receive (the connection layer refuses them: judged in groups mconn and mconn-stream)")
	r.Assume("group mconn-stream: a peer may send PacketMsg fragments with EOF=false for ever, on one or several channels (every channel of every reactor: capacities from 64 kB to 100 MB), interleaved with complete messages on other channels. Model: the bytes buffered for an unfinished message never exceed the channel's RecvMessageCapacity; the fragment that would exceed it ends the connection with an error (exactly the capacity is allowed, terminated or not). Verdicts are decided by counting: the connection handles frames in the order written, so a complete message that is DELIVERED after the model's bound proves that all fragments written before it were accepted (the peer then goes on to at least 16x the capacity / 48 MB, 8 MB past the 100 MB block-sync channel in the quick tier); neither error nor delivery within 60 s is inconclusive, never a violation. Live heap after the stream (after a collection) must not exceed twice the capacities of the channels used + 24 MB")
	r.Assume("group txpool-fetch-lifecycle: about twenty scripts per case run side by side on one node (own stub peers and transactions each, one shared bystander peer that only delivers): directed scripts = (stage at which the announcer leaves: before the request / request in flight / after its reply / after the 5 s request timeout / never) x (delivered afterwards by: nobody / a bystander's broadcast / a bystander's PooledTransactions / the other announcer) x (sole / second announcer), plus duplicate announcements, replies with other transactions than requested, transactions nobody announced, stolen deliveries, late joiners; random scripts over the same alphabet. Peers leave by disconnecting or by being stopped for an undecodable message. Every step that depends on the node's request is executed after that request was observed in the stub peer's outbox")
	r.Assume("group blocksync-withheld-lowest: the node block-syncs through its real reactor (scheduler, processor, event loop; tickers 20 ms / 1 s / 10 s; production peer timeout 15 s) from two to four stub peers that report a chain 5-9 blocks above the node's: honest peers answer every block request read from their outbox (repeated ones too) with the genuine block after a latency of 0-200 ms and join at the start, later, shortly before or after the timeout; the withholder answers likewise except for the lowest one or two pending heights, which it never answers / answers 1.5 s after the timeout / 2.5 s before it / once the node has asked another peer / or it disconnects 3 s after the request / 1.5 s after the timeout; optionally a peer that connects and never reports a status. A case ends when the node has applied block top-1 and every scripted action is done, at the latest 8 s after the peer timeout. How far the node synced is evidence only")
	r.Assume("wall clock is used only in watchdogs that decide 'hang' (30 s per Receive call, 10 s per gossip iteration pair, 5 s per mutex probe, all confirmed by a goroutine dump inside go-kardia code), to time the disconnects of group txpool-fetch-race against the fetcher's 500 ms wall-clock timer, and as a stimulus in group txpool-fetch-lifecycle (sleeping past the fetcher's 500 ms arrival timeout and its 5 s request timeout, once per case) and in group blocksync-withheld-lowest (peer latencies, and waiting past the block-sync scheduler's 15 s peer timeout, once per case)")
	r.Assume("the per-peer gossip goroutines are scheduled by the Go runtime: a replay re-runs the whole case (same seed, group, index), which rebuilds the same network, node state and message list; the interleaving with gossip iterations may differ")
	only := os.Getenv("C18_ONLY")
	tg := time.Now()
	lap := func(g string) {
		if !r.IsChild() && os.Getenv("C18_TIMING") != "" {
			fmt.Fprintf(os.Stderr, "group %s: %.1fs\n", g, time.Since(tg).Seconds())
		}
		tg = time.Now()
	}
	if only == "" || only == "cons" {
		consCorpus(r)
		lap("consCorpus")
		consRandom(r)
		lap("consRandom")
	}
	if only == "" || only == "other" {
		otherCorpus(r)
		lap("otherCorpus")
		otherRandom(r)
		lap("otherRandom")
	}
	if only == "" || only == "byz" {
		byzProposer(r)
		lap("byzProposer")
		byzVotes(r)
		voteRounds(r)
		syncingFlood(r)
		voteFlood(r)
		lap("byzVotes")
	}
	if only == "" || only == "proc" {
		syncProcessor(r)
		lap("syncProcessor")
	}
	if only == "" || only == "withheld" {
		withheldLowest(r)
		lap("withheldLowest")
	}
	if only == "" || only == "conc" {
		concurrentGroup(r)
		lap("concurrent")
	}
	if only == "" || only == "race" || only == "fetch" {
		fetchRace(r)
		lap("fetchRace")
		fetchLifecycle(r)
		lap("fetchLifecycle")
	}
	if only == "" || only == "mconn" {
		mconnGroup(r)
		lap("mconnGroup")
		mconnStreamGroup(r)
		lap("mconnStreamGroup")
	}
	if only == "" || only == "roundtrip" {
		roundtripGroup(r)
		lap("roundtripGroup")
	}
	if scratchRoot != "" {
		os.RemoveAll(scratchRoot) // (Finish exits the process)
	}
	if only == "" {
		// floors: well below what the unchanged tree gives in the quick tier, far above what a workload that no
		// longer reaches the handlers would give
		for k, v := range map[string]int64{"messages": 80000, "mutants_accepted": 10000, "gossip_waits": 15000, "peers_stopped_for_error": 3000,
			"roundtrips": 15000, "mconn_sequences_predicted_exactly": 200, "mconn_messages_delivered": 500, "byz_blocks_decoded_by_victim": 10,
			"byz_vote_scenarios": 40, "processor_outcome:processed": 10, "processor_outcome:verificationFailure": 10, "fetch_race_attempts": 30,
			"solicited_block_responses": 20, "messages:blockchain:proto": 1000, "messages:txpool:proto": 400, "messages:evidence:proto": 500, "messages:pex:proto": 250,
			"messages:consensus:go": 1000, "messages:consensus:bytes": 500,
			// unterminated messages (group mconn-stream)
			"mconn_streams": 35, "mconn_streams_dropped_for_capacity": 25, "mconn_streams_dropped_for_capacity:small_channel": 4, "mconn_streams_dropped_for_capacity:large_channel": 15,
			"mconn_streams_dropped_for_capacity:several_channels": 5, "mconn_streams_within_capacity_all_delivered": 6, "mconn_stream_bytes_without_eof": 120 << 20,
			"mconn_stream_complete_messages_delivered": 3000,
			// life cycles of announced transactions (group txpool-fetch-lifecycle)
			"fetch_lifecycles": 200, "fetch_lifecycles_that_reached_a_request": 150, "fetch_requests_observed": 250, "fetch_probe_requests": 12,
			"fetch_announcer_left:before-request:never-asked": 20, "fetch_announcer_left:request-in-flight:request-open": 50, "fetch_announcer_left:after-request-timeout:request-open": 15,
			"fetch_sole_announcer_left_with_its_request_open": 30, "fetch_delivery_by_another_peer_after_the_sole_announcer_left_with_its_request_open": 30,
			"fetch_delivery_by_another_peer_after_an_announcer_left:before-request:never-asked": 20, "fetch_delivery_by_another_peer_after_an_announcer_left:request-in-flight:request-open": 40,
			"fetch_delivery_by_another_peer_after_an_announcer_left:after-request-timeout:request-open": 10, "fetch_delivery_by_another_peer_while_a_request_is_open": 50,
			"fetch_asked_announcer_left_while_another_announcer_remains": 40, "fetch_requests_moved_to_another_announcer_after_the_timeout": 10,
			"fetch_duplicate_announcements": 15, "fetch_deliveries_of_never_announced_transactions": 30, "fetch_replies:reply-other:request-in-flight": 5,
			"fetch_peers_left:stopped-for-error": 20} {
			r.Floor(k, v)
		}
		// block sync with a withholding peer (group blocksync-withheld-lowest). A child process that dies takes its counters
		// with it (the death itself is the violation): the floors are applied when every case of the group ran to its end
		if r.Counter("wh_cases") >= int64(r.N(len(whDirected()), whThorough)) {
			for k, v := range map[string]int64{"wh_block_requests_seen": 30, "wh_blocks_served": 25, "wh_heights_withheld": 3, "wh_re_requests_after_the_peer_timeout": 5,
				"wh_re_requests_of_heights_already_delivered": 8, "wh_cases_synced_as_far_as_the_reported_chain_allows": 2, "wh_probe_status_answers": 3} {
				r.Floor(k, v)
			}
		}
	}
	r.Finish()
}

var corpusEnvs = []envSpec{{"caughtup", 3, 0}, {"caughtup", 3, -1}, {"caughtup", 0, 0}, {"syncing", 3, 0}}

// consCorpus: every structural mutation of every consensus message type, under every
// peer-state prelude, in three node states.
func consCorpus(r *core.Run) {
	type cc struct {
		spec envSpec
		kind string
		tmpl int
	}
	var cases []cc
	for _, k := range consKinds { // kinds outermost: neighbouring cases (same child process) differ in cost
		for _, sp := range corpusEnvs {
			cases = append(cases, cc{sp, k, 0})
			switch k {
			case "Vote", "HasVote", "VoteSetMaj23", "VoteSetBits", "NewValidBlock":
				cases = append(cases, cc{sp, k, 1}) // also the precommit / is-commit flavour of the template
			}
		}
	}
	r.Cases("cons-corpus", len(cases), childOpts, func(c *core.Case) {
		spec, kind := cases[c.I].spec, cases[c.I].kind
		rn := open(c, spec)
		if rn == nil {
			return
		}
		defer func() { rn.close() }()
		rebuilds := 0
		for _, tmpl := range []int{cases[c.I].tmpl} {
			for _, variant := range preludes {
				if tmpl == 1 && variant == "ahead" {
					continue
				}
				l := snapshot(rn.e)
				l.Tmpl = tmpl
				h, rd, ok := l.peerHR(variant)
				if !ok {
					if variant != "none" {
						continue
					}
					h, rd = l.H, l.R
				}
				cnt := l.countProto(kind, h, rd)
				for k := 0; k < cnt; k++ {
					m, ok := l.protoMutant(kind, h, rd, k, c.R)
					if !ok {
						continue
					}
					sess := append(l.prelude(variant, c.R), m)
					sess = append(sess, l.postlude(variant)...)
					if !rn.Session(variant, sess) {
						if !rn.calib {
							rebuilds++
						}
						if rebuilds > 6 || !rn.reopen(spec) {
							return
						}
						l = snapshot(rn.e)
						l.Tmpl = tmpl
					}
				}
			}
		}
	})
}

// consRandom: random sessions (all three mutation levels), the network advancing in between.
func consRandom(r *core.Run) {
	r.Cases("cons-random", r.N(32, 1280), childOpts, func(c *core.Case) {
		rg := c.R
		spec := envSpec{Mode: "caughtup", Height: uint64([]int{0, 2, 2, 3, 3, 4}[rg.Intn(6)]), Stage: rg.Intn(30)}
		if rg.Intn(4) == 0 {
			spec = envSpec{Mode: "syncing", Height: uint64(2 + rg.Intn(3))}
		}
		rn := open(c, spec)
		if rn == nil {
			return
		}
		defer func() { rn.close() }()
		rebuilds := 0
		for s := 0; s < 120; s++ {
			if s%6 == 5 {
				rn.advance(rg, 1+rg.Intn(6))
			}
			if rn.broken {
				if !rn.calib {
					rebuilds++
				}
				if rebuilds > 6 || !rn.reopen(spec) {
					return
				}
			}
			l := snapshot(rn.e)
			variant := preludes[rg.Intn(len(preludes))]
			sess := l.prelude(variant, rg)
			nm := 1 + rg.Intn(3)
			for j := 0; j < nm; j++ {
				kind := consKinds[rg.Intn(len(consKinds))]
				h, rd, ok := l.peerHR(variant)
				if !ok || rg.Intn(4) == 0 {
					h, rd = l.H, l.R
				}
				var m Msg
				var good bool
				switch x := rg.Intn(10); {
				case x < 4:
					m, good = l.goMutant(kind, rg)
				case x < 8:
					if cnt := l.countProto(kind, h, rd); cnt > 0 {
						m, good = l.protoMutant(kind, h, rd, rg.Intn(cnt), rg)
					}
				default:
					m, good = l.bytesMutant(kind, h, rd, rg)
				}
				if good {
					sess = append(sess, m)
				}
			}
			if rg.Intn(2) == 0 {
				sess = append(sess, l.postlude(variant)...)
			}
			rn.Session(variant, sess)
		}
	})
}

// ---------------------------------------------------------------- the other reactors

type otherCase struct {
	Spec    envSpec
	Reactor string
	Kind    string
}

func otherCorpusCases() []otherCase {
	var out []otherCase
	for _, spec := range []envSpec{{"caughtup", 3, 0}, {"syncing", 6, 0}} {
		for _, re := range otherReactors {
			for _, k := range otherKinds[re] {
				out = append(out, otherCase{spec, re, k})
			}
		}
	}
	return out
}

// otherPrelude: what makes the reactor listen to this peer (announced status for block sync, an
// outstanding address request for PEX: the runner connects the peer as an outbound one).
func (rn *Runner) otherPrelude(l *live, reactor string, r *rand.Rand) []Msg {
	rn.outbound = false
	rn.settle = 0
	switch reactor {
	case "pex":
		rn.outbound = r.Intn(4) != 0
	case "blocksync":
		rn.settle = 3 * time.Millisecond
		if r.Intn(2) == 0 {
			if m, ok := l.validOtherMsg("blocksync", "StatusResponse", r); ok {
				return []Msg{m}
			}
		}
	case "txpool":
		rn.settle = time.Millisecond
	}
	return nil
}

// otherCorpus: every structural mutation of every message type of the block-sync,
// transaction-pool, evidence and PEX reactors, caught up and syncing.
func otherCorpus(r *core.Run) {
	cases := otherCorpusCases()
	r.Cases("other-corpus", len(cases), childOpts, func(c *core.Case) {
		oc := cases[c.I]
		rn := open(c, oc.Spec)
		if rn == nil {
			return
		}
		defer func() { rn.close() }()
		l := snapshot(rn.e)
		cnt := l.countOther(oc.Reactor, oc.Kind, c.R)
		rebuilds := 0
		for k := 0; k < cnt; k++ {
			m, ok := l.protoMutantOther(oc.Reactor, oc.Kind, k, c.R, true)
			if !ok {
				continue
			}
			sess := append(rn.otherPrelude(l, oc.Reactor, c.R), m)
			if v, ok := l.validOtherMsg(oc.Reactor, oc.Kind, c.R); ok {
				sess = append(sess, v) // the same peer goes on with a well-formed message
			}
			if !rn.Session("-", sess) {
				if !rn.calib {
					rebuilds++
				}
				if rebuilds > 6 || !rn.reopen(oc.Spec) {
					return
				}
				l = snapshot(rn.e)
			}
		}
	})
}

func otherRandom(r *core.Run) {
	r.Cases("other-random", r.N(32, 960), childOpts, func(c *core.Case) {
		rg := c.R
		spec := envSpec{Mode: "caughtup", Height: uint64([]int{0, 2, 3, 4}[rg.Intn(4)]), Stage: rg.Intn(20)}
		if rg.Intn(3) == 0 {
			spec = envSpec{Mode: "syncing", Height: uint64(3 + rg.Intn(5))}
		}
		PexSeedMode = rg.Intn(4) == 0
		TxBroadcastOff = rg.Intn(4) == 0
		if TxBroadcastOff {
			c.Run.Count("environments_with_tx_broadcast_disabled", 1)
		}
		defer func() { PexSeedMode, TxBroadcastOff = false, false }()
		rn := open(c, spec)
		if rn == nil {
			return
		}
		defer func() { rn.close() }()
		rebuilds := 0
		for s := 0; s < 100; s++ {
			if s%8 == 7 {
				rn.advance(rg, 1+rg.Intn(6))
			}
			if rn.broken {
				if !rn.calib {
					rebuilds++
				}
				if rebuilds > 6 || !rn.reopen(spec) {
					return
				}
			}
			l := snapshot(rn.e)
			reactor := otherReactors[rg.Intn(len(otherReactors))]
			if spec.Mode == "syncing" && reactor == "blocksync" && rg.Intn(2) == 0 {
				rn.SyncSession(l, rg)
				continue
			}
			sess := rn.otherPrelude(l, reactor, rg)
			for j, nm := 0, 1+rg.Intn(3); j < nm; j++ {
				ks := otherKinds[reactor]
				kind := ks[rg.Intn(len(ks))]
				var m Msg
				var good bool
				switch x := rg.Intn(10); {
				case x < 4:
					m, good = l.goMutantOther(reactor, kind, rg)
				case x < 7:
					if cnt := l.countOther(reactor, kind, rg); cnt > 0 {
						m, good = l.protoMutantOther(reactor, kind, rg.Intn(cnt), rg, true)
					}
				case x < 9:
					m, good = l.bytesMutantOther(reactor, kind, rg)
				default:
					m, good = l.validOtherMsg(reactor, kind, rg)
				}
				if good {
					sess = append(sess, m)
				}
			}
			rn.Session("-", sess)
		}
	})
}

// SyncSession: an attacker that serves the chain. It announces the chain height, waits
// for the node's block requests and answers them with mutated (sometimes genuine) blocks.
func (rn *Runner) SyncSession(l *live, r *rand.Rand) bool {
	defer atomic.StoreInt32(&formatLogs, 0)
	e := rn.e
	if e.Cons.WaitSync() == false {
		rn.run.Count("sync_sessions_skipped_node_left_sync_mode", 1)
		rn.broken = true
		return false
	}
	rn.outbound, rn.settle = true, 45*time.Millisecond
	st, ok := l.validOtherMsg("blocksync", "StatusResponse", r)
	if !ok {
		return true
	}
	sess := []Msg{st}
	peer := rn.begin("sync", sess)
	if peer == nil {
		return false
	}
	if !rn.deliver(peer, "sync", sess, 0) {
		return false
	}
	// the scheduler asks every 20 ms
	var heights []uint64
	deadline := time.Now().Add(400 * time.Millisecond)
	for len(heights) == 0 && time.Now().Before(deadline) {
		for _, o := range peer.takeOut() {
			if o.Ch != blockchain.BlockchainChannel {
				continue
			}
			if m, err := blockchain.DecodeMsg(o.Bytes); err == nil {
				if rq, ok := m.(*bcproto.BlockRequest); ok {
					heights = append(heights, rq.Height)
				}
			}
		}
		if len(heights) == 0 {
			time.Sleep(2 * time.Millisecond)
		}
	}
	rn.run.Count("block_requests_seen", len(heights))
	last := 0
	for i, h := range heights {
		if i >= 3 || !peer.BaseService.IsRunning() {
			break
		}
		bp := l.blockPB(h)
		if bp == nil {
			continue
		}
		pb := &bcproto.Message{Sum: &bcproto.Message_BlockResponse{BlockResponse: &bcproto.BlockResponse{Block: bp}}}
		label := "genuine block"
		if r.Intn(5) != 0 {
			label = ApplyMutation(pb, r.Intn(CountMutations(pb)), r)
		}
		b := marshal(pb)
		if b == nil {
			continue
		}
		sess = append(sess, Msg{Ch: blockchain.BlockchainChannel, Kind: "BlockResponse", Mut: fmt.Sprintf("solicited, height %d: %s", h, label), Level: "proto", Bytes: b, Subject: true})
		last = len(sess) - 1
		rn.resetChildLog("sync", sess)
		rn.run.Count("solicited_block_responses", 1)
		if !rn.deliver(peer, "sync", sess, last) {
			return false
		}
	}
	return rn.finish(peer, "sync", sess, last)
}

// fetchRace: peers announce unknown transactions and all disconnect at the moment the
// fetcher's arrival timeout (500 ms, wall clock) expires, while the
// fetcher loop is busy with a large announcement of another peer. A peer that has
// been unregistered by the reactor but not yet dropped by the fetcher loop is then
// asked for the transactions (the fetch runs in a goroutine without recover).
func fetchRace(r *core.Run) {
	r.Cases("txpool-fetch-race", r.N(16, 48), childOpts, func(c *core.Case) {
		rn := open(c, envSpec{Mode: "caughtup", Height: 2})
		if rn == nil {
			return
		}
		defer func() { rn.close() }()
		for attempt := 0; attempt < 3; attempt++ {
			rn.FetchRace(c.R)
			if rn.broken {
				return
			}
		}
	})
}

func hashesMsg(r *rand.Rand, n int) []byte {
	hh := make([][]byte, n)
	for i := range hh {
		hh[i] = make([]byte, 32)
		r.Read(hh[i])
	}
	return marshal(&prototx.Message{Sum: &prototx.Message_PooledTransactionHashes{PooledTransactionHashes: &prototx.PooledTransactionHashes{Hashes: hh}}})
}

func (rn *Runner) FetchRace(r *rand.Rand) {
	e := rn.e
	const n = 10
	atomic.StoreInt32(&formatLogs, 1)
	defer atomic.StoreInt32(&formatLogs, 0)
	var sess []Msg
	var peers []*StubPeer
	for i := 0; i < n; i++ {
		sess = append(sess, Msg{Ch: tx_pool.TxpoolChannel, Kind: "PooledTransactionHashes", Mut: fmt.Sprintf("peer %d announces 3 unknown hashes, then disconnects 498 ms later (arrival timeout: 500 ms)", i), Level: "valid", Bytes: hashesMsg(r, 3), Subject: true})
	}
	big := Msg{Ch: tx_pool.TxpoolChannel, Kind: "PooledTransactionHashes", Mut: "another peer announces 40000 hashes 496 ms later (keeps the fetcher loop busy)", Level: "valid", Bytes: hashesMsg(r, 40000)}
	sess = append(sess, big)
	rn.resetChildLog("fetch-race", sess)
	noise := e.AddPeer(false)
	t0 := time.Now()
	for i := 0; i < n; i++ {
		p := e.AddPeer(false)
		peers = append(peers, p)
		e.TxR.Receive(tx_pool.TxpoolChannel, p, sess[i].Bytes)
		rn.run.Eval(1)
		rn.run.Count("messages", 1)
		rn.run.Count("messages:txpool:valid", 1)
	}
	time.Sleep(time.Until(t0.Add(496 * time.Millisecond)))
	go e.TxR.Receive(tx_pool.TxpoolChannel, noise, big.Bytes)
	time.Sleep(time.Until(t0.Add(498 * time.Millisecond)))
	var wg sync.WaitGroup
	for _, p := range peers {
		wg.Add(1)
		go func(p *StubPeer) { defer wg.Done(); e.DropPeer(p) }(p)
	}
	done := make(chan struct{})
	go func() { wg.Wait(); close(done) }()
	select {
	case <-done:
	case <-time.After(hangAfter):
		rn.hang("RemovePeer of announcing peers", "txpool", "PooledTransactionHashes", "c18.(*Env).DropPeer", rn.witness("fetch-race", sess, len(sess)-1, nil))
		return
	}
	time.Sleep(150 * time.Millisecond) // requests to the remaining announcers are scheduled in goroutines
	rn.run.Count("fetch_race_attempts", 1)
	rn.run.Count("sessions", 1)
	e.DropPeer(noise)
	if !tryLock(e.V.Pool.VerifTryLock) {
		rn.broken = true
		rn.c.Violation("mutex-held:txpool:PooledTransactionHashes:TxPool.mu", "TxPool.mu still held", rn.witness("fetch-race", sess, len(sess)-1, nil))
	}
}

// ---------------------------------------------------------------- Byzantine proposer

// byzProposer: the attacker holds the key of the validator whose turn it is to propose.
// It sends a correctly signed proposal for arbitrary block content (fabricated blocks
// with invalid headers, structurally mutated genuine blocks, byte garbage) and all its
// parts; the node assembles, decodes, validates and prevotes.
func byzProposer(r *core.Run) {
	r.Cases("byz-proposer", r.N(24, 480), childOpts, func(c *core.Case) {
		rg := c.R
		spec := envSpec{Mode: "caughtup", Height: uint64(rg.Intn(3))}
		rn := open(c, spec)
		if rn == nil {
			return
		}
		defer func() { rn.close() }()
		done := 0
		for h := spec.Height + 1; h < spec.Height+14 && done < 5 && !rn.broken; h++ {
			l := snapshot(rn.e)
			if l.AdvProposer && rn.e.V.CS.GetRoundState().Proposal == nil {
				rn.describe()
				if rn.ByzSession(l, rg, (c.I+done)%7+7*(c.I/7*5+done)) {
					done++
				}
			}
			if rn.broken || rn.e.V.Dead {
				break
			}
			res := rn.e.Net.RunSync(h, 60, nil)
			if rn.e.V.Dead {
				rn.advance(rg, 0)
				break
			}
			if !res.Reached {
				break
			}
		}
		rn.run.Count("byz_proposer_sessions", done)
	})
}

func (rn *Runner) ByzSession(l *live, r *rand.Rand, variant int) bool {
	e := rn.e
	var data []byte
	var hash cmn.Hash
	what := ""
	genuine := makeBlock(e, 0)
	if genuine == nil {
		return false
	}
	pol := uint32(0)
	switch variant % 7 {
	case 5: // a block carrying duplicate-vote evidence (well-formed, or with one aspect wrong), then possibly mutated inside
		h := l.StoreH
		if h == 0 {
			h = 1
		}
		ev := l.evidenceAt(h, r)
		if ev == nil {
			return false
		}
		what = fmt.Sprintf("block with evidence of height %d", h)
		switch (variant / 7) % 5 {
		case 1:
			ev.TotalVotingPower = -1
			what += ", total power -1"
		case 2:
			ev.VoteB.ValidatorAddress = e.Net.Addrs[0]
			what += ", votes of two validators"
		case 3:
			ev.Timestamp = ev.Timestamp.Add(time.Hour)
			what += ", wrong time"
		case 4:
			ev.VoteA.Signature = ev.VoteA.Signature[:64]
			what += ", 64-byte signature"
		}
		blk := makeBlockWith(e, nil, []types.Evidence{ev})
		if blk == nil {
			return false
		}
		pb, err := blk.ToProto()
		if err != nil {
			return false
		}
		if r.Intn(2) == 0 {
			evs := &pb.Evidence
			what += " with " + ApplyMutation(evs, r.Intn(CountMutations(evs)), r)
		}
		data, hash = marshal(pb), blk.Hash()
	case 6: // a block carrying unusual transactions (they decode; values at the edges)
		var txs []*types.Transaction
		for i := 0; i < 6; i++ {
			raw, w := rawTx(r, l)
			tx := new(types.Transaction)
			if rlp.DecodeBytes(raw, tx) == nil {
				txs = append(txs, tx)
				what += w + "; "
			}
		}
		blk := makeBlockWith(e, txs, nil)
		if blk == nil {
			return false
		}
		pb, err := blk.ToProto()
		if err != nil {
			return false
		}
		what = "block with transactions: " + what
		data, hash = marshal(pb), blk.Hash()
	case 4: // a valid block, but the proposal claims a proof-of-lock round that is not below its round
		pb, err := genuine.ToProto()
		if err != nil {
			return false
		}
		pol = []uint32{l.R, l.R + 1, 1<<32 - 1}[(variant/7)%3]
		data, hash, what = marshal(pb), genuine.Hash(), fmt.Sprintf("valid block, POLRound=%d (round %d)", pol, l.R)
	case 0: // fabricated block with one invalid aspect (or a valid one)
		v := (variant / 7) % 11
		if b2 := makeBlock(e, v); b2 != nil {
			pb, err := b2.ToProto()
			if err != nil {
				return false
			}
			data, hash, what = marshal(pb), b2.Hash(), fmt.Sprintf("fabricated block, variant %d", v)
		}
	case 1, 2: // structural mutation of a valid block
		pb, err := genuine.ToProto()
		if err != nil {
			return false
		}
		what = "valid block with " + ApplyMutation(pb, r.Intn(CountMutations(pb)), r)
		data, hash = marshal(pb), genuine.Hash()
	case 3: // bytes
		pb, _ := genuine.ToProto()
		b := marshal(pb)
		var label string
		data, label = MutateBytes(b, r)
		what, hash = "valid block bytes with "+label, genuine.Hash()
	}
	if len(data) == 0 {
		return false
	}
	ps := types.NewPartSetFromData(data, types.BlockPartSizeBytes)
	bid := types.BlockID{Hash: hash, PartsHeader: ps.Header()}
	prop := e.Adv.SignProposal(e.AdvIdx, l.H, l.R, pol, bid)
	var sess []Msg
	if m, ok := l.validMsg("NewRoundStep", l.H, l.R); ok {
		sess = append(sess, m)
	}
	pb := toPB(&consensus.ProposalMessage{Proposal: prop})
	if pb == nil {
		return false
	}
	sess = append(sess, Msg{Ch: consensus.DataChannel, Kind: "Proposal", Mut: "signed by the round's proposer (attacker-held key) for: " + what, Level: "go", Bytes: marshal(pb), Subject: true})
	for i := 0; i < int(ps.Total()); i++ {
		ppb := toPB(&consensus.BlockPartMessage{Height: l.H, Round: l.R, Part: ps.GetPart(i)})
		if ppb == nil {
			return false
		}
		sess = append(sess, Msg{Ch: consensus.DataChannel, Kind: "BlockPart", Mut: fmt.Sprintf("part %d/%d of: %s", i, ps.Total(), what), Level: "go", Bytes: marshal(ppb), Subject: true})
	}
	rn.outbound, rn.settle = false, 0
	ok := rn.Session("same", sess)
	if ok && !rn.broken {
		// another peer in the same round that has not seen the proposal: the node gossips it (and its POL bits)
		if m, good := l.validMsg("NewRoundStep", l.H, l.R); good {
			m.Subject = true
			m.Mut += " (peer to be sent the proposal accepted before: " + what + ")"
			ok = rn.Session("same", []Msg{m})
		}
	}
	if rn.broken {
		return true
	}
	rs := e.V.CS.GetRoundState()
	rn.run.Distinct("byz_block_outcome", fmt.Sprintf("proposal=%v block=%v step=%v", rs.Proposal != nil, rs.ProposalBlock != nil, rs.Step))
	if rs.ProposalBlock != nil {
		rn.run.Count("byz_blocks_decoded_by_victim", 1)
	}
	return ok || true
}

// ---------------------------------------------------------------- block-sync processor

// consistentCommitMutation restructures the block's last commit (an entry duplicated at the end, the last entry
// dropped, two entries swapped, an absent entry appended) and recomputes the header's LastCommitHash, so that the
// block is internally consistent. Returns "" if the block has no usable last commit.
func consistentCommitMutation(pb *kproto.Block, rg *rand.Rand) string {
	if pb == nil || pb.LastCommit == nil || len(pb.LastCommit.Signatures) == 0 {
		return ""
	}
	sigs := pb.LastCommit.Signatures
	what := ""
	switch rg.Intn(4) {
	case 0:
		k := rg.Intn(len(sigs))
		pb.LastCommit.Signatures = append(append([]kproto.CommitSig{}, sigs...), sigs[k])
		what = fmt.Sprintf("last commit: entry %d duplicated at the end (%d entries for %d validators), commit hash recomputed", k, len(sigs)+1, len(sigs))
	case 1:
		pb.LastCommit.Signatures = append([]kproto.CommitSig{}, sigs[:len(sigs)-1]...)
		what = "last commit: last entry dropped, commit hash recomputed"
	case 2:
		if len(sigs) < 2 {
			return ""
		}
		cp := append([]kproto.CommitSig{}, sigs...)
		cp[0], cp[1] = cp[1], cp[0]
		pb.LastCommit.Signatures = cp
		what = "last commit: entries 0 and 1 swapped, commit hash recomputed"
	default:
		pb.LastCommit.Signatures = append(append([]kproto.CommitSig{}, sigs...), kproto.CommitSig{BlockIdFlag: kproto.BlockIDFlagAbsent})
		what = "last commit: an absent entry appended, commit hash recomputed"
	}
	cm, err := types.CommitFromProto(pb.LastCommit)
	if err != nil {
		return ""
	}
	pb.Header.LastCommitHash = cm.Hash().Bytes()
	return what
}

// syncProcessor drives the block-sync processor (the code behind Receive for solicited
// block responses: VerifyCommit, SaveBlock, ApplyBlock) with the genuine chain and
// with structurally mutated blocks that still pass decoding.
func syncProcessor(r *core.Run) {
	r.Cases("blocksync-processor", r.N(8, 64), childOpts, func(c *core.Case) {
		rg := c.R
		e, err := NewEnv("syncing", 7)
		if err != nil {
			r.Inconclusive("environment: " + err.Error())
			return
		}
		defer e.Close()
		l := snapshot(e)
		v := e.V
		st, err := v.Store.LoadStateFromDBOrGenesisDoc(v.Gen)
		if err != nil {
			r.Inconclusive(err.Error())
			return
		}
		proc := blockchain.VerifNewProcessor(v.BO, v.Exec, st)
		decode := func(pb *kproto.Block) *types.Block {
			b, err := blockchain.EncodeMsg(&bcproto.BlockResponse{Block: pb})
			if err != nil {
				return nil
			}
			m, err := blockchain.DecodeMsg(b)
			if err != nil || blockchain.ValidateMsg(m) != nil {
				return nil
			}
			blk, err := types.BlockFromProto(m.(*bcproto.BlockResponse).Block, trie.NewStackTrie(nil))
			if err != nil {
				return nil
			}
			return blk
		}
		feed := 0
		put := func(blk *types.Block) {
			feed++
			proc.BlockReceived(p2p.ID(fmt.Sprintf("peer-%d", feed)), blk)
		}
		attempts := 0
		for proc.Height()+2 <= l.StoreH && attempts < r.N(300, 1500) {
			attempts++
			h := proc.Height() + 1
			// mutate one of the two blocks that are not queued yet (a verification failure purges both; a
			// processed pair leaves the second one queued as the next first)
			var cands []uint64
			for _, x := range []uint64{h, h + 1} {
				if !proc.Queued(x) {
					cands = append(cands, x)
				}
			}
			mutateH := uint64(0)
			if len(cands) > 0 && attempts%6 != 0 { // every sixth attempt: the genuine blocks
				mutateH = cands[rg.Intn(len(cands))]
			}
			label := "genuine pair"
			ok := true
			var blks []*types.Block
			for _, x := range cands {
				pb := l.blockPB(x)
				if pb == nil {
					return
				}
				if x == mutateH {
					if what := consistentCommitMutation(pb, rg); what != "" && rg.Intn(4) == 0 {
						// the last commit restructured and the header's commit hash made to agree with it: only the
						// checks behind the decoder (VerifyCommit against the validator set) can refuse the block
						label = fmt.Sprintf("block %d: %s", x, what)
						c.Run.Count("processor_mutants_with_restructured_consistent_last_commit", 1)
					} else {
						pb = l.blockPB(x)
						label = fmt.Sprintf("block %d: %s", x, ApplyMutation(pb, rg.Intn(CountMutations(pb)), rg))
					}
				}
				blk := decode(pb)
				// the scheduler hands the processor only blocks that answer a pending request: the height asked for
				if blk == nil {
					c.Run.Count("processor_mutants_refused_by_decoder", 1)
					ok = false
					break
				}
				if blk.Height() != x {
					c.Run.Count("processor_mutants_refused_by_scheduler_rule", 1)
					ok = false
					break
				}
				blks = append(blks, blk)
			}
			c.Run.Eval(1)
			c.Run.Count("processor_block_pairs", 1)
			if !ok {
				continue
			}
			wit := map[string]interface{}{"height": h, "mutation": label}
			c.Guard("block-sync processor", func() interface{} { return wit }, func() {
				for _, blk := range blks {
					put(blk)
				}
				ev, _, err := proc.ProcessBlock()
				c.Run.Count("processor_outcome:"+ev, 1)
				if err != nil {
					c.Run.Count("processor_errors", 1)
				}
				if mutateH != 0 {
					c.Run.Nontrivial(fmt.Sprint("proc", h, label, ev))
					c.Run.Count("processor_mutants_reached_verification", 1)
				} else if ev != "processed" {
					c.Run.Count("processor_genuine_pair_not_applied", 1)
				}
			})
		}
		c.Run.Max("processor_height_reached", int64(proc.Height()))
	})
}

// makeBlock builds the block the attacker's validator would propose now, optionally with one
// invalid aspect (the same variants as the simulator's adversary library).
func makeBlock(e *Env, variant int) *types.Block {
	ref := e.V
	st := ref.CS.VerifState()
	rs := ref.CS.GetRoundState()
	h := st.LastBlockHeight + 1
	var commit *types.Commit
	if h == st.InitialHeight {
		commit = types.NewCommit(0, 0, types.BlockID{}, nil)
	} else if rs.LastCommit != nil && rs.LastCommit.HasTwoThirdsMajority() {
		commit = rs.LastCommit.MakeCommit()
	} else {
		return nil
	}
	base, _ := ref.BO.BlockOperations.CreateProposalBlock(h, st, e.Net.Addrs[e.AdvIdx], commit)
	if base == nil {
		return nil
	}
	hd := base.Header()
	txs := []*types.Transaction(base.Transactions())
	switch variant {
	case 1:
		hd.AppHash = cmn.BytesToHash([]byte("bogus app hash"))
	case 2:
		hd.ValidatorsHash = cmn.BytesToHash([]byte("bogus validators"))
	case 3:
		hd.Time = hd.Time.Add(time.Second)
	case 4:
		hd.LastBlockID = types.BlockID{Hash: cmn.BytesToHash([]byte("other parent")), PartsHeader: types.PartSetHeader{Total: 1, Hash: cmn.BytesToHash([]byte("x"))}}
	case 5:
		hd.Height = h + 1
	case 6:
		hd.Height = 0
	case 7:
		if len(commit.Signatures) > 0 {
			cc := commit.Copy()
			cc.Round += 3
			commit = cc
			hd.LastCommitHash = cmn.Hash{}
		}
	case 8:
		hd.ProposerAddress = cmn.HexToAddress("0xdeadbeef")
	case 9:
		hd.NumTxs = 1 << 40
	case 10:
		hd.GasLimit = 0
	}
	return types.NewBlock(hd, txs, commit, base.Evidence().Evidence, trie.NewStackTrie(nil))
}

// makeBlockWith: the attacker's block with extra transactions / evidence.
func makeBlockWith(e *Env, extraTxs []*types.Transaction, evs []types.Evidence) *types.Block {
	base := makeBlock(e, 0)
	if base == nil {
		return nil
	}
	txs := append([]*types.Transaction(base.Transactions()), extraTxs...)
	return types.NewBlock(base.Header(), txs, base.LastCommit(), append(base.Evidence().Evidence, evs...), trie.NewStackTrie(nil))
}

// ---------------------------------------------------------------- Byzantine voter

// byzVotes: the attacker holds one validator key. It sends correctly signed votes with
// unusual content (nil / fabricated / incomplete / oversized block ids, this round and
// the next) at the start of a height; the network then commits that height with the
// attacker's vote sitting in the node's vote sets (tallies, commit construction,
// evidence against the attacker's validator when its honest twin votes too).
func byzVotes(r *core.Run) {
	r.Cases("byz-votes", r.N(8, 192), childOpts, func(c *core.Case) {
		rg := c.R
		spec := envSpec{Mode: "caughtup", Height: uint64(1 + rg.Intn(2))}
		rn := open(c, spec)
		if rn == nil {
			return
		}
		defer func() { rn.close() }()
		type sc struct {
			t   kproto.SignedMsgType
			bid int
			dr  uint32
		}
		var scs []sc
		for _, t := range []kproto.SignedMsgType{kproto.PrevoteType, kproto.PrecommitType} {
			for bid := 0; bid < 6; bid++ {
				for _, dr := range []uint32{0, 1} {
					scs = append(scs, sc{t, bid, dr})
				}
			}
		}
		rg.Shuffle(len(scs), func(i, j int) { scs[i], scs[j] = scs[j], scs[i] })
		for i, s := range scs {
			if i >= 12 || rn.broken {
				break
			}
			l := snapshot(rn.e)
			rn.describe()
			b := l.RealBID
			what := "real block id of the previous block"
			switch s.bid {
			case 0:
				b, what = types.BlockID{}, "nil"
			case 1:
				b, what = l.FakeBID, "fabricated block id"
			case 2:
				b.PartsHeader, what = types.PartSetHeader{}, "hash without parts header (incomplete)"
			case 3:
				b.Hash, what = cmn.Hash{}, "parts header without hash (incomplete)"
			case 4:
				b.PartsHeader.Total, what = 1<<32-1, "parts total 2^32-1"
			}
			v := l.advVote(l.H, l.R+s.dr, s.t, b)
			pb := toPB(&consensus.VoteMessage{Vote: v})
			if pb == nil {
				continue
			}
			var sess []Msg
			if m, ok := l.validMsg("NewRoundStep", l.H, l.R); ok {
				sess = append(sess, m)
			}
			sess = append(sess, Msg{Ch: consensus.VoteChannel, Kind: "Vote", Mut: fmt.Sprintf("signed by the attacker's validator: type %v height %d round %d block id: %s", s.t, l.H, l.R+s.dr, what), Level: "go", Bytes: marshal(pb), Subject: true})
			rn.outbound, rn.settle = false, 0
			rn.Session("same", sess)
			if rn.broken {
				break
			}
			rn.run.Count("byz_vote_scenarios", 1)
			// the height is decided with that vote in place
			res := rn.e.Net.RunSync(l.H, 60, nil)
			if rn.e.V.Dead {
				rn.advance(rg, 0)
				break
			}
			if !res.Reached {
				rn.run.Count("byz_vote_height_not_committed", 1)
				break
			}
		}
	})
}

// ---------------------------------------------------------------- several peers at once

// concurrentGroup: four peers deliver their (mutated) messages at the same time, each
// from its own goroutine as their MConnections would; then the usual checks.
func concurrentGroup(r *core.Run) {
	opts := childOpts
	if os.Getenv("C18_RACE") != "" {
		opts.Race = true // needs bin/vcheck-c18-race (tools/dev.sh C18 ... --race)
	}
	r.Cases("concurrent", r.N(8, 192), opts, func(c *core.Case) {
		rg := c.R
		spec := envSpec{Mode: "caughtup", Height: uint64(2 + rg.Intn(2)), Stage: rg.Intn(12)}
		rn := open(c, spec)
		if rn == nil {
			return
		}
		defer func() { rn.close() }()
		for round := 0; round < 25 && !rn.broken; round++ {
			if round%5 == 4 {
				rn.advance(rg, 1+rg.Intn(5))
				if rn.broken {
					return
				}
			}
			l := snapshot(rn.e)
			const np = 4
			var sessions [][]Msg
			var all []Msg
			for p := 0; p < np; p++ {
				variant := preludes[rg.Intn(len(preludes))]
				sess := l.prelude(variant, rg)
				for j, nm := 0, 2+rg.Intn(4); j < nm; j++ {
					var m Msg
					var good bool
					if rg.Intn(3) != 0 {
						kind := consKinds[rg.Intn(len(consKinds))]
						switch rg.Intn(3) {
						case 0:
							m, good = l.goMutant(kind, rg)
						case 1:
							if cnt := l.countProto(kind, l.H, l.R); cnt > 0 {
								m, good = l.protoMutant(kind, l.H, l.R, rg.Intn(cnt), rg)
							}
						default:
							m, good = l.validMsg(kind, l.H, l.R)
						}
					} else {
						re := otherReactors[rg.Intn(len(otherReactors))]
						ks := otherKinds[re]
						kind := ks[rg.Intn(len(ks))]
						if rg.Intn(2) == 0 {
							m, good = l.goMutantOther(re, kind, rg)
						} else if cnt := l.countOther(re, kind, rg); cnt > 0 {
							m, good = l.protoMutantOther(re, kind, rg.Intn(cnt), rg, true)
						}
					}
					if good {
						sess = append(sess, m)
					}
				}
				sessions = append(sessions, sess)
				all = append(all, sess...)
			}
			rn.resetChildLog("concurrent", all)
			atomic.StoreInt32(&formatLogs, 1)
			peers := make([]*StubPeer, np)
			for p := range peers {
				peers[p] = rn.e.AddPeer(p%2 == 0)
			}
			var wg sync.WaitGroup
			hung := int32(0)
			for p := 0; p < np; p++ {
				wg.Add(1)
				go func(p int) {
					defer wg.Done()
					for i, m := range sessions[p] {
						if !peers[p].BaseService.IsRunning() {
							return
						}
						reactor := rn.e.byCh[m.Ch]
						if reactor == nil || len(m.Bytes) > rn.e.capByCh[m.Ch] {
							continue
						}
						i, m := i, m
						rname := reactorName(rn.e, m.Ch)
						rn.run.Eval(1)
						rn.run.Count("messages", 1)
						rn.run.Count("messages_delivered_concurrently", 1)
						wit := func() interface{} {
							return rn.witness("concurrent", sessions[p], i, map[string]interface{}{"other_peers_at_the_same_time": np - 1})
						}
						ret, pan := rn.call("Receive("+rname+" "+m.Kind+")", rname, m.Kind, wit, func() { reactor.Receive(m.Ch, peers[p], m.Bytes) })
						if !ret {
							atomic.StoreInt32(&hung, 1)
							rn.hang("Receive("+rname+" "+m.Kind+") with other peers active", rname, m.Kind, "c18.concurrentGroup.func", wit())
							return
						}
						if pan {
							rn.e.SW.StopPeerForError(peers[p], "panic in Receive")
							return
						}
					}
				}(p)
			}
			wg.Wait()
			atomic.StoreInt32(&formatLogs, 0)
			if atomic.LoadInt32(&hung) != 0 {
				return
			}
			last := len(all) - 1
			if !tryLock(rn.e.V.CS.VerifTryLock) {
				rn.broken = true
				rn.c.Violation("mutex-held:consensus:concurrent:ConsensusState.mtx", "ConsensusState.mtx is still held after concurrent deliveries", rn.witness("concurrent", all, last, nil))
				return
			}
			if !rn.e.V.Quiesce() {
				rn.dead("concurrent", all, last, "consensus", "concurrent")
				return
			}
			for _, p := range peers {
				if w := rn.e.WaitGossip(p, 2); w != "" {
					st := goroutineOf("consensus.(*ConsensusManager)." + w)
					if st != "" && !strings.Contains(st, "time.Sleep") {
						rn.c.Violation("hang:consensus:concurrent:"+frameKey(st), "gossip routine "+w+" stopped iterating", rn.witness("concurrent", all, last, map[string]interface{}{"goroutine": firstLines(st, 40)}))
					} else {
						rn.run.Inconclusive("gossip routine " + w + " made no progress for 10s (concurrent group)")
					}
					rn.broken = true
					return
				}
			}
			rn.run.Count("gossip_waits", 1)
			rn.run.Count("concurrent_rounds", 1)
			if !rn.probes(peers[0], "concurrent", all, last, "consensus", "concurrent") {
				return
			}
			for _, p := range peers {
				rn.e.DropPeer(p)
			}
		}
	})
}
