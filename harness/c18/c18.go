// Package c18 decides C18: no message from a peer can crash the node.
//
// Every reactor is built as production builds it around the live components of a
// node inside a simulated four-validator network; stub peers are connected through
// the real switch; messages are generated from the live state and mutated at three
// levels (Go values, protobuf structs, bytes); after every message the node must
// still be alive, unlocked and within its allocation bound.
package c18

import (
	"fmt"
	"math/rand"
	"os"

	cstypes "github.com/kardiachain/go-kardia/consensus/types"

	"verifharness/core"
)

func init() { core.Register("C18", Main) }

var childOpts = core.Opts{Procs: 16, Workers: 1, HangIsViolation: true, StallSec: 180, MemMB: 8192, Env: []string{"GOTRACEBACK=single"}}

type envSpec struct {
	Mode   string
	Height uint64
	Stage  int // 0: as the synchronous run left the node (new height); >0: that many scheduler steps into the next height
}

func (s envSpec) String() string { return fmt.Sprintf("%s h=%d stage=%d", s.Mode, s.Height, s.Stage) }

// open builds an environment per spec (deterministic in the spec).
func open(c *core.Case, s envSpec) *Runner {
	e, err := NewEnv(s.Mode, s.Height)
	if err != nil {
		c.Run.Inconclusive("environment: " + err.Error())
		return nil
	}
	if s.Stage > 0 && s.Mode == "caughtup" {
		rng := rand.New(rand.NewSource(int64(s.Stage)))
		for i := 0; i < s.Stage && !e.V.Dead; i++ {
			e.Net.AdvStep(rng, nil)
		}
	}
	rn := &Runner{c: c, run: c.Run, e: e}
	rn.describe()
	return rn
}

func (rn *Runner) describe() {
	e := rn.e
	rs := e.V.CS.GetRoundState()
	rn.envDesc = fmt.Sprintf("%s victim at %d/%d/%v proposal=%v network: %s", e.Mode, rs.Height, rs.Round, rs.Step, rs.Proposal != nil, e.Net.Heights())
	if e.Mode == "caughtup" {
		rn.run.Distinct("victim_step", rs.Step.String())
		rn.run.Distinct("victim_state", fmt.Sprintf("%v r%d prop=%v locked=%v", rs.Step, minU32(rs.Round, 3), rs.Proposal != nil, rs.LockedBlock != nil))
	}
	rn.run.Distinct("env_mode", e.Mode)
}

func minU32(a, b uint32) uint32 {
	if a < b {
		return a
	}
	return b
}

// reopen replaces a broken environment.
func (rn *Runner) reopen(s envSpec) bool {
	rn.e.Close()
	rn.run.Count("environment_rebuilds", 1)
	n := open(rn.c, s)
	if n == nil {
		return false
	}
	*rn = *n
	return true
}

// advance lets the network make some progress so that the victim moves through steps and heights.
func (rn *Runner) advance(r *rand.Rand, steps int) {
	if rn.e.Mode != "caughtup" {
		return
	}
	for i := 0; i < steps && !rn.e.V.Dead; i++ {
		rn.e.Net.AdvStep(r, nil)
	}
	if rn.e.V.Dead {
		rn.broken = true
		return
	}
	rn.describe()
}

var _ = cstypes.RoundStepNewHeight

func Main() {
	r := core.Start("C18", "exploration")
	r.SetRule("evaluation = one message handed to Reactor.Receive of a reactor built as in production around a live node (4-validator simulated network; victim caught up at some consensus step, or fast-syncing), sent by a stub peer connected through the real switch; non-trivial = a mutated message (distinct reactor, type, mutation, peer-state prelude) that passed decoding and validation, i.e. reached the handler with live state instead of being rejected at the door")
	if os.Getenv("C18_ONLY") == "" || os.Getenv("C18_ONLY") == "cons" {
		consCorpus(r)
		consRandom(r)
	}
	r.Floor("messages", 1000)
	r.Floor("mutants_accepted", 100)
	r.Floor("gossip_waits", 100)
	r.Finish()
}

var corpusEnvs = []envSpec{{"caughtup", 3, 0}, {"caughtup", 3, 14}, {"syncing", 3, 0}}

// consCorpus: every structural mutation of every consensus message type, under every
// peer-state prelude, in three node states.
func consCorpus(r *core.Run) {
	n := len(corpusEnvs) * len(consKinds)
	r.Cases("cons-corpus", n, childOpts, func(c *core.Case) {
		spec := corpusEnvs[c.I/len(consKinds)]
		kind := consKinds[c.I%len(consKinds)]
		rn := open(c, spec)
		if rn == nil {
			return
		}
		defer func() { rn.e.Close() }()
		rebuilds := 0
		for _, variant := range preludes {
			l := snapshot(rn.e)
			h, rd, ok := l.peerHR(variant)
			if !ok {
				if variant != "none" {
					continue
				}
				h, rd = l.H, l.R
			}
			cnt := l.countProto(kind, h, rd)
			for k := 0; k < cnt; k++ {
				m, ok := l.protoMutant(kind, h, rd, k, c.R)
				if !ok {
					continue
				}
				sess := append(l.prelude(variant, c.R), m)
				sess = append(sess, l.postlude(variant)...)
				if !rn.Session(variant, sess) {
					rebuilds++
					if rebuilds > 40 || !rn.reopen(spec) {
						return
					}
					l = snapshot(rn.e)
				}
			}
		}
	})
}

// consRandom: random sessions (all three mutation levels), the network advancing in between.
func consRandom(r *core.Run) {
	r.Cases("cons-random", r.N(32, 1600), childOpts, func(c *core.Case) {
		rg := c.R
		spec := envSpec{Mode: "caughtup", Height: uint64(2 + rg.Intn(3)), Stage: rg.Intn(30)}
		if rg.Intn(4) == 0 {
			spec.Mode = "syncing"
		}
		rn := open(c, spec)
		if rn == nil {
			return
		}
		defer func() { rn.e.Close() }()
		rebuilds := 0
		for s := 0; s < 120; s++ {
			if s%6 == 5 {
				rn.advance(rg, 1+rg.Intn(6))
			}
			if rn.broken {
				rebuilds++
				if rebuilds > 8 || !rn.reopen(spec) {
					return
				}
			}
			l := snapshot(rn.e)
			variant := preludes[rg.Intn(len(preludes))]
			sess := l.prelude(variant, rg)
			nm := 1 + rg.Intn(3)
			for j := 0; j < nm; j++ {
				kind := consKinds[rg.Intn(len(consKinds))]
				h, rd, ok := l.peerHR(variant)
				if !ok || rg.Intn(4) == 0 {
					h, rd = l.H, l.R
				}
				var m Msg
				var good bool
				switch x := rg.Intn(10); {
				case x < 4:
					m, good = l.goMutant(kind, rg)
				case x < 8:
					if cnt := l.countProto(kind, h, rd); cnt > 0 {
						m, good = l.protoMutant(kind, h, rd, rg.Intn(cnt), rg)
					}
				default:
					m, good = l.bytesMutant(kind, h, rd, rg)
				}
				if good {
					sess = append(sess, m)
				}
			}
			if rg.Intn(2) == 0 {
				sess = append(sess, l.postlude(variant)...)
			}
			rn.Session(variant, sess)
		}
	})
}
