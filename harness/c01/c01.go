// Package c01 decides C01 (agreement) on the deterministic simulator.
package c01

import (
	"verifharness/core"
	"verifharness/netsim"
)

func init() { core.Register("C01", Main) }

func Main() {
	r := core.Start("C01", "exploration")
	r.SetRule("every block persisted by a correct node of a simulated network (random validator sets, adversary < 1/3 with the strategy library, adversarial schedules) is compared with what other correct nodes persisted at that height and its seen commit is re-verified independently against the monitor-derived validator set; non-trivial = at least 3 heights committed after an adversarial prefix")
	r.Assume("the simulator delivers to a node only through its real receive loop; gossip emulation offers what real reactors send (state-based, maj23 exchange), adversary < 1/3 of the power")
	r.Cases("blocksync", r.N(48, 2000), core.Opts{Procs: 16, StallSec: 300}, blocksync)
	r.Cases("attack", len(netsim.Attacks)*len(netsim.AttackCfgs()), core.Opts{Procs: 16, StallSec: 300}, func(c *core.Case) { netsim.AttackCase(c, "C01") })
	r.Cases("random", r.N(400, 8000), core.Opts{Procs: 16, StallSec: 300}, func(c *core.Case) { netsim.RandomCase(c, "C01", 7, 400) })
	if !r.Quick() {
		// E-live: real reactors, switches and tickers (no race instrumentation here; C03's thorough tier runs it under -race)
		r.Cases("live", 24, core.Opts{Procs: 4, StallSec: 1500, InconclusiveFatal: []string{"lib/p2p.Connect2Switches"}}, func(c *core.Case) { netsim.LiveCase(c, "C01") })
	}
	r.Finish()
}
