package c01

import (
	"fmt"

	"github.com/kardiachain/go-kardia/blockchain"
	"github.com/kardiachain/go-kardia/consensus"
	"github.com/kardiachain/go-kardia/lib/common"
	"github.com/kardiachain/go-kardia/lib/p2p"
	"github.com/kardiachain/go-kardia/trie"
	"github.com/kardiachain/go-kardia/types"

	"verifharness/core"
	"verifharness/netsim"
)

// Block sync: a fresh node is fed, by Byzantine peers, genuine blocks of the canonical chain mixed with
// forgeries; it drives the REAL block-sync processor (verifyCommit with its own state, SaveBlock,
// ApplyBlock). Every block it adopts must be the block the correct validators committed.

type forgery struct {
	name string
	// make returns the pair (first, second) offered for heights h, h+1 given the genuine blocks.
	make func(x *bsctx, h uint64, first, second *types.Block) (*types.Block, *types.Block)
}

type bsctx struct {
	net *netsim.Net
	adv *netsim.Adversary
	src *netsim.Node
	b   int
	nil map[uint64]map[uint32]map[common.Address]*types.Vote // genuine NIL precommits of correct validators: height -> round -> validator
}

// nilCollector records the nil precommits correct validators really signed in failed rounds of the canonical run.
type nilCollector struct{ x *bsctx }

func (nc nilCollector) Observe(net *netsim.Net, n *netsim.Node, evs []netsim.Ev) {
	for _, e := range evs {
		vm, ok := e.Msg.(*consensus.VoteMessage)
		if e.Kind != netsim.EvRecv || !ok || vm.Vote == nil {
			continue
		}
		v := vm.Vote
		if v.Type != 2 || !v.BlockID.IsZero() || v.ValidatorAddress == net.Addrs[nc.x.b] {
			continue
		}
		if nc.x.nil[v.Height] == nil {
			nc.x.nil[v.Height] = map[uint32]map[common.Address]*types.Vote{}
		}
		if nc.x.nil[v.Height][v.Round] == nil {
			nc.x.nil[v.Height][v.Round] = map[common.Address]*types.Vote{}
		}
		nc.x.nil[v.Height][v.Round][v.ValidatorAddress] = v
	}
}

func rebuild(b *types.Block, hdMod func(*types.Header), lc *types.Commit, txs []*types.Transaction) *types.Block {
	hd := b.Header()
	if hdMod != nil {
		hdMod(hd)
	}
	if lc == nil {
		lc = b.LastCommit()
	} else {
		hd.LastCommitHash = common.Hash{}
	}
	if txs == nil {
		txs = b.Transactions()
	}
	return types.NewBlock(hd, txs, lc, b.Evidence().Evidence, trie.NewStackTrie(nil))
}

func blockID(b *types.Block) types.BlockID {
	return types.BlockID{Hash: b.Hash(), PartsHeader: b.MakePartSet(types.BlockPartSizeBytes).Header()}
}

// forgedCommit: a commit for block `first` at height h "signed" as specified.
func (x *bsctx) forgedCommit(first *types.Block, genuine *types.Commit, kind string) *types.Commit {
	id := blockID(first)
	c := genuine.Copy()
	sigs := append([]types.CommitSig(nil), c.Signatures...)
	c.BlockID = id
	h := first.Height()
	switch kind {
	case "adversary-only":
		// every slot absent except the adversary's own valid precommit for the forged block
		for i := range sigs {
			sigs[i] = types.NewCommitSigAbsent()
		}
		fallthrough
	case "adversary-plus-stale-signatures":
		// the genuine signatures (for the genuine block) kept, the adversary signs the forged id
		st := x.src.CS.VerifState()
		_ = st
		vs, err := x.src.Store.LoadValidators(h)
		if err == nil {
			if i, _ := vs.GetByAddress(x.net.Addrs[x.b]); i >= 0 && i < len(sigs) {
				v := x.adv.SignVote(x.src, x.b, 2, h, c.Round, id, genuine.Signatures[0].Timestamp)
				sigs[i] = types.NewCommitSigForBlock(v.Signature, x.net.Addrs[x.b], v.Timestamp)
			}
		}
	case "padded-with-genuine-nil-precommits":
		// one precommit of the adversary for the forged block plus the NIL precommits the correct validators really
		// signed in a failed round of that height (re-flagged as what they are: nil votes)
		vs, err := x.src.Store.LoadValidators(h)
		if err != nil {
			return nil
		}
		for r, byVal := range x.nil[h] {
			if len(byVal) < 2 {
				continue
			}
			c.Round = r
			for i := range sigs {
				sigs[i] = types.NewCommitSigAbsent()
			}
			for a, v := range byVal {
				if i, _ := vs.GetByAddress(a); i >= 0 && i < len(sigs) {
					sigs[i] = types.CommitSig{BlockIDFlag: types.BlockIDFlagNil, ValidatorAddress: a, Timestamp: v.Timestamp, Signature: v.Signature}
				}
			}
			if i, _ := vs.GetByAddress(x.net.Addrs[x.b]); i >= 0 && i < len(sigs) {
				v := x.adv.SignVote(x.src, x.b, 2, h, r, id, genuine.Signatures[0].Timestamp)
				sigs[i] = types.NewCommitSigForBlock(v.Signature, x.net.Addrs[x.b], v.Timestamp)
			}
			c.Signatures = sigs
			return c
		}
		return nil
	case "other-round":
		c.Round += 2
	case "parts-total":
		c.BlockID = genuine.BlockID
		c.BlockID.PartsHeader.Total += 2
	case "prevote-signatures":
		// the validators' signatures replaced by the adversary's PREVOTE signature in every slot it controls
		vs, err := x.src.Store.LoadValidators(h)
		if err == nil {
			if i, _ := vs.GetByAddress(x.net.Addrs[x.b]); i >= 0 && i < len(sigs) {
				v := x.adv.SignVote(x.src, x.b, 1, h, c.Round, id, genuine.Signatures[0].Timestamp)
				sigs[i] = types.NewCommitSigForBlock(v.Signature, x.net.Addrs[x.b], v.Timestamp)
			}
		}
	}
	c.Signatures = sigs
	return c
}

var forgeries = []forgery{
	{"genuine", func(x *bsctx, h uint64, f, s *types.Block) (*types.Block, *types.Block) { return f, s }},
	{"other-transactions+adversary-only-commit", func(x *bsctx, h uint64, f, s *types.Block) (*types.Block, *types.Block) {
		ff := rebuild(f, func(hd *types.Header) { hd.ProposerAddress = x.net.Addrs[x.b] }, nil, nil)
		return ff, rebuild(s, func(hd *types.Header) { hd.LastBlockID = blockID(ff) }, x.forgedCommit(ff, s.LastCommit(), "adversary-only"), nil)
	}},
	{"other-block+genuine-signatures-for-the-genuine-block", func(x *bsctx, h uint64, f, s *types.Block) (*types.Block, *types.Block) {
		ff := rebuild(f, func(hd *types.Header) { hd.GasLimit++ }, nil, nil)
		return ff, rebuild(s, func(hd *types.Header) { hd.LastBlockID = blockID(ff) }, x.forgedCommit(ff, s.LastCommit(), "adversary-plus-stale-signatures"), nil)
	}},
	{"other-block+adversary-precommit-padded-with-genuine-nil-precommits", func(x *bsctx, h uint64, f, s *types.Block) (*types.Block, *types.Block) {
		ff := rebuild(f, func(hd *types.Header) { hd.ProposerAddress = x.net.Addrs[x.b] }, nil, nil)
		fc := x.forgedCommit(ff, s.LastCommit(), "padded-with-genuine-nil-precommits")
		if fc == nil {
			return nil, nil
		}
		return ff, rebuild(s, func(hd *types.Header) { hd.LastBlockID = blockID(ff) }, fc, nil)
	}},
	{"genuine-block+commit-of-another-round", func(x *bsctx, h uint64, f, s *types.Block) (*types.Block, *types.Block) {
		return f, rebuild(s, nil, x.forgedCommit(f, s.LastCommit(), "other-round"), nil)
	}},
	{"genuine-block+commit-id-differs-in-parts-total", func(x *bsctx, h uint64, f, s *types.Block) (*types.Block, *types.Block) {
		return f, rebuild(s, nil, x.forgedCommit(f, s.LastCommit(), "parts-total"), nil)
	}},
	{"other-block+prevote-signatures", func(x *bsctx, h uint64, f, s *types.Block) (*types.Block, *types.Block) {
		ff := rebuild(f, func(hd *types.Header) { hd.NumTxs = hd.NumTxs }, nil, nil)
		ff = rebuild(ff, func(hd *types.Header) { hd.ProposerAddress = x.net.Addrs[x.b] }, nil, nil)
		return ff, rebuild(s, func(hd *types.Header) { hd.LastBlockID = blockID(ff) }, x.forgedCommit(ff, s.LastCommit(), "prevote-signatures"), nil)
	}},
	{"first-block-time-altered+genuine-commit", func(x *bsctx, h uint64, f, s *types.Block) (*types.Block, *types.Block) {
		return rebuild(f, func(hd *types.Header) { hd.Time = hd.Time.Add(1000) }, nil, nil), s
	}},
}

func blocksync(c *core.Case) {
	r, run := c.R, c.Run
	n := 4
	powers := []int64{20, 20, 20, 20}
	b := r.Intn(n)
	net, err := netsim.NewNet(netsim.NetOpts{N: n, Powers: powers, Byz: []int{b}})
	if err != nil {
		run.Inconclusive("network build failed: " + err.Error())
		return
	}
	defer net.Close()
	x := &bsctx{net: net, adv: netsim.NewAdversary(net), b: b, nil: map[uint64]map[uint32]map[common.Address]*types.Vote{}}
	net.Mons = []netsim.Monitor{nilCollector{x}}
	if err := net.StartAll(); err != nil {
		run.Inconclusive("network start failed: " + err.Error())
		return
	}
	H := uint64(6 + r.Intn(3))
	if res := net.RunSync(H, 200, nil); !res.Reached {
		run.Inconclusive("canonical chain did not reach its height")
		return
	}
	src := net.Alive()[0]
	x.src = src
	for _, byRound := range x.nil {
		for _, byVal := range byRound {
			if len(byVal) >= 2 {
				run.Count("failed_rounds_with_nil_precommits_collected", 1)
			}
		}
	}
	// the syncing node: same genesis, no key, consensus not started
	sn, err := netsim.BuildNode(9, net.Gen, nil, nil, nil, nil, netsim.NodeOpts{NoKey: true})
	if err != nil {
		run.Inconclusive("sync node build failed: " + err.Error())
		return
	}
	defer sn.Stop(false)
	st := sn.CS.VerifState()
	proc := blockchain.VerifNewProcessor(sn.BO, sn.Exec, st)
	var script []string
	for h := uint64(1); h+1 <= H; {
		gf, gs := src.BO.LoadBlock(h), src.BO.LoadBlock(h+1)
		if gf == nil || gs == nil {
			break
		}
		fi := r.Intn(len(forgeries))
		if r.Intn(3) == 0 {
			fi = 0
		}
		fg := forgeries[fi]
		var first, second *types.Block
		func() {
			defer func() {
				if p := recover(); p != nil {
					first, second = nil, nil
				}
			}()
			first, second = fg.make(x, h, gf, gs)
		}()
		if first == nil || second == nil {
			run.Count("forgery_could_not_be_built:"+fg.name, 1)
			fi, first, second = 0, gf, gs
			fg = forgeries[0]
		}
		peer := p2p.ID(fmt.Sprintf("peer-%d", r.Intn(3)))
		before := proc.Height()
		var ev string
		var perr error
		panicked := c.Guard("block-sync processor", func() interface{} { return script }, func() {
			if !proc.Queued(h) {
				proc.BlockReceived(peer, first)
			}
			if !proc.Queued(h + 1) {
				proc.BlockReceived(peer, second)
			}
			ev, _, perr = proc.ProcessBlock()
		})
		if panicked {
			return
		}
		run.Eval(1)
		script = append(script, fmt.Sprintf("h=%d %s -> %s", h, fg.name, ev))
		run.Count("blocksync_offers:"+fg.name, 1)
		after := proc.Height()
		if after > before {
			run.Count("blocksync_blocks_adopted", 1)
			got := sn.BO.LoadBlock(after)
			want := src.BO.LoadBlock(after)
			if got == nil || want == nil || got.Hash() != want.Hash() || blockID(got).PartsHeader.Hash != blockID(want).PartsHeader.Hash {
				c.Violation("block-sync-adopted-forged-block:"+fg.name, fmt.Sprintf("the syncing node adopted a block at height %d that the correct validators did not commit (offer: %s)", after, fg.name),
					map[string]interface{}{"script": script, "adversary": b})
				return
			}
			if fi != 0 {
				run.Count("forgery_with_genuine_first_block_accepted:"+fg.name, 1)
			}
			h = after + 1
			run.Nontrivial(fmt.Sprint(c.I, h, fg.name))
		} else {
			if fi == 0 {
				c.Violation("block-sync-refused-genuine-blocks", fmt.Sprintf("the syncing node refused the genuine blocks %d,%d: event %s err %v", h, h+1, ev, perr), map[string]interface{}{"script": script})
				return
			}
			run.Count("forgeries_refused", 1)
			// the processor purged the peer's blocks; offer the genuine pair next
		}
	}
	if c.I < 2 {
		run.Sample(map[string]interface{}{"adversary": b, "canonical_height": H, "script": script})
	}
}
