// Package c03 decides C03: a correct validator never equivocates and obeys the locking rules.
package c03

import (
	"verifharness/core"
	"verifharness/netsim"
)

func init() { core.Register("C03", Main) }

func Main() {
	r := core.Start("C03", "exploration")
	r.SetRule("every signature request and every commit of every correct node in simulated networks is checked online against the messages delivered to that node (trace checker over the node's own loop order)")
	r.Assume("the simulator delivers to a node only through its real receive loop; gossip emulation offers what real reactors send (state-based, maj23 exchange), adversary < 1/3 of the power")
	r.Cases("scenario", len(allScenarios())*8, core.Opts{Procs: 16, StallSec: 300}, scenarioCase)
	r.Cases("random", r.N(400, 8000), core.Opts{Procs: 16, StallSec: 300}, func(c *core.Case) { netsim.RandomCase(c, "C03", 7, 400) })
	r.Finish()
}
