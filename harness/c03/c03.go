// Package c03 decides C03: a correct validator never equivocates and obeys the locking rules.
package c03

import (
	"fmt"
	"os"
	"strings"

	"verifharness/core"
	"verifharness/netsim"
)

func init() { core.Register("C03", Main) }

func Main() {
	r := core.Start("C03", "exploration")
	r.SetRule("every signature request and every commit of every correct node in simulated networks is checked online against the messages delivered to that node (trace checker over the node's own loop order)")
	r.Assume("the simulator delivers to a node only through its real receive loop; gossip emulation offers what real reactors send (state-based, maj23 exchange), adversary < 1/3 of the power")
	r.Cases("scenario", netsim.NumScenarioCases(), core.Opts{Procs: 16, StallSec: 300}, func(c *core.Case) { netsim.ScenarioCase(c, "C03") })
	r.Cases("random", r.N(400, 8000), core.Opts{Procs: 16, StallSec: 300}, func(c *core.Case) { netsim.RandomCase(c, "C03", 7, 400) })
	if !r.Quick() {
		// E-live under the race detector: real reactors, switches and tickers; the monitors judge, the race detector
		// reports the interleavings that occurred (reports are keyed by the pair of innermost go-kardia frames)
		dir, _ := os.MkdirTemp("", "verifrace") // under the run's scratch directory (TMPDIR), removed in Finish
		defer os.RemoveAll(dir)
		r.Cases("live", 40, core.Opts{Procs: 4, StallSec: 1500, Race: true, InconclusiveFatal: []string{"lib/p2p.Connect2Switches"}, Env: []string{"GORACE=halt_on_error=0 exitcode=0 log_path=" + dir + "/race"}}, func(c *core.Case) { netsim.LiveCase(c, "C03") })
		if !r.IsChild() {
			keys, reports := netsim.RaceKeys(dir + "/race")
			r.Extra("race_reports", reports)
			r.Extra("race_keys", keys)
			for k, n := range keys {
				if strings.Contains(k, "verifharness/") && !strings.Contains(k, "go-kardia") {
					r.Inconclusive("data race inside the harness: " + k)
					continue
				}
				r.Violation(0, "live", "race:"+k, fmt.Sprintf("data race reported %d times by the race detector in the live cluster: %s", n, k), map[string]interface{}{"key": k, "reports": n})
			}
		}
	}
	r.Finish()
}
