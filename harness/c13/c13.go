// Package c13 decides C13: blocks are tamper-evident and reassemble exactly from
// their parts.
//
//	A. types.PartSet under genuine, duplicate and adversarial parts, judged by an
//	   independent RFC-6962-style Merkle tree (ref.go) and a slot model (parts.go);
//	B. every single-field mutation of valid blocks produced on a real chain state
//	   must change Block.Hash() or be rejected by ValidateBasic / ValidateBlock,
//	   by a fresh executor and by one that has just validated the original (tamper.go);
//	C. proto / RLP / rawdb round trips of block, commit, vote, proposal, part and
//	   block meta (codec.go).
package c13

import (
	"encoding/json"
	"fmt"
	"os"
	"path/filepath"
	"sync"
	"time"

	"github.com/kardiachain/go-kardia/lib/log"

	"verifharness/core"
)

func init() { core.Register("C13", Main) }

// tallies kept for the evidence file (all groups run in this process)
var (
	tallyMu sync.Mutex
	tallies = map[string]map[string]int{}
)

func writeTallies(dir string) {
	if dir == "" {
		return
	}
	tallyMu.Lock()
	defer tallyMu.Unlock()
	if len(tallies) == 0 {
		return
	}
	b, _ := json.Marshal(tallies)
	os.WriteFile(filepath.Join(dir, fmt.Sprintf("t%d.json", os.Getpid())), b, 0644)
}

func readTallies(dir string) {
	if dir == "" {
		return
	}
	files, _ := filepath.Glob(filepath.Join(dir, "t*.json"))
	for _, f := range files {
		b, err := os.ReadFile(f)
		if err != nil {
			continue
		}
		var m map[string]map[string]int
		if json.Unmarshal(b, &m) != nil {
			continue
		}
		tallyMu.Lock()
		for set, vals := range m {
			if tallies[set] == nil {
				tallies[set] = map[string]int{}
			}
			for v, n := range vals {
				tallies[set][v] += n
			}
		}
		tallyMu.Unlock()
	}
}

func tally(set, val string) {
	tallyMu.Lock()
	m := tallies[set]
	if m == nil {
		m = map[string]int{}
		tallies[set] = m
	}
	m[val]++
	tallyMu.Unlock()
}

func Main() {
	r := core.Start("C13", "exploration")
	r.SetRule("part sets: a case (one data blob, part size and last-part shape) is non-trivial when every one of its offer sequences - genuine parts in the " +
		"stated orders with duplicates and adversarial parts - ended with the set complete and read back byte-identical; " +
		"blocks: a height is non-trivial when at least one mutant kept Block.Hash() and was rejected by ValidateBlock of both executors; " +
		"codecs: a committed height whose block, commits, votes, proposal, parts, block meta and transactions went through all their encodings")
	r.Assume("SHA-256 and Keccak-256 are collision resistant (a part whose bytes differ from the chunk at its index is taken not to belong there)")
	r.Assume("a mutant is the wire encoding of a valid proposed block with one field changed, decoded with BlockFromProto as consensus does; compound mutations that also repair the header hash change Block.Hash() by construction and are not generated")
	r.Assume("two blocks are the same when all header fields, transactions, last-commit fields and evidence fields read through the exported getters are equal; different bytes that decode to the same block are counted, not judged")
	r.Assume("the empty part set (0 parts) is outside the domain: no block encodes to zero bytes; what the constructors do with it is recorded under zero_parts_not_judged")
	if msg := refSelfTest(); msg != "" {
		r.Inconclusive("reference Merkle tree self-test failed: " + msg)
		r.Finish()
	}
	t0 := time.Now()
	lap := func(what string) {
		if os.Getenv("VERIF_C13_TIMING") != "" && !r.IsChild() {
			fmt.Fprintf(os.Stderr, "[timing] %s: %.1fs\n", what, time.Since(t0).Seconds())
		}
		t0 = time.Now()
	}
	cfgs := exhaustiveCfgs(r.Quick())
	r.Cases("parts-exhaustive", len(cfgs), core.Opts{Workers: 16}, func(c *core.Case) { exhaustiveCase(c, cfgs) })
	lap("parts-exhaustive")
	r.Cases("parts-random", r.N(300, 30000), core.Opts{Workers: 16}, randomCase)
	lap("parts-random")
	r.Cases("parts-concurrent", r.N(48, 1500), core.Opts{Workers: 8}, concurrentCase)
	lap("parts-concurrent")

	log.Root().SetHandler(log.DiscardHandler())
	// The chains run the product's own goroutines (transaction pool, chain), so these groups run in
	// child processes: a fatal error there is attributed to a case instead of killing the check.
	// The children hand their tallies back through files in a scratch directory.
	tallyDir := os.Getenv("VERIF_C13_TALLY_DIR")
	if !r.IsChild() {
		if d, err := os.MkdirTemp("", "c13tally"); err == nil {
			tallyDir = d
			defer os.RemoveAll(d)
		}
	}
	env := []string{"VERIF_C13_TALLY_DIR=" + tallyDir}
	r.Cases("blocks-corpus", 4, core.Opts{Procs: 4, StallSec: 240, Env: env}, func(c *core.Case) { blocksCase(c, true) })
	lap("blocks-corpus")
	r.Cases("blocks", r.N(56, 3000), core.Opts{Procs: 8, StallSec: 240, Env: env}, func(c *core.Case) { blocksCase(c, false) })
	lap("blocks")
	if r.IsChild() {
		writeTallies(tallyDir)
		r.Finish()
	}
	readTallies(tallyDir)
	os.RemoveAll(tallyDir)

	tallyMu.Lock()
	for k, m := range tallies {
		r.Extra(k, m)
	}
	tallyMu.Unlock()
	r.Exhaustive(false) // the check as a whole explores; the sub-check below is exhaustive within its stated bound
	r.Extra("part_matrix", map[string]interface{}{
		"exhaustive_within_bound": true,
		"max_parts":               6,
		"configurations":          len(cfgs),
		"arrival_orders_all":      r.Counter("exhaustive_permutations"),
		"adversarial_insertions":  r.Counter("exhaustive_bogus_insertions"),
		"note":                    "every arrival order of every set of <= 6 parts (each step followed by a duplicate); every adversarial part of the matrix at every insertion point, under every order for <= 4 parts (sizes 1, 7, 1000) and under 2-3 orders otherwise",
	})
	r.Floor("exhaustive_permutations", 800)
	r.Floor("bogus_rejected", 10000)
	r.Floor("genuine_added_after_bogus_for_same_slot", 1000)
	r.Floor("complete_sets_read_back", 1000)
	r.Floor("concurrent_sets_read_back", 300)
	r.Floor("valid_blocks", 200)
	r.Floor("tampered_blocks_with_more_than_128_txs", 1)
	r.Floor("valid_blocks_with_evidence", 30)
	r.Floor("valid_blocks_txs", 200)
	r.Floor("last_commit_sigs_absent", 10)
	r.Floor("last_commit_sigs_nil", 10)
	r.Floor("mutants", 30000)
	r.Floor("mutants_hash_changed", 5000)
	r.Floor("mutants_same_hash", 1000)
	r.Floor("mutants_rejected_on_decode_or_ValidateBasic", 5000)
	r.Floor("roundtrip:block:proto", 200)
	r.Floor("roundtrip:rawdb:chain-db", 200)
	r.Floor("roundtrip:rawdb:scratch-db", 200)
	r.Floor("roundtrip:vote:proto", 400)
	r.Floor("roundtrip:tx:rlp", 200)
	r.Finish()
}
