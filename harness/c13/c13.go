// Package c13 decides C13: blocks are tamper-evident and reassemble exactly from
// their parts.
//
//	A. types.PartSet under genuine, duplicate and adversarial parts, judged by an
//	   independent RFC-6962-style Merkle tree (ref.go) and a slot model (parts.go);
//	B. every single-field mutation of valid blocks produced on a real chain state
//	   must change Block.Hash() or be rejected by ValidateBasic / ValidateBlock,
//	   by a fresh executor and by one that has just validated the original (tamper.go);
//	C. proto / RLP / rawdb round trips of block, commit, vote, proposal, part and
//	   block meta (codec.go).
package c13

import (
	"fmt"
	"os"
	"sync"
	"time"

	"github.com/kardiachain/go-kardia/lib/log"

	"verifharness/core"
)

func init() { core.Register("C13", Main) }

// tallies kept for the evidence file (all groups run in this process)
var (
	tallyMu sync.Mutex
	tallies = map[string]map[string]int{}
)

func tally(set, val string) {
	tallyMu.Lock()
	m := tallies[set]
	if m == nil {
		m = map[string]int{}
		tallies[set] = m
	}
	m[val]++
	tallyMu.Unlock()
}

func Main() {
	r := core.Start("C13", "exploration")
	r.SetRule("part sets: a sequence is non-trivial when the set was completed and read back after at least one adversarial or duplicate offer; " +
		"blocks: a height is non-trivial when at least one mutant kept Block.Hash() and had to be rejected by validation; " +
		"codecs: every object that went through all its encodings")
	if msg := refSelfTest(); msg != "" {
		r.Inconclusive("reference Merkle tree self-test failed: " + msg)
		r.Finish()
	}
	t0 := time.Now()
	lap := func(what string) {
		if os.Getenv("VERIF_C13_TIMING") != "" && !r.IsChild() {
			fmt.Fprintf(os.Stderr, "[timing] %s: %.1fs\n", what, time.Since(t0).Seconds())
		}
		t0 = time.Now()
	}
	cfgs := exhaustiveCfgs(r.Quick())
	r.Cases("parts-exhaustive", len(cfgs), core.Opts{Workers: 16}, func(c *core.Case) { exhaustiveCase(c, cfgs) })
	lap("parts-exhaustive")
	r.Cases("parts-random", r.N(300, 30000), core.Opts{Workers: 16}, randomCase)
	lap("parts-random")

	log.Root().SetHandler(log.DiscardHandler())
	r.Cases("blocks-corpus", 4, core.Opts{Workers: 4}, func(c *core.Case) { blocksCase(c, true) })
	lap("blocks-corpus")
	r.Cases("blocks", r.N(56, 3000), core.Opts{Workers: 8}, func(c *core.Case) { blocksCase(c, false) })
	lap("blocks")

	tallyMu.Lock()
	for k, m := range tallies {
		r.Extra(k, m)
	}
	tallyMu.Unlock()
	r.Extra("exhaustive", map[string]interface{}{
		"max_parts":                 6,
		"configurations":            len(cfgs),
		"arrival_orders_all":        r.Counter("exhaustive_permutations"),
		"adversarial_insertions":    r.Counter("exhaustive_bogus_insertions"),
		"note":                      "every arrival order of every set of <= 6 parts (each step followed by a duplicate); every adversarial part of the matrix at every insertion point, under every order for <= 4 parts (sizes 1, 7, 1000) and under 2-3 orders otherwise",
	})
	r.Floor("exhaustive_permutations", 800)
	r.Floor("bogus_rejected", 10000)
	r.Floor("genuine_added_after_bogus_for_same_slot", 1000)
	r.Floor("complete_sets_read_back", 1000)
	r.Floor("valid_blocks", 200)
	r.Floor("valid_blocks_with_evidence", 30)
	r.Floor("valid_blocks_txs", 200)
	r.Floor("last_commit_sigs_absent", 10)
	r.Floor("last_commit_sigs_nil", 10)
	r.Floor("mutants", 30000)
	r.Floor("mutants_hash_changed", 5000)
	r.Floor("mutants_same_hash", 1000)
	r.Floor("mutants_rejected_on_decode_or_ValidateBasic", 5000)
	r.Floor("roundtrip:block:proto", 200)
	r.Floor("roundtrip:rawdb:chain-db", 200)
	r.Floor("roundtrip:rawdb:scratch-db", 200)
	r.Floor("roundtrip:vote:proto", 400)
	r.Floor("roundtrip:tx:rlp", 200)
	r.Finish()
}
