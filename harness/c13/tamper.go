package c13

import (
	"fmt"
	"io/ioutil"
	"math/big"
	"math/rand"
	"reflect"
	"regexp"
	"strings"
	"time"

	"github.com/gogo/protobuf/proto"

	"github.com/kardiachain/go-kardia/kai/state/cstate"
	"github.com/kardiachain/go-kardia/lib/common"
	"github.com/kardiachain/go-kardia/lib/crypto"
	"github.com/kardiachain/go-kardia/lib/rlp"
	kproto "github.com/kardiachain/go-kardia/proto/kardiachain/types"
	"github.com/kardiachain/go-kardia/trie"
	"github.com/kardiachain/go-kardia/types"

	"verifharness/core"
)

// ---------------------------------------------------------------------------
// Part B: block tamper evidence.
//
// X is a block produced by CreateProposalBlock on the real state S. A mutant M is
// what a peer could deliver instead: X's wire encoding with ONE field changed,
// decoded with BlockFromProto as consensus does. For every M that is a different
// block (compared field by field through the getters):
//
//	M.Hash() != X.Hash(), or BlockFromProto/ValidateBasic fails, or
//	ValidateBlock(S, M) fails - for a fresh executor AND for one that has just
//	validated X.
// ---------------------------------------------------------------------------

type mutation struct {
	field string // stable class name, part of the violation key
	desc  string
	apply func(pb *kproto.Block) bool // false: not applicable to this block
}

func flipBit(b []byte, r *rand.Rand) []byte {
	o := cpb(b)
	if len(o) == 0 {
		return []byte{1}
	}
	o[r.Intn(len(o))] ^= 1 << uint(r.Intn(8))
	return o
}

// hashMuts: mutations of a 32-byte (or address) field given by accessor.
func hashMuts(field string, get func(pb *kproto.Block) *[]byte, r *rand.Rand) []mutation {
	return []mutation{
		{field, "one bit flipped", func(pb *kproto.Block) bool { p := get(pb); *p = flipBit(*p, r); return true }},
		{field, "set to zero bytes", func(pb *kproto.Block) bool { p := get(pb); *p = make([]byte, len(*p)); return true }},
		{field, "emptied", func(pb *kproto.Block) bool { p := get(pb); *p = nil; return true }},
		{field, "last byte dropped (value shifts)", func(pb *kproto.Block) bool {
			p := get(pb)
			if len(*p) == 0 {
				return false
			}
			*p = cpb((*p)[:len(*p)-1])
			return true
		}},
		{field, "random value", func(pb *kproto.Block) bool {
			p := get(pb)
			*p = randHash(r)[:minInt(32, maxInt(20, len(*p)))]
			return true
		}},
		// not a change of the block: the decoder crops to the rightmost bytes
		{field, "extra leading byte (same value after decoding)", func(pb *kproto.Block) bool { p := get(pb); *p = append([]byte{0xAA}, *p...); return true }},
	}
}

type tamperCtx struct {
	ch     *chain
	S      cstate.LatestBlockState
	X      *types.Block
	r      *rand.Rand
	spare  *types.Transaction // a valid signed transaction that is not in the block
	spareE *kproto.Evidence   // a well-formed, correctly signed evidence that is not in the block
}

func (t *tamperCtx) mutations() []mutation {
	r := t.r
	var ms []mutation
	add := func(field, desc string, f func(pb *kproto.Block) bool) {
		ms = append(ms, mutation{field, desc, f})
	}
	// ---- header ----
	for _, d := range []int64{1, -1, 7} {
		d := d
		add("header.Height", fmt.Sprintf("%+d", d), func(pb *kproto.Block) bool { pb.Header.Height = uint64(int64(pb.Header.Height) + d); return true })
		add("header.NumTxs", fmt.Sprintf("%+d", d), func(pb *kproto.Block) bool {
			if int64(pb.Header.NumTxs)+d < 0 {
				return false
			}
			pb.Header.NumTxs = uint64(int64(pb.Header.NumTxs) + d)
			return true
		})
		add("header.GasLimit", fmt.Sprintf("%+d", d), func(pb *kproto.Block) bool { pb.Header.GasLimit = uint64(int64(pb.Header.GasLimit) + d); return true })
		add("header.LastBlockID.PartsHeader.Total", fmt.Sprintf("%+d", d), func(pb *kproto.Block) bool {
			if int64(pb.Header.LastBlockId.PartSetHeader.Total)+d < 0 {
				return false
			}
			pb.Header.LastBlockId.PartSetHeader.Total = uint32(int64(pb.Header.LastBlockId.PartSetHeader.Total) + d)
			return true
		})
	}
	add("header.GasLimit", "zero", func(pb *kproto.Block) bool {
		if pb.Header.GasLimit == 0 {
			return false
		}
		pb.Header.GasLimit = 0
		return true
	})
	for _, d := range []time.Duration{time.Nanosecond, -time.Nanosecond, time.Second, -time.Hour, 1000 * time.Hour} {
		d := d
		add("header.Time", d.String(), func(pb *kproto.Block) bool { pb.Header.Time = pb.Header.Time.Add(d); return true })
	}
	ms = append(ms, hashMuts("header.LastBlockID.Hash", func(pb *kproto.Block) *[]byte { return &pb.Header.LastBlockId.Hash }, r)...)
	ms = append(ms, hashMuts("header.LastBlockID.PartsHeader.Hash", func(pb *kproto.Block) *[]byte { return &pb.Header.LastBlockId.PartSetHeader.Hash }, r)...)
	ms = append(ms, hashMuts("header.LastCommitHash", func(pb *kproto.Block) *[]byte { return &pb.Header.LastCommitHash }, r)...)
	ms = append(ms, hashMuts("header.TxHash", func(pb *kproto.Block) *[]byte { return &pb.Header.DataHash }, r)...)
	ms = append(ms, hashMuts("header.ValidatorsHash", func(pb *kproto.Block) *[]byte { return &pb.Header.ValidatorsHash }, r)...)
	ms = append(ms, hashMuts("header.NextValidatorsHash", func(pb *kproto.Block) *[]byte { return &pb.Header.NextValidatorsHash }, r)...)
	ms = append(ms, hashMuts("header.ConsensusHash", func(pb *kproto.Block) *[]byte { return &pb.Header.ConsensusHash }, r)...)
	ms = append(ms, hashMuts("header.AppHash", func(pb *kproto.Block) *[]byte { return &pb.Header.AppHash }, r)...)
	ms = append(ms, hashMuts("header.EvidenceHash", func(pb *kproto.Block) *[]byte { return &pb.Header.EvidenceHash }, r)...)
	ms = append(ms, hashMuts("header.ProposerAddress", func(pb *kproto.Block) *[]byte { return &pb.Header.ProposerAddress }, r)...)
	add("header.ProposerAddress", "another validator", func(pb *kproto.Block) bool {
		for _, v := range t.S.Validators.Validators {
			if v.Address != common.BytesToAddress(pb.Header.ProposerAddress) {
				pb.Header.ProposerAddress = v.Address.Bytes()
				return true
			}
		}
		return false
	})
	// a field of the wire header the block type does not have: not a change of the block
	add("header.(wire-only chain id)", "set", func(pb *kproto.Block) bool { pb.Header.ChainID = "junk"; return true })

	// ---- transactions ----
	add("txs", "first dropped", func(pb *kproto.Block) bool {
		if len(pb.Data.Txs) == 0 {
			return false
		}
		pb.Data.Txs = pb.Data.Txs[1:]
		return true
	})
	add("txs", "last dropped", func(pb *kproto.Block) bool {
		if len(pb.Data.Txs) == 0 {
			return false
		}
		pb.Data.Txs = pb.Data.Txs[:len(pb.Data.Txs)-1]
		return true
	})
	add("txs", "all dropped", func(pb *kproto.Block) bool {
		if len(pb.Data.Txs) < 2 {
			return false
		}
		pb.Data.Txs = nil
		return true
	})
	add("txs", "one duplicated", func(pb *kproto.Block) bool {
		if len(pb.Data.Txs) == 0 {
			return false
		}
		k := r.Intn(len(pb.Data.Txs))
		pb.Data.Txs = append(pb.Data.Txs, cpb(pb.Data.Txs[k]))
		return true
	})
	add("txs", "two swapped", func(pb *kproto.Block) bool {
		if len(pb.Data.Txs) < 2 {
			return false
		}
		k := r.Intn(len(pb.Data.Txs) - 1)
		pb.Data.Txs[k], pb.Data.Txs[k+1] = pb.Data.Txs[k+1], pb.Data.Txs[k]
		return true
	})
	add("txs", "another valid transaction appended", func(pb *kproto.Block) bool {
		bz, err := rlp.EncodeToBytes(t.spare)
		if err != nil {
			return false
		}
		pb.Data.Txs = append(pb.Data.Txs, bz)
		return true
	})
	add("txs", "another valid transaction in place of one", func(pb *kproto.Block) bool {
		if len(pb.Data.Txs) == 0 {
			return false
		}
		bz, err := rlp.EncodeToBytes(t.spare)
		if err != nil {
			return false
		}
		pb.Data.Txs[r.Intn(len(pb.Data.Txs))] = bz
		return true
	})
	// every position of the list in turn (the transactions root is built in three index ranges: 1..127, 0, 128..)
	if n := len(t.X.Transactions()); n <= 400 {
		for i := 0; i < n; i++ {
			i := i
			add("txs", fmt.Sprintf("another valid transaction in place of the one at index %d of %d", i, n), func(pb *kproto.Block) bool {
				if i >= len(pb.Data.Txs) {
					return false
				}
				bz, err := rlp.EncodeToBytes(t.spare)
				if err != nil {
					return false
				}
				pb.Data.Txs[i] = bz
				return true
			})
		}
	}
	// one field of one transaction re-encoded (amount, nonce, gas, recipient, payload, v, r, s)
	for _, what := range []string{"amount", "nonce", "gas", "price", "recipient", "payload", "v", "r", "s"} {
		what := what
		add("txs", "one transaction: "+what+" changed", func(pb *kproto.Block) bool {
			if len(pb.Data.Txs) == 0 {
				return false
			}
			k := r.Intn(len(pb.Data.Txs))
			var f struct {
				Nonce   uint64
				Price   *big.Int
				Gas     uint64
				To      *common.Address `rlp:"nil"`
				Amount  *big.Int
				Payload []byte
				V, R, S *big.Int
			}
			if err := rlp.DecodeBytes(pb.Data.Txs[k], &f); err != nil {
				return false
			}
			one := big.NewInt(1)
			switch what {
			case "amount":
				f.Amount = new(big.Int).Add(f.Amount, one)
			case "nonce":
				f.Nonce++
			case "gas":
				f.Gas++
			case "price":
				f.Price = new(big.Int).Add(f.Price, one)
			case "recipient":
				a := common.BytesToAddress(randHash(r))
				f.To = &a
			case "payload":
				f.Payload = append(cpb(f.Payload), 1)
			case "v":
				f.V = new(big.Int).Xor(f.V, one)
			case "r":
				f.R = new(big.Int).Add(f.R, one)
			case "s":
				f.S = new(big.Int).Add(f.S, one)
			}
			bz, err := rlp.EncodeToBytes(&f)
			if err != nil {
				return false
			}
			pb.Data.Txs[k] = bz
			return true
		})
	}
	add("txs", "one bit of one transaction's bytes flipped", func(pb *kproto.Block) bool {
		if len(pb.Data.Txs) == 0 {
			return false
		}
		k := r.Intn(len(pb.Data.Txs))
		pb.Data.Txs[k] = flipBit(pb.Data.Txs[k], r)
		return true
	})

	// ---- last commit: the fields the signatures bind ----
	lc := func(pb *kproto.Block) *kproto.Commit { return pb.LastCommit }
	for _, d := range []int64{1, -1, 7} {
		d := d
		add("lastcommit.Height", fmt.Sprintf("%+d", d), func(pb *kproto.Block) bool {
			if lc(pb) == nil || int64(lc(pb).Height)+d < 0 {
				return false
			}
			lc(pb).Height = uint64(int64(lc(pb).Height) + d)
			return true
		})
		add("lastcommit.Round", fmt.Sprintf("%+d", d), func(pb *kproto.Block) bool {
			if lc(pb) == nil || int64(lc(pb).Round)+d < 0 {
				return false
			}
			lc(pb).Round = uint32(int64(lc(pb).Round) + d)
			return true
		})
		add("lastcommit.BlockID.PartsHeader.Total", fmt.Sprintf("%+d", d), func(pb *kproto.Block) bool {
			if lc(pb) == nil || int64(lc(pb).BlockID.PartSetHeader.Total)+d < 0 {
				return false
			}
			lc(pb).BlockID.PartSetHeader.Total = uint32(int64(lc(pb).BlockID.PartSetHeader.Total) + d)
			return true
		})
	}
	for _, hm := range [][]mutation{
		hashMuts("lastcommit.BlockID.Hash", func(pb *kproto.Block) *[]byte { return &pb.LastCommit.BlockID.Hash }, r),
		hashMuts("lastcommit.BlockID.PartsHeader.Hash", func(pb *kproto.Block) *[]byte { return &pb.LastCommit.BlockID.PartSetHeader.Hash }, r),
	} {
		for _, m := range hm {
			m := m
			add(m.field, m.desc, func(pb *kproto.Block) bool {
				if pb.LastCommit == nil {
					return false
				}
				return m.apply(pb)
			})
		}
	}
	add("lastcommit", "removed (nil)", func(pb *kproto.Block) bool {
		if pb.LastCommit == nil {
			return false
		}
		pb.LastCommit = nil
		return true
	})
	add("lastcommit", "replaced by the empty commit", func(pb *kproto.Block) bool {
		if pb.LastCommit == nil || len(pb.LastCommit.Signatures) == 0 {
			return false
		}
		pb.LastCommit = types.NewCommit(0, 0, types.BlockID{}, nil).ToProto()
		return true
	})
	// ---- last commit: the signature list ----
	sigs := func(pb *kproto.Block) []kproto.CommitSig {
		if pb.LastCommit == nil {
			return nil
		}
		return pb.LastCommit.Signatures
	}
	add("lastcommit.Signatures", "last dropped", func(pb *kproto.Block) bool {
		if len(sigs(pb)) == 0 {
			return false
		}
		pb.LastCommit.Signatures = pb.LastCommit.Signatures[:len(sigs(pb))-1]
		return true
	})
	add("lastcommit.Signatures", "first dropped", func(pb *kproto.Block) bool {
		if len(sigs(pb)) == 0 {
			return false
		}
		pb.LastCommit.Signatures = pb.LastCommit.Signatures[1:]
		return true
	})
	add("lastcommit.Signatures", "one duplicated at the end", func(pb *kproto.Block) bool {
		if len(sigs(pb)) == 0 {
			return false
		}
		pb.LastCommit.Signatures = append(pb.LastCommit.Signatures, sigs(pb)[r.Intn(len(sigs(pb)))])
		return true
	})
	add("lastcommit.Signatures", "absent entry appended", func(pb *kproto.Block) bool {
		if pb.LastCommit == nil {
			return false
		}
		pb.LastCommit.Signatures = append(pb.LastCommit.Signatures, kproto.CommitSig{BlockIdFlag: kproto.BlockIDFlagAbsent})
		return true
	})
	add("lastcommit.Signatures", "two swapped", func(pb *kproto.Block) bool {
		if len(sigs(pb)) < 2 {
			return false
		}
		k := r.Intn(len(sigs(pb)) - 1)
		s := pb.LastCommit.Signatures
		s[k], s[k+1] = s[k+1], s[k]
		return true
	})
	nS := 0
	if t.X.LastCommit() != nil {
		nS = len(t.X.LastCommit().Signatures)
	}
	for k := 0; k < nS; k++ {
		k := k
		sg := func(pb *kproto.Block) *kproto.CommitSig {
			if k >= len(sigs(pb)) {
				return nil
			}
			return &pb.LastCommit.Signatures[k]
		}
		add("lastcommit.sig.BlockIDFlag", fmt.Sprintf("#%d commit<->nil", k), func(pb *kproto.Block) bool {
			s := sg(pb)
			switch {
			case s == nil:
				return false
			case s.BlockIdFlag == kproto.BlockIDFlagCommit:
				s.BlockIdFlag = kproto.BlockIDFlagNil
			case s.BlockIdFlag == kproto.BlockIDFlagNil:
				s.BlockIdFlag = kproto.BlockIDFlagCommit
			default:
				return false
			}
			return true
		})
		add("lastcommit.sig.BlockIDFlag", fmt.Sprintf("#%d flag only: present<->absent", k), func(pb *kproto.Block) bool {
			s := sg(pb)
			switch {
			case s == nil:
				return false
			case s.BlockIdFlag == kproto.BlockIDFlagAbsent:
				s.BlockIdFlag = kproto.BlockIDFlagCommit
			default:
				s.BlockIdFlag = kproto.BlockIDFlagAbsent
			}
			return true
		})
		add("lastcommit.sig", fmt.Sprintf("#%d whole entry made absent", k), func(pb *kproto.Block) bool {
			s := sg(pb)
			if s == nil || s.BlockIdFlag == kproto.BlockIDFlagAbsent {
				return false
			}
			*s = kproto.CommitSig{BlockIdFlag: kproto.BlockIDFlagAbsent}
			return true
		})
		add("lastcommit.sig.BlockIDFlag", fmt.Sprintf("#%d unknown flag value", k), func(pb *kproto.Block) bool {
			s := sg(pb)
			if s == nil {
				return false
			}
			s.BlockIdFlag = kproto.BlockIDFlag(4 + r.Intn(100))
			return true
		})
		add("lastcommit.sig.ValidatorAddress", fmt.Sprintf("#%d one bit flipped", k), func(pb *kproto.Block) bool {
			s := sg(pb)
			if s == nil || len(s.ValidatorAddress) == 0 {
				return false
			}
			s.ValidatorAddress = flipBit(s.ValidatorAddress, r)
			return true
		})
		add("lastcommit.sig.ValidatorAddress", fmt.Sprintf("#%d another validator's address", k), func(pb *kproto.Block) bool {
			s := sg(pb)
			if s == nil || t.S.LastValidators == nil {
				return false
			}
			for _, v := range t.S.LastValidators.Validators {
				if v.Address != common.BytesToAddress(s.ValidatorAddress) {
					s.ValidatorAddress = v.Address.Bytes()
					return true
				}
			}
			return false
		})
		add("lastcommit.sig.ValidatorAddress", fmt.Sprintf("#%d zeroed", k), func(pb *kproto.Block) bool {
			s := sg(pb)
			if s == nil || common.BytesToAddress(s.ValidatorAddress) == (common.Address{}) {
				return false
			}
			s.ValidatorAddress = make([]byte, 20)
			return true
		})
		for _, d := range []time.Duration{time.Nanosecond, -time.Second, time.Hour} {
			d := d
			add("lastcommit.sig.Timestamp", fmt.Sprintf("#%d %v", k, d), func(pb *kproto.Block) bool {
				s := sg(pb)
				if s == nil {
					return false
				}
				s.Timestamp = s.Timestamp.Add(d)
				return true
			})
		}
		add("lastcommit.sig.Signature", fmt.Sprintf("#%d one bit flipped", k), func(pb *kproto.Block) bool {
			s := sg(pb)
			if s == nil || len(s.Signature) == 0 {
				return false
			}
			s.Signature = flipBit(s.Signature, r)
			return true
		})
		add("lastcommit.sig.Signature", fmt.Sprintf("#%d last byte dropped", k), func(pb *kproto.Block) bool {
			s := sg(pb)
			if s == nil || len(s.Signature) == 0 {
				return false
			}
			s.Signature = cpb(s.Signature[:len(s.Signature)-1])
			return true
		})
		add("lastcommit.sig.Signature", fmt.Sprintf("#%d one byte appended", k), func(pb *kproto.Block) bool {
			s := sg(pb)
			if s == nil || len(s.Signature) == 0 {
				return false
			}
			s.Signature = append(cpb(s.Signature), 0)
			return true
		})
		add("lastcommit.sig.Signature", fmt.Sprintf("#%d emptied", k), func(pb *kproto.Block) bool {
			s := sg(pb)
			if s == nil || len(s.Signature) == 0 {
				return false
			}
			s.Signature = nil
			return true
		})
		add("lastcommit.sig.Signature", fmt.Sprintf("#%d another validator's signature", k), func(pb *kproto.Block) bool {
			s := sg(pb)
			if s == nil || len(s.Signature) == 0 {
				return false
			}
			for j, o := range sigs(pb) {
				if j != k && len(o.Signature) > 0 {
					s.Signature = cpb(o.Signature)
					return true
				}
			}
			return false
		})
		add("lastcommit.sig.Signature", fmt.Sprintf("#%d same validator's valid signature for another round", k), func(pb *kproto.Block) bool {
			s := sg(pb)
			if s == nil || len(s.Signature) == 0 {
				return false
			}
			addr := common.BytesToAddress(s.ValidatorAddress)
			bid := types.BlockID{}
			if s.BlockIdFlag == kproto.BlockIDFlagCommit {
				b, err := types.BlockIDFromProto(&pb.LastCommit.BlockID)
				if err != nil {
					return false
				}
				bid = *b
			}
			v, err := t.ch.signVote(addr, k, pb.LastCommit.Height, pb.LastCommit.Round+1, kproto.PrecommitType, bid, s.Timestamp)
			if err != nil {
				return false
			}
			s.Signature = v.Signature
			return true
		})
		add("lastcommit.sig.Signature", fmt.Sprintf("#%d same validator's valid PREVOTE signature for the same content", k), func(pb *kproto.Block) bool {
			s := sg(pb)
			if s == nil || len(s.Signature) == 0 {
				return false
			}
			addr := common.BytesToAddress(s.ValidatorAddress)
			bid := types.BlockID{}
			if s.BlockIdFlag == kproto.BlockIDFlagCommit {
				b, err := types.BlockIDFromProto(&pb.LastCommit.BlockID)
				if err != nil {
					return false
				}
				bid = *b
			}
			v, err := t.ch.signVote(addr, k, pb.LastCommit.Height, pb.LastCommit.Round, kproto.PrevoteType, bid, s.Timestamp)
			if err != nil {
				return false
			}
			s.Signature = v.Signature
			return true
		})
	}

	// ---- evidence ----
	ev := func(pb *kproto.Block, k int) *kproto.DuplicateVoteEvidence {
		if k >= len(pb.Evidence.Evidence) {
			return nil
		}
		d, _ := pb.Evidence.Evidence[k].Sum.(*kproto.Evidence_DuplicateVoteEvidence)
		if d == nil {
			return nil
		}
		return d.DuplicateVoteEvidence
	}
	add("evidence", "first dropped", func(pb *kproto.Block) bool {
		if len(pb.Evidence.Evidence) == 0 {
			return false
		}
		pb.Evidence.Evidence = pb.Evidence.Evidence[1:]
		return true
	})
	add("evidence", "one duplicated", func(pb *kproto.Block) bool {
		if len(pb.Evidence.Evidence) == 0 {
			return false
		}
		pb.Evidence.Evidence = append(pb.Evidence.Evidence, pb.Evidence.Evidence[0])
		return true
	})
	add("evidence", "a correctly signed evidence appended", func(pb *kproto.Block) bool {
		if t.spareE == nil {
			return false
		}
		pb.Evidence.Evidence = append(pb.Evidence.Evidence, *t.spareE)
		return true
	})
	add("evidence", "replaced by another correctly signed evidence", func(pb *kproto.Block) bool {
		if t.spareE == nil || len(pb.Evidence.Evidence) == 0 {
			return false
		}
		pb.Evidence.Evidence[0] = *t.spareE
		return true
	})
	add("evidence", "empty evidence entry appended", func(pb *kproto.Block) bool {
		pb.Evidence.Evidence = append(pb.Evidence.Evidence, kproto.Evidence{})
		return true
	})
	nE := len(t.X.Evidence().Evidence)
	for k := 0; k < nE; k++ {
		k := k
		evm := func(field, desc string, f func(d *kproto.DuplicateVoteEvidence) bool) {
			add("evidence."+field, fmt.Sprintf("#%d %s", k, desc), func(pb *kproto.Block) bool {
				d := ev(pb, k)
				if d == nil || d.VoteA == nil || d.VoteB == nil {
					return false
				}
				return f(d)
			})
		}
		evm("TotalVotingPower", "+1", func(d *kproto.DuplicateVoteEvidence) bool { d.TotalVotingPower++; return true })
		evm("ValidatorPower", "+1", func(d *kproto.DuplicateVoteEvidence) bool { d.ValidatorPower++; return true })
		evm("ValidatorPower", "-1", func(d *kproto.DuplicateVoteEvidence) bool { d.ValidatorPower--; return true })
		evm("Timestamp", "+1ns", func(d *kproto.DuplicateVoteEvidence) bool { d.Timestamp = d.Timestamp.Add(1); return true })
		evm("votes", "A and B swapped", func(d *kproto.DuplicateVoteEvidence) bool { d.VoteA, d.VoteB = d.VoteB, d.VoteA; return true })
		evm("votes", "B replaced by A", func(d *kproto.DuplicateVoteEvidence) bool { b := *d.VoteA; d.VoteB = &b; return true })
		evm("votes", "B removed", func(d *kproto.DuplicateVoteEvidence) bool { d.VoteB = nil; return true })
		for _, which := range []string{"VoteA", "VoteB"} {
			which := which
			vt := func(d *kproto.DuplicateVoteEvidence) *kproto.Vote {
				if which == "VoteA" {
					return d.VoteA
				}
				return d.VoteB
			}
			evm(which+".Type", "precommit->prevote", func(d *kproto.DuplicateVoteEvidence) bool { vt(d).Type = kproto.PrevoteType; return true })
			evm(which+".Height", "+1", func(d *kproto.DuplicateVoteEvidence) bool { vt(d).Height++; return true })
			evm(which+".Round", "+1", func(d *kproto.DuplicateVoteEvidence) bool { vt(d).Round++; return true })
			evm(which+".BlockID.Hash", "one bit flipped", func(d *kproto.DuplicateVoteEvidence) bool {
				vt(d).BlockID.Hash = flipBit(vt(d).BlockID.Hash, r)
				return true
			})
			evm(which+".BlockID.PartsHeader.Total", "+1", func(d *kproto.DuplicateVoteEvidence) bool { vt(d).BlockID.PartSetHeader.Total++; return true })
			evm(which+".BlockID.PartsHeader.Hash", "one bit flipped", func(d *kproto.DuplicateVoteEvidence) bool {
				vt(d).BlockID.PartSetHeader.Hash = flipBit(vt(d).BlockID.PartSetHeader.Hash, r)
				return true
			})
			evm(which+".Timestamp", "+1ns", func(d *kproto.DuplicateVoteEvidence) bool { vt(d).Timestamp = vt(d).Timestamp.Add(1); return true })
			evm(which+".ValidatorAddress", "one bit flipped", func(d *kproto.DuplicateVoteEvidence) bool {
				vt(d).ValidatorAddress = flipBit(vt(d).ValidatorAddress, r)
				return true
			})
			evm(which+".ValidatorIndex", "+1", func(d *kproto.DuplicateVoteEvidence) bool { vt(d).ValidatorIndex++; return true })
			evm(which+".Signature", "one bit flipped", func(d *kproto.DuplicateVoteEvidence) bool {
				vt(d).Signature = flipBit(vt(d).Signature, r)
				return true
			})
		}
	}
	return ms
}

var (
	reHex = regexp.MustCompile(`(0x)?[0-9A-Fa-f]{8,}`)
	reNum = regexp.MustCompile(`[0-9]+`)
	reTS  = regexp.MustCompile(`[0-9]{4}-[0-9]{2}-[0-9]{2} [0-9:.]+ \+0000 UTC`)
)

// shortErr names the check that fired, without the values.
func shortErr(err error) string {
	if err == nil {
		return "accepted"
	}
	s := err.Error()
	for _, cut := range []string{". Expected", ": want", " Expected", " (#", ": %!", " got", ": [", ": {", ": VoteA", ": Vote{"} {
		if i := strings.Index(s, cut); i > 0 {
			s = s[:i]
		}
	}
	s = reTS.ReplaceAllString(s, "T")
	s = reHex.ReplaceAllString(s, "H")
	s = reNum.ReplaceAllString(s, "N")
	if len(s) > 80 {
		s = s[:80]
	}
	return s
}

func cacheClass(field string) string {
	switch {
	case strings.HasPrefix(field, "lastcommit.Height"), strings.HasPrefix(field, "lastcommit.Round"), strings.HasPrefix(field, "lastcommit.BlockID"):
		return "lastcommit-fields-not-covered-by-hash"
	}
	return field
}

// tamperHeight runs all mutations of block X (proposed on state S) and returns
// false when a violation was reported.
func tamperHeight(c *core.Case, ch *chain, X *types.Block, parts *types.PartSet, r *rand.Rand) bool {
	run := c.Run
	S := ch.state
	h := X.Height()
	baseWit := func() map[string]interface{} {
		return map[string]interface{}{"height": h, "validators": S.Validators.Size(), "block": X.Hash().Hex(), "txs": X.NumTxs(),
			"evidence": len(X.Evidence().Evidence), "last_commit_signatures": X.LastCommit().Size(), "parts": parts.Total()}
	}
	// X as a peer receives it: reassembled from its parts (random order), decoded
	var bzX []byte
	{
		ps := types.NewPartSetFromHeader(parts.Header())
		for _, i := range r.Perm(int(parts.Total())) {
			if added, err := ps.AddPart(parts.GetPart(i)); !added || err != nil {
				c.Violation("partset:genuine-part-refused", fmt.Sprintf("part %d of a proposed block refused: %v", i, err), baseWit())
				return false
			}
		}
		var err error
		bzX, err = ioutil.ReadAll(ps.GetReader())
		if err != nil {
			c.Violation("partset:complete-with-wrong-bytes", "reading the reassembled block: "+err.Error(), baseWit())
			return false
		}
	}
	pbX := new(kproto.Block)
	if err := proto.Unmarshal(bzX, pbX); err != nil {
		c.Violation("roundtrip:block:parts", "bytes reassembled from the parts of a proposed block do not decode: "+err.Error(), baseWit())
		return false
	}
	rx, err := types.BlockFromProto(pbX, trie.NewStackTrie(nil))
	if err != nil {
		c.Violation("roundtrip:block:parts", "block reassembled from its parts is rejected by BlockFromProto: "+err.Error(), baseWit())
		return false
	}
	if d := diffBlock(X, rx); d != "" || rx.Hash() != X.Hash() {
		c.Violation("roundtrip:block:parts", fmt.Sprintf("block reassembled from its parts differs from the proposed block in %s (hash %x vs %x)", d, rx.Hash(), X.Hash()), baseWit())
		return false
	}
	run.Count("blocks_reassembled_from_parts", 1)
	// the same block bytes in many small parts, random arrival with duplicates and adversarial parts
	for _, psz := range []int{1000, 97} {
		p, ok := newPset(c, bzX, psz)
		if !ok {
			return false
		}
		offers, _ := p.randomOffers(r)
		if !runSeq(c, p, p.hdr(), offers, true, fmt.Sprintf("block of height %d in parts of %d bytes", h, psz)) {
			return false
		}
		run.Count("blocks_reassembled_from_small_parts", 1)
		run.Max("max_parts_of_a_block", int64(p.n))
	}

	primed := ch.newExecutor()
	var e0 error
	if c.Guard("ValidateBlock(original)", func() interface{} { return baseWit() }, func() { e0 = primed.ValidateBlock(S, X) }) {
		return false
	}
	if e0 != nil {
		run.Inconclusive(fmt.Sprintf("case %s:%d height %d: the block made by CreateProposalBlock is not valid on its own state: %v", c.Group, c.I, h, e0))
		return false
	}
	run.Count("valid_blocks", 1)
	run.Count("valid_blocks_txs", int(X.NumTxs()))
	if len(X.Evidence().Evidence) > 0 {
		run.Count("valid_blocks_with_evidence", 1)
	}
	if S.LastBlockHeight > 0 {
		run.Count("valid_blocks_with_last_commit", 1)
		for _, s := range X.LastCommit().Signatures {
			switch s.BlockIDFlag {
			case types.BlockIDFlagAbsent:
				run.Count("last_commit_sigs_absent", 1)
			case types.BlockIDFlagNil:
				run.Count("last_commit_sigs_nil", 1)
			default:
				run.Count("last_commit_sigs_for_block", 1)
			}
		}
	}

	t := &tamperCtx{ch: ch, S: S, X: X, r: r}
	// a valid transaction that is not in the block
	{
		key := ch.senders[0]
		from := crypto.PubkeyToAddress(key.PublicKey)
		tx, err := types.SignTx(types.HomesteadSigner{}, types.NewTransaction(ch.sentNonce[from]+uint64(r.Intn(3)), common.BytesToAddress([]byte{0xca, 0xfe}), big.NewInt(int64(1+r.Intn(99))), 60000, big.NewInt(1), nil), key)
		if err != nil {
			run.Inconclusive("cannot sign the spare transaction: " + err.Error())
			return false
		}
		t.spare = tx
	}
	// a correctly signed equivocation that is not in the block
	if hh := S.LastBlockHeight; hh >= 1 && ch.valsAt[hh] != nil {
		vals := ch.valsAt[hh]
		idx := r.Intn(vals.Size())
		_, val := vals.GetByIndex(uint32(idx))
		mk := func() types.BlockID {
			return types.BlockID{Hash: common.BytesToHash(randHash(r)), PartsHeader: types.PartSetHeader{Total: 1, Hash: common.BytesToHash(randHash(r))}}
		}
		v1, e1 := ch.signVote(val.Address, idx, hh, 9, kproto.PrecommitType, mk(), ch.timeAt[hh])
		v2, e2 := ch.signVote(val.Address, idx, hh, 9, kproto.PrecommitType, mk(), ch.timeAt[hh])
		if e1 == nil && e2 == nil {
			if ev := types.NewDuplicateVoteEvidence(v1, v2, ch.timeAt[hh], vals); ev != nil {
				t.spareE, _ = types.EvidenceToProto(ev)
			}
		}
	}

	muts := t.mutations()
	sameHashRejected := 0
	fieldsSeen := map[string]bool{}
	for mi, m := range muts {
		pb := new(kproto.Block)
		if err := proto.Unmarshal(bzX, pb); err != nil {
			run.Inconclusive("cannot re-decode the original block: " + err.Error())
			return false
		}
		if !m.apply(pb) {
			continue
		}
		run.Eval(1)
		run.Count("mutants", 1)
		wit := func(extra map[string]interface{}) interface{} {
			w := baseWit()
			w["mutation_no"] = mi
			w["field"] = m.field
			w["mutation"] = m.desc
			for k, v := range extra {
				w[k] = v
			}
			return w
		}
		var M *types.Block
		var derr error
		if c.Guard("BlockFromProto(mutant)", func() interface{} { return wit(nil) }, func() { M, derr = types.BlockFromProto(pb, trie.NewStackTrie(nil)) }) {
			run.Count("mutants_panicking", 1)
			continue
		}
		if derr != nil {
			run.Count("mutants_rejected_on_decode_or_ValidateBasic", 1)
			run.Distinct("rejections", "decode: "+shortErr(derr))
			tally("mutant_rejections", "decode/ValidateBasic: "+shortErr(derr))
			run.Distinct("fields_rejected_on_decode", m.field)
			fieldsSeen[m.field] = true
			continue
		}
		d := diffBlock(X, M)
		if d == "" {
			// the same block from different bytes (non-canonical encoding): not a change of the block
			run.Count("mutants_decoding_to_the_same_block", 1)
			run.Distinct("same_block_encodings", m.field+": "+m.desc)
			tally("mutants_decoding_to_the_same_block", m.field+": "+stripNo(m.desc))
			continue
		}
		fieldsSeen[m.field] = true
		hashChanged := M.Hash() != X.Hash()
		var errF, errP error
		fresh := ch.newExecutor()
		if c.Guard("ValidateBlock(mutant), fresh executor", func() interface{} { return wit(map[string]interface{}{"differs_in": d}) }, func() { errF = fresh.ValidateBlock(S, M) }) {
			run.Count("mutants_panicking", 1)
			continue
		}
		if c.Guard("ValidateBlock(mutant), primed executor", func() interface{} { return wit(map[string]interface{}{"differs_in": d}) }, func() { errP = primed.ValidateBlock(S, M) }) {
			run.Count("mutants_panicking", 1)
			continue
		}
		// the block id (hash + parts header) of two different acceptable blocks must differ
		if errF == nil {
			var mh types.PartSetHeader
			if c.Guard("MakePartSet(mutant)", func() interface{} { return wit(nil) }, func() { mh = M.MakePartSet(types.BlockPartSizeBytes).Header() }) {
				return false
			}
			if !hashChanged && mh.Equals(parts.Header()) {
				c.Violation("blockid:shared-by-different-blocks", fmt.Sprintf("height %d: a valid block differing in %s has the same hash and the same parts header as the original", h, d), wit(map[string]interface{}{"differs_in": d}))
			}
		}
		if hashChanged {
			run.Count("mutants_hash_changed", 1)
			run.Distinct("fields_changing_the_hash", m.field)
			tally("hash_changing_mutants_validation_verdict", m.field+" -> "+shortErr(errF))
			if errF == nil {
				run.Count("mutants_hash_changed_and_still_valid", 1)
			}
			continue
		}
		// same Block.Hash(): validation has to notice
		run.Count("mutants_same_hash", 1)
		run.Distinct("fields_not_covered_by_the_hash", m.field)
		ex := map[string]interface{}{"differs_in": d, "block_hash_unchanged": X.Hash().Hex(), "fresh_executor": shortOrNil(errF), "primed_executor": shortOrNil(errP)}
		switch {
		case errF == nil:
			key := "tamper-undetected:" + m.field
			if h == S.InitialHeight && strings.HasPrefix(m.field, "lastcommit") {
				key = "tamper-undetected:first-block-lastcommit-unconstrained"
			}
			c.Violation(key, fmt.Sprintf("height %d: mutation of %s (%s) keeps Block.Hash(), passes ValidateBasic and ValidateBlock on a fresh executor", h, m.field, m.desc), wit(ex))
			tally("violating_mutations", key+" <- "+m.field+": "+stripNo(m.desc))
			run.Count("mutants_same_hash_accepted", 1)
		case errP == nil:
			c.Violation("validation-cache:"+cacheClass(m.field), fmt.Sprintf("height %d: mutation of %s (%s) keeps Block.Hash(); a fresh executor rejects it (%s) but an executor that has just validated the original block reports it valid", h, m.field, m.desc, trunc(errF.Error(), 140)), wit(ex))
			run.Count("mutants_same_hash_accepted_from_cache", 1)
			tally("violating_mutations", "validation-cache:"+cacheClass(m.field)+" <- "+m.field+": "+stripNo(m.desc))
		default:
			sameHashRejected++
			run.Count("mutants_same_hash_rejected_by_validation", 1)
			run.Distinct("rejections", "validate: "+shortErr(errF))
			tally("mutant_rejections", "same hash, ValidateBlock: "+shortErr(errF))
			tally("same_hash_mutants_rejected_by_validation", m.field)
		}
	}
	for f := range fieldsSeen {
		run.Distinct("mutated_fields", f)
	}
	if sameHashRejected > 0 {
		run.Nontrivial(fmt.Sprintf("tamper|%x", X.Hash().Bytes()))
		run.Max("max_txs_in_a_tampered_block", int64(X.NumTxs()))
		if X.NumTxs() > 128 {
			run.Count("tampered_blocks_with_more_than_128_txs", 1)
		}
	}
	if c.Group == "blocks-corpus" && c.I == 0 && h == 3 {
		run.Sample(map[string]interface{}{"group": c.Group, "case": c.I, "block": baseWit(), "mutations": len(muts)})
	}
	return true
}

// stripNo removes the "#k " signature / evidence number from a mutation description.
func stripNo(d string) string {
	if strings.HasPrefix(d, "#") {
		if i := strings.Index(d, " "); i > 0 {
			return d[i+1:]
		}
	}
	return d
}

func trunc(s string, n int) string {
	if len(s) > n {
		return s[:n] + "..."
	}
	return s
}

func shortOrNil(err error) string {
	if err == nil {
		return "nil (valid)"
	}
	return err.Error()
}

// blocksCase: one chain, several heights; every proposed block goes through the
// tamper oracle before it is committed, and through the codec checks after.
// corpus=true: the fixed chains (independent of the seed): 4 validators with
// transactions at every height and evidence from height 3 on; a single
// validator; 3 and 7 validators.
func blocksCase(c *core.Case, corpus bool) {
	run, r := c.Run, c.R
	if n := reflect.TypeOf(types.Header{}).NumField(); n != knownHeaderFields {
		run.Inconclusive(fmt.Sprintf("types.Header has %d fields, the monitor compares %d", n, knownHeaderFields))
		return
	}
	nVals := []int{1, 2, 3, 4, 4, 4, 5, 7}[r.Intn(8)]
	heights := 4 + r.Intn(4)
	chainNo := 16 + c.I
	if corpus {
		r = rand.New(rand.NewSource(int64(7700 + c.I)))
		nVals = []int{4, 1, 3, 7}[c.I%4]
		heights = 6
		chainNo = c.I
	}
	ch, err := newChain(chainNo, nVals)
	if err != nil {
		run.Inconclusive(fmt.Sprintf("case %s:%d: %v", c.Group, c.I, err))
		return
	}
	defer ch.close()
	run.Distinct("validator_counts", fmt.Sprint(nVals))
	for h := 1; h <= heights; h++ {
		if k := r.Intn(5); k > 0 || h == 2 || corpus {
			if (corpus && c.I == 0 && h == 2) || (!corpus && h == 2 && r.Intn(8) == 0) {
				k = 120 + r.Intn(100) // a long list: the transactions root is built in three index ranges (1..127, 0, 128..)
				if corpus {
					k = 200
				}
			}
			if err := ch.addTxs(r, maxInt(k, 2)); err != nil {
				run.Inconclusive(fmt.Sprintf("case %s:%d height %d: %v", c.Group, c.I, h, err))
				return
			}
		}
		if (corpus && c.I == 1 && h == 4) || (!corpus && h == 4 && r.Intn(6) == 0) {
			// a block of several parts of the real part size
			if err := ch.addBigTx(r); err != nil {
				run.Inconclusive(fmt.Sprintf("case %s:%d height %d: %v", c.Group, c.I, h, err))
				return
			}
			run.Count("blocks_with_a_transaction_larger_than_one_part", 1)
		}
		if h >= 3 && (r.Intn(2) == 0 || h == 3 || corpus) && ch.state.Validators.Size() > 1 {
			if _, err := ch.addEvidence(r); err != nil {
				run.Inconclusive(fmt.Sprintf("case %s:%d height %d: %v", c.Group, c.I, h, err))
				return
			}
		}
		blk, parts, err := ch.propose()
		if err != nil {
			run.Inconclusive(fmt.Sprintf("case %s:%d height %d: %v", c.Group, c.I, h, err))
			return
		}
		// a violation reported at this height does not stop the chain: later heights exercise other fields
		tamperHeight(c, ch, blk, parts, r)
		if err := ch.commit(r, blk, parts); err != nil {
			run.Inconclusive(fmt.Sprintf("case %s:%d height %d: %v", c.Group, c.I, h, err))
			return
		}
		run.Count("heights_committed", 1)
		codecObjects(c, ch, blk, parts, ch.lastCommit, ch.lastVotes, r)
	}
}
