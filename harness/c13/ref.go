package c13

import (
	"bytes"
	"crypto/sha256"
)

// Reference "simple Merkle tree", written from the description of the RFC 6962 /
// RFC 9162 Merkle tree hash with the domain separation the product documents:
//
//	leaf hash  = SHA-256(0x00 || leaf bytes)
//	inner hash = SHA-256(0x01 || left || right)
//	MTH({})    = empty (the product stores it in a 32-byte field as all zeroes)
//	MTH({d0})  = leaf hash(d0)
//	MTH(D[n])  = inner(MTH(D[0:k]), MTH(D[k:n])), k the largest power of two < n
//
// Audit path of leaf m in D[n] (sibling nearest the leaf first, child of the root last):
//
//	PATH(m, D[1]) = {}
//	PATH(m, D[n]) = PATH(m, D[0:k]) : MTH(D[k:n])      for m <  k
//	PATH(m, D[n]) = PATH(m-k, D[k:n]) : MTH(D[0:k])    for m >= k
//
// Verification is the iterative algorithm of RFC 9162 section 2.1.3.2 (a different
// algorithm from the recursive one in lib/merkle), so that generation and
// verification check each other. Nothing in this file calls lib/merkle.

func refLeaf(b []byte) []byte {
	h := sha256.New()
	h.Write([]byte{0})
	h.Write(b)
	return h.Sum(nil)
}

func refInner(l, r []byte) []byte {
	h := sha256.New()
	h.Write([]byte{1})
	h.Write(l)
	h.Write(r)
	return h.Sum(nil)
}

func refSplit(n int) int {
	k := 1
	for k*2 < n {
		k *= 2
	}
	return k
}

// refRootOfLeafHashes computes MTH over already hashed leaves.
func refRootOfLeafHashes(lh [][]byte) []byte {
	switch len(lh) {
	case 0:
		return nil
	case 1:
		return lh[0]
	}
	k := refSplit(len(lh))
	return refInner(refRootOfLeafHashes(lh[:k]), refRootOfLeafHashes(lh[k:]))
}

func refLeafHashes(items [][]byte) [][]byte {
	lh := make([][]byte, len(items))
	for i, it := range items {
		lh[i] = refLeaf(it)
	}
	return lh
}

func refRoot(items [][]byte) []byte { return refRootOfLeafHashes(refLeafHashes(items)) }

func refPathOfLeafHashes(m int, lh [][]byte) [][]byte {
	if len(lh) <= 1 {
		return nil
	}
	k := refSplit(len(lh))
	if m < k {
		return append(refPathOfLeafHashes(m, lh[:k]), refRootOfLeafHashes(lh[k:]))
	}
	return append(refPathOfLeafHashes(m-k, lh[k:]), refRootOfLeafHashes(lh[:k]))
}

// refPathLen is the length of the audit path of leaf m in a tree of n leaves.
func refPathLen(m, n int) int {
	if n <= 1 {
		return 0
	}
	k := refSplit(n)
	if m < k {
		return 1 + refPathLen(m, k)
	}
	return 1 + refPathLen(m-k, n-k)
}

// refVerify decides whether leafHash is leaf number index of a tree with total
// leaves and the given root, by the audit path (RFC 9162 2.1.3.2).
func refVerify(root []byte, total, index uint64, leafHash []byte, path [][]byte) bool {
	if index >= total {
		return false
	}
	fn, sn := index, total-1
	r := leafHash
	for _, p := range path {
		if sn == 0 {
			return false
		}
		if fn&1 == 1 || fn == sn {
			r = refInner(p, r)
			if fn&1 == 0 {
				for fn&1 == 0 && fn != 0 {
					fn >>= 1
					sn >>= 1
				}
			}
		} else {
			r = refInner(r, p)
		}
		fn >>= 1
		sn >>= 1
	}
	return sn == 0 && bytes.Equal(r, root)
}

// refSelfTest cross-checks generation against verification (and the negative
// cases the monitor relies on) for all trees up to 70 leaves.
func refSelfTest() string {
	for n := 1; n <= 70; n++ {
		items := make([][]byte, n)
		for i := range items {
			items[i] = []byte{byte(i), byte(n), 7}
		}
		lh := refLeafHashes(items)
		root := refRoot(items)
		for i := 0; i < n; i++ {
			p := refPathOfLeafHashes(i, lh)
			if len(p) != refPathLen(i, n) {
				return "path length"
			}
			if !refVerify(root, uint64(n), uint64(i), lh[i], p) {
				return "genuine path does not verify"
			}
			for j := 0; j < n; j++ {
				if j != i && refVerify(root, uint64(n), uint64(j), lh[i], p) && refPathLen(j, n) == len(p) {
					return "path verifies at another index"
				}
			}
			if refVerify(root, uint64(n), uint64(i), lh[(i+1)%n], p) && n > 1 {
				return "path verifies another leaf"
			}
			if len(p) > 0 && refVerify(root, uint64(n), uint64(i), lh[i], p[:len(p)-1]) {
				return "truncated path verifies"
			}
			if refVerify(root, uint64(n), uint64(i), lh[i], append(append([][]byte{}, p...), lh[0])) {
				return "extended path verifies"
			}
		}
	}
	if refRoot(nil) != nil {
		return "empty root"
	}
	return ""
}
