package c13

import (
	"bytes"
	"fmt"
	"math/rand"
	"reflect"
	"time"

	"github.com/gogo/protobuf/proto"

	"github.com/kardiachain/go-kardia/kai/kaidb/memorydb"
	"github.com/kardiachain/go-kardia/kai/rawdb"
	"github.com/kardiachain/go-kardia/lib/common"
	"github.com/kardiachain/go-kardia/lib/merkle"
	"github.com/kardiachain/go-kardia/lib/rlp"
	kproto "github.com/kardiachain/go-kardia/proto/kardiachain/types"
	"github.com/kardiachain/go-kardia/trie"
	"github.com/kardiachain/go-kardia/types"

	"verifharness/core"
)

// ---------------------------------------------------------------------------
// Field-by-field comparison through the exported getters only (no ToProto, no
// Hash): the monitor's notion of "the same object" must not depend on the
// encoders it judges. Every function returns "" or the first differing field.
// ---------------------------------------------------------------------------

const knownHeaderFields = 13

func diffBlockID(p string, a, b types.BlockID) string {
	switch {
	case a.Hash != b.Hash:
		return p + ".Hash"
	case a.PartsHeader.Total != b.PartsHeader.Total:
		return p + ".PartsHeader.Total"
	case a.PartsHeader.Hash != b.PartsHeader.Hash:
		return p + ".PartsHeader.Hash"
	}
	return ""
}

func diffHeader(a, b *types.Header) string {
	if (a == nil) != (b == nil) {
		return "header(nil)"
	}
	if a == nil {
		return ""
	}
	switch {
	case a.Height != b.Height:
		return "header.Height"
	case !a.Time.Equal(b.Time):
		return "header.Time"
	case a.NumTxs != b.NumTxs:
		return "header.NumTxs"
	case a.GasLimit != b.GasLimit:
		return "header.GasLimit"
	case a.ProposerAddress != b.ProposerAddress:
		return "header.ProposerAddress"
	case a.LastCommitHash != b.LastCommitHash:
		return "header.LastCommitHash"
	case a.TxHash != b.TxHash:
		return "header.TxHash"
	case a.ValidatorsHash != b.ValidatorsHash:
		return "header.ValidatorsHash"
	case a.NextValidatorsHash != b.NextValidatorsHash:
		return "header.NextValidatorsHash"
	case a.ConsensusHash != b.ConsensusHash:
		return "header.ConsensusHash"
	case a.AppHash != b.AppHash:
		return "header.AppHash"
	case a.EvidenceHash != b.EvidenceHash:
		return "header.EvidenceHash"
	}
	if d := diffBlockID("header.LastBlockID", a.LastBlockID, b.LastBlockID); d != "" {
		return d
	}
	return ""
}

func diffTx(a, b *types.Transaction) string {
	if (a == nil) != (b == nil) {
		return "nil"
	}
	if a == nil {
		return ""
	}
	av, ar, as := a.RawSignatureValues()
	bv, br, bs := b.RawSignatureValues()
	switch {
	case a.Nonce() != b.Nonce():
		return "nonce"
	case a.GasPrice().Cmp(b.GasPrice()) != 0:
		return "gasPrice"
	case a.Gas() != b.Gas():
		return "gas"
	case (a.To() == nil) != (b.To() == nil) || (a.To() != nil && *a.To() != *b.To()):
		return "to"
	case a.Value().Cmp(b.Value()) != 0:
		return "value"
	case !bytes.Equal(a.Data(), b.Data()):
		return "data"
	case av.Cmp(bv) != 0 || ar.Cmp(br) != 0 || as.Cmp(bs) != 0:
		return "signature"
	}
	return ""
}

func diffCommit(p string, a, b *types.Commit) string {
	if (a == nil) != (b == nil) {
		return p + "(nil)"
	}
	if a == nil {
		return ""
	}
	switch {
	case a.Height != b.Height:
		return p + ".Height"
	case a.Round != b.Round:
		return p + ".Round"
	case len(a.Signatures) != len(b.Signatures):
		return p + ".Signatures(len)"
	}
	if d := diffBlockID(p+".BlockID", a.BlockID, b.BlockID); d != "" {
		return d
	}
	for i := range a.Signatures {
		x, y := a.Signatures[i], b.Signatures[i]
		switch {
		case x.BlockIDFlag != y.BlockIDFlag:
			return fmt.Sprintf("%s.Signatures[%d].BlockIDFlag", p, i)
		case x.ValidatorAddress != y.ValidatorAddress:
			return fmt.Sprintf("%s.Signatures[%d].ValidatorAddress", p, i)
		case !x.Timestamp.Equal(y.Timestamp):
			return fmt.Sprintf("%s.Signatures[%d].Timestamp", p, i)
		case !bytes.Equal(x.Signature, y.Signature):
			return fmt.Sprintf("%s.Signatures[%d].Signature", p, i)
		}
	}
	return ""
}

func diffVote(p string, a, b *types.Vote) string {
	if (a == nil) != (b == nil) {
		return p + "(nil)"
	}
	if a == nil {
		return ""
	}
	switch {
	case a.Type != b.Type:
		return p + ".Type"
	case a.Height != b.Height:
		return p + ".Height"
	case a.Round != b.Round:
		return p + ".Round"
	case !a.Timestamp.Equal(b.Timestamp):
		return p + ".Timestamp"
	case a.ValidatorAddress != b.ValidatorAddress:
		return p + ".ValidatorAddress"
	case a.ValidatorIndex != b.ValidatorIndex:
		return p + ".ValidatorIndex"
	case !bytes.Equal(a.Signature, b.Signature):
		return p + ".Signature"
	}
	return diffBlockID(p+".BlockID", a.BlockID, b.BlockID)
}

func diffEvidence(p string, a, b types.Evidence) string {
	x, ok1 := a.(*types.DuplicateVoteEvidence)
	y, ok2 := b.(*types.DuplicateVoteEvidence)
	if !ok1 || !ok2 {
		if reflect.TypeOf(a) != reflect.TypeOf(b) {
			return p + "(type)"
		}
		if !bytes.Equal(a.Bytes(), b.Bytes()) {
			return p + "(bytes)"
		}
		return ""
	}
	if (x == nil) != (y == nil) {
		return p + "(nil)"
	}
	if x == nil {
		return ""
	}
	switch {
	case x.TotalVotingPower != y.TotalVotingPower:
		return p + ".TotalVotingPower"
	case x.ValidatorPower != y.ValidatorPower:
		return p + ".ValidatorPower"
	case !x.Timestamp.Equal(y.Timestamp):
		return p + ".Timestamp"
	}
	if d := diffVote(p+".VoteA", x.VoteA, y.VoteA); d != "" {
		return d
	}
	return diffVote(p+".VoteB", x.VoteB, y.VoteB)
}

// diffBlock returns "" when the two blocks carry the same header fields,
// transactions, last commit and evidence.
func diffBlock(a, b *types.Block) string {
	if (a == nil) != (b == nil) {
		return "block(nil)"
	}
	if a == nil {
		return ""
	}
	if d := diffHeader(a.Header(), b.Header()); d != "" {
		return d
	}
	at, bt := a.Transactions(), b.Transactions()
	if len(at) != len(bt) {
		return "txs(len)"
	}
	for i := range at {
		if d := diffTx(at[i], bt[i]); d != "" {
			return fmt.Sprintf("txs[%d].%s", i, d)
		}
	}
	if d := diffCommit("lastcommit", a.LastCommit(), b.LastCommit()); d != "" {
		return d
	}
	var ae, be types.EvidenceList
	if a.Evidence() != nil {
		ae = a.Evidence().Evidence
	}
	if b.Evidence() != nil {
		be = b.Evidence().Evidence
	}
	if len(ae) != len(be) {
		return "evidence(len)"
	}
	for i := range ae {
		if d := diffEvidence(fmt.Sprintf("evidence[%d]", i), ae[i], be[i]); d != "" {
			return d
		}
	}
	return ""
}

func diffProof(a, b merkle.SimpleProof) string {
	switch {
	case a.Total != b.Total:
		return "proof.Total"
	case a.Index != b.Index:
		return "proof.Index"
	case !bytes.Equal(a.LeafHash, b.LeafHash):
		return "proof.LeafHash"
	case !eqPath(a.Aunts, b.Aunts):
		return "proof.Aunts"
	}
	return ""
}

func diffPart(a, b *types.Part) string {
	if (a == nil) != (b == nil) {
		return "part(nil)"
	}
	if a == nil {
		return ""
	}
	switch {
	case a.Index != b.Index:
		return "part.Index"
	case !bytes.Equal(a.Bytes, b.Bytes):
		return "part.Bytes"
	}
	return diffProof(a.Proof, b.Proof)
}

func diffProposal(a, b *types.Proposal) string {
	switch {
	case a.Height != b.Height:
		return "proposal.Height"
	case a.Round != b.Round:
		return "proposal.Round"
	case a.POLRound != b.POLRound:
		return "proposal.POLRound"
	case !a.Timestamp.Equal(b.Timestamp):
		return "proposal.Timestamp"
	case !bytes.Equal(a.Signature, b.Signature):
		return "proposal.Signature"
	}
	return diffBlockID("proposal.POLBlockID", a.POLBlockID, b.POLBlockID)
}

// ---------------------------------------------------------------------------
// Part C: encodings
// ---------------------------------------------------------------------------

func rtViolation(c *core.Case, what, codec, field string, wit interface{}) {
	c.Violation("roundtrip:"+what+":"+codec, fmt.Sprintf("%s changed by its %s round trip: %s differs", what, codec, field), wit)
}

// protoBlock: Block -> proto -> bytes -> proto -> Block.
func protoBlock(c *core.Case, b *types.Block, wit interface{}) (*types.Block, []byte, bool) {
	var out *types.Block
	var bz []byte
	ok := true
	c.Guard("block proto round trip", func() interface{} { return wit }, func() {
		pb, err := b.ToProto()
		if err != nil {
			c.Violation("roundtrip:block:proto", "Block.ToProto failed on a valid block: "+err.Error(), wit)
			ok = false
			return
		}
		bz, err = proto.Marshal(pb)
		if err != nil {
			c.Violation("roundtrip:block:proto", "marshal failed on a valid block: "+err.Error(), wit)
			ok = false
			return
		}
		pb2 := new(kproto.Block)
		if err := proto.Unmarshal(bz, pb2); err != nil {
			c.Violation("roundtrip:block:proto", "unmarshal of the block's own encoding failed: "+err.Error(), wit)
			ok = false
			return
		}
		out, err = types.BlockFromProto(pb2, trie.NewStackTrie(nil))
		if err != nil {
			c.Violation("roundtrip:block:proto", "BlockFromProto rejects the encoding of a valid block: "+err.Error(), wit)
			ok = false
			return
		}
		if d := diffBlock(b, out); d != "" {
			rtViolation(c, "block", "proto", d, wit)
			ok = false
			return
		}
		if out.Hash() != b.Hash() {
			c.Violation("roundtrip:block:proto", fmt.Sprintf("block hash %x became %x through the proto round trip", b.Hash(), out.Hash()), wit)
			ok = false
		}
	})
	return out, bz, ok && out != nil
}

// codecObjects runs the round trips of the objects of one committed height.
func codecObjects(c *core.Case, ch *chain, blk *types.Block, parts *types.PartSet, seen *types.Commit, votes []*types.Vote, r *rand.Rand) bool {
	run := c.Run
	h := blk.Height()
	wit := map[string]interface{}{"height": h, "block": blk.Hash().Hex(), "txs": blk.NumTxs(), "evidence": len(blk.Evidence().Evidence)}
	fail := false
	guard := func(what string, fn func()) {
		if c.Guard(what, func() interface{} { return wit }, fn) {
			fail = true
		}
	}
	// block: proto
	if _, _, ok := protoBlock(c, blk, wit); !ok {
		return false
	}
	run.Count("roundtrip:block:proto", 1)

	// commits: proto
	for ci, cm := range []*types.Commit{seen, blk.LastCommit()} {
		cm := cm
		name := []string{"seen-commit", "last-commit"}[ci]
		guard("commit proto round trip", func() {
			bz, err := proto.Marshal(cm.ToProto())
			if err != nil {
				c.Violation("roundtrip:commit:proto", "marshal: "+err.Error(), wit)
				fail = true
				return
			}
			pc := new(kproto.Commit)
			if err := proto.Unmarshal(bz, pc); err != nil {
				c.Violation("roundtrip:commit:proto", "unmarshal: "+err.Error(), wit)
				fail = true
				return
			}
			out, err := types.CommitFromProto(pc)
			if err != nil {
				c.Violation("roundtrip:commit:proto", name+": CommitFromProto rejects the encoding of a valid commit: "+err.Error(), wit)
				fail = true
				return
			}
			if d := diffCommit("commit", cm, out); d != "" {
				rtViolation(c, "commit", "proto", d, wit)
				fail = true
				return
			}
			// the hash is recomputed on the decoded object (the original's is cached)
			if out.Hash() != cm.Hash() {
				c.Violation("roundtrip:commit:proto", "commit hash changed through the proto round trip", wit)
				fail = true
			}
			run.Count("roundtrip:commit:proto", 1)
		})
	}

	// votes: proto (precommits of this height, for the block / nil)
	for _, v := range votes {
		v := v
		guard("vote proto round trip", func() {
			bz, err := proto.Marshal(v.ToProto())
			if err != nil {
				c.Violation("roundtrip:vote:proto", "marshal: "+err.Error(), wit)
				fail = true
				return
			}
			pv := new(kproto.Vote)
			if err := proto.Unmarshal(bz, pv); err != nil {
				c.Violation("roundtrip:vote:proto", "unmarshal: "+err.Error(), wit)
				fail = true
				return
			}
			out, err := types.VoteFromProto(pv)
			if err != nil {
				c.Violation("roundtrip:vote:proto", "VoteFromProto rejects the encoding of a valid vote: "+err.Error(), wit)
				fail = true
				return
			}
			if d := diffVote("vote", v, out); d != "" {
				rtViolation(c, "vote", "proto", d, wit)
				fail = true
				return
			}
			if err := out.Verify(chainID, v.ValidatorAddress); err != nil {
				c.Violation("roundtrip:vote:proto", "signature of the decoded vote no longer verifies: "+err.Error(), wit)
				fail = true
			}
			run.Count("roundtrip:vote:proto", 1)
		})
	}

	// proposal: proto
	guard("proposal proto round trip", func() {
		// as the product makes them: the POL round is below the round (0/0 in the first round)
		round, pol := uint32(r.Intn(4)), uint32(0)
		if round > 0 {
			pol = uint32(r.Intn(int(round)))
		}
		prop := types.NewProposal(h, round, pol, types.BlockID{Hash: blk.Hash(), PartsHeader: parts.Header()})
		prop.Timestamp = blk.Time().Add(time.Duration(r.Intn(1e9)))
		pp := prop.ToProto()
		proposer := blk.ProposerAddress()
		if pv := ch.pvByAdr[proposer]; pv != nil {
			if err := pv.SignProposal(chainID, pp); err != nil {
				return
			}
			prop.Signature = pp.Signature
		} else {
			prop.Signature = randHash(r)
		}
		bz, err := proto.Marshal(prop.ToProto())
		if err != nil {
			c.Violation("roundtrip:proposal:proto", "marshal: "+err.Error(), wit)
			fail = true
			return
		}
		p2 := new(kproto.Proposal)
		if err := proto.Unmarshal(bz, p2); err != nil {
			c.Violation("roundtrip:proposal:proto", "unmarshal: "+err.Error(), wit)
			fail = true
			return
		}
		out, err := types.ProposalFromProto(p2)
		if err != nil {
			c.Violation("roundtrip:proposal:proto", "ProposalFromProto rejects the encoding of a valid proposal: "+err.Error(), wit)
			fail = true
			return
		}
		if d := diffProposal(prop, out); d != "" {
			rtViolation(c, "proposal", "proto", d, wit)
			fail = true
			return
		}
		if !bytes.Equal(types.ProposalSignBytes(chainID, prop.ToProto()), types.ProposalSignBytes(chainID, out.ToProto())) {
			c.Violation("roundtrip:proposal:proto", "sign bytes of the decoded proposal differ", wit)
			fail = true
		}
		run.Count("roundtrip:proposal:proto", 1)
	})

	// parts: proto
	for i := 0; i < int(parts.Total()); i++ {
		i := i
		guard("part proto round trip", func() {
			pt := parts.GetPart(i)
			pb, err := pt.ToProto()
			if err != nil {
				c.Violation("roundtrip:part:proto", "ToProto: "+err.Error(), wit)
				fail = true
				return
			}
			bz, err := proto.Marshal(pb)
			if err != nil {
				c.Violation("roundtrip:part:proto", "marshal: "+err.Error(), wit)
				fail = true
				return
			}
			pb2 := new(kproto.Part)
			if err := proto.Unmarshal(bz, pb2); err != nil {
				c.Violation("roundtrip:part:proto", "unmarshal: "+err.Error(), wit)
				fail = true
				return
			}
			out, err := types.PartFromProto(pb2)
			if err != nil {
				c.Violation("roundtrip:part:proto", "PartFromProto rejects the encoding of a genuine part: "+err.Error(), wit)
				fail = true
				return
			}
			if d := diffPart(pt, out); d != "" {
				rtViolation(c, "part", "proto", d, wit)
				fail = true
				return
			}
			// the decoded part must still be accepted under the header
			ps := types.NewPartSetFromHeader(parts.Header())
			if added, err := ps.AddPart(out); !added || err != nil {
				c.Violation("roundtrip:part:proto", fmt.Sprintf("decoded part %d refused by a set made from the header: %v", i, err), wit)
				fail = true
			}
			run.Count("roundtrip:part:proto", 1)
		})
	}

	// block meta: proto
	guard("block meta proto round trip", func() {
		bm := types.NewBlockMeta(blk, parts)
		bz, err := proto.Marshal(bm.ToProto())
		if err != nil {
			c.Violation("roundtrip:blockmeta:proto", "marshal: "+err.Error(), wit)
			fail = true
			return
		}
		pb := new(kproto.BlockMeta)
		if err := proto.Unmarshal(bz, pb); err != nil {
			c.Violation("roundtrip:blockmeta:proto", "unmarshal: "+err.Error(), wit)
			fail = true
			return
		}
		out, err := types.BlockMetaFromProto(pb)
		if err != nil {
			c.Violation("roundtrip:blockmeta:proto", "BlockMetaFromProto rejects the encoding of a valid block meta: "+err.Error(), wit)
			fail = true
			return
		}
		if d := diffBlockID("blockmeta.BlockID", bm.BlockID, out.BlockID); d != "" {
			rtViolation(c, "blockmeta", "proto", d, wit)
			fail = true
			return
		}
		if d := diffHeader(bm.Header, out.Header); d != "" {
			rtViolation(c, "blockmeta", "proto", d, wit)
			fail = true
			return
		}
		if out.Header.Hash() != blk.Hash() {
			c.Violation("roundtrip:blockmeta:proto", "header hash of the decoded block meta differs from the block hash", wit)
			fail = true
		}
		run.Count("roundtrip:blockmeta:proto", 1)
	})

	// transactions: RLP (the form in which they travel inside the block)
	for i, tx := range blk.Transactions() {
		i, tx := i, tx
		guard("transaction RLP round trip", func() {
			bz, err := rlp.EncodeToBytes(tx)
			if err != nil {
				c.Violation("roundtrip:tx:rlp", "encode: "+err.Error(), wit)
				fail = true
				return
			}
			out := new(types.Transaction)
			if err := rlp.DecodeBytes(bz, out); err != nil {
				c.Violation("roundtrip:tx:rlp", "decode of the transaction's own encoding: "+err.Error(), wit)
				fail = true
				return
			}
			if d := diffTx(tx, out); d != "" {
				rtViolation(c, "tx", "rlp", fmt.Sprintf("txs[%d].%s", i, d), wit)
				fail = true
				return
			}
			bz2, _ := rlp.EncodeToBytes(out)
			if out.Hash() != tx.Hash() || !bytes.Equal(bz, bz2) {
				c.Violation("roundtrip:tx:rlp", "hash or re-encoding of the decoded transaction differs", wit)
				fail = true
			}
			run.Count("roundtrip:tx:rlp", 1)
		})
	}

	// rawdb: the chain's own database (written by SaveBlock) and a scratch one
	check := func(where string, load func() (*types.Block, *types.BlockMeta, *types.Commit, *types.Commit, []*types.Part, *types.Header)) {
		guard("rawdb read-back ("+where+")", func() {
			b2, bm, lc, sc, pts, hd := load()
			if b2 == nil || bm == nil || sc == nil || hd == nil {
				c.Violation("roundtrip:block:rawdb", fmt.Sprintf("%s: block/meta/seen commit/header missing after WriteBlock (block=%v meta=%v seen=%v header=%v)", where, b2 != nil, bm != nil, sc != nil, hd != nil), wit)
				fail = true
				return
			}
			if d := diffBlock(blk, b2); d != "" {
				rtViolation(c, "block", "rawdb", where+": "+d, wit)
				fail = true
				return
			}
			if b2.Hash() != blk.Hash() {
				c.Violation("roundtrip:block:rawdb", where+": hash of the block read back differs", wit)
				fail = true
				return
			}
			if d := diffBlockID("blockmeta.BlockID", bm.BlockID, types.BlockID{Hash: blk.Hash(), PartsHeader: parts.Header()}); d != "" {
				rtViolation(c, "blockmeta", "rawdb", where+": "+d, wit)
				fail = true
				return
			}
			if d := diffHeader(bm.Header, blk.Header()); d != "" {
				rtViolation(c, "blockmeta", "rawdb", where+": "+d, wit)
				fail = true
				return
			}
			if d := diffHeader(hd, blk.Header()); d != "" || hd.Hash() != blk.Hash() {
				rtViolation(c, "header", "rawdb", where+": "+d, wit)
				fail = true
				return
			}
			if d := diffCommit("seen-commit", seen, sc); d != "" || sc.Hash() != seen.Hash() {
				rtViolation(c, "commit", "rawdb", where+": "+d, wit)
				fail = true
				return
			}
			if lc == nil {
				c.Violation("roundtrip:commit:rawdb", where+": the block's last commit is missing after WriteBlock", wit)
				fail = true
				return
			}
			if d := diffCommit("last-commit", blk.LastCommit(), lc); d != "" || lc.Hash() != blk.LastCommit().Hash() {
				rtViolation(c, "commit", "rawdb", where+": "+d, wit)
				fail = true
				return
			}
			if len(pts) != int(parts.Total()) {
				c.Violation("roundtrip:part:rawdb", where+": number of parts read back differs", wit)
				fail = true
				return
			}
			ps := types.NewPartSetFromHeader(bm.BlockID.PartsHeader)
			for i, pt := range pts {
				if d := diffPart(parts.GetPart(i), pt); d != "" {
					rtViolation(c, "part", "rawdb", fmt.Sprintf("%s: part %d %s", where, i, d), wit)
					fail = true
					return
				}
				if added, err := ps.AddPart(pt); !added || err != nil {
					c.Violation("roundtrip:part:rawdb", fmt.Sprintf("%s: part %d read back is refused by a set made from the stored header: %v", where, i, err), wit)
					fail = true
					return
				}
			}
			run.Count("roundtrip:rawdb:"+where, 1)
		})
	}
	check("chain-db", func() (*types.Block, *types.BlockMeta, *types.Commit, *types.Commit, []*types.Part, *types.Header) {
		var pts []*types.Part
		for i := 0; i < int(parts.Total()); i++ {
			pts = append(pts, ch.bo.LoadBlockPart(h, i))
		}
		return ch.bo.LoadBlock(h), ch.bo.LoadBlockMeta(h), ch.bo.LoadBlockCommit(h - 1), ch.bo.LoadSeenCommit(h), pts, rawdb.ReadHeader(ch.db, h)
	})
	check("scratch-db", func() (*types.Block, *types.BlockMeta, *types.Commit, *types.Commit, []*types.Part, *types.Header) {
		db := memorydb.New()
		rawdb.WriteBlock(db, blk, parts, seen)
		var pts []*types.Part
		for i := 0; i < int(parts.Total()); i++ {
			pts = append(pts, rawdb.ReadBlockPart(db, h, i))
		}
		if rawdb.ReadCanonicalHash(db, h) != blk.Hash() {
			c.Violation("roundtrip:block:rawdb", "canonical hash written by WriteBlock differs from the block hash", wit)
			fail = true
		}
		if hh := rawdb.ReadHeaderHeight(db, blk.Hash()); hh == nil || *hh != h {
			c.Violation("roundtrip:block:rawdb", "hash-to-height entry written by WriteBlock is missing or wrong", wit)
			fail = true
		}
		return rawdb.ReadBlock(db, h), rawdb.ReadBlockMeta(db, h), rawdb.ReadCommit(db, h-1), rawdb.ReadSeenCommit(db, h), pts, rawdb.ReadHeader(db, h)
	})
	if !fail {
		run.Nontrivial(fmt.Sprintf("codec|%x", blk.Hash().Bytes()))
	}
	return !fail
}

var _ = common.Hash{}
