package c13

import (
	"bytes"
	"fmt"
	"io"
	"io/ioutil"
	"math/rand"
	"runtime"
	"sync"
	"sync/atomic"

	"github.com/kardiachain/go-kardia/lib/common"
	"github.com/kardiachain/go-kardia/lib/merkle"
	"github.com/kardiachain/go-kardia/types"

	"verifharness/core"
)

// ---------------------------------------------------------------------------
// Part A: part sets. The real types.PartSet is driven with genuine, duplicate
// and adversarial parts; the reference Merkle tree (ref.go) and a slot model
// decide every answer.
// ---------------------------------------------------------------------------

var partSizes = []int{1, 7, 1000, types.BlockPartSizeBytes}

// pset is one data blob with its reference tree and the real full part set.
type pset struct {
	n      int
	ps     int
	data   []byte
	chunks [][]byte
	lh     [][]byte   // reference leaf hashes
	root   []byte     // reference root
	paths  [][][]byte // reference audit paths
	full   *types.PartSet

	gen     []*types.Part          // one copy of each genuine part, as a peer would deliver it
	lhCache map[*types.Part][]byte // reference leaf hash of the bytes of an offered part
}

// leafOf returns the reference leaf hash of the part's bytes (cached per offered part object).
func (p *pset) leafOf(pt *types.Part) []byte {
	if h, ok := p.lhCache[pt]; ok {
		return h
	}
	if p.lhCache == nil {
		p.lhCache = map[*types.Part][]byte{}
	}
	h := refLeaf(pt.Bytes)
	p.lhCache[pt] = h
	return h
}

func (p *pset) String() string {
	return fmt.Sprintf("parts=%d partSize=%d dataLen=%d", p.n, p.ps, len(p.data))
}

// lastKinds: 0 = last part 1 byte, 1 = last part exactly full, 2 = last part random length.
func dataLen(r *rand.Rand, n, ps, lastKind int) int {
	if n == 0 {
		return 0
	}
	last := ps
	switch lastKind {
	case 0:
		last = 1
	case 2:
		last = 1 + r.Intn(ps)
	}
	return (n-1)*ps + last
}

func genData(r *rand.Rand, l int, lowEntropy bool) []byte {
	d := make([]byte, l)
	r.Read(d)
	if lowEntropy {
		// few distinct byte values: equal chunks at different indexes become likely for small part sizes
		for i := range d {
			d[i] &= 1
		}
	}
	return d
}

func splitRef(data []byte, ps int) [][]byte {
	var out [][]byte
	for off := 0; off < len(data); off += ps {
		end := off + ps
		if end > len(data) {
			end = len(data)
		}
		out = append(out, data[off:end])
	}
	return out
}

func eqPath(a, b [][]byte) bool {
	if len(a) != len(b) {
		return false
	}
	for i := range a {
		if !bytes.Equal(a[i], b[i]) {
			return false
		}
	}
	return true
}

// newPset builds the real full set and compares it with the reference tree.
// ok=false means a violation was reported (or the set is the empty one).
func newPset(c *core.Case, data []byte, ps int) (*pset, bool) {
	run := c.Run
	p := &pset{ps: ps, data: data, chunks: splitRef(data, ps)}
	p.n = len(p.chunks)
	p.lh = refLeafHashes(p.chunks)
	p.root = refRootOfLeafHashes(p.lh)
	for i := 0; i < p.n; i++ {
		p.paths = append(p.paths, refPathOfLeafHashes(i, p.lh))
	}
	wit := func() interface{} {
		return map[string]interface{}{"set": p.String(), "data_prefix": fmt.Sprintf("%x", data[:minInt(len(data), 48)])}
	}
	if p.n == 0 {
		// No block encodes to zero bytes, so the empty set is outside the property's
		// domain; what the constructors do with it is recorded, not judged.
		zeroParts(run)
		return p, false
	}
	if c.Guard("NewPartSetFromData", wit, func() { p.full = types.NewPartSetFromData(data, uint32(ps)) }) {
		return p, false
	}
	run.Count("sets_built", 1)
	full := p.full
	if int(full.Total()) != p.n || !full.IsComplete() || int(full.Count()) != p.n {
		c.Violation("partset:split-count", fmt.Sprintf("NewPartSetFromData: total=%d count=%d complete=%v, expected %d parts", full.Total(), full.Count(), full.IsComplete(), p.n), wit())
		return p, false
	}
	if !bytes.Equal(full.Header().Hash.Bytes(), p.root) || full.Header().Total != uint32(p.n) {
		c.Violation("partset:root-differs-from-reference", fmt.Sprintf("part set hash %x, reference Merkle root %x (%s)", full.Header().Hash.Bytes(), p.root, p), wit())
		return p, false
	}
	for i := 0; i < p.n; i++ {
		pt := full.GetPart(i)
		if pt == nil || int(pt.Index) != i || !bytes.Equal(pt.Bytes, p.chunks[i]) {
			c.Violation("partset:split-bytes", fmt.Sprintf("part %d of the full set does not carry chunk %d of the data", i, i), wit())
			return p, false
		}
		if pt.Proof.Total != uint64(p.n) || pt.Proof.Index != uint64(i) || !bytes.Equal(pt.Proof.LeafHash, p.lh[i]) || !eqPath(pt.Proof.Aunts, p.paths[i]) {
			c.Violation("partset:proof-differs-from-reference", fmt.Sprintf("proof of part %d differs from the reference audit path (%s)", i, p), wit())
			return p, false
		}
		run.Count("proofs_compared", 1)
	}
	if msg := readBack(full, data, c.R); msg != "" {
		c.Violation("partset:complete-with-wrong-bytes", "full set from NewPartSetFromData: "+msg, wit())
		return p, false
	}
	return p, true
}

func zeroParts(run *core.Run) {
	run.Count("zero_part_sets_seen", 1)
	res := map[string]interface{}{}
	func() {
		defer func() {
			if e := recover(); e != nil {
				res["NewPartSetFromData(empty)"] = fmt.Sprint("panic: ", e)
			}
		}()
		ps := types.NewPartSetFromData(nil, 1000)
		res["NewPartSetFromData(empty)"] = fmt.Sprintf("total=%d hash=%x complete=%v", ps.Total(), ps.Hash().Bytes(), ps.IsComplete())
	}()
	func() {
		var ps *types.PartSet
		defer func() {
			if e := recover(); e != nil {
				res["NewPartSetFromHeader{Total:0}.GetReader"] = fmt.Sprintf("complete=%v, GetReader panic: %v", ps.IsComplete(), e)
			}
		}()
		ps = types.NewPartSetFromHeader(types.PartSetHeader{})
		b, err := ioutil.ReadAll(ps.GetReader())
		res["NewPartSetFromHeader{Total:0}.GetReader"] = fmt.Sprintf("complete=%v read %d bytes err=%v", ps.IsComplete(), len(b), err)
	}()
	run.Extra("zero_parts_not_judged", res)
}

// readBack reads a complete set through GetReader in two ways and compares with data.
func readBack(ps *types.PartSet, data []byte, r *rand.Rand) string {
	got, err := ioutil.ReadAll(ps.GetReader())
	if err != nil {
		return "ReadAll: " + err.Error()
	}
	if !bytes.Equal(got, data) {
		return fmt.Sprintf("reassembled %d bytes differ from the original %d bytes (first difference at %d)", len(got), len(data), firstDiff(got, data))
	}
	// odd-sized reads crossing part boundaries (every time for small data, one time in eight above 64 kB)
	if len(data) > 65536 && r.Intn(8) != 0 {
		return ""
	}
	rd := ps.GetReader()
	var acc []byte
	buf := make([]byte, 1+r.Intn(3*minInt(len(data), 70000)/2+2))
	for guard := 0; guard < len(data)+10; guard++ {
		n, err := rd.Read(buf)
		acc = append(acc, buf[:n]...)
		if err == io.EOF {
			break
		}
		if err != nil {
			return "Read: " + err.Error()
		}
	}
	if !bytes.Equal(acc, data) {
		return fmt.Sprintf("chunked read (buffer %d) gives %d bytes that differ from the original %d bytes", len(buf), len(acc), len(data))
	}
	return ""
}

func firstDiff(a, b []byte) int {
	for i := 0; i < len(a) && i < len(b); i++ {
		if a[i] != b[i] {
			return i
		}
	}
	return minInt(len(a), len(b))
}

func minInt(a, b int) int {
	if a < b {
		return a
	}
	return b
}

// ---- offers ----

type offer struct {
	part    *types.Part
	kind    string // "genuine", "dup" or the adversarial class
	desc    string
	genuine bool
}

func cpb(b []byte) []byte { return append([]byte{}, b...) }

func cpPath(p [][]byte) [][]byte {
	out := make([][]byte, len(p))
	for i := range p {
		out[i] = cpb(p[i])
	}
	return out
}

// refProof builds a product proof structure from the REFERENCE tree (so that
// adversarial parts do not depend on the proofs the product computed).
func (p *pset) refProof(i int) merkle.SimpleProof {
	return merkle.SimpleProof{Total: uint64(p.n), Index: uint64(i), LeafHash: cpb(p.lh[i]), Aunts: cpPath(p.paths[i])}
}

func (p *pset) genuine(i int) offer {
	// the genuine part as a peer would deliver it: a copy of what the full set holds
	// (the product keeps the pointer and never writes through it, so one copy serves all sequences)
	if p.gen == nil {
		p.gen = make([]*types.Part, p.n)
	}
	if p.gen[i] == nil {
		g := p.full.GetPart(i)
		p.gen[i] = &types.Part{Index: g.Index, Bytes: cpb(g.Bytes), Proof: merkle.SimpleProof{Total: g.Proof.Total, Index: g.Proof.Index, LeafHash: cpb(g.Proof.LeafHash), Aunts: cpPath(g.Proof.Aunts)}}
	}
	return offer{part: p.gen[i], kind: "genuine", desc: fmt.Sprintf("genuine#%d", i), genuine: true}
}

func randHash(r *rand.Rand) []byte {
	h := make([]byte, 32)
	r.Read(h)
	return h
}

// bogusFor lists the adversarial parts aimed at slot i (all of them when j<0 is
// not restricted): every (claimed index i, proof of leaf j) pair and the proof /
// byte manipulations of the design.
func (p *pset) bogusFor(i int, r *rand.Rand, js []int) []offer {
	var out []offer
	add := func(kind string, idx uint32, b []byte, pr merkle.SimpleProof, desc string) {
		out = append(out, offer{part: &types.Part{Index: idx, Bytes: b, Proof: pr}, kind: kind, desc: fmt.Sprintf("%s(%s)", kind, desc)})
	}
	ui := uint32(i)
	for _, j := range js {
		if j == i {
			continue
		}
		d := fmt.Sprintf("i=%d,j=%d", i, j)
		// the whole genuine part j, claimed for index i
		add("leaf-j-at-index-i", ui, cpb(p.chunks[j]), p.refProof(j), d)
		// the same with the proof's own index rewritten to i
		pr := p.refProof(j)
		pr.Index = uint64(i)
		add("leaf-j-proof-relabelled-i", ui, cpb(p.chunks[j]), pr, d)
		// bytes of j under the proof of i
		add("bytes-j-proof-i", ui, cpb(p.chunks[j]), p.refProof(i), d)
		// bytes of j, aunts of i, leaf hash of j
		pr = p.refProof(i)
		pr.LeafHash = cpb(p.lh[j])
		add("bytes-j-leafhash-j-aunts-i", ui, cpb(p.chunks[j]), pr, d)
		// bytes of i under the proof of j (right bytes, wrong proof)
		add("bytes-i-proof-j", ui, cpb(p.chunks[i]), p.refProof(j), d)
	}
	d := fmt.Sprintf("i=%d", i)
	flip := func(b []byte) []byte {
		o := cpb(b)
		if len(o) > 0 {
			o[r.Intn(len(o))] ^= 1 << uint(r.Intn(8))
		}
		return o
	}
	// totals +-1 (right bytes) and with altered bytes
	for _, dt := range []int{-1, 1} {
		pr := p.refProof(i)
		pr.Total = uint64(p.n + dt)
		add("proof-total-off-by-one", ui, cpb(p.chunks[i]), pr, fmt.Sprintf("%s,total=%d", d, p.n+dt))
		add("proof-total-off-by-one+bytes-flipped", ui, flip(p.chunks[i]), pr, fmt.Sprintf("%s,total=%d", d, p.n+dt))
	}
	// aunts truncated / extended / swapped, once with the right bytes and once with altered bytes
	type am struct {
		name string
		f    func(a [][]byte) ([][]byte, bool)
	}
	ams := []am{
		{"aunts-truncated-last", func(a [][]byte) ([][]byte, bool) {
			if len(a) == 0 {
				return nil, false
			}
			return a[:len(a)-1], true
		}},
		{"aunts-truncated-first", func(a [][]byte) ([][]byte, bool) {
			if len(a) == 0 {
				return nil, false
			}
			return a[1:], true
		}},
		{"aunts-extended-last", func(a [][]byte) ([][]byte, bool) { return append(a, randHash(r)), true }},
		{"aunts-extended-first", func(a [][]byte) ([][]byte, bool) { return append([][]byte{randHash(r)}, a...), true }},
		{"aunts-extended-duplicate", func(a [][]byte) ([][]byte, bool) {
			if len(a) == 0 {
				return nil, false
			}
			return append(a, cpb(a[len(a)-1])), true
		}},
		{"aunts-swapped", func(a [][]byte) ([][]byte, bool) {
			if len(a) < 2 {
				return nil, false
			}
			x := r.Intn(len(a) - 1)
			a[x], a[x+1] = a[x+1], a[x]
			return a, true
		}},
		{"aunt-replaced", func(a [][]byte) ([][]byte, bool) {
			if len(a) == 0 {
				return nil, false
			}
			a[r.Intn(len(a))] = randHash(r)
			return a, true
		}},
		{"aunts-dropped", func(a [][]byte) ([][]byte, bool) {
			if len(a) == 0 {
				return nil, false
			}
			return nil, true
		}},
	}
	for _, m := range ams {
		pr := p.refProof(i)
		a, ok := m.f(pr.Aunts)
		if !ok {
			continue
		}
		pr.Aunts = a
		add(m.name, ui, cpb(p.chunks[i]), pr, d)
		pr2 := pr
		pr2.Aunts = cpPath(a)
		fb := flip(p.chunks[i])
		pr2.LeafHash = refLeaf(fb)
		add(m.name+"+bytes-flipped", ui, fb, pr2, d)
	}
	// leaf hash replaced
	pr := p.refProof(i)
	pr.LeafHash = randHash(r)
	add("leafhash-random", ui, cpb(p.chunks[i]), pr, d)
	fb := flip(p.chunks[i])
	pr = p.refProof(i)
	pr.LeafHash = refLeaf(fb)
	add("bytes-flipped-leafhash-recomputed", ui, fb, pr, d)
	add("bytes-flipped-leafhash-genuine", ui, flip(p.chunks[i]), p.refProof(i), d)
	pr = p.refProof(i)
	pr.LeafHash = nil
	add("leafhash-empty", ui, cpb(p.chunks[i]), pr, d)
	// bytes truncated / extended / emptied under the genuine proof
	add("bytes-truncated", ui, cpb(p.chunks[i][:len(p.chunks[i])-1]), p.refProof(i), d)
	add("bytes-extended", ui, append(cpb(p.chunks[i]), byte(r.Intn(256))), p.refProof(i), d)
	if len(p.chunks[i]) > 1 {
		add("bytes-empty", ui, []byte{}, p.refProof(i), d)
		add("bytes-first-dropped", ui, cpb(p.chunks[i][1:]), p.refProof(i), d)
	}
	// raw preimage tricks: the leaf hash itself / hash-prefixed bytes offered as the part
	add("bytes-are-leafhash", ui, cpb(p.lh[i]), p.refProof(i), d)
	add("bytes-prefixed-00", ui, append([]byte{0}, p.chunks[i]...), p.refProof(i), d)
	// proofs of another (index,total) with the same number of aunts
	cnt := 0
	for t := maxInt(1, p.n-2); t <= p.n+2 && cnt < 4; t++ {
		for x := 0; x < t && cnt < 4; x++ {
			if (x == i && t == p.n) || refPathLen(x, t) != len(p.paths[i]) {
				continue
			}
			if r.Intn(3) != 0 && !(x == i) {
				continue
			}
			pr := p.refProof(i)
			pr.Index, pr.Total = uint64(x), uint64(t)
			add("same-shape-other-index-total", ui, cpb(p.chunks[i]), pr, fmt.Sprintf("%s,proof=(%d,%d)", d, x, t))
			if x < p.n && x != i {
				add("same-shape-other-index-total-at-that-index", uint32(x), cpb(p.chunks[i]), pr, fmt.Sprintf("%s,proof=(%d,%d)", d, x, t))
			}
			cnt++
		}
	}
	return out
}

func maxInt(a, b int) int {
	if a > b {
		return a
	}
	return b
}

// outOfRange: indexes at and beyond the total.
func (p *pset) outOfRange(r *rand.Rand) []offer {
	var out []offer
	for _, idx := range []uint32{uint32(p.n), uint32(p.n + 1), 1<<31 - 1, 1<<32 - 1} {
		j := r.Intn(p.n)
		pr := p.refProof(j)
		out = append(out, offer{part: &types.Part{Index: idx, Bytes: cpb(p.chunks[j]), Proof: pr}, kind: "index-out-of-range", desc: fmt.Sprintf("index-out-of-range(index=%d,leaf=%d)", idx, j)})
		pr2 := p.refProof(j)
		pr2.Index = uint64(idx)
		out = append(out, offer{part: &types.Part{Index: idx, Bytes: cpb(p.chunks[j]), Proof: pr2}, kind: "index-out-of-range-relabelled", desc: fmt.Sprintf("index-out-of-range-relabelled(index=%d,leaf=%d)", idx, j)})
	}
	return out
}

// innerAsLeaf: the two children of the root offered as the 64 "data" bytes of a
// single leaf (the second-preimage attack that leaf/inner domain separation prevents).
func (p *pset) innerAsLeaf(total uint64) []offer {
	if p.n < 2 {
		return nil
	}
	k := refSplit(p.n)
	l, rr := refRootOfLeafHashes(p.lh[:k]), refRootOfLeafHashes(p.lh[k:])
	b := append(cpb(l), rr...)
	var out []offer
	for _, lhash := range [][]byte{refLeaf(b), cpb(p.root)} {
		out = append(out, offer{part: &types.Part{Index: 0, Bytes: cpb(b), Proof: merkle.SimpleProof{Total: total, Index: 0, LeafHash: lhash, Aunts: nil}},
			kind: "inner-node-as-leaf", desc: fmt.Sprintf("inner-node-as-leaf(total=%d)", total)})
	}
	// the same with the inner-node prefix as first data byte (what verifies when only the leaf prefix is missing)
	b1 := append([]byte{1}, b...)
	for _, lhash := range [][]byte{refLeaf(b1), cpb(p.root)} {
		out = append(out, offer{part: &types.Part{Index: 0, Bytes: cpb(b1), Proof: merkle.SimpleProof{Total: total, Index: 0, LeafHash: lhash, Aunts: nil}},
			kind: "inner-node-as-leaf", desc: fmt.Sprintf("inner-node-with-prefix-as-leaf(total=%d)", total)})
	}
	// one level down on the left: children of the left subtree as a leaf, the right subtree as its aunt
	if k >= 2 {
		kk := refSplit(k)
		ll, lr := refRootOfLeafHashes(p.lh[:kk]), refRootOfLeafHashes(p.lh[kk:k])
		b2 := append(cpb(ll), lr...)
		for _, lhash := range [][]byte{refLeaf(b2), cpb(l)} {
			out = append(out, offer{part: &types.Part{Index: 0, Bytes: cpb(b2), Proof: merkle.SimpleProof{Total: total, Index: 0, LeafHash: lhash, Aunts: [][]byte{cpb(rr)}}},
				kind: "inner-node-as-leaf", desc: fmt.Sprintf("inner-node-as-leaf-depth2(total=%d)", total)})
		}
	}
	return out
}

// ---- the monitored run of one offer sequence against one header ----

// runSeq offers the parts to a fresh set made from hdr. For the genuine header
// the slot model decides each answer; for any header a set that reports complete
// must hold bytes whose reference root is the header hash.
func runSeq(c *core.Case, p *pset, hdr types.PartSetHeader, offers []offer, expectComplete bool, tag string) bool {
	run := c.Run
	genuineHdr := hdr.Total == uint32(p.n) && bytes.Equal(hdr.Hash.Bytes(), p.root)
	var ps *types.PartSet
	type rec struct {
		desc  string
		added bool
		err   error
		done  bool
	}
	var trace []rec
	wit := func() interface{} {
		var t []string
		from := 0
		if len(trace) > 60 {
			from = len(trace) - 60
			t = append(t, fmt.Sprintf("... %d earlier offers ...", from))
		}
		for _, x := range trace[from:] {
			if x.done {
				t = append(t, fmt.Sprintf("%s -> added=%v err=%v", x.desc, x.added, x.err))
			} else {
				t = append(t, x.desc)
			}
		}
		return map[string]interface{}{"set": p.String(), "header": fmt.Sprintf("total=%d hash=%x", hdr.Total, hdr.Hash.Bytes()), "genuine_header": genuineHdr,
			"sequence": tag, "offers_so_far": t, "data_prefix": fmt.Sprintf("%x", p.data[:minInt(len(p.data), 48)])}
	}
	if c.Guard("NewPartSetFromHeader", wit, func() { ps = types.NewPartSetFromHeader(hdr) }) {
		return false
	}
	filled := make([]bool, hdr.Total)
	count := 0
	hadBogus := make([]bool, hdr.Total) // a bogus part was offered for this slot while it was empty
	for _, o := range offers {
		var added bool
		var err error
		trace = append(trace, rec{desc: o.desc})
		if c.Guard("PartSet.AddPart", wit, func() { added, err = ps.AddPart(o.part) }) {
			return false
		}
		trace[len(trace)-1] = rec{o.desc, added, err, true}
		run.Eval(1)
		idx := o.part.Index
		inRange := idx < hdr.Total
		belongs := inRange && o.part.Proof.Index == uint64(idx) && o.part.Proof.Total == uint64(hdr.Total) &&
			bytes.Equal(o.part.Proof.LeafHash, p.leafOf(o.part)) &&
			refVerify(hdr.Hash.Bytes(), uint64(hdr.Total), uint64(idx), o.part.Proof.LeafHash, o.part.Proof.Aunts)
		switch {
		case !inRange:
			if added {
				c.Violation("partset:out-of-range-index-accepted", fmt.Sprintf("part with index %d accepted by a set of %d parts", idx, hdr.Total), wit())
				return false
			}
			run.Count("rejected:index-out-of-range", 1)
		case filled[idx]:
			if added {
				c.Violation("partset:slot-filled-twice", fmt.Sprintf("slot %d already holds a part and AddPart reported added again (%s)", idx, o.kind), wit())
				return false
			}
			if o.genuine {
				run.Count("duplicates_ignored", 1)
				if err != nil {
					run.Count("duplicates_with_error", 1)
				}
			}
		case genuineHdr && belongs:
			if !added {
				key := "partset:genuine-part-refused"
				what := fmt.Sprintf("genuine part %d refused by an empty slot (err=%v)", idx, err)
				if hadBogus[idx] {
					what += " after bogus parts had been offered for that slot"
				}
				c.Violation(key, what, wit())
				return false
			}
			if err != nil {
				c.Violation("partset:added-with-error", fmt.Sprintf("AddPart returned added=true together with error %v", err), wit())
				return false
			}
			filled[idx] = true
			count++
			run.Count("genuine_added", 1)
			if hadBogus[idx] {
				run.Count("genuine_added_after_bogus_for_same_slot", 1)
			}
		case genuineHdr:
			// does not verify under the reference tree
			rightBytes := bytes.Equal(o.part.Bytes, p.chunks[idx])
			if added && !rightBytes {
				c.Violation("partset:bogus-part-accepted:"+o.kind, fmt.Sprintf("part that does not belong at index %d under the header hash was accepted (%s)", idx, o.desc), wit())
				return false
			}
			if added {
				// right bytes under a proof the reference does not accept: the data stays exact, so the
				// property is not refuted; counted so that it is visible.
				run.Count("accepted_right_bytes_under_invalid_proof", 1)
				run.Distinct("right_bytes_invalid_proof_kinds", o.kind)
				filled[idx] = true
				count++
			} else {
				hadBogus[idx] = true
				run.Count("bogus_rejected", 1)
				run.Distinct("bogus_kinds_rejected", o.kind)
				if err == nil {
					run.Count("bogus_rejected_without_error", 1)
				}
			}
		default:
			// foreign header: the reference decides only what may be stored
			if added {
				filled[idx] = true
				count++
				if belongs {
					run.Count("foreign_header_accepted_verifying", 1)
				} else {
					run.Count("foreign_header_accepted_not_verifying", 1)
				}
			} else {
				run.Count("foreign_header_rejected", 1)
			}
		}
		// bookkeeping of the set after every offer
		if int(ps.Count()) != count || ps.IsComplete() != (count == int(hdr.Total)) {
			c.Violation("partset:count-or-completeness-mismatch", fmt.Sprintf("after %d offers the set reports count=%d complete=%v, the model has %d of %d slots filled", len(trace), ps.Count(), ps.IsComplete(), count, hdr.Total), wit())
			return false
		}
		if added && ps.IsComplete() {
			if !checkComplete(c, p, ps, hdr, genuineHdr, wit) {
				return false
			}
		}
	}
	ba := ps.BitArray()
	for i := range filled {
		if ba.GetIndex(i) != filled[i] {
			c.Violation("partset:bitarray-mismatch", fmt.Sprintf("bit %d of the set's bit array is %v, slot filled=%v", i, ba.GetIndex(i), filled[i]), wit())
			return false
		}
		if (ps.GetPart(i) != nil) != filled[i] {
			c.Violation("partset:bitarray-mismatch", fmt.Sprintf("GetPart(%d) nil=%v, slot filled=%v", i, ps.GetPart(i) == nil, filled[i]), wit())
			return false
		}
	}
	if expectComplete && !ps.IsComplete() {
		c.Violation("partset:not-complete-after-all-genuine-parts", fmt.Sprintf("all %d genuine parts were offered, the set holds %d", p.n, ps.Count()), wit())
		return false
	}
	if ps.IsComplete() {
		run.Count("sets_completed", 1)
	}
	return true
}

func checkComplete(c *core.Case, p *pset, ps *types.PartSet, hdr types.PartSetHeader, genuineHdr bool, wit func() interface{}) bool {
	run := c.Run
	ok := true
	c.Guard("PartSet.GetReader", wit, func() {
		// the bytes held must be what the header hash commits to
		var held [][]byte
		for i := 0; i < int(hdr.Total); i++ {
			held = append(held, p.leafOf(ps.GetPart(i))) // reference leaf hash of the bytes held in slot i
		}
		if got := refRootOfLeafHashes(held); !bytes.Equal(got, hdr.Hash.Bytes()) {
			c.Violation("partset:complete-with-wrong-bytes", fmt.Sprintf("set reports complete but the reference root of its %d parts is %x, header hash %x", hdr.Total, got, hdr.Hash.Bytes()), wit())
			ok = false
			return
		}
		if genuineHdr {
			if msg := readBack(ps, p.data, c.R); msg != "" {
				c.Violation("partset:complete-with-wrong-bytes", msg, wit())
				ok = false
				return
			}
			run.Count("complete_sets_read_back", 1)
			run.Count("bytes_reassembled", len(p.data))
		}
	})
	return ok
}

// ---- sequences ----

func (p *pset) hdr() types.PartSetHeader {
	return types.PartSetHeader{Total: uint32(p.n), Hash: common.BytesToHash(p.root)}
}

func perms(n int, f func(perm []int) bool) {
	perm := make([]int, n)
	for i := range perm {
		perm[i] = i
	}
	var rec func(k int) bool
	rec = func(k int) bool {
		if k == n {
			return f(perm)
		}
		for i := k; i < n; i++ {
			perm[k], perm[i] = perm[i], perm[k]
			if !rec(k + 1) {
				return false
			}
			perm[k], perm[i] = perm[i], perm[k]
		}
		return true
	}
	rec(0)
}

func allJs(n int) []int {
	js := make([]int, n)
	for i := range js {
		js[i] = i
	}
	return js
}

// exhaustiveCase: one (parts, part size, last-part shape) configuration with n<=6:
// every arrival order (each with duplicates), and the full adversarial matrix at
// every insertion point (for n<=4 under every order, above that under two orders).
func exhaustiveCase(c *core.Case, cfgs []exCfg) {
	run, r := c.Run, c.R
	if c.I >= len(cfgs) {
		return
	}
	cfg := cfgs[c.I]
	data := genData(r, dataLen(r, cfg.n, partSizes[cfg.psI], cfg.last), false)
	p, ok := newPset(c, data, partSizes[cfg.psI])
	if !ok {
		return
	}
	n := p.n
	// 1. all permutations, each with duplicates re-offered after every step
	good := true
	perms(n, func(perm []int) bool {
		var offers []offer
		for k, i := range perm {
			offers = append(offers, p.genuine(i))
			d := p.genuine(perm[(k*7+3)%(k+1)])
			d.kind, d.desc = "dup", "dup-"+d.desc
			offers = append(offers, d)
		}
		run.Count("exhaustive_permutations", 1)
		good = runSeq(c, p, p.hdr(), offers, true, fmt.Sprint("perm", perm))
		return good
	})
	if !good {
		return
	}
	// 2. adversarial matrix x insertion point x order
	big := p.ps == types.BlockPartSizeBytes // 64 kB parts: hashing dominates, so fewer orders (the arrival logic does not depend on the size)
	var matrix []offer
	for i := 0; i < n; i++ {
		matrix = append(matrix, p.bogusFor(i, r, allJs(n))...)
	}
	matrix = append(matrix, p.outOfRange(r)...)
	matrix = append(matrix, p.innerAsLeaf(uint64(n))...)
	run.Max("exhaustive_matrix_size", int64(len(matrix)))
	orders := [][]int{}
	if big {
		orders = append(orders, allJs(n))
		if n > 1 {
			orders = append(orders, r.Perm(n))
		}
	} else if n <= 4 {
		perms(n, func(perm []int) bool { orders = append(orders, append([]int{}, perm...)); return true })
	} else {
		id := allJs(n)
		rev := make([]int, n)
		for i := range rev {
			rev[i] = n - 1 - i
		}
		rnd := r.Perm(n)
		orders = append(orders, id, rev, rnd)
	}
	posOrders := orders
	if big {
		posOrders = orders[:1]
	}
	for _, ord := range posOrders {
		for pos := 0; pos <= n; pos++ {
			for _, b := range matrix {
				var offers []offer
				for k, i := range ord {
					if k == pos {
						offers = append(offers, b)
					}
					offers = append(offers, p.genuine(i))
				}
				if pos == n {
					offers = append(offers, b)
				}
				run.Count("exhaustive_bogus_insertions", 1)
				if !runSeq(c, p, p.hdr(), offers, true, fmt.Sprint("order", ord, " bogus at ", pos)) {
					return
				}
			}
		}
	}
	// 3. all bogus parts first, then every order (small n) / the orders above
	for _, ord := range orders {
		offers := append([]offer{}, matrix...)
		for _, i := range ord {
			offers = append(offers, p.genuine(i))
		}
		offers = append(offers, matrix...)
		if !runSeq(c, p, p.hdr(), offers, true, fmt.Sprint("whole matrix, then order ", ord, ", then whole matrix")) {
			return
		}
	}
	// 4. foreign headers
	if !foreignHeaders(c, p, matrix) {
		return
	}
	run.Nontrivial(fmt.Sprintf("ex|%d|%d|%d", cfg.n, cfg.psI, cfg.last))
	if cfg.n == 3 && cfg.psI == 2 && cfg.last == 0 {
		run.Sample(map[string]interface{}{"group": c.Group, "case": c.I, "set": p.String(), "orders": len(orders), "matrix": len(matrix), "first_bogus": matrix[0].desc})
	}
}

// foreignHeaders: headers that differ from the genuine one in total or hash,
// fed with genuine parts, relabelled genuine parts and the adversarial matrix.
func foreignHeaders(c *core.Case, p *pset, matrix []offer) bool {
	r := c.R
	root := common.BytesToHash(p.root)
	bad := root
	bad[r.Intn(32)] ^= 1 << uint(r.Intn(8))
	hdrs := []types.PartSetHeader{
		{Total: uint32(p.n + 1), Hash: root},
		{Total: uint32(p.n), Hash: bad},
		{Total: 1, Hash: root},
		{Total: 2, Hash: root},
	}
	if p.n > 1 {
		hdrs = append(hdrs, types.PartSetHeader{Total: uint32(p.n - 1), Hash: root})
	}
	if p.n > 2 {
		hdrs = append(hdrs, types.PartSetHeader{Total: uint32(refSplit(p.n)), Hash: root})
	}
	for _, h := range hdrs {
		if h.Total == uint32(p.n) && h.Hash == root {
			continue
		}
		var offers []offer
		for i := 0; i < p.n; i++ {
			offers = append(offers, p.genuine(i))
			// the genuine part with the proof's total rewritten to the header's
			g := p.genuine(i)
			cp := *g.part
			cp.Proof.Total = uint64(h.Total)
			g.part = &cp
			g.kind, g.desc, g.genuine = "genuine-total-rewritten", fmt.Sprintf("genuine#%d-total-rewritten-%d", i, h.Total), false
			offers = append(offers, g)
		}
		offers = append(offers, p.innerAsLeaf(uint64(h.Total))...)
		for _, b := range matrix {
			if r.Intn(4) == 0 || len(matrix) < 80 {
				offers = append(offers, b)
			}
		}
		c.Run.Count("foreign_header_sequences", 1)
		if !runSeq(c, p, h, offers, false, "foreign header") {
			return false
		}
	}
	return true
}

type exCfg struct{ n, psI, last int }

func exhaustiveCfgs(quick bool) []exCfg {
	var out []exCfg
	// the most expensive configurations first, so that the workers finish together
	for n := 6; n >= 0; n-- {
		for psI := len(partSizes) - 1; psI >= 0; psI-- {
			for last := 0; last < 3; last++ {
				if partSizes[psI] == 1 && last != 0 {
					continue
				}
				if n == 0 && (psI != 0 || last != 0) {
					continue
				}
				out = append(out, exCfg{n, psI, last})
			}
		}
	}
	return out
}

// randomOffers: the genuine parts in a random arrival order with duplicates, and a
// random sample of adversarial parts before / between / after them. The second
// result is the adversarial sample.
func (p *pset) randomOffers(r *rand.Rand) ([]offer, []offer) {
	n, ps := p.n, p.ps
	// genuine arrival order with duplicates
	var offers []offer
	order := r.Perm(n)
	for k, i := range order {
		offers = append(offers, p.genuine(i))
		for r.Intn(3) == 0 {
			d := p.genuine(order[r.Intn(k+1)])
			d.kind, d.desc = "dup", "dup-"+d.desc
			offers = append(offers, d)
		}
	}
	// adversarial parts
	var pool []offer
	slots := 3 + r.Intn(4)
	for s := 0; s < slots; s++ {
		i := r.Intn(n)
		js := []int{r.Intn(n), r.Intn(n), (i + 1) % n, (i + n - 1) % n}
		pool = append(pool, p.bogusFor(i, r, js)...)
	}
	pool = append(pool, p.outOfRange(r)...)
	pool = append(pool, p.innerAsLeaf(uint64(n))...)
	nb := 10 + r.Intn(60)
	if ps == types.BlockPartSizeBytes {
		nb = 5 + r.Intn(25)
	}
	var chosen []offer
	for b := 0; b < nb; b++ {
		chosen = append(chosen, pool[r.Intn(len(pool))])
	}
	// placement: before everything, after everything, or anywhere in between
	var seq []offer
	before, after := r.Intn(3) == 0, r.Intn(3) == 0
	pos := make([][]offer, len(offers)+1)
	for _, b := range chosen {
		switch {
		case before:
			pos[0] = append(pos[0], b)
		case after:
			pos[len(offers)] = append(pos[len(offers)], b)
		default:
			k := r.Intn(len(offers) + 1)
			pos[k] = append(pos[k], b)
		}
	}
	for k := 0; k <= len(offers); k++ {
		seq = append(seq, pos[k]...)
		if k < len(offers) {
			seq = append(seq, offers[k])
		}
	}
	return seq, chosen
}

// randomCase: 1..40 parts (mostly above 6), random arrival order with duplicates
// and a random sample of adversarial parts before / between / after genuine ones.
func randomCase(c *core.Case) {
	run, r := c.Run, c.R
	n := 7 + r.Intn(34)
	switch {
	case c.I < 82:
		n = c.I % 41 // every count 0..40 appears in the first cases
	case r.Intn(6) == 0:
		n = 1 + r.Intn(6)
	}
	psI := r.Intn(len(partSizes))
	if c.I < 82 {
		psI = (c.I / 41 * 2) + r.Intn(2)
	}
	ps := partSizes[psI]
	last := r.Intn(3)
	if ps == 1 {
		last = 0
	}
	low := ps <= 7 && r.Intn(3) == 0
	data := genData(r, dataLen(r, n, ps, last), low)
	p, ok := newPset(c, data, ps)
	if !ok {
		return
	}
	n = p.n
	seq, chosen := p.randomOffers(r)
	run.Count("random_sequences", 1)
	run.Count("random_offers", len(seq))
	run.Max("max_parts", int64(n))
	run.Distinct("part_counts", fmt.Sprint(n))
	run.Distinct("part_size_last_shape", fmt.Sprint(ps, "/", last))
	if !runSeq(c, p, p.hdr(), seq, true, "random") {
		return
	}
	if r.Intn(4) == 0 || c.I < 82 {
		if !foreignHeaders(c, p, chosen) {
			return
		}
	}
	run.Nontrivial(fmt.Sprintf("rnd|%d|%d|%d|%d", c.I, n, ps, len(seq)))
	if c.I == 50 {
		var d []string
		for _, o := range seq[:minInt(len(seq), 12)] {
			d = append(d, o.desc)
		}
		run.Sample(map[string]interface{}{"group": c.Group, "case": c.I, "set": p.String(), "offers": len(seq), "first_offers": d})
	}
}

// concurrentCase: the part set has a mutex, i.e. it is built for deliveries from several goroutines. The same genuine
// parts are offered by several goroutines at once (released together per part): every slot must be reported as added
// exactly once, the count must equal the number of filled slots at the end and the set is complete exactly when every
// slot is filled - whatever the interleaving inside AddPart was.
func concurrentCase(c *core.Case) {
	run, r := c.Run, c.R
	n := 2 + r.Intn(5)
	ps := []int{65536, 4096, 65536}[r.Intn(3)]
	data := genData(r, (n-1)*ps+1+r.Intn(ps), false)
	full := types.NewPartSetFromData(data, uint32(ps))
	n = int(full.Total())
	offered := n
	if r.Intn(3) == 0 {
		offered = 1 + r.Intn(n) // an incomplete delivery
	}
	rounds := 30
	for round := 0; round < rounds; round++ {
		set := types.NewPartSetFromHeader(full.Header())
		workers := 2 + r.Intn(5)
		addedBy := make([][]int32, workers)
		var wg sync.WaitGroup
		gates := make([]chan struct{}, offered)
		for i := range gates {
			gates[i] = make(chan struct{})
		}
		var panicked atomic.Value
		for w := 0; w < workers; w++ {
			addedBy[w] = make([]int32, offered)
			wg.Add(1)
			go func(w int) {
				defer wg.Done()
				defer func() {
					if x := recover(); x != nil {
						panicked.Store(fmt.Sprint(x))
					}
				}()
				for i := 0; i < offered; i++ {
					src := full.GetPart(i)
					pt := &types.Part{Index: src.Index, Bytes: src.Bytes, Proof: src.Proof}
					<-gates[i]
					if ok, _ := set.AddPart(pt); ok {
						addedBy[w][i] = 1
					}
				}
			}(w)
		}
		for i := range gates {
			close(gates[i])
			runtime.Gosched()
		}
		wg.Wait()
		run.Eval(1)
		run.Count("concurrent_duplicate_deliveries", workers*offered)
		wit := func() interface{} {
			return map[string]interface{}{"parts": n, "offered": offered, "part_size": ps, "goroutines": workers, "round": round}
		}
		if p := panicked.Load(); p != nil {
			c.Violation("partset:concurrent:panic", fmt.Sprintf("AddPart panicked under concurrent duplicate delivery: %v", p), wit())
			return
		}
		for i := 0; i < offered; i++ {
			k := 0
			for w := 0; w < workers; w++ {
				k += int(addedBy[w][i])
			}
			if k != 1 {
				c.Violation("partset:concurrent:slot-added-"+map[bool]string{true: "twice", false: "never"}[k > 1], fmt.Sprintf("part %d of %d, offered by %d goroutines at once, was reported as added %d times", i, n, workers, k), wit())
				return
			}
		}
		if int(set.Count()) != offered || set.IsComplete() != (offered == n) {
			c.Violation("partset:concurrent:count-differs-from-filled-slots", fmt.Sprintf("%d of %d parts delivered (each by %d goroutines at once): count=%d complete=%v", offered, n, workers, set.Count(), set.IsComplete()), wit())
			return
		}
		if offered == n {
			var got []byte
			if c.Guard("PartSet.GetReader after concurrent delivery", wit, func() { got, _ = io.ReadAll(set.GetReader()) }) {
				return
			}
			if !bytes.Equal(got, data) {
				c.Violation("partset:concurrent:read-back-differs", "the complete set does not read back the data", wit())
				return
			}
			run.Count("concurrent_sets_read_back", 1)
		}
	}
	run.Nontrivial(fmt.Sprint("conc", c.I))
}
