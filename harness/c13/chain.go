package c13

import (
	"crypto/ecdsa"
	"fmt"
	"math/big"
	"math/rand"
	"sync"
	"time"

	"github.com/kardiachain/go-kardia/configs"
	"github.com/kardiachain/go-kardia/kai/kaidb"
	"github.com/kardiachain/go-kardia/kai/kaidb/memorydb"
	"github.com/kardiachain/go-kardia/kai/state/cstate"
	"github.com/kardiachain/go-kardia/lib/common"
	"github.com/kardiachain/go-kardia/lib/crypto"
	"github.com/kardiachain/go-kardia/lib/log"
	"github.com/kardiachain/go-kardia/mainchain/blockchain"
	"github.com/kardiachain/go-kardia/mainchain/genesis"
	"github.com/kardiachain/go-kardia/mainchain/staking"
	"github.com/kardiachain/go-kardia/mainchain/tx_pool"
	kproto "github.com/kardiachain/go-kardia/proto/kardiachain/types"
	"github.com/kardiachain/go-kardia/types"
	"github.com/kardiachain/go-kardia/types/evidence"
)

// A small real chain: genesis with validators and the staking contracts, the
// product's block chain on a memory database, consensus-state store, evidence
// pool, transaction pool, block operations and block executor. Blocks are
// proposed with CreateProposalBlock, committed with precommits signed by the
// validator keys and applied with ApplyBlock - the calls consensus makes in
// createProposalBlock / finalizeCommit.

var genesisOnce sync.Once
var genesisTime = time.Unix(1700000000, 0).UTC()

const chainID = "verif-c13"

type chain struct {
	keys    []*ecdsa.PrivateKey // validator keys
	senders []*ecdsa.PrivateKey // funded non-validator accounts
	pvByAdr map[common.Address]*types.DefaultPrivValidator

	db     kaidb.Database
	bc     *blockchain.BlockChain
	pool   *tx_pool.TxPool
	store  cstate.Store
	evPool *evidence.Pool
	bo     *blockchain.BlockOperations
	exec   *cstate.BlockExecutor
	logger log.Logger
	evBus  *types.EventBus

	state      cstate.LatestBlockState
	lastCommit *types.Commit // +2/3 precommits for the block at state.LastBlockHeight
	lastVotes  []*types.Vote // the signed precommits that commit was made from
	sentNonce  map[common.Address]uint64
	valsAt     map[uint64]*types.ValidatorSet // validator set entitled to sign each height
	timeAt     map[uint64]time.Time
}

func keyFrom(seed uint64) *ecdsa.PrivateKey {
	k, err := crypto.ToECDSA(common.Hex2Bytes(fmt.Sprintf("%064x", seed)))
	if err != nil {
		panic(err)
	}
	return k
}

func mkGenesis(keys, senders []*ecdsa.PrivateKey) *genesis.Genesis {
	genesisOnce.Do(func() {
		configs.AddDefaultContract()
		for key, contract := range configs.GetContracts() {
			configs.LoadGenesisContract(key, contract.Address, contract.ByteCode, contract.ABI)
		}
	})
	initValue, _ := big.NewInt(0).SetString("1000000000000000000000000000", 10)
	alloc := map[string]*big.Int{}
	var vals []*genesis.GenesisValidator
	for i, k := range keys {
		addr := crypto.PubkeyToAddress(k.PublicKey)
		alloc[addr.Hex()] = initValue
		vals = append(vals, &genesis.GenesisValidator{Name: fmt.Sprintf("validator-%02d-padding-to-32-bytes-xxxxxxxxxxxx", i), Address: addr.Hex(),
			CommissionRate: "100000000000000000", MaxRate: "250000000000000000", MaxChangeRate: "50000000000000000",
			SelfDelegate: fmt.Sprintf("%d000000000000000000000000", 15+i), StartWithGenesis: true})
	}
	for _, k := range senders {
		alloc[crypto.PubkeyToAddress(k.PublicKey).Hex()] = initValue
	}
	g := genesis.DefaulTestnetFullGenesisBlock(alloc, map[string]string{})
	g.ChainID = chainID
	g.Validators = vals
	g.Timestamp = genesisTime
	g.ConsensusParams = configs.TestConsensusParams()
	return g
}

func newChain(caseNo int, nVals int) (ch *chain, err error) {
	defer func() {
		if e := recover(); e != nil {
			err = fmt.Errorf("chain construction panicked: %v", e)
		}
	}()
	ch = &chain{pvByAdr: map[common.Address]*types.DefaultPrivValidator{}, sentNonce: map[common.Address]uint64{},
		valsAt: map[uint64]*types.ValidatorSet{}, timeAt: map[uint64]time.Time{}}
	for i := 0; i < nVals; i++ {
		k := keyFrom(uint64(0x100000 + caseNo*64 + i))
		ch.keys = append(ch.keys, k)
		pv := types.NewDefaultPrivValidator(k)
		ch.pvByAdr[pv.GetAddress()] = pv
	}
	for i := 0; i < 3; i++ {
		ch.senders = append(ch.senders, keyFrom(uint64(0x900000+caseNo*64+i)))
	}
	g := mkGenesis(ch.keys, ch.senders)
	ch.db = memorydb.New()
	ch.bc, err = blockchain.NewBlockChain(ch.db, &blockchain.CacheConfig{TrieCleanLimit: 0, TrieDirtyLimit: 16, TrieTimeLimit: 5 * time.Minute, SnapshotLimit: 0}, g)
	if err != nil {
		return nil, err
	}
	st, err := staking.NewSmcStakingUtil()
	if err != nil {
		return nil, err
	}
	ch.pool = tx_pool.NewTxPool(tx_pool.TxPoolConfig{GlobalSlots: 64, GlobalQueue: 512}, ch.bc.Config(), ch.bc)
	ch.store = cstate.NewStore(ch.db)
	ch.evPool, err = evidence.NewPool(ch.store, ch.db, ch.bc)
	if err != nil {
		return nil, err
	}
	ch.logger = log.New()
	ch.bo = blockchain.NewBlockOperations(ch.logger, ch.bc, ch.pool, ch.evPool, st)
	ch.exec = cstate.NewBlockExecutor(ch.store, ch.logger, ch.evPool, ch.bo)
	ch.evBus = types.NewEventBus()
	if err := ch.evBus.Start(); err != nil {
		return nil, err
	}
	ch.exec.SetEventBus(ch.evBus)
	ch.state, err = ch.store.LoadStateFromDBOrGenesisDoc(g)
	if err != nil {
		return nil, err
	}
	ch.lastCommit = types.NewCommit(0, 0, types.BlockID{}, nil)
	return ch, nil
}

func (ch *chain) close() {
	defer func() { recover() }()
	ch.evBus.Stop()
	ch.pool.Stop()
	ch.bc.Stop()
}

// newExecutor returns a block executor with an empty validation cache over the same stores.
func (ch *chain) newExecutor() *cstate.BlockExecutor {
	return cstate.NewBlockExecutor(ch.store, ch.logger, ch.evPool, ch.bo)
}

// addTxs puts k transfers of one sender into the pool (one sender per height: the
// proposal collects pending transactions from a Go map, so several senders would
// make the order - and the block - differ between runs of the same case).
func (ch *chain) addTxs(r *rand.Rand, k int) error {
	key := ch.senders[r.Intn(len(ch.senders))]
	from := crypto.PubkeyToAddress(key.PublicKey)
	for i := 0; i < k; i++ {
		nonce := ch.sentNonce[from]
		to := common.BytesToAddress([]byte{0xbe, 0xef, byte(r.Intn(256))})
		var payload []byte
		if r.Intn(3) == 0 {
			payload = make([]byte, r.Intn(200))
			r.Read(payload)
		}
		gas := uint64(50000 + len(payload)*100)
		tx, err := types.SignTx(types.HomesteadSigner{}, types.NewTransaction(nonce, to, big.NewInt(int64(1+r.Intn(1000))), gas, big.NewInt(1), payload), key)
		if err != nil {
			return err
		}
		if err := ch.pool.AddLocal(tx); err != nil {
			return fmt.Errorf("AddLocal: %v", err)
		}
		ch.sentNonce[from] = nonce + 1
	}
	return nil
}

// addBigTx puts one transfer with a payload of 70-150 kB into the pool: the block that takes it has two or three
// parts of the real part size (every non-final part is exactly types.BlockPartSizeBytes long).
func (ch *chain) addBigTx(r *rand.Rand) error {
	key := ch.senders[r.Intn(len(ch.senders))]
	from := crypto.PubkeyToAddress(key.PublicKey)
	nonce := ch.sentNonce[from]
	payload := make([]byte, 70000+r.Intn(50000)) // (the pool refuses transactions over 128 kB)
	gas := uint64(50000 + len(payload)*20)
	tx, err := types.SignTx(types.HomesteadSigner{}, types.NewTransaction(nonce, common.BytesToAddress([]byte{0xbe, 0xef, 0x01}), big.NewInt(1), gas, big.NewInt(1), payload), key)
	if err != nil {
		return err
	}
	if err := ch.pool.AddLocal(tx); err != nil {
		return fmt.Errorf("AddLocal(big): %v", err)
	}
	ch.sentNonce[from] = nonce + 1
	return nil
}

func (ch *chain) signVote(addr common.Address, idx int, height uint64, round uint32, typ kproto.SignedMsgType, bid types.BlockID, ts time.Time) (*types.Vote, error) {
	pv := ch.pvByAdr[addr]
	if pv == nil {
		return nil, fmt.Errorf("no key for validator %x", addr)
	}
	v := &types.Vote{ValidatorAddress: addr, ValidatorIndex: uint32(idx), Height: height, Round: round, Timestamp: ts, Type: typ, BlockID: bid}
	p := v.ToProto()
	if err := pv.SignVote(chainID, p); err != nil {
		return nil, err
	}
	v.Signature = p.Signature
	return v, nil
}

// addEvidence makes a validator of an earlier height equivocate (two precommits
// for different block ids) and hands the evidence to the real pool, which verifies it.
func (ch *chain) addEvidence(r *rand.Rand) (bool, error) {
	h := ch.state.LastBlockHeight
	if h < 1 {
		return false, nil
	}
	evH := h - uint64(r.Intn(minInt(int(h), 2)))
	vals := ch.valsAt[evH]
	if vals == nil {
		return false, nil
	}
	idx := r.Intn(vals.Size())
	_, val := vals.GetByIndex(uint32(idx))
	round := uint32(r.Intn(3))
	mk := func() types.BlockID {
		return types.BlockID{Hash: common.BytesToHash(randHash(r)), PartsHeader: types.PartSetHeader{Total: uint32(1 + r.Intn(3)), Hash: common.BytesToHash(randHash(r))}}
	}
	ts := ch.timeAt[evH]
	v1, err := ch.signVote(val.Address, idx, evH, round, kproto.PrecommitType, mk(), ts.Add(time.Second))
	if err != nil {
		return false, err
	}
	v2, err := ch.signVote(val.Address, idx, evH, round, kproto.PrecommitType, mk(), ts.Add(2*time.Second))
	if err != nil {
		return false, err
	}
	ev := types.NewDuplicateVoteEvidence(v1, v2, ts, vals)
	if ev == nil {
		return false, fmt.Errorf("NewDuplicateVoteEvidence returned nil")
	}
	if err := ch.evPool.AddEvidence(ev); err != nil {
		return false, fmt.Errorf("AddEvidence: %v", err)
	}
	return true, nil
}

// propose creates the next block on the current state.
func (ch *chain) propose() (blk *types.Block, parts *types.PartSet, err error) {
	defer func() {
		if e := recover(); e != nil {
			err = fmt.Errorf("CreateProposalBlock panicked: %v", e)
		}
	}()
	h := ch.state.LastBlockHeight + 1
	proposer := ch.state.Validators.GetProposer().Address
	blk, parts = ch.bo.CreateProposalBlock(h, ch.state, proposer, ch.lastCommit)
	if blk == nil || parts == nil {
		return nil, nil, fmt.Errorf("CreateProposalBlock returned nil")
	}
	return blk, parts, nil
}

// commit signs precommits for the block (a random > 2/3 subset for the block, the
// rest absent or for nil), saves and applies it as finalizeCommit does.
func (ch *chain) commit(r *rand.Rand, blk *types.Block, parts *types.PartSet) (err error) {
	defer func() {
		if e := recover(); e != nil {
			err = fmt.Errorf("commit panicked: %v", e)
		}
	}()
	h := blk.Height()
	bid := types.BlockID{Hash: blk.Hash(), PartsHeader: parts.Header()}
	vals := ch.state.Validators
	round := uint32(0)
	if r.Intn(3) == 0 {
		round = uint32(1 + r.Intn(3))
	}
	vs := types.NewVoteSet(chainID, h, round, kproto.PrecommitType, vals)
	n := vals.Size()
	total := vals.TotalVotingPower()
	order := r.Perm(n)
	var forBlock int64
	var votes []*types.Vote
	// first enough validators for the block, then a random mix of block / nil / absent
	for _, i := range order {
		_, val := vals.GetByIndex(uint32(i))
		choice := 0 // for the block
		if forBlock*3 > total*2 {
			choice = r.Intn(3) // block, nil, absent
		}
		if choice == 2 {
			continue
		}
		id := bid
		if choice == 1 {
			id = types.BlockID{}
		}
		ts := blk.Time().Add(time.Duration(1000+r.Intn(4000)) * time.Millisecond)
		v, err := ch.signVote(val.Address, i, h, round, kproto.PrecommitType, id, ts)
		if err != nil {
			return err
		}
		added, err := vs.AddVote(v)
		if err != nil || !added {
			return fmt.Errorf("AddVote: added=%v err=%v", added, err)
		}
		votes = append(votes, v)
		if choice == 0 {
			forBlock += val.VotingPower
		}
	}
	if _, ok := vs.TwoThirdsMajority(); !ok {
		return fmt.Errorf("no +2/3 majority after signing")
	}
	seen := vs.MakeCommit()
	ch.valsAt[h] = vals.Copy()
	ch.timeAt[h] = blk.Time()
	ch.bo.SaveBlock(blk, parts, seen)
	st, _, err := ch.exec.ApplyBlock(ch.state.Copy(), bid, blk)
	if err != nil {
		return fmt.Errorf("ApplyBlock: %v", err)
	}
	ch.state = st
	ch.lastCommit = seen
	ch.lastVotes = votes
	// the pool drops the included transactions when it has processed the new head
	// (asynchronously): wait until it has, so that the next proposal is a function of the case alone
	deadline := time.Now().Add(20 * time.Second)
	for {
		ch.pool.VerifWaitReorg()
		if p, _ := ch.pool.Stats(); p == 0 {
			break
		}
		if time.Now().After(deadline) {
			return fmt.Errorf("transaction pool still has pending transactions 20 s after the block was applied")
		}
		time.Sleep(time.Millisecond)
	}
	return nil
}
