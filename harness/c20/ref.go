package c20

// Independent implementation of the wire protocol of the secret connection, written
// from the protocol description (station-to-station over X25519, Merlin transcript,
// HKDF-SHA256 key schedule, ChaCha20-Poly1305 frames of 4+1024 bytes with a 96-bit
// little-endian counter nonce). It never calls into lib/p2p/conn. It serves as
//   - the attacker / malicious authenticated peer of the handshake matrix and of the
//     crafted-frame cases, and
//   - a differential oracle for the framing of the real implementation (frames sealed
//     by the real writer must open here to exactly the written bytes and vice versa).

import (
	"crypto/cipher"
	"crypto/ecdsa"
	"crypto/sha256"
	"encoding/binary"
	"errors"
	"fmt"
	"io"
	"math/rand"

	"github.com/gtank/merlin"
	"golang.org/x/crypto/chacha20poly1305"
	"golang.org/x/crypto/curve25519"
	"golang.org/x/crypto/hkdf"

	"github.com/kardiachain/go-kardia/lib/crypto"
)

const (
	refDataMax   = 1024
	refFrameSize = 4 + refDataMax
	refSealed    = refFrameSize + 16 // the unit an on-path attacker sees
	refEphMsgLen = 35                // uvarint(34) | 0x0A | 0x20 | 32 bytes
)

// ---- minimal protobuf writer (hand-rolled on purpose) ----

func pbUvarint(b []byte, v uint64) []byte {
	for v >= 0x80 {
		b = append(b, byte(v)|0x80)
		v >>= 7
	}
	return append(b, byte(v))
}

func pbBytes(b []byte, field int, val []byte) []byte {
	b = pbUvarint(b, uint64(field<<3|2))
	b = pbUvarint(b, uint64(len(val)))
	return append(b, val...)
}

func pbVarintField(b []byte, field int, v uint64) []byte {
	b = pbUvarint(b, uint64(field<<3))
	return pbUvarint(b, v)
}

func pbDelimited(msg []byte) []byte {
	return append(pbUvarint(nil, uint64(len(msg))), msg...)
}

// ephMsg is the first handshake message: a length-delimited BytesValue.
func ephMsg(pub []byte) []byte { return pbDelimited(pbBytes(nil, 1, pub)) }

// authMsg is the second handshake message (sent inside sealed frames).
func authMsg(pubKeyBytes, sig []byte) []byte {
	pk := pbBytes(nil, 1, pubKeyBytes) // PublicKey{ecdsa}
	m := pbBytes(nil, 1, pk)
	if len(sig) > 0 {
		m = pbBytes(m, 2, sig)
	}
	return pbDelimited(m)
}

// packetMsg encodes Packet{PacketMsg{channel, eof, data}} length-delimited.
func packetMsg(channel int64, eof bool, data []byte) []byte {
	var pm []byte
	if channel != 0 {
		pm = pbVarintField(pm, 1, uint64(channel))
	}
	if eof {
		pm = pbVarintField(pm, 2, 1)
	}
	if len(data) > 0 {
		pm = pbBytes(pm, 3, data)
	}
	return pbDelimited(pbBytes(nil, 3, pm))
}

// ---- reading what an honest peer sends ----

func readUvarint(r io.Reader) (uint64, error) {
	var x uint64
	var s uint
	b := make([]byte, 1)
	for i := 0; i < 10; i++ {
		if _, err := io.ReadFull(r, b); err != nil {
			return 0, err
		}
		if b[0] < 0x80 {
			return x | uint64(b[0])<<s, nil
		}
		x |= uint64(b[0]&0x7f) << s
		s += 7
	}
	return 0, errors.New("varint overflow")
}

// readEphMsg reads the honest peer's first message and returns the 32-byte key.
func readEphMsg(r io.Reader) ([32]byte, []byte, error) {
	var k [32]byte
	raw := make([]byte, refEphMsgLen)
	if _, err := io.ReadFull(r, raw); err != nil {
		return k, nil, err
	}
	if raw[0] != 34 || raw[1] != 0x0A || raw[2] != 32 {
		return k, raw, fmt.Errorf("unexpected ephemeral key message header % x", raw[:3])
	}
	copy(k[:], raw[3:])
	return k, raw, nil
}

// parseAuthMsg parses an honest peer's AuthSigMessage (after the length prefix was removed).
func parseAuthMsg(m []byte) (pub, sig []byte, err error) {
	for len(m) > 0 {
		tag := m[0]
		m = m[1:]
		l, n := binary.Uvarint(m)
		if n <= 0 || int(l) > len(m)-n {
			return nil, nil, errors.New("bad auth message")
		}
		val := m[n : n+int(l)]
		m = m[n+int(l):]
		switch tag {
		case 0x0A:
			if len(val) < 2 || val[0] != 0x0A {
				return nil, nil, errors.New("bad public key in auth message")
			}
			ll, nn := binary.Uvarint(val[1:])
			if nn <= 0 || int(ll) != len(val)-1-nn {
				return nil, nil, errors.New("bad public key length in auth message")
			}
			pub = val[1+nn:]
		case 0x12:
			sig = val
		default:
			return nil, nil, errors.New("unknown field in auth message")
		}
	}
	return pub, sig, nil
}

// ---- key schedule ----

type refSession struct {
	locPub, locPriv, remPub [32]byte
	dh                      [32]byte
	challenge               [32]byte
	sendKey, recvKey        [32]byte
	send, recv              cipher.AEAD
	sendCtr, recvCtr        uint64
}

func refEphemeral(r *rand.Rand) (pub, priv [32]byte) {
	r.Read(priv[:])
	p, err := curve25519.X25519(priv[:], curve25519.Basepoint)
	if err != nil {
		panic(err)
	}
	copy(pub[:], p)
	return
}

// rawDH is scalar multiplication without the all-zero check (the attacker does not care).
func rawDH(priv, pub [32]byte) [32]byte {
	var out [32]byte
	curve25519.ScalarMult(&out, &priv, &pub) //nolint:staticcheck
	return out
}

// refDerive computes challenge and frame keys for the party that sent locPub and
// received remPub (exactly the bytes seen on the wire).
func refDerive(locPub, locPriv, remPub [32]byte) *refSession {
	return refDeriveDH(locPub, locPriv, remPub, rawDH(locPriv, remPub))
}

// refDeriveDH: the same with the shared secret given (an attacker who sent a low-order
// point knows that its victim computes the all-zero secret).
func refDeriveDH(locPub, locPriv, remPub, dh [32]byte) *refSession {
	s := &refSession{locPub: locPub, locPriv: locPriv, remPub: remPub}
	s.dh = dh
	lo, hi := locPub, remPub
	locIsLeast := true
	for i := 0; i < 32; i++ {
		if locPub[i] != remPub[i] {
			if locPub[i] > remPub[i] {
				lo, hi = remPub, locPub
				locIsLeast = false
			}
			break
		}
	}
	t := merlin.NewTranscript("TENDERMINT_SECRET_CONNECTION_TRANSCRIPT_HASH")
	t.AppendMessage([]byte("EPHEMERAL_LOWER_PUBLIC_KEY"), lo[:])
	t.AppendMessage([]byte("EPHEMERAL_UPPER_PUBLIC_KEY"), hi[:])
	t.AppendMessage([]byte("DH_SECRET"), s.dh[:])
	copy(s.challenge[:], t.ExtractBytes([]byte("SECRET_CONNECTION_MAC"), 32))
	okm := make([]byte, 96)
	if _, err := io.ReadFull(hkdf.New(sha256.New, s.dh[:], nil, []byte("TENDERMINT_SECRET_CONNECTION_KEY_AND_CHALLENGE_GEN")), okm); err != nil {
		panic(err)
	}
	if locIsLeast {
		copy(s.recvKey[:], okm[0:32])
		copy(s.sendKey[:], okm[32:64])
	} else {
		copy(s.sendKey[:], okm[0:32])
		copy(s.recvKey[:], okm[32:64])
	}
	s.send, _ = chacha20poly1305.New(s.sendKey[:])
	s.recv, _ = chacha20poly1305.New(s.recvKey[:])
	return s
}

func nonce(ctr uint64) []byte {
	n := make([]byte, 12)
	binary.LittleEndian.PutUint64(n[4:], ctr)
	return n
}

// sealFrame seals one frame with an arbitrary declared length (honest: len(chunk)).
func (s *refSession) sealFrame(chunk []byte, declared uint32, pad byte) []byte {
	f := make([]byte, refFrameSize)
	for i := range f {
		f[i] = pad
	}
	binary.LittleEndian.PutUint32(f, declared)
	copy(f[4:], chunk)
	out := s.send.Seal(nil, nonce(s.sendCtr), f, nil)
	s.sendCtr++
	return out
}

// sealStream frames data honestly (1024-byte chunks).
func (s *refSession) sealStream(data []byte) []byte {
	var out []byte
	for len(data) > 0 {
		n := len(data)
		if n > refDataMax {
			n = refDataMax
		}
		out = append(out, s.sealFrame(data[:n], uint32(n), 0)...)
		data = data[n:]
	}
	return out
}

// openFrame opens the next frame of the peer; returns data and padding.
func (s *refSession) openFrame(sealed []byte) (data, pad []byte, err error) {
	if len(sealed) != refSealed {
		return nil, nil, fmt.Errorf("sealed frame of %d bytes", len(sealed))
	}
	f, err := s.recv.Open(nil, nonce(s.recvCtr), sealed, nil)
	if err != nil {
		return nil, nil, err
	}
	s.recvCtr++
	l := binary.LittleEndian.Uint32(f)
	if l > refDataMax {
		return nil, nil, fmt.Errorf("declared length %d", l)
	}
	return f[4 : 4+l], f[4+l:], nil
}

// openStream opens a sequence of frames; returns the plaintext and the number of
// frames whose padding was not all zero.
func (s *refSession) openStream(wire []byte) (data []byte, dirtyPad int, err error) {
	if len(wire)%refSealed != 0 {
		return nil, 0, fmt.Errorf("wire length %d is not a multiple of the sealed frame size", len(wire))
	}
	for len(wire) > 0 {
		d, pad, e := s.openFrame(wire[:refSealed])
		if e != nil {
			return data, dirtyPad, e
		}
		for _, b := range pad {
			if b != 0 {
				dirtyPad++
				break
			}
		}
		data = append(data, d...)
		wire = wire[refSealed:]
	}
	return data, dirtyPad, nil
}

// ---- long-term keys ----

func detKey(r *rand.Rand) *ecdsa.PrivateKey {
	for {
		b := make([]byte, 32)
		r.Read(b)
		if k, err := crypto.ToECDSA(b); err == nil {
			return k
		}
	}
}

func pubBytes(k *ecdsa.PublicKey) []byte { return crypto.FromECDSAPub(k) }

func samePub(a, b ecdsa.PublicKey) bool {
	return a.X != nil && b.X != nil && a.X.Cmp(b.X) == 0 && a.Y.Cmp(b.Y) == 0
}

func keyName(k ecdsa.PublicKey, names map[string]string) string {
	if k.X == nil {
		return "<none>"
	}
	if n, ok := names[string(pubBytes(&k))]; ok {
		return n
	}
	return fmt.Sprintf("unknown:%x", pubBytes(&k)[1:9])
}
