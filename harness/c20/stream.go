package c20

import (
	"bytes"
	"crypto/ecdsa"
	"crypto/sha256"
	"encoding/binary"
	"fmt"
	"io"
	"math/rand"
	"runtime/debug"
	"strings"
	"sync"
	"time"

	pool "github.com/libp2p/go-buffer-pool"

	"github.com/kardiachain/go-kardia/lib/p2p/conn"

	"verifharness/core"
)

// watchdog is the generous wall-clock limit for anything that blocks; its firing is
// never a verdict about the property, only "inconclusive".
const watchdog = 120 * time.Second

func newWG(n int) *sync.WaitGroup {
	wg := &sync.WaitGroup{}
	wg.Add(n)
	return wg
}

// waitOrWatchdog waits for wg; false = the watchdog fired.
func waitOrWatchdog(wg *sync.WaitGroup, d time.Duration) bool {
	done := make(chan struct{})
	go func() { wg.Wait(); close(done) }()
	t := time.NewTimer(d)
	defer t.Stop()
	select {
	case <-done:
		return true
	case <-t.C:
		return false
	}
}

type hsResult struct {
	sc    *conn.SecretConnection
	err   error
	pan   interface{}
	stack string
}

// realHandshake runs the real MakeSecretConnection on one endpoint.
// closeAfter: the owner hangs up as soon as the handshake has returned (what the
// transport does on failure; scenarios that do not use the connection do it always).
func realHandshake(e io.ReadWriteCloser, k *ecdsa.PrivateKey, out *hsResult, wg *sync.WaitGroup, closeAfter bool) {
	go func() {
		defer wg.Done()
		if closeAfter {
			defer e.Close()
		}
		defer func() {
			if p := recover(); p != nil {
				out.pan = p
				out.stack = string(debug.Stack())
				out.err = fmt.Errorf("panic: %v", p)
			}
		}()
		out.sc, out.err = conn.MakeSecretConnection(e, k)
	}()
}

// establish performs an honest real<->real handshake over d.
func establish(d *duplex, kA, kB *ecdsa.PrivateKey) (a, b hsResult, ok bool) {
	var wg sync.WaitGroup
	wg.Add(2)
	realHandshake(d.a, kA, &a, &wg, false)
	realHandshake(d.b, kB, &b, &wg, false)
	if !waitOrWatchdog(&wg, watchdog) {
		d.closeAll()
		return a, b, false
	}
	return a, b, true
}

// boundary-heavy size distributions
var writeSizeCorpus = []int{0, 1, 2, 1023, 1024, 1025, 2047, 2048, 2049, 3071, 3072, 3073, 4096, 5119, 5120}
var readSizeCorpus = []int{1, 2, 3, 7, 1023, 1024, 1025, 1027, 1028, 1044, 2048, 4095, 4096}

func pickWriteSize(r *rand.Rand) int {
	switch r.Intn(4) {
	case 0:
		return writeSizeCorpus[r.Intn(len(writeSizeCorpus))]
	case 1:
		return r.Intn(64)
	default:
		return r.Intn(5*1024 + 1)
	}
}

func pickReadSize(r *rand.Rand) int {
	switch r.Intn(4) {
	case 0:
		return readSizeCorpus[r.Intn(len(readSizeCorpus))]
	case 1:
		return 1 + r.Intn(16)
	default:
		return 1 + r.Intn(4096)
	}
}

// poisonPool scribbles over buffers of the size classes used for frames and gives
// them back: if the connection kept a reference into a pooled buffer, what it
// delivers next is visibly wrong.
func poisonPool() {
	b1 := pool.Get(1028)
	b2 := pool.Get(1044)
	for i := range b1 {
		b1[i] = 0xA5
	}
	for i := range b2 {
		b2[i] = 0xA5
	}
	pool.Put(b1)
	pool.Put(b2)
}

// readAll reads from sc with the given buffer sizes until an error; the reader goroutine
// poisons the frame pool between reads.
func readAll(sc io.Reader, sizes func() int, poison bool) (got []byte, reads int, err error) {
	for {
		buf := make([]byte, sizes())
		n, e := sc.Read(buf)
		if n < 0 || n > len(buf) {
			return got, reads, fmt.Errorf("Read returned n=%d for a buffer of %d", n, len(buf))
		}
		got = append(got, buf[:n]...)
		reads++
		if e != nil {
			return got, reads, e
		}
		if poison {
			poisonPool()
		}
	}
}

// diffKind names the way got differs from want.
func diffKind(got, want []byte) (string, int) {
	n := len(got)
	if len(want) < n {
		n = len(want)
	}
	for i := 0; i < n; i++ {
		if got[i] != want[i] {
			// loss (got continues with a later part of want), duplication (an earlier part) or corruption
			tail := got[i:]
			if len(tail) > 32 {
				tail = tail[:32]
			}
			if len(tail) >= 8 {
				if j := bytes.Index(want[i:], tail); j > 0 {
					return "loss", i
				}
				if j := bytes.Index(want[:i], tail); j >= 0 {
					return "duplication-or-reordering", i
				}
			}
			return "corruption", i
		}
	}
	if len(got) < len(want) {
		return "truncated", len(got)
	}
	if len(got) > len(want) {
		return "extra-bytes", len(want)
	}
	return "", -1
}

type streamPlan struct {
	Chunk     int   `json:"transport_chunk_max"`
	WritesAB  []int `json:"write_sizes_a_to_b"`
	WritesBA  []int `json:"write_sizes_b_to_a"`
	ReadSeedA int64 `json:"read_seed_a"`
	ReadSeedB int64 `json:"read_seed_b"`
	FixedRead int   `json:"fixed_read_size,omitempty"`
}

func detBytes(seed int64, n int) []byte {
	b := make([]byte, n)
	rand.New(rand.NewSource(seed)).Read(b)
	return b
}

// oneDirection writes `sizes` on w and closes the write side afterwards (so that the
// reader terminates on EOF, not on a timer); returns what was written.
func writeSizes(w io.Writer, sizes []int, data []byte) (n int, err error) {
	off := 0
	for _, s := range sizes {
		k, e := w.Write(data[off : off+s])
		n += k
		if e != nil {
			return n, e
		}
		if k != s {
			return n, fmt.Errorf("Write of %d bytes returned %d without error", s, k)
		}
		off += s
	}
	return n, nil
}

func sum(a []int) int {
	t := 0
	for _, x := range a {
		t += x
	}
	return t
}

// streamCase: honest real<->real, both directions at once, arbitrary splitting.
func streamCase(c *core.Case, plan streamPlan) {
	run := c.Run
	r := c.R
	kA, kB := detKey(r), detKey(r)
	d := newDuplex(r.Int63(), plan.Chunk, 7)
	a, b, ok := establish(d, kA, kB)
	if !ok {
		run.Inconclusive(fmt.Sprintf("watchdog: handshake of %s:%d did not finish", c.Group, c.I))
		return
	}
	if a.err != nil || b.err != nil {
		c.Violation("handshake:honest-failed", fmt.Sprintf("honest handshake failed: a=%v b=%v", a.err, b.err), plan)
		d.closeAll()
		return
	}
	if !samePub(a.sc.RemotePubKey(), kB.PublicKey) || !samePub(b.sc.RemotePubKey(), kA.PublicKey) {
		c.Violation("handshake:honest-wrong-identity", "honest handshake: RemotePubKey is not the peer's key", plan)
		d.closeAll()
		return
	}
	run.Count("handshakes_honest_ok", 1)
	dataAB := detBytes(r.Int63(), sum(plan.WritesAB))
	dataBA := detBytes(r.Int63(), sum(plan.WritesBA))
	type res struct {
		got   []byte
		reads int
		err   error
		werr  error
	}
	var ra, rb res // ra: what a read (written by b)
	var wg sync.WaitGroup
	wg.Add(4)
	go func() { defer wg.Done(); _, ra.werr = writeSizes(a.sc, plan.WritesAB, dataAB); d.ab.closeWrite() }()
	go func() { defer wg.Done(); _, rb.werr = writeSizes(b.sc, plan.WritesBA, dataBA); d.ba.closeWrite() }()
	mk := func(seed int64) func() int {
		if plan.FixedRead > 0 {
			return func() int { return plan.FixedRead }
		}
		rr := rand.New(rand.NewSource(seed))
		return func() int { return pickReadSize(rr) }
	}
	go func() { defer wg.Done(); ra.got, ra.reads, ra.err = readAll(a.sc, mk(plan.ReadSeedA), true) }()
	go func() { defer wg.Done(); rb.got, rb.reads, rb.err = readAll(b.sc, mk(plan.ReadSeedB), true) }()
	if !waitOrWatchdog(&wg, watchdog) {
		d.closeAll()
		run.Inconclusive(fmt.Sprintf("watchdog: stream case %s:%d did not finish", c.Group, c.I))
		return
	}
	d.closeAll()
	judge := func(dir string, got, want []byte, rerr, werr error) bool {
		if werr != nil {
			c.Violation("stream:write-error", fmt.Sprintf("%s: Write on an honest connection failed: %v", dir, werr), plan)
			return false
		}
		if kind, at := diffKind(got, want); kind != "" {
			c.Violation("stream:"+kind, fmt.Sprintf("%s: bytes read differ from bytes written (%s at offset %d; read %d, written %d; final read error %v)", dir, kind, at, len(got), len(want), rerr), plan)
			return false
		}
		if rerr != io.EOF {
			c.Violation("stream:spurious-error", fmt.Sprintf("%s: all %d bytes were read but the stream ended with %v instead of EOF", dir, len(want), rerr), plan)
			return false
		}
		return true
	}
	okAB := judge("a->b", rb.got, dataAB, rb.err, ra.werr)
	okBA := judge("b->a", ra.got, dataBA, ra.err, rb.werr)
	run.Eval(1)
	run.Count("stream_bytes", len(dataAB)+len(dataBA))
	run.Count("stream_reads", ra.reads+rb.reads)
	run.Count("stream_writes", len(plan.WritesAB)+len(plan.WritesBA))
	frames := 0
	for _, s := range append(append([]int{}, plan.WritesAB...), plan.WritesBA...) {
		frames += (s + 1023) / 1024
	}
	run.Count("stream_frames", frames)
	if okAB && okBA && frames >= 2 {
		run.Nontrivial(fmt.Sprint("stream", plan))
	}
	run.Distinct("transport_chunk_max", fmt.Sprint(plan.Chunk))
	if c.I == 0 {
		run.Sample(map[string]interface{}{"group": c.Group, "case": c.I, "plan": plan, "bytes_a_to_b": len(dataAB), "bytes_b_to_a": len(dataBA), "reads": ra.reads + rb.reads})
	}
}

// fixed boundary corpus for the stream: every write size of the corpus against every
// read size of the corpus, one direction loaded, the other idle or loaded.
func streamCorpus(c *core.Case) {
	nW, nR := len(writeSizeCorpus), len(readSizeCorpus)
	if c.I >= nW*nR {
		return
	}
	w, rd := writeSizeCorpus[c.I/nR], readSizeCorpus[c.I%nR]
	chunks := []int{0, 1, 1043, 1044, 1045, 3000}
	plan := streamPlan{Chunk: chunks[c.I%len(chunks)], WritesAB: []int{w, 1, w, 1024, w}, WritesBA: []int{1024, w}, FixedRead: rd}
	streamCase(c, plan)
}

func streamRandom(c *core.Case) {
	r := c.R
	plan := streamPlan{ReadSeedA: r.Int63(), ReadSeedB: r.Int63()}
	switch r.Intn(4) {
	case 0:
		plan.Chunk = 0
	case 1:
		plan.Chunk = 1 + r.Intn(8)
	default:
		plan.Chunk = 1 + r.Intn(3000)
	}
	for i, n := 0, 1+r.Intn(12); i < n; i++ {
		plan.WritesAB = append(plan.WritesAB, pickWriteSize(r))
	}
	for i, n := 0, r.Intn(8); i < n; i++ {
		plan.WritesBA = append(plan.WritesBA, pickWriteSize(r))
	}
	if r.Intn(6) == 0 {
		plan.FixedRead = pickReadSize(r)
	}
	streamCase(c, plan)
}

// ---- concurrent writers on one connection ----

// cell is the 16-byte unit of the concurrent-writer workload: writer id, sequence
// number, 8 bytes of a hash. 1024 is a multiple of 16 and every write is a multiple of
// 16, so a cell is never split over two frames whatever the interleaving of frames.
func cell(salt uint32, writer byte, seq uint32) []byte {
	var b [16]byte
	b[0] = writer
	binary.BigEndian.PutUint32(b[1:], seq)
	binary.BigEndian.PutUint32(b[5:], salt)
	h := sha256.Sum256(b[:9])
	copy(b[9:], h[:7])
	return b[:]
}

type cwPlan struct {
	Writers int     `json:"writers"`
	Sizes   [][]int `json:"write_sizes_in_cells"`
	Chunk   int     `json:"transport_chunk_max"`
	Both    bool    `json:"other_direction_loaded"`
	Atomic  bool    `json:"only_writes_up_to_1024"`
}

// concurrentWriters: several goroutines write on the same connection. Every cell must
// arrive exactly once, intact, and in the order its writer wrote it; writes of at most
// 1024 bytes must arrive contiguously (documented contract of Write).
func concurrentWriters(c *core.Case) {
	run, r := c.Run, c.R
	if strings.HasPrefix(c.Group, "race-") {
		run.Count("cases_under_race_detector", 1)
	}
	plan := cwPlan{Writers: 2 + r.Intn(4), Chunk: 1 + r.Intn(3000), Both: r.Intn(2) == 0, Atomic: r.Intn(3) == 0}
	for w := 0; w < plan.Writers; w++ {
		var s []int
		for i, n := 0, 3+r.Intn(20); i < n; i++ {
			switch {
			case plan.Atomic:
				s = append(s, 1+r.Intn(64))
			case r.Intn(3) == 0:
				s = append(s, []int{1, 63, 64, 65, 128, 320}[r.Intn(6)])
			default:
				s = append(s, 1+r.Intn(320))
			}
		}
		plan.Sizes = append(plan.Sizes, s)
	}
	salt := uint32(r.Int63())
	kA, kB := detKey(r), detKey(r)
	d := newDuplex(r.Int63(), plan.Chunk, 5)
	a, b, ok := establish(d, kA, kB)
	if !ok {
		run.Inconclusive(fmt.Sprintf("watchdog: handshake of %s:%d did not finish", c.Group, c.I))
		return
	}
	if a.err != nil || b.err != nil {
		c.Violation("handshake:honest-failed", fmt.Sprintf("honest handshake failed: a=%v b=%v", a.err, b.err), plan)
		d.closeAll()
		return
	}
	var wwg, rwg sync.WaitGroup
	werrs := make([]error, plan.Writers)
	for w := 0; w < plan.Writers; w++ {
		wwg.Add(1)
		go func(w int) {
			defer wwg.Done()
			seq := uint32(0)
			for _, cells := range plan.Sizes[w] {
				buf := make([]byte, 0, cells*16)
				for i := 0; i < cells; i++ {
					buf = append(buf, cell(salt, byte(w), seq)...)
					seq++
				}
				n, err := a.sc.Write(buf)
				if err == nil && n != len(buf) {
					err = fmt.Errorf("Write of %d returned %d", len(buf), n)
				}
				if err != nil {
					werrs[w] = err
					return
				}
			}
		}(w)
	}
	var got []byte
	var rerr error
	rr := rand.New(rand.NewSource(r.Int63()))
	rwg.Add(1)
	go func() { defer rwg.Done(); got, _, rerr = readAll(b.sc, func() int { return pickReadSize(rr) }, true) }()
	// the other direction carries an ordinary stream at the same time
	var back, backWant []byte
	var backErr error
	if plan.Both {
		backWant = detBytes(r.Int63(), 3000+r.Intn(6000))
		rr2 := rand.New(rand.NewSource(r.Int63()))
		rwg.Add(1)
		go func() {
			defer rwg.Done()
			back, _, backErr = readAll(a.sc, func() int { return pickReadSize(rr2) }, true)
		}()
		wwg.Add(1)
		go func() {
			defer wwg.Done()
			b.sc.Write(backWant)
			d.ba.closeWrite()
		}()
	} else {
		d.ba.closeWrite()
	}
	if !waitOrWatchdog(&wwg, watchdog) {
		d.closeAll()
		run.Inconclusive(fmt.Sprintf("watchdog: writers of %s:%d did not finish", c.Group, c.I))
		return
	}
	d.ab.closeWrite()
	if !waitOrWatchdog(&rwg, watchdog) {
		d.closeAll()
		run.Inconclusive(fmt.Sprintf("watchdog: readers of %s:%d did not finish", c.Group, c.I))
		return
	}
	d.closeAll()
	run.Eval(1)
	for w, e := range werrs {
		if e != nil {
			c.Violation("stream:write-error", fmt.Sprintf("writer %d: %v", w, e), plan)
			return
		}
	}
	if rerr != io.EOF {
		c.Violation("stream:spurious-error", fmt.Sprintf("concurrent writers: stream ended with %v instead of EOF after %d bytes", rerr, len(got)), plan)
		return
	}
	if plan.Both {
		if kind, at := diffKind(back, backWant); kind != "" || backErr != io.EOF {
			c.Violation("stream:"+kind, fmt.Sprintf("b->a while a has concurrent writers: %s at %d, err=%v", kind, at, backErr), plan)
			return
		}
	}
	if len(got)%16 != 0 {
		c.Violation("stream:concurrent-writers:length", fmt.Sprintf("read %d bytes, not a multiple of the 16-byte cell", len(got)), plan)
		return
	}
	next := make([]uint32, plan.Writers)
	// contiguity of writes <= 1024 bytes: remaining cells of the write in progress, per position
	writeIdx := make([]int, plan.Writers)
	left := make([]int, plan.Writers)
	cur := -1 // writer whose small write is in progress
	switches := 0
	prev := -1
	for off := 0; off < len(got); off += 16 {
		cl := got[off : off+16]
		w := int(cl[0])
		if w >= plan.Writers || !bytes.Equal(cl, cell(salt, byte(w), binary.BigEndian.Uint32(cl[1:]))) {
			c.Violation("stream:concurrent-writers:corruption", fmt.Sprintf("cell at offset %d is not a cell any writer wrote: % x", off, cl), plan)
			return
		}
		seq := binary.BigEndian.Uint32(cl[1:])
		if seq != next[w] {
			kind := "loss-or-reordering"
			if seq < next[w] {
				kind = "duplication-or-reordering"
			}
			c.Violation("stream:concurrent-writers:"+kind, fmt.Sprintf("writer %d: cell %d arrived where cell %d was due (offset %d)", w, seq, next[w], off), plan)
			return
		}
		next[w]++
		if w != prev {
			switches++
			prev = w
		}
		if cur >= 0 && w != cur {
			c.Violation("stream:concurrent-writers:small-write-split", fmt.Sprintf("a write of %d bytes (<= 1024) of writer %d was interleaved with writer %d at offset %d", plan.Sizes[cur][writeIdx[cur]-1]*16, cur, w, off), plan)
			return
		}
		if left[w] == 0 {
			if writeIdx[w] >= len(plan.Sizes[w]) {
				c.Violation("stream:concurrent-writers:extra", fmt.Sprintf("writer %d: more cells than written", w), plan)
				return
			}
			left[w] = plan.Sizes[w][writeIdx[w]]
			writeIdx[w]++
			if left[w]*16 <= 1024 {
				cur = w
			}
		}
		left[w]--
		if left[w] == 0 && cur == w {
			cur = -1
		}
	}
	for w := range next {
		if int(next[w]) != sum(plan.Sizes[w]) {
			c.Violation("stream:concurrent-writers:truncated", fmt.Sprintf("writer %d: %d of %d cells arrived", w, next[w], sum(plan.Sizes[w])), plan)
			return
		}
	}
	run.Count("concurrent_writer_cases", 1)
	run.Count("concurrent_writer_cells", len(got)/16)
	run.Count("concurrent_writer_switches", switches)
	if switches > plan.Writers {
		run.Nontrivial(fmt.Sprint("cw", c.I, plan.Writers, switches))
	}
}

// interopCase: the real implementation against the independent one, both honest. What the
// real writer puts on the wire must open under the reference to exactly the bytes written
// (frame size, length field, counter nonce, key assignment), and reference frames must be
// read by the real reader.
func interopCase(c *core.Case) {
	run, r := c.Run, c.R
	kA, kM := detKey(r), detKey(r)
	var sizes []int
	for i, n := 0, 1+r.Intn(8); i < n; i++ {
		sizes = append(sizes, pickWriteSize(r))
	}
	out := detBytes(r.Int63(), sum(sizes))
	back := detBytes(r.Int63(), r.Intn(6000))
	d := newDuplex(r.Int63(), 1+r.Intn(3000), 0)
	m := newEvil(d.b, r, kM)
	var wire []byte
	var mErr error
	done := make(chan struct{})
	go func() {
		defer close(done)
		defer d.b.out.closeWrite()
		if mErr = m.exchangeEph(nil); mErr != nil {
			return
		}
		m.sendAuth(pubBytes(&kM.PublicKey), m.sign(m.s.challenge[:]))
		if _, _, mErr = m.recvAuth(); mErr != nil {
			return
		}
		m.e.Write(m.s.sealStream(back))
		d.b.out.closeWrite()
		wire, _ = io.ReadAll(d.b)
	}()
	var res hsResult
	wg := newWG(1)
	realHandshake(d.a, kA, &res, wg, false)
	if !waitOrWatchdog(wg, watchdog) {
		run.Inconclusive("watchdog: interop handshake did not finish")
		d.closeAll()
		return
	}
	wit := map[string]interface{}{"write_sizes": sizes, "bytes_from_reference": len(back)}
	if res.err != nil {
		c.Violation("handshake:attacker-own-key:honest-failed", fmt.Sprintf("handshake with the reference implementation acting honestly failed: %v (reference: %v)", res.err, m.log), wit)
		d.closeAll()
		return
	}
	_, werr := writeSizes(res.sc, sizes, out)
	d.ab.closeWrite()
	rr := rand.New(rand.NewSource(r.Int63()))
	got, _, rerr := readAll(res.sc, func() int { return pickReadSize(rr) }, true)
	select {
	case <-done:
	case <-time.After(watchdog):
		run.Inconclusive("watchdog: reference side of interop case did not finish")
		d.closeAll()
		return
	}
	d.closeAll()
	run.Eval(1)
	if werr != nil || mErr != nil {
		c.Violation("stream:write-error", fmt.Sprintf("interop: write error %v, reference error %v", werr, mErr), wit)
		return
	}
	if kind, at := diffKind(got, back); kind != "" || rerr != io.EOF {
		c.Violation("interop:reference-frames-misread:"+kind, fmt.Sprintf("frames sealed by the reference implementation: the real reader delivered a different stream (%s at %d, error %v)", kind, at, rerr), wit)
		return
	}
	frames := 0
	for _, s := range sizes {
		frames += (s + 1023) / 1024
	}
	if len(wire) != frames*refSealed {
		c.Violation("interop:wire-format", fmt.Sprintf("writes %v produced %d wire bytes; the protocol says %d frames of %d", sizes, len(wire), frames, refSealed), wit)
		return
	}
	data, dirty, err := m.s.openStream(wire)
	if err != nil {
		c.Violation("interop:real-frames-do-not-open", fmt.Sprintf("frames of the real writer do not open under the protocol's keys and counter nonces: %v (after %d bytes)", err, len(data)), wit)
		return
	}
	if kind, at := diffKind(data, out); kind != "" {
		c.Violation("interop:real-frames-differ:"+kind, fmt.Sprintf("the plaintext inside the real writer's frames differs from what was written (%s at %d)", kind, at), wit)
		return
	}
	run.Count("interop_cases", 1)
	run.Count("interop_frames_opened_by_reference", frames)
	run.Count("interop_frames_with_nonzero_padding", dirty)
	if frames > 0 {
		run.Nontrivial(fmt.Sprint("interop", c.I, sizes))
	}
}
