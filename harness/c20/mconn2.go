package c20

import (
	"crypto/sha256"
	"fmt"
	"math/rand"
	"net"
	"runtime"
	"strings"
	"sync"
	"sync/atomic"
	"time"

	"github.com/anishathalye/porcupine"

	"github.com/kardiachain/go-kardia/lib/log"
	"github.com/kardiachain/go-kardia/lib/p2p/conn"

	"verifharness/core"
)

// ---------------------------------------------------------------------------------------
// Oversized messages
// ---------------------------------------------------------------------------------------

type oversizePlan struct {
	Cfg      *mconnCfg `json:"config"`
	Before   []sendOp  `json:"before"`
	Oversize sendOp    `json:"oversized"`
	After    []sendOp  `json:"after_trysend_only"`
	Excess   int       `json:"bytes_over_capacity"`
}

func oversizeCase(c *core.Case) {
	run, r := c.Run, c.R
	pl := &oversizePlan{Cfg: randomCfg(r, 1)}
	cfg := pl.Cfg
	all := make([]int, len(cfg.Channels))
	for i := range all {
		all[i] = i
	}
	pl.Before = genOps(r, cfg, all, r.Intn(12), 1, false)
	ci := r.Intn(len(cfg.Channels))
	excess := []int{1, 1, 2, cfg.Payload - 1, cfg.Payload, cfg.Payload + 1, 2*cfg.Payload + 1, 1 + r.Intn(3000)}[r.Intn(8)]
	if c.I < 8 { // boundary corpus
		excess = []int{1, 1, 2, cfg.Payload, cfg.Payload + 1, 1, 1, 3}[c.I]
	}
	if excess < 1 {
		excess = 1
	}
	pl.Excess = excess
	pl.Oversize = sendOp{Ch: ci, Size: cfg.Channels[ci].RecvCap + excess}
	pl.After = genOps(r, cfg, all, r.Intn(6), 1, false)
	for i := range pl.After {
		pl.After[i].Try = true
	}
	p, ok := startPair(c, cfg, pl)
	if !ok {
		return
	}
	defer p.shutdown()
	var sent []*sendRec
	ctr := uint32(0)
	do := func(op sendOp) {
		p.a.send(0, cfg.Channels[op.Ch], ctr, op.Size, op.Try, &sent)
		ctr++
	}
	done := make(chan struct{})
	go func() {
		defer close(done)
		for _, op := range pl.Before {
			do(op)
		}
		do(pl.Oversize)
		for _, op := range pl.After {
			do(op)
		}
	}()
	select {
	case <-done:
	case <-time.After(watchdog):
		run.Inconclusive(fmt.Sprintf("watchdog: sender of %s:%d did not finish", c.Group, c.I))
		return
	}
	p.a.mc.FlushStop()
	if !p.b.waitErr(watchdog) {
		run.Inconclusive(fmt.Sprintf("watchdog: %s:%d: the receiver never reported an error or the end of the stream", c.Group, c.I))
		return
	}
	run.Eval(1)
	recvd, errs, _ := p.b.snapshot()
	_, aerrs, _ := p.a.snapshot()
	wit := map[string]interface{}{"plan": pl, "sent": sent, "delivered": trimDel(recvd), "receiver_errors": errs, "sender_errors": aerrs}
	if e := panicRecovered(append(append([]string{}, errs...), aerrs...)); e != "" {
		c.Violation("mconn:panic-recovered", "a connection goroutine panicked: "+firstLine(e), wit)
		return
	}
	over := sent[len(pl.Before)]
	if !over.OK {
		// the sender may refuse it; then it must simply not arrive (checked below as "returned false")
		run.Count("mconn_oversize_refused_by_sender", 1)
	}
	// (a delivery larger than its channel's capacity is reported by checkDirection)
	if v := checkDirection(sent, recvd, cfg.Channels, false, true); v != nil {
		c.Violation(v.key, "around an oversized message: "+v.what, wit)
		return
	}
	if len(errs) != 1 {
		c.Violation("mconn:onerror-count", fmt.Sprintf("onError was called %d times on the receiver", len(errs)), wit)
		return
	}
	if over.OK && strings.Contains(errs[0], "EOF") {
		c.Violation("mconn:oversized-not-reported", fmt.Sprintf("a message %d bytes over the capacity (%d) was accepted for sending; the receiver reported only %q: the refusal was not reported as an error", excess, cfg.Channels[ci].RecvCap, errs[0]), wit)
		return
	}
	run.Count("mconn_oversize_cases", 1)
	run.Count("mconn_oversize_refused_with_error", 1)
	run.Distinct("mconn_oversize_excess", fmt.Sprint(excess))
	run.Nontrivial(fmt.Sprint("oversize", c.I, excess))
}

// ---------------------------------------------------------------------------------------
// Sends racing with Stop / FlushStop: small per-channel queue model checked by porcupine
// ---------------------------------------------------------------------------------------

type qIn struct {
	Op      string // send | stop
	ID      int
	Pos     int    // position of the message in the channel's delivery order, -1 = never delivered
	Variant string // flushstop | stop | receiver-stop
}
type qOut struct{ OK bool }
type qState struct {
	N       int  // deliveries accounted for
	Stopped bool // the stop has taken effect
	Lost    bool // an accepted message that is never delivered has been enqueued
}

// queueModel: one channel = one FIFO queue from Send to onReceive, with unique values. The
// delivery order is known, so a sequential history is legal iff
//   - the accepted sends that are delivered are enqueued in exactly the delivery order
//     (FIFO, no duplication, no reordering), before the stop takes effect;
//   - an accepted send that is never delivered is enqueued after the stop took effect
//     (FlushStop: everything accepted before it is flushed), or - for a plain Stop, where
//     the connection is closed with messages still queued - anywhere, but then nothing
//     enqueued after it is delivered (only a tail may be lost, never the middle);
//   - a send that returned false enqueues nothing (its message being delivered is caught
//     by the set check).
var queueModel = porcupine.Model{
	Init: func() interface{} { return qState{} },
	Step: func(state, input, output interface{}) (bool, interface{}) {
		st, in := state.(qState), input.(qIn)
		switch in.Op {
		case "send":
			if !output.(qOut).OK {
				return true, st
			}
			if in.Pos >= 0 {
				if in.Pos != st.N || st.Lost || (st.Stopped && in.Variant != "receiver-stop") {
					return false, st
				}
				st.N++
				return true, st
			}
			if in.Variant == "flushstop" && !st.Stopped {
				return false, st
			}
			st.Lost = true
			return true, st
		case "stop":
			st.Stopped = true
			return true, st
		}
		return false, st
	},
	DescribeOperation: func(input, output interface{}) string {
		in := input.(qIn)
		if in.Op == "send" {
			return fmt.Sprintf("send(msg %d, delivered at position %d)->%v", in.ID, in.Pos, output.(qOut).OK)
		}
		return in.Op
	},
}

type stopPlan struct {
	Cfg       *mconnCfg  `json:"config"`
	Variant   string     `json:"variant"` // flushstop | stop | receiver-stop
	Senders   [][]sendOp `json:"senders"`
	TriggerAt int        `json:"stop_when_sender0_reaches_op"`
}

func stopRaceCase(c *core.Case) {
	run, r := c.Run, c.R
	if strings.HasPrefix(c.Group, "race-") {
		run.Count("cases_under_race_detector", 1)
	}
	pl := &stopPlan{Variant: []string{"flushstop", "flushstop", "stop", "receiver-stop"}[r.Intn(4)]}
	cfg := &mconnCfg{Payload: []int{1 + r.Intn(64), 1 + r.Intn(1024)}[r.Intn(2)], FlushUs: []int{1, 100, 1000}[r.Intn(3)], Rate: 0, Secret: r.Intn(3) == 0, Chunk: []int{0, 1 + r.Intn(2000)}[r.Intn(2)]}
	for i, n := 0, 1+r.Intn(3); i < n; i++ {
		cfg.Channels = append(cfg.Channels, chanSpec{ID: byte(0x50 + i), Priority: 1 + r.Intn(5), SendQ: 1 + r.Intn(3), RecvCap: 400, RecvBuf: 64})
	}
	pl.Cfg = cfg
	k := 2 + r.Intn(3)
	all := make([]int, len(cfg.Channels))
	for i := range all {
		all[i] = i
	}
	for s := 0; s < k; s++ {
		ops := genOps(r, cfg, all, 4+r.Intn(10), 16, false)
		for i := range ops {
			if ops[i].Size > 300 {
				ops[i].Size = 16 + r.Intn(285)
			}
		}
		pl.Senders = append(pl.Senders, ops)
	}
	pl.TriggerAt = r.Intn(len(pl.Senders[0]))
	p, ok := startPair(c, cfg, pl)
	if !ok {
		return
	}
	defer p.shutdown()
	logs := make([][]*sendRec, k)
	trigger := make(chan struct{})
	var stopping int32
	var wg sync.WaitGroup
	for s := range pl.Senders {
		wg.Add(1)
		go func(s int) {
			defer wg.Done()
			for i, op := range pl.Senders[s] {
				if s == 0 && i == pl.TriggerAt {
					close(trigger)
				}
				try := op.Try || atomic.LoadInt32(&stopping) == 1
				p.a.send(s, cfg.Channels[op.Ch], uint32(i), op.Size, try, &logs[s])
			}
		}(s)
	}
	var stopCall, stopRet int64
	wg.Add(1)
	go func() {
		defer wg.Done()
		<-trigger
		atomic.StoreInt32(&stopping, 1)
		stopCall = p.clk.tick()
		switch pl.Variant {
		case "flushstop":
			p.a.mc.FlushStop()
		case "stop":
			p.a.mc.Stop()
		case "receiver-stop":
			p.b.mc.Stop()
		}
		stopRet = p.clk.tick()
	}()
	if !waitOrWatchdog(&wg, watchdog) {
		run.Inconclusive(fmt.Sprintf("watchdog: %s:%d did not finish", c.Group, c.I))
		return
	}
	if pl.Variant != "receiver-stop" {
		if !p.b.waitErr(watchdog) {
			run.Inconclusive(fmt.Sprintf("watchdog: %s:%d: the receiver never saw the end of the stream", c.Group, c.I))
			return
		}
	}
	run.Eval(1)
	sent := flatten(logs)
	recvd, errs, _ := p.b.snapshot()
	_, aerrs, _ := p.a.snapshot()
	wit := map[string]interface{}{"plan": pl, "sent": sent, "delivered": trimDel(recvd), "receiver_errors": errs, "sender_errors": aerrs, "stop_call": stopCall, "stop_return": stopRet}
	if e := panicRecovered(append(append([]string{}, errs...), aerrs...)); e != "" {
		c.Violation("mconn:panic-recovered", "a connection goroutine panicked: "+firstLine(e), wit)
		return
	}
	// drop deliveries recorded after the snapshot point in the receiver-stop variant: safety properties are prefix-closed
	if v := checkDirection(sent, recvd, cfg.Channels, false, false); v != nil {
		c.Violation(v.key, "sends racing with "+pl.Variant+": "+v.what, wit)
		return
	}
	// porcupine, per channel
	lost := 0
	for _, spec := range cfg.Channels {
		pos := map[[32]byte]int{}
		nrecv := 0
		for _, d := range recvd {
			if d.Ch == spec.ID {
				pos[d.hash] = nrecv
				nrecv++
			}
		}
		var ops []porcupine.Operation
		nOK := 0
		for i, s := range sent {
			if s.Ch != spec.ID {
				continue
			}
			p, ok := pos[s.hash]
			if !ok {
				p = -1
			}
			if s.OK {
				nOK++
			}
			ops = append(ops, porcupine.Operation{ClientId: s.Sender, Input: qIn{Op: "send", ID: i, Pos: p, Variant: pl.Variant}, Output: qOut{s.OK}, Call: 2 * s.Call, Return: 2 * s.Ret})
		}
		lost += nOK - nrecv
		ops = append(ops, porcupine.Operation{ClientId: k, Input: qIn{Op: "stop", Variant: pl.Variant}, Output: qOut{true}, Call: 2 * stopCall, Return: 2 * stopRet})
		res := porcupine.CheckOperationsTimeout(queueModel, ops, 30*time.Second)
		run.Count("porcupine_checks", 1)
		run.Count("porcupine_operations", len(ops))
		switch res {
		case porcupine.Illegal:
			var desc []string
			for _, o := range ops {
				desc = append(desc, fmt.Sprintf("[%d,%d] client %d: %s", o.Call, o.Return, o.ClientId, queueModel.DescribeOperation(o.Input, o.Output)))
			}
			wit["channel"] = spec.ID
			wit["history"] = desc
			what := "the history of channel %#x is not a FIFO queue from Send to onReceive in which only a tail may be lost when the connection stops"
			key := "mconn:stop-race:not-a-queue"
			if pl.Variant == "flushstop" {
				what = "the history of channel %#x is not a FIFO queue in which everything accepted before FlushStop is delivered"
				key = "mconn:flushstop-race:not-a-flushed-queue"
			}
			c.Violation(key, fmt.Sprintf(what, spec.ID), wit)
			return
		case porcupine.Unknown:
			run.Inconclusive(fmt.Sprintf("porcupine timed out on %s:%d channel %#x (%d operations)", c.Group, c.I, spec.ID, len(ops)))
			return
		}
	}
	run.Count("mconn_stop_race_cases", 1)
	run.Count("mconn_stop_race:"+pl.Variant, 1)
	run.Count("mconn_stop_race_accepted_but_lost_legitimately", lost)
	nFalse := 0
	for _, s := range sent {
		if !s.OK {
			nFalse++
		}
	}
	run.Count("mconn_stop_race_sends_false", nFalse)
	if lost > 0 || nFalse > 0 {
		run.Nontrivial(fmt.Sprint("stoprace", c.I, pl.Variant, lost, nFalse))
	}
}

// ---------------------------------------------------------------------------------------
// Raw bytes fed to the packet layer
// ---------------------------------------------------------------------------------------

type garbageClass struct {
	name       string
	certain    bool // the element is an error for sure: nothing after it may be delivered and the report is not a clean EOF
	eofOK      bool // ... but the report may mention EOF (truncation)
	harmless   bool // the element is legal: everything before and after it is delivered
	make       func(r *rand.Rand, g *garbageCtx) []byte
	needsClose bool
}

type garbageCtx struct {
	maxPacket int // the largest legal length prefix
	known     byte
	unknown   byte
	payload   int
	capacity  int
}

var garbageClasses = []garbageClass{
	{name: "length-prefix-too-big", certain: true, make: func(r *rand.Rand, g *garbageCtx) []byte {
		return append(pbUvarint(nil, uint64(g.maxPacket+1+r.Intn(5))), make([]byte, 64)...)
	}},
	{name: "length-prefix-huge", certain: true, make: func(r *rand.Rand, g *garbageCtx) []byte {
		return pbUvarint(nil, []uint64{1 << 31, 1<<31 - 1, 1 << 32, 1 << 62, 1 << 63, 1<<64 - 1}[r.Intn(6)])
	}},
	{name: "varint-overflow", certain: true, make: func(r *rand.Rand, g *garbageCtx) []byte {
		b := make([]byte, 11)
		for i := range b {
			b[i] = 0xff
		}
		return b
	}},
	{name: "empty-packet", certain: true, make: func(r *rand.Rand, g *garbageCtx) []byte { return []byte{0} }},
	{name: "unknown-channel", certain: true, make: func(r *rand.Rand, g *garbageCtx) []byte {
		return packetMsg(int64(g.unknown), true, []byte("x"))
	}},
	{name: "truncated-packet", certain: true, eofOK: true, needsClose: true, make: func(r *rand.Rand, g *garbageCtx) []byte {
		p := packetMsg(int64(g.known), true, make([]byte, g.payload))
		return p[:1+r.Intn(len(p)-1)]
	}},
	{name: "field-length-beyond-packet", certain: true, eofOK: true /* the decoder's own "unexpected EOF" */, make: func(r *rand.Rand, g *garbageCtx) []byte {
		return pbDelimited([]byte{0x1A, 0x7F, 0x08, 0x01})
	}},
	{name: "invalid-wire-type", certain: true, make: func(r *rand.Rand, g *garbageCtx) []byte {
		return pbDelimited([]byte{0x1F, 0x01, 0x02})
	}},
	{name: "never-ending-message", certain: true, make: func(r *rand.Rand, g *garbageCtx) []byte {
		var out []byte
		for n := 0; n <= g.capacity; n += g.payload {
			out = append(out, packetMsg(int64(g.known), false, make([]byte, g.payload))...)
		}
		return out
	}},
	{name: "packet-data-larger-than-payload-limit", certain: true, make: func(r *rand.Rand, g *garbageCtx) []byte {
		return packetMsg(int64(g.known), true, make([]byte, g.payload+16))
	}},
	{name: "pings-and-pongs", harmless: true, make: func(r *rand.Rand, g *garbageCtx) []byte {
		var out []byte
		for i, n := 0, 1+r.Intn(300); i < n; i++ {
			out = append(out, pbDelimited(pbBytes(nil, 1+r.Intn(2), nil))...)
		}
		return out
	}},
	{name: "unknown-fields-in-packet", harmless: true, make: func(r *rand.Rand, g *garbageCtx) []byte {
		// a ping with an unknown field next to it
		return pbDelimited(pbVarintField(pbBytes(nil, 1, nil), 9, 7))
	}},
	{name: "channel-id-above-255", make: func(r *rand.Rand, g *garbageCtx) []byte {
		return packetMsg(int64(g.known)+256*int64(1+r.Intn(1000)), true, []byte("alias"))
	}},
	{name: "negative-channel-id", make: func(r *rand.Rand, g *garbageCtx) []byte {
		return packetMsg(-int64(1+r.Intn(1000)), true, []byte("neg"))
	}},
	{name: "random-bytes", make: func(r *rand.Rand, g *garbageCtx) []byte {
		b := make([]byte, 1+r.Intn(4000))
		r.Read(b)
		return b
	}},
	{name: "random-bytes-with-valid-length", make: func(r *rand.Rand, g *garbageCtx) []byte {
		b := make([]byte, 1+r.Intn(g.maxPacket))
		r.Read(b)
		return pbDelimited(b)
	}},
	{name: "mutated-valid-packet", make: func(r *rand.Rand, g *garbageCtx) []byte {
		p := packetMsg(int64(g.known), r.Intn(2) == 0, make([]byte, 1+r.Intn(g.payload)))
		for i, n := 0, 1+r.Intn(3); i < n; i++ {
			p[r.Intn(len(p))] ^= 1 << uint(r.Intn(8))
		}
		return p
	}},
}

func garbageCase(c *core.Case) {
	run, r := c.Run, c.R
	cl := garbageClasses[c.I%len(garbageClasses)]
	payload := []int{1, 5, 64, 1024}[r.Intn(4)]
	capacity := payload*3 + 40 + r.Intn(50)
	cfg := &mconnCfg{Payload: payload, FlushUs: 100, Rate: 0, Chunk: []int{0, 1, 1 + r.Intn(2000)}[r.Intn(3)], Secret: r.Intn(3) == 0}
	cfg.Channels = []chanSpec{{ID: 0x30, Priority: 1, SendQ: 1, RecvCap: capacity, RecvBuf: 16}, {ID: 0x31, Priority: 2, SendQ: 1, RecvCap: capacity, RecvBuf: 16}}
	cfg.build()
	g := &garbageCtx{known: 0x30, unknown: 0x77, payload: payload, capacity: capacity}
	// the largest legal packet, computed from the format: Packet{3: PacketMsg{1: ch, 2: eof, 3: data[payload]}}; the
	// limit allows for a two-byte channel id (ids of 0x80 and above), whatever channels are registered
	g.maxPacket = len(pbBytes(nil, 3, append(pbVarintField(pbVarintField(nil, 1, 0xff), 2, 1), pbBytes(nil, 3, make([]byte, payload))...)))
	clk := &clock{}
	b := newNode("b", clk)
	d := newDuplex(r.Int63(), cfg.Chunk, 0)
	// messages before and after the element, as honest packets
	type msg struct {
		ch   byte
		data []byte
	}
	var before, after []msg
	var wire []byte
	enc := func(m msg) {
		data := m.data
		for {
			n := min(len(data), payload)
			wire = append(wire, packetMsg(int64(m.ch), n == len(data), data[:n])...)
			data = data[n:]
			if len(data) == 0 {
				break
			}
		}
	}
	for i, n := 0, r.Intn(4); i < n; i++ {
		m := msg{[]byte{0x30, 0x31}[r.Intn(2)], message('x', 0, 0x30, uint32(i), 16+r.Intn(capacity-15))}
		before = append(before, m)
		enc(m)
	}
	element := cl.make(r, g)
	wire = append(wire, element...)
	if !cl.needsClose {
		for i, n := 0, 1+r.Intn(3); i < n; i++ {
			m := msg{[]byte{0x30, 0x31}[r.Intn(2)], message('y', 0, 0x30, uint32(100+i), 16+r.Intn(capacity-15))}
			after = append(after, m)
			enc(m)
		}
	}
	wit := map[string]interface{}{"class": cl.name, "config": cfg, "messages_before": len(before), "messages_after": len(after), "element": fmt.Sprintf("% x", element[:min(len(element), 64)]), "element_len": len(element)}
	var peer *evil
	done := make(chan struct{})
	var bc net.Conn = d.b
	if cfg.Secret {
		// the bytes arrive inside honest frames of an authenticated peer
		peer = newEvil(d.a, r, detKey(r))
		var res hsResult
		go func() {
			defer close(done)
			defer d.a.out.closeWrite()
			if peer.exchangeEph(nil) != nil {
				return
			}
			peer.sendAuth(pubBytes(&peer.key.PublicKey), peer.sign(peer.s.challenge[:]))
			if _, _, err := peer.recvAuth(); err != nil {
				return
			}
			peer.e.Write(peer.s.sealStream(wire))
		}()
		wg := newWG(1)
		realHandshake(d.b, detKey(r), &res, wg, false)
		if !waitOrWatchdog(wg, watchdog) || res.err != nil {
			if res.err != nil {
				c.Violation("handshake:attacker-own-key:honest-failed", fmt.Sprintf("handshake with an honest-behaving peer failed: %v", res.err), wit)
			} else {
				run.Inconclusive("watchdog: handshake before garbage did not finish")
			}
			d.closeAll()
			return
		}
		bc = res.sc
	} else {
		close(done)
	}
	b.mc = conn.NewMConnectionWithConfig(bc, cfg.descs, b.onReceive, b.onError, cfg.mconnConf)
	b.mc.SetLogger(log.NewNopLogger())
	if err := b.mc.Start(); err != nil {
		c.Violation("mconn:start-failed", err.Error(), wit)
		return
	}
	if !cfg.Secret {
		d.a.Write(wire)
		d.a.out.closeWrite()
	}
	if !b.waitErr(watchdog) {
		run.Inconclusive(fmt.Sprintf("watchdog: %s:%d: no error and no end of stream reported after garbage (%s)", c.Group, c.I, cl.name))
		b.mc.Stop()
		d.closeAll()
		return
	}
	<-done
	recvd, errs, _ := b.snapshot()
	b.mc.Stop()
	d.closeAll()
	run.Eval(1)
	run.Count("garbage_cases", 1)
	run.Count("garbage:"+cl.name, 1)
	wit["errors"] = errs
	wit["delivered"] = trimDel(recvd)
	if e := panicRecovered(errs); e != "" {
		c.Violation("mconn:panic-recovered:"+cl.name, "the receive goroutine panicked on bytes from the peer: "+firstLine(e), wit)
		return
	}
	if len(errs) != 1 {
		c.Violation("mconn:onerror-count", fmt.Sprintf("onError was called %d times", len(errs)), wit)
		return
	}
	// what was complete before the element must have been delivered, in order
	for i, m := range before {
		if i >= len(recvd) || recvd[i].Ch != m.ch || recvd[i].hash != hashOf(m.data) {
			c.Violation("mconn:garbage:"+cl.name+":earlier-message-lost-or-changed", fmt.Sprintf("message %d, complete on the wire before the malformed element, was not delivered as sent", i), wit)
			return
		}
	}
	rest := recvd[len(before):]
	switch {
	case cl.certain:
		if len(rest) > 0 {
			c.Violation("mconn:garbage:"+cl.name+":continued", fmt.Sprintf("%d messages were delivered after a malformed element (%s)", len(rest), cl.name), wit)
			return
		}
		if !cl.eofOK && strings.Contains(errs[0], "EOF") {
			c.Violation("mconn:garbage:"+cl.name+":not-reported", fmt.Sprintf("malformed element (%s): the connection reported only %q", cl.name, errs[0]), wit)
			return
		}
		run.Count("garbage_rejected_with_error", 1)
	case cl.harmless:
		if len(rest) != len(after) {
			c.Violation("mconn:garbage:"+cl.name+":lost-after-legal-element", fmt.Sprintf("%d of %d messages after a legal element (%s) were delivered; error %q", len(rest), len(after), cl.name, errs[0]), wit)
			return
		}
		for i, m := range after {
			if rest[i].Ch != m.ch || rest[i].hash != hashOf(m.data) {
				c.Violation("mconn:garbage:"+cl.name+":changed-after-legal-element", fmt.Sprintf("message %d after a legal element differs", i), wit)
				return
			}
		}
		run.Count("garbage_legal_element_tolerated", 1)
	default:
		// no expectation beyond: no panic, one report, capacity respected
		for _, dl := range rest {
			if dl.Size > capacity {
				c.Violation("mconn:oversized-delivered", fmt.Sprintf("%d bytes delivered, capacity %d", dl.Size, capacity), wit)
				return
			}
		}
		if strings.Contains(errs[0], "EOF") {
			run.Count("garbage_uncertain_tolerated", 1)
		} else {
			run.Count("garbage_uncertain_rejected", 1)
		}
	}
	run.Distinct("garbage_error_texts", trimDigits(errs[0]))
	run.Nontrivial(fmt.Sprint("garbage", cl.name, c.I))
}

func hashOf(b []byte) [32]byte { return sha256.Sum256(b) }

func trimDigits(s string) string {
	var b strings.Builder
	for _, ch := range s {
		if ch >= '0' && ch <= '9' {
			continue
		}
		b.WriteRune(ch)
	}
	s = b.String()
	if len(s) > 70 {
		s = s[:70]
	}
	return s
}

// ---------------------------------------------------------------------------------------
// Both directions of the connection fail at the same moment
// ---------------------------------------------------------------------------------------

// doubleFailure: the send goroutine is blocked in a write (network stall) and the receive
// goroutine in a read when the connection breaks in both directions at once. The error
// must be reported exactly once, and what was delivered before stays a gap-free beginning.
func doubleFailure(c *core.Case) {
	run, r := c.Run, c.R
	cfg := &mconnCfg{Payload: 1 + r.Intn(1024), FlushUs: 1, Rate: 0, Secret: r.Intn(2) == 0, Chunk: []int{0, 1 + r.Intn(2000)}[r.Intn(2)]}
	cfg.Channels = []chanSpec{{ID: 0x60, Priority: 1, SendQ: 2, RecvCap: 3000, RecvBuf: 64}, {ID: 0x61, Priority: 3, SendQ: 1, RecvCap: 3000, RecvBuf: 64}}
	p, ok := startPair(c, cfg, cfg)
	if !ok {
		return
	}
	defer p.shutdown()
	var sent []*sendRec
	n := 1 + r.Intn(6)
	for i := 0; i < n; i++ {
		p.a.send(0, cfg.Channels[r.Intn(2)], uint32(i), 16+r.Intn(2000), false, &sent)
	}
	if !p.b.waitCount(n, watchdog) {
		run.Inconclusive(fmt.Sprintf("watchdog: %s:%d: warm-up messages not delivered", c.Group, c.I))
		return
	}
	p.d.ab.setGate(true)
	for i := 0; i < 3; i++ {
		p.a.send(0, cfg.Channels[r.Intn(2)], uint32(100+i), 16+r.Intn(2000), true, &sent)
	}
	if !p.d.ab.waitBlockedWriter(watchdog) {
		run.Inconclusive(fmt.Sprintf("watchdog: %s:%d: the send goroutine never blocked at the stalled network", c.Group, c.I))
		return
	}
	// the connection breaks: blocked write and blocked read of side a fail together
	p.d.closeAll()
	if !p.a.waitErr(watchdog) {
		run.Inconclusive(fmt.Sprintf("watchdog: %s:%d: the broken connection was never reported", c.Group, c.I))
		return
	}
	// give the second goroutine the chance to report too: it was woken by the same event; wait for the
	// connection's own quiescence signal (both routines leave after Stop), observable as a refused send
	for i := 0; i < 2000 && p.a.mc.IsRunning(); i++ {
		runtime.Gosched()
	}
	for i := 0; i < 200; i++ {
		runtime.Gosched()
	}
	run.Eval(1)
	recvd, berrs, _ := p.b.snapshot()
	_, aerrs, _ := p.a.snapshot()
	wit := map[string]interface{}{"config": cfg, "sent": sent, "delivered": trimDel(recvd), "errors_a": aerrs, "errors_b": berrs}
	if e := panicRecovered(append(append([]string{}, aerrs...), berrs...)); e != "" {
		c.Violation("mconn:panic-recovered", "a connection goroutine panicked: "+firstLine(e), wit)
		return
	}
	if len(aerrs) != 1 || len(berrs) > 1 {
		c.Violation("mconn:onerror-count", fmt.Sprintf("both directions failed at once: onError was called %d times on the side whose send and receive goroutines were both blocked, %d times on the other", len(aerrs), len(berrs)), wit)
		return
	}
	if v := checkDirection(sent, recvd, cfg.Channels, false, true); v != nil {
		c.Violation(v.key, "before a double failure: "+v.what, wit)
		return
	}
	run.Count("mconn_double_failures", 1)
	run.Nontrivial(fmt.Sprint("double-failure", c.I))
}
