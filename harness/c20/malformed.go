package c20

import (
	"bytes"
	"crypto/ecdsa"
	"fmt"
	"io"
	"math/big"
	"math/rand"

	"verifharness/core"
)

// Malformed and oversized handshake messages, and crafted frames from an authenticated
// but malicious peer. These run in child processes: nothing here may panic, kill the
// process or hang once the attacker has hung up.

type malformed struct {
	name string
	// mustFail: the real endpoint must return an error (otherwise it may also complete, naming the attacker)
	mustFail bool
	script   func(m *evil, r *rand.Rand)
}

func rawEph(name string, mustFail bool, raw func(m *evil, r *rand.Rand) []byte) malformed {
	return malformed{"eph:" + name, mustFail, func(m *evil, r *rand.Rand) {
		m.e.Write(raw(m, r))
		m.hangUp()
	}}
}

// authPlain: honest key exchange, then `plain` sealed into honest frames as auth message.
func authPlain(name string, mustFail bool, plain func(m *evil, r *rand.Rand) []byte) malformed {
	return malformed{"auth:" + name, mustFail, func(m *evil, r *rand.Rand) {
		if m.exchangeEph(nil) != nil {
			return
		}
		m.e.Write(m.s.sealStream(plain(m, r)))
		m.hangUp()
	}}
}

// authFrames: honest key exchange, then arbitrary frames.
func authFrames(name string, mustFail bool, frames func(m *evil, r *rand.Rand) []byte) malformed {
	return malformed{"auth-frames:" + name, mustFail, func(m *evil, r *rand.Rand) {
		if m.exchangeEph(nil) != nil {
			return
		}
		m.e.Write(frames(m, r))
		m.hangUp()
	}}
}

func honestAuth(m *evil) []byte {
	return authMsg(pubBytes(&m.key.PublicKey), m.sign(m.s.challenge[:]))
}

var secpN, _ = new(big.Int).SetString("fffffffffffffffffffffffffffffffebaaedce6af48a03bbfd25e8cd0364141", 16)
var secpP, _ = new(big.Int).SetString("fffffffffffffffffffffffffffffffffffffffffffffffffffffffefffffc2f", 16)

func malformedList() []malformed {
	var l []malformed
	add := func(m malformed) { l = append(l, m) }
	// ---- first message ----
	add(rawEph("nothing", true, func(m *evil, r *rand.Rand) []byte { return nil }))
	add(rawEph("length-prefix-only", true, func(m *evil, r *rand.Rand) []byte { return []byte{34} }))
	add(rawEph("empty-message", true, func(m *evil, r *rand.Rand) []byte { return []byte{0} }))
	add(rawEph("cut-in-key", true, func(m *evil, r *rand.Rand) []byte { return ephMsg(m.pub[:])[:20] }))
	for _, n := range []int{0, 1, 31} {
		n := n
		add(rawEph(fmt.Sprintf("key-of-%d-bytes", n), true, func(m *evil, r *rand.Rand) []byte { return ephMsg(m.pub[:n]) }))
	}
	for _, n := range []int{33, 64, 1000, 70000} {
		n := n
		// the endpoint uses the first 32 bytes; the attacker could go on, here it does not
		add(rawEph(fmt.Sprintf("key-of-%d-bytes", n), true, func(m *evil, r *rand.Rand) []byte {
			return ephMsg(append(append([]byte{}, m.pub[:]...), make([]byte, n-32)...))
		}))
	}
	add(rawEph("declared-1MiB-plus-1", true, func(m *evil, r *rand.Rand) []byte { return pbUvarint(nil, 1<<20+1) }))
	add(rawEph("declared-1MiB-then-eof", true, func(m *evil, r *rand.Rand) []byte { return append(pbUvarint(nil, 1<<20), 1, 2, 3) }))
	add(rawEph("declared-1MiB-of-zeros", true, func(m *evil, r *rand.Rand) []byte { return append(pbUvarint(nil, 1<<20), make([]byte, 1<<20)...) }))
	add(rawEph("declared-2^63", true, func(m *evil, r *rand.Rand) []byte { return pbUvarint(nil, 1<<63) }))
	add(rawEph("declared-2^64-1", true, func(m *evil, r *rand.Rand) []byte { return pbUvarint(nil, 1<<64-1) }))
	add(rawEph("varint-overflow", true, func(m *evil, r *rand.Rand) []byte { return bytes.Repeat([]byte{0xff}, 11) }))
	add(rawEph("varint-never-ends", true, func(m *evil, r *rand.Rand) []byte { return bytes.Repeat([]byte{0x80}, 64) }))
	add(rawEph("wrong-field-number", true, func(m *evil, r *rand.Rand) []byte { return pbDelimited(pbBytes(nil, 2, m.pub[:])) }))
	add(rawEph("wrong-wire-type", true, func(m *evil, r *rand.Rand) []byte { return pbDelimited(pbVarintField(nil, 1, 77)) }))
	add(rawEph("inner-length-beyond-message", true, func(m *evil, r *rand.Rand) []byte { return pbDelimited([]byte{0x0A, 0x7f, 1, 2, 3}) }))
	add(rawEph("inner-length-negative", true, func(m *evil, r *rand.Rand) []byte {
		return pbDelimited(append([]byte{0x0A}, pbUvarint(nil, 1<<64-1)...))
	}))
	add(rawEph("group-wire-types", true, func(m *evil, r *rand.Rand) []byte { return pbDelimited([]byte{0x0B, 0x0B, 0x0B, 0x0C}) }))
	add(rawEph("garbage", true, func(m *evil, r *rand.Rand) []byte { b := make([]byte, 1+r.Intn(300)); r.Read(b); return b }))
	add(rawEph("key-twice", true, func(m *evil, r *rand.Rand) []byte { return append(ephMsg(m.pub[:]), ephMsg(m.pub[:])...) }))
	add(malformed{"eph:honest-then-garbage-frame", true, func(m *evil, r *rand.Rand) {
		if m.exchangeEph(nil) != nil {
			return
		}
		g := make([]byte, refSealed)
		r.Read(g)
		m.e.Write(g)
		m.hangUp()
	}})
	add(malformed{"eph:honest-then-short-frame", true, func(m *evil, r *rand.Rand) {
		if m.exchangeEph(nil) != nil {
			return
		}
		m.e.Write(m.s.sealStream(honestAuth(m))[:1000])
		m.hangUp()
	}})

	// ---- auth message, honestly sealed ----
	add(authPlain("honest", false, func(m *evil, r *rand.Rand) []byte { return honestAuth(m) }))
	add(authPlain("empty-message", true, func(m *evil, r *rand.Rand) []byte { return []byte{0} }))
	add(authPlain("no-public-key", true, func(m *evil, r *rand.Rand) []byte {
		return pbDelimited(pbBytes(nil, 2, m.sign(m.s.challenge[:])))
	}))
	add(authPlain("empty-public-key-message", true, func(m *evil, r *rand.Rand) []byte {
		return pbDelimited(pbBytes(pbBytes(nil, 1, nil), 2, m.sign(m.s.challenge[:])))
	}))
	add(authPlain("unknown-key-type", true, func(m *evil, r *rand.Rand) []byte {
		return pbDelimited(pbBytes(pbBytes(nil, 1, pbBytes(nil, 2, pubBytes(&m.key.PublicKey))), 2, m.sign(m.s.challenge[:])))
	}))
	pubVariants := map[string]func(k *ecdsa.PublicKey, r *rand.Rand) []byte{
		"empty":    func(k *ecdsa.PublicKey, r *rand.Rand) []byte { return []byte{} },
		"one-byte": func(k *ecdsa.PublicKey, r *rand.Rand) []byte { return []byte{4} },
		"32-bytes": func(k *ecdsa.PublicKey, r *rand.Rand) []byte { return pubBytes(k)[1:33] },
		"compressed": func(k *ecdsa.PublicKey, r *rand.Rand) []byte {
			return append([]byte{2 + byte(k.Y.Bit(0))}, pubBytes(k)[1:33]...)
		},
		"64-bytes":   func(k *ecdsa.PublicKey, r *rand.Rand) []byte { return pubBytes(k)[1:] },
		"prefix-5":   func(k *ecdsa.PublicKey, r *rand.Rand) []byte { b := pubBytes(k); b[0] = 5; return b },
		"prefix-0":   func(k *ecdsa.PublicKey, r *rand.Rand) []byte { b := pubBytes(k); b[0] = 0; return b },
		"hybrid-6":   func(k *ecdsa.PublicKey, r *rand.Rand) []byte { b := pubBytes(k); b[0] = 6 + byte(k.Y.Bit(0)); return b },
		"zero-point": func(k *ecdsa.PublicKey, r *rand.Rand) []byte { return append([]byte{4}, make([]byte, 64)...) },
		"off-curve":  func(k *ecdsa.PublicKey, r *rand.Rand) []byte { b := pubBytes(k); b[64] ^= 1; return b },
		"x-plus-p": func(k *ecdsa.PublicKey, r *rand.Rand) []byte {
			b := pubBytes(k)
			copy(b[1:33], secpP.FillBytes(make([]byte, 32)))
			return b
		},
		"all-ff": func(k *ecdsa.PublicKey, r *rand.Rand) []byte {
			return append([]byte{4}, bytes.Repeat([]byte{0xff}, 64)...)
		},
		"66-bytes":   func(k *ecdsa.PublicKey, r *rand.Rand) []byte { return append(pubBytes(k), 0) },
		"1000-bytes": func(k *ecdsa.PublicKey, r *rand.Rand) []byte { return append(pubBytes(k), make([]byte, 935)...) },
		"negated-y": func(k *ecdsa.PublicKey, r *rand.Rand) []byte {
			b := pubBytes(k)
			copy(b[33:], new(big.Int).Sub(secpP, k.Y).FillBytes(make([]byte, 32)))
			return b
		},
	}
	for _, n := range sortedKeys(pubVariants) {
		f := pubVariants[n]
		add(authPlain("public-key:"+n, true, func(m *evil, r *rand.Rand) []byte {
			return authMsg(f(&m.key.PublicKey, r), m.sign(m.s.challenge[:]))
		}))
	}
	sigVariants := map[string]func(sig []byte, r *rand.Rand) []byte{
		"empty":        func(s []byte, r *rand.Rand) []byte { return nil },
		"one-byte":     func(s []byte, r *rand.Rand) []byte { return s[:1] },
		"64-bytes":     func(s []byte, r *rand.Rand) []byte { return s[:64] },
		"66-bytes":     func(s []byte, r *rand.Rand) []byte { return append(s, 0) },
		"1000-bytes":   func(s []byte, r *rand.Rand) []byte { return append(s, make([]byte, 935)...) },
		"100000-bytes": func(s []byte, r *rand.Rand) []byte { return append(s, make([]byte, 100000-65)...) },
		"v-2":          func(s []byte, r *rand.Rand) []byte { s[64] = 2; return s },
		"v-3":          func(s []byte, r *rand.Rand) []byte { s[64] = 3; return s },
		"v-4":          func(s []byte, r *rand.Rand) []byte { s[64] += 4; return s },
		"v-27":         func(s []byte, r *rand.Rand) []byte { s[64] += 27; return s },
		"v-228":        func(s []byte, r *rand.Rand) []byte { s[64] = 228; return s },
		"v-229":        func(s []byte, r *rand.Rand) []byte { s[64] = 229; return s },
		"v-255":        func(s []byte, r *rand.Rand) []byte { s[64] = 255; return s },
		"r-zero":       func(s []byte, r *rand.Rand) []byte { copy(s[:32], make([]byte, 32)); return s },
		"s-zero":       func(s []byte, r *rand.Rand) []byte { copy(s[32:64], make([]byte, 32)); return s },
		"r-is-n":       func(s []byte, r *rand.Rand) []byte { copy(s[:32], secpN.FillBytes(make([]byte, 32))); return s },
		"s-is-n":       func(s []byte, r *rand.Rand) []byte { copy(s[32:64], secpN.FillBytes(make([]byte, 32))); return s },
		"r-all-ff":     func(s []byte, r *rand.Rand) []byte { copy(s[:32], bytes.Repeat([]byte{0xff}, 32)); return s },
		"s-all-ff":     func(s []byte, r *rand.Rand) []byte { copy(s[32:64], bytes.Repeat([]byte{0xff}, 32)); return s },
		"all-zero":     func(s []byte, r *rand.Rand) []byte { return make([]byte, 65) },
		"random":       func(s []byte, r *rand.Rand) []byte { r.Read(s); return s },
	}
	for _, n := range sortedKeys2(sigVariants) {
		f := sigVariants[n]
		// the claimed key is the attacker's own: completing as the attacker is never wrong
		add(authPlain("signature:"+n, false, func(m *evil, r *rand.Rand) []byte {
			return authMsg(pubBytes(&m.key.PublicKey), f(m.sign(m.s.challenge[:]), r))
		}))
	}
	// a high-s twin of the attacker's own signature is still the attacker's signature: may complete as M
	add(authPlain("signature:high-s-twin", false, func(m *evil, r *rand.Rand) []byte {
		s := m.sign(m.s.challenge[:])
		copy(s[32:64], new(big.Int).Sub(secpN, new(big.Int).SetBytes(s[32:64])).FillBytes(make([]byte, 32)))
		s[64] ^= 1
		return authMsg(pubBytes(&m.key.PublicKey), s)
	}))
	add(authPlain("declared-1MiB-plus-1", true, func(m *evil, r *rand.Rand) []byte { return pbUvarint(nil, 1<<20+1) }))
	add(authPlain("declared-1MiB-then-eof", true, func(m *evil, r *rand.Rand) []byte { return append(pbUvarint(nil, 1<<20), 9, 9) }))
	add(authPlain("declared-2^64-1", true, func(m *evil, r *rand.Rand) []byte { return pbUvarint(nil, 1<<64-1) }))
	add(authPlain("garbage", true, func(m *evil, r *rand.Rand) []byte { b := make([]byte, 1+r.Intn(3000)); r.Read(b); return b }))
	add(authPlain("cut", true, func(m *evil, r *rand.Rand) []byte { a := honestAuth(m); return a[:len(a)-1-r.Intn(len(a)-2)] }))
	add(authPlain("unknown-fields", false, func(m *evil, r *rand.Rand) []byte {
		a := honestAuth(m)
		_, n := uvarint(a)
		return pbDelimited(pbBytes(pbVarintField(append([]byte{}, a[n:]...), 9, 12345), 15, []byte("x")))
	}))
	add(authPlain("fields-repeated", false, func(m *evil, r *rand.Rand) []byte {
		a := honestAuth(m)
		_, n := uvarint(a)
		return pbDelimited(append(append([]byte{}, a[n:]...), a[n:]...))
	}))

	// ---- frames ----
	add(authFrames("one-byte-per-frame", false, func(m *evil, r *rand.Rand) []byte {
		var out []byte
		for _, b := range honestAuth(m) {
			out = append(out, m.s.sealFrame([]byte{b}, 1, 0)...)
		}
		return out
	}))
	add(authFrames("empty-frames-before-message", false, func(m *evil, r *rand.Rand) []byte {
		var out []byte
		for i := 0; i < 3; i++ {
			out = append(out, m.s.sealFrame(nil, 0, 0)...)
		}
		return append(out, m.s.sealStream(honestAuth(m))...)
	}))
	add(authFrames("empty-frames-inside-message", false, func(m *evil, r *rand.Rand) []byte {
		a := honestAuth(m)
		out := m.s.sealFrame(a[:10], 10, 0)
		for i := 0; i < 200; i++ {
			out = append(out, m.s.sealFrame(nil, 0, 0xEE)...)
		}
		return append(out, m.s.sealStream(a[10:])...)
	}))
	for _, L := range []uint32{1025, 1028, 2043, 2044, 2045, 4096, 1 << 16, 1 << 31, 1<<32 - 1} {
		L := L
		add(authFrames(fmt.Sprintf("declared-length-%d", L), true, func(m *evil, r *rand.Rand) []byte {
			return append(m.s.sealFrame(honestAuth(m), L, 0xEE), m.s.sealStream(honestAuth(m))...)
		}))
	}
	add(authFrames("nonce-skipped", true, func(m *evil, r *rand.Rand) []byte { m.s.sendCtr = 1; return m.s.sealStream(honestAuth(m)) }))
	add(authFrames("sealed-with-receive-key", true, func(m *evil, r *rand.Rand) []byte {
		m.s.send = m.s.recv
		return m.s.sealStream(honestAuth(m))
	}))
	return l
}

func sortedKeys(m map[string]func(*ecdsa.PublicKey, *rand.Rand) []byte) []string {
	var k []string
	for n := range m {
		k = append(k, n)
	}
	sortStrings(k)
	return k
}

func sortedKeys2(m map[string]func([]byte, *rand.Rand) []byte) []string {
	var k []string
	for n := range m {
		k = append(k, n)
	}
	sortStrings(k)
	return k
}

func sortStrings(a []string) {
	for i := 1; i < len(a); i++ {
		for j := i; j > 0 && a[j] < a[j-1]; j-- {
			a[j], a[j-1] = a[j-1], a[j]
		}
	}
}

var malformedCache []malformed

func malformedCount() int {
	if malformedCache == nil {
		malformedCache = malformedList()
	}
	return len(malformedCache)
}

// malformedCase: case i runs malformed script i % len (several seeds per script).
func malformedCase(c *core.Case) {
	n := malformedCount()
	mf := malformedCache[c.I%n]
	h := &hsHarness{c: c, names: map[string]string{}, keys: map[string]*ecdsa.PrivateKey{}}
	for _, k := range []string{"A", "B", "M", "V"} {
		h.key(k)
	}
	v := h.vsEvil("A", func(m *evil) { mf.script(m, c.R) })
	c.Run.Eval(1)
	c.Run.Count("malformed_handshakes", 1)
	c.Run.Distinct("malformed_scripts", mf.name)
	if h.timeout {
		return
	}
	scn := "malformed:" + mf.name
	if mf.mustFail {
		if h.judge(scn, v) {
			c.Run.Count("malformed_handshakes_rejected", 1)
			c.Run.Distinct("malformed_error_texts", trimErr(v.res.err))
		}
	} else {
		if h.judge(scn, v, "M") && v.res.err == nil {
			c.Run.Count("unusual_but_valid_handshakes_completed_as_attacker", 1)
		}
	}
	c.Run.Nontrivial(fmt.Sprint("malformed", mf.name, c.I/n))
}

func trimErr(e error) string {
	s := fmt.Sprint(e)
	if len(s) > 60 {
		s = s[:60]
	}
	return s
}

// craftedFrames: the attacker completes the handshake honestly (it is an authenticated
// peer) and then sends frames whose length field lies. The reader must deliver exactly the
// honest frames before it, then fail; nothing of or after the lying frame.
var craftedLengths = []uint32{1025, 1026, 1028, 1500, 2043, 2044, 2045, 2048, 4096, 1 << 16, 1 << 24, 1 << 31, 1<<32 - 1024, 1<<32 - 4, 1<<32 - 1}

func craftedFrames(c *core.Case) {
	run, r := c.Run, c.R
	L := craftedLengths[c.I%len(craftedLengths)]
	if c.I >= len(craftedLengths)*2 {
		L = 1025 + uint32(r.Int63n(1<<32-1025))
	}
	h := &hsHarness{c: c, names: map[string]string{}, keys: map[string]*ecdsa.PrivateKey{}}
	for _, k := range []string{"A", "M"} {
		h.key(k)
	}
	before := detBytes(r.Int63(), r.Intn(2500))
	after := detBytes(r.Int63(), 1+r.Intn(1500))
	d := newDuplex(r.Int63(), 1+r.Intn(3000), 0)
	var res hsResult
	m := newEvil(d.b, r, h.key("M"))
	done := make(chan struct{})
	go func() {
		defer close(done)
		defer d.b.out.closeWrite()
		if m.exchangeEph(nil) != nil {
			return
		}
		m.sendAuth(pubBytes(&m.key.PublicKey), m.sign(m.s.challenge[:]))
		if _, _, err := m.recvAuth(); err != nil {
			return
		}
		wire := m.s.sealStream(before)
		lie := make([]byte, 1024)
		for i := range lie {
			lie[i] = 0xEE
		}
		wire = append(wire, m.s.sealFrame(lie, L, 0xEE)...)
		wire = append(wire, m.s.sealStream(after)...)
		m.e.Write(wire)
	}()
	var wg = newWG(1)
	realHandshake(d.a, h.key("A"), &res, wg, false)
	if !waitOrWatchdog(wg, watchdog) {
		run.Inconclusive("watchdog: handshake before crafted frames did not finish")
		d.closeAll()
		return
	}
	wit := map[string]interface{}{"declared_length": L, "honest_bytes_before": len(before), "honest_bytes_after": len(after)}
	if res.err != nil {
		c.Violation("handshake:attacker-own-key:honest-failed", fmt.Sprintf("handshake with an honest-behaving peer failed: %v", res.err), wit)
		d.closeAll()
		return
	}
	rr := rand.New(rand.NewSource(r.Int63()))
	var got []byte
	var rerr error
	panicked := c.Guard("Read of a frame with a lying length field", func() interface{} { return wit }, func() {
		got, _, rerr = readAll(res.sc, func() int { return pickReadSize(rr) }, true)
	})
	d.closeAll()
	<-done
	run.Eval(1)
	run.Count("crafted_length_frames", 1)
	if panicked {
		return
	}
	wit["delivered"] = len(got)
	wit["read_error"] = fmt.Sprint(rerr)
	if !bytes.Equal(got, before) {
		what := "fewer bytes than the honest frames before it carried"
		key := "crafted-length:lost-bytes"
		if len(got) > len(before) {
			what = "bytes of or after the lying frame"
			key = "crafted-length:delivered"
			extra := got[min(len(before), len(got)):]
			if len(extra) > 48 {
				extra = extra[:48]
			}
			wit["first_extra_bytes"] = fmt.Sprintf("% x", extra)
		}
		c.Violation(key, fmt.Sprintf("a frame declaring %d data bytes (max 1024): the reader delivered %s (%d delivered, %d expected)", L, what, len(got), len(before)), wit)
		return
	}
	if rerr == nil || rerr == io.EOF {
		c.Violation("crafted-length:no-error", fmt.Sprintf("a frame declaring %d data bytes was not reported as an error (%v)", L, rerr), wit)
		return
	}
	run.Count("crafted_length_frames_rejected", 1)
	run.Nontrivial(fmt.Sprint("crafted", L, len(before)))
}

// zeroLengthFrames: an authenticated peer may send frames that carry no data; they must
// not disturb the stream (nothing delivered for them, following data intact).
func zeroLengthFrames(c *core.Case) {
	run, r := c.Run, c.R
	h := &hsHarness{c: c, names: map[string]string{}, keys: map[string]*ecdsa.PrivateKey{}}
	d := newDuplex(r.Int63(), 1+r.Intn(3000), 0)
	var res hsResult
	m := newEvil(d.b, r, h.key("M"))
	var want []byte
	nz := 0
	done := make(chan struct{})
	go func() {
		defer close(done)
		defer d.b.out.closeWrite()
		if m.exchangeEph(nil) != nil {
			return
		}
		m.sendAuth(pubBytes(&m.key.PublicKey), m.sign(m.s.challenge[:]))
		if _, _, err := m.recvAuth(); err != nil {
			return
		}
		var wire []byte
		for i, n := 0, 2+r.Intn(8); i < n; i++ {
			if r.Intn(2) == 0 {
				wire = append(wire, m.s.sealFrame(nil, 0, byte(r.Intn(256)))...)
				nz++
			} else {
				chunk := detBytes(r.Int63(), 1+r.Intn(1024))
				// short frames with dirty padding: only the declared bytes count
				wire = append(wire, m.s.sealFrame(chunk, uint32(len(chunk)), 0xEE)...)
				want = append(want, chunk...)
			}
		}
		m.e.Write(wire)
	}()
	wg := newWG(1)
	realHandshake(d.a, h.key("A"), &res, wg, false)
	if !waitOrWatchdog(wg, watchdog) {
		run.Inconclusive("watchdog: handshake before zero-length frames did not finish")
		d.closeAll()
		return
	}
	if res.err != nil {
		c.Violation("handshake:attacker-own-key:honest-failed", fmt.Sprintf("handshake with an honest-behaving peer failed: %v", res.err), nil)
		d.closeAll()
		return
	}
	rr := rand.New(rand.NewSource(r.Int63()))
	var got []byte
	var rerr error
	panicked := c.Guard("Read of zero-length frames", nil, func() {
		got, _, rerr = readAll(res.sc, func() int { return pickReadSize(rr) }, true)
	})
	d.closeAll()
	<-done
	run.Eval(1)
	if panicked {
		return
	}
	if kind, at := diffKind(got, want); kind != "" || rerr != io.EOF {
		c.Violation("stream:short-frames:"+kind, fmt.Sprintf("frames with 0..1024 declared bytes and non-zero padding: %s at %d, final error %v", kind, at, rerr),
			map[string]interface{}{"delivered": len(got), "expected": len(want), "zero_length_frames": nz})
		return
	}
	run.Count("short_and_empty_frame_streams", 1)
	run.Count("zero_length_frames", nz)
}
