package c20

import (
	"bytes"
	"fmt"
	"io"
	"math/rand"

	"verifharness/core"
)

// The on-path attacker of this file sees the a->b byte stream after the handshake as a
// sequence of sealed frames of refSealed (1044) bytes and rewrites it before b reads
// anything. Conversations are short; for each conversation EVERY frame position is
// combined with each manipulation (fault enumeration inside the exploration claim).

type manip struct {
	Kind string `json:"kind"`
	Pos  int    `json:"frame"`
	Arg  int    `json:"arg,omitempty"` // bit index / cut offset / source frame
}

func (m manip) String() string { return fmt.Sprintf("%s@%d/%d", m.Kind, m.Pos, m.Arg) }

var flipBits = []int{0, 7, 8, 31, 32, 39, 8 * 100, 8*1027 + 7, 8 * 1028, 8*1036 + 3, 8*1043 + 7}
var cutOffsets = []int{0, 1, 4, 522, 1028, 1043}

// manipsFor lists every manipulation applicable at the frame positions of a conversation
// of k frames (the enumerated space). other = frames available from the other sources.
func manipsFor(k int, extraBits []int) []manip {
	var out []manip
	for p := 0; p < k; p++ {
		for _, b := range flipBits {
			out = append(out, manip{"flip", p, b})
		}
		for _, b := range extraBits {
			out = append(out, manip{"flip", p, b})
		}
		out = append(out, manip{"drop", p, 0})
		out = append(out, manip{"duplicate", p, 0})
		if p+1 < k {
			out = append(out, manip{"swap", p, 0})
		}
		for _, o := range cutOffsets {
			out = append(out, manip{"truncate", p, o})
		}
		for q := 0; q < p; q++ {
			out = append(out, manip{"replay-insert", p, q})
			out = append(out, manip{"replay-replace", p, q})
		}
		out = append(out, manip{"other-session-replace", p, 0})
		out = append(out, manip{"other-session-insert", p, 0})
		out = append(out, manip{"reflect-replace", p, 0})
		out = append(out, manip{"garbage-insert", p, 0})
		out = append(out, manip{"zero-replace", p, 0})
	}
	// after the last frame
	out = append(out, manip{"replay-insert", k, 0})
	out = append(out, manip{"other-session-insert", k, 0})
	out = append(out, manip{"reflect-replace", k, 0})
	out = append(out, manip{"garbage-insert", k, 0})
	out = append(out, manip{"truncate", k, 1}) // a partial extra frame
	return out
}

func splitFrames(wire []byte) [][]byte {
	var f [][]byte
	for len(wire) >= refSealed {
		f = append(f, wire[:refSealed])
		wire = wire[refSealed:]
	}
	return f
}

// apply returns the manipulated wire.
func (m manip) apply(frames, other, reflected [][]byte, r *rand.Rand) []byte {
	cp := func(b []byte) []byte { return append([]byte{}, b...) }
	var out [][]byte
	p := m.Pos
	pick := func(src [][]byte, i int) []byte {
		if len(src) == 0 {
			return make([]byte, refSealed)
		}
		if i >= len(src) {
			i = len(src) - 1
		}
		return cp(src[i])
	}
	switch m.Kind {
	case "flip":
		for i, f := range frames {
			f = cp(f)
			if i == p {
				f[m.Arg/8] ^= 1 << uint(m.Arg%8)
			}
			out = append(out, f)
		}
	case "drop":
		for i, f := range frames {
			if i != p {
				out = append(out, f)
			}
		}
	case "duplicate":
		for i, f := range frames {
			out = append(out, f)
			if i == p {
				out = append(out, f)
			}
		}
	case "swap":
		out = append(out, frames...)
		out = append([][]byte{}, out...)
		out[p], out[p+1] = out[p+1], out[p]
	case "truncate":
		out = append(out, frames[:min(p, len(frames))]...)
		if p < len(frames) {
			out = append(out, frames[p][:m.Arg])
		} else {
			out = append(out, pick(frames, 0)[:m.Arg])
		}
	case "replay-insert":
		out = append(out, frames[:p]...)
		out = append(out, frames[m.Arg])
		out = append(out, frames[p:]...)
	case "replay-replace":
		out = append(out, frames...)
		out = append([][]byte{}, out...)
		out[p] = frames[m.Arg]
	case "other-session-replace":
		out = append([][]byte{}, frames...)
		out[p] = pick(other, p)
	case "other-session-insert":
		out = append(out, frames[:p]...)
		out = append(out, pick(other, p))
		out = append(out, frames[p:]...)
	case "reflect-replace":
		out = append([][]byte{}, frames...)
		if p < len(out) {
			out[p] = pick(reflected, p)
		} else {
			out = append(out, pick(reflected, p))
		}
	case "garbage-insert":
		g := make([]byte, refSealed)
		r.Read(g)
		out = append(out, frames[:p]...)
		out = append(out, g)
		out = append(out, frames[p:]...)
	case "zero-replace":
		out = append([][]byte{}, frames...)
		out[p] = make([]byte, refSealed)
	default:
		panic("unknown manipulation " + m.Kind)
	}
	return bytes.Join(out, nil)
}

func min(a, b int) int {
	if a < b {
		return a
	}
	return b
}

type conversation struct {
	Name   string `json:"name"`
	Writes []int  `json:"write_sizes"`
}

func (cv conversation) frames() int {
	k := 0
	for _, s := range cv.Writes {
		k += (s + 1023) / 1024
	}
	return k
}

// chunkEnds returns the cumulative plaintext length after each frame.
func (cv conversation) chunkEnds() []int {
	var ends []int
	t := 0
	for _, s := range cv.Writes {
		for s > 0 {
			n := min(s, 1024)
			t += n
			s -= n
			ends = append(ends, t)
		}
	}
	return ends
}

var tamperConversations = []conversation{
	{"one-byte", []int{1}},
	{"one-full-frame", []int{1024}},
	{"two-small", []int{5, 7}},
	{"frame-plus-one", []int{1025}},
	{"three-writes", []int{100, 1024, 3}},
	{"five-frames-one-write", []int{5 * 1024}},
	{"mixed", []int{1, 2048, 0, 1023, 1}},
	{"identical-plaintexts", []int{64, 64, 64, 64}},
}

// tamperSession runs one manipulation against a fresh honest session and judges it.
// Returns false when the run could not be judged.
func tamperSession(c *core.Case, cv conversation, m manip, sameData bool) {
	run, r := c.Run, c.R
	witness := func(extra map[string]interface{}) map[string]interface{} {
		w := map[string]interface{}{"conversation": cv, "manipulation": m}
		for k, v := range extra {
			w[k] = v
		}
		return w
	}
	total := sum(cv.Writes)
	var data []byte
	if sameData { // every write carries the same bytes: a replayed frame has the plaintext of the frame it replaces
		for _, s := range cv.Writes {
			data = append(data, bytes.Repeat([]byte{0x5A}, s)...)
		}
	} else {
		data = detBytes(r.Int63(), total)
	}
	session := func() (d *duplex, a, b hsResult, frames [][]byte, good bool) {
		d = newDuplex(r.Int63(), 1+r.Intn(3000), 0)
		a, b, ok := establish(d, detKey(r), detKey(r))
		if !ok {
			run.Inconclusive(fmt.Sprintf("watchdog: handshake of %s:%d did not finish", c.Group, c.I))
			return d, a, b, nil, false
		}
		if a.err != nil || b.err != nil {
			c.Violation("handshake:honest-failed", fmt.Sprintf("honest handshake failed: a=%v b=%v", a.err, b.err), witness(nil))
			d.closeAll()
			return d, a, b, nil, false
		}
		d.ab.setHold(true)
		if _, err := writeSizes(a.sc, cv.Writes, data); err != nil {
			c.Violation("stream:write-error", fmt.Sprintf("Write failed on an honest connection: %v", err), witness(nil))
			d.closeAll()
			return d, a, b, nil, false
		}
		wire := d.ab.takeHeld()
		if len(wire) != cv.frames()*refSealed {
			c.Violation("stream:wire-format", fmt.Sprintf("%d plaintext bytes in writes %v produced %d wire bytes, expected %d frames of %d", total, cv.Writes, len(wire), cv.frames(), refSealed), witness(nil))
			d.closeAll()
			return d, a, b, nil, false
		}
		return d, a, b, splitFrames(wire), true
	}
	d, _, b, frames, good := session()
	if !good {
		return
	}
	var other, reflected [][]byte
	switch m.Kind {
	case "other-session-replace", "other-session-insert":
		d2, _, _, f2, good2 := session()
		if !good2 {
			d.closeAll()
			return
		}
		d2.closeAll()
		other = f2
	case "reflect-replace":
		// frames b itself sent to a in this session, same plaintext
		d.ba.setHold(true)
		if _, err := writeSizes(b.sc, cv.Writes, data); err != nil {
			c.Violation("stream:write-error", fmt.Sprintf("Write failed on an honest connection: %v", err), witness(nil))
			d.closeAll()
			return
		}
		reflected = splitFrames(d.ba.takeHeld())
	}
	orig := bytes.Join(frames, nil)
	wire := m.apply(frames, other, reflected, r)
	// number of leading frames identical to the original
	intact := 0
	for intact < len(frames) && (intact+1)*refSealed <= len(wire) && bytes.Equal(wire[intact*refSealed:(intact+1)*refSealed], frames[intact]) {
		intact++
	}
	alignedPrefix := len(wire) == intact*refSealed && len(wire) <= len(orig)
	d.ab.inject(wire)
	d.ab.closeWrite()
	rr := rand.New(rand.NewSource(r.Int63()))
	var got []byte
	var rerr error
	panicked := c.Guard("Read of manipulated frames", func() interface{} { return witness(nil) }, func() {
		got, _, rerr = readAll(b.sc, func() int { return pickReadSize(rr) }, true)
	})
	d.closeAll()
	run.Eval(1)
	run.Count("tamper_runs", 1)
	run.Count("tamper:"+m.Kind, 1)
	if panicked {
		return
	}
	ends := cv.chunkEnds()
	intactBytes := 0
	if intact > 0 {
		intactBytes = ends[intact-1]
	}
	errStr := fmt.Sprint(rerr)
	w := witness(map[string]interface{}{"delivered": len(got), "written": len(data), "intact_leading_frames": intact, "bytes_in_intact_frames": intactBytes, "read_error": errStr})
	if len(got) > len(data) || !bytes.Equal(got, data[:len(got)]) {
		kind, at := diffKind(got, data)
		c.Violation("tamper:"+m.Kind+":delivered-"+kind, fmt.Sprintf("after %v the reader delivered bytes that are not a prefix of what was written (%s at offset %d)", m, kind, at), w)
		return
	}
	if len(got) > intactBytes {
		c.Violation("tamper:"+m.Kind+":manipulated-frame-accepted", fmt.Sprintf("after %v the reader delivered %d bytes although only %d bytes were in frames that arrived unmodified and in place", m, len(got), intactBytes), w)
		return
	}
	if rerr == nil {
		c.Violation("tamper:"+m.Kind+":no-error", fmt.Sprintf("after %v the reader returned no error", m), w)
		return
	}
	if !alignedPrefix && rerr == io.EOF {
		c.Violation("tamper:"+m.Kind+":clean-eof", fmt.Sprintf("after %v the reader reported a clean end of stream (io.EOF): the manipulation was not detected as an error", m), w)
		return
	}
	if alignedPrefix {
		run.Count("tamper_truncation_at_frame_boundary", 1)
		if rerr != io.EOF {
			run.Count("tamper_boundary_truncation_other_error", 1)
		}
	} else {
		run.Count("tamper_detected_as_error", 1)
		run.Distinct("tamper_error_texts", errStr)
	}
	if len(got) == intactBytes {
		run.Count("tamper_exact_prefix_delivered", 1)
	} else {
		run.Count("tamper_shorter_prefix_delivered", 1)
	}
	run.Nontrivial(fmt.Sprint("tamper", cv.Name, m, sameData))
}

// tamperEnumerate: case index = conversation; enumerates every position x manipulation.
func tamperEnumerate(c *core.Case) {
	if c.I >= len(tamperConversations) {
		return
	}
	cv := tamperConversations[c.I]
	ms := manipsFor(cv.frames(), nil)
	for _, m := range ms {
		tamperSession(c, cv, m, cv.Name == "identical-plaintexts")
		c.Run.Count("tamper_enumeration_runs", 1)
	}
	c.Run.Count("tamper_conversations", 1)
	c.Run.Count("tamper_enumerated_positions", cv.frames()+1)
	c.Run.Count("tamper_enumerated_manipulations", len(ms))
	if c.I == 2 {
		c.Run.Sample(map[string]interface{}{"group": c.Group, "conversation": cv, "manipulations_enumerated": len(ms), "first": ms[:4]})
	}
}

// tamperAllBytes: a two-frame conversation; one bit in EVERY byte of every frame.
func tamperAllBytes(c *core.Case) {
	cv := conversation{"all-bytes", []int{1024, 10}}
	const per = 58 // 2*1044 bytes = 36 cases of 58
	for i := c.I * per; i < (c.I+1)*per && i < 2*refSealed; i++ {
		m := manip{"flip", i / refSealed, (i%refSealed)*8 + c.R.Intn(8)}
		tamperSession(c, cv, m, false)
		c.Run.Count("tamper_all_bytes_positions", 1)
	}
}

// tamperRandom: random conversation, random manipulation (random bit, cut, source).
func tamperRandom(c *core.Case) {
	r := c.R
	cv := conversation{Name: "random"}
	for i, n := 0, 1+r.Intn(5); i < n; i++ {
		cv.Writes = append(cv.Writes, pickWriteSize(r)%2600)
	}
	k := cv.frames()
	if k == 0 {
		cv.Writes = append(cv.Writes, 1+r.Intn(2000))
		k = cv.frames()
	}
	ms := manipsFor(k, []int{r.Intn(refSealed * 8), r.Intn(refSealed * 8)})
	m := ms[r.Intn(len(ms))]
	if m.Kind == "truncate" {
		m.Arg = r.Intn(refSealed)
	}
	tamperSession(c, cv, m, r.Intn(8) == 0)
}
