package c20

import (
	"crypto/ecdsa"
	"fmt"
	"io"
	"net"
	"strings"
	"time"

	"github.com/kardiachain/go-kardia/configs"
	"github.com/kardiachain/go-kardia/lib/log"
	"github.com/kardiachain/go-kardia/lib/p2p"

	"verifharness/core"
)

// Transport level: the consumer of the secret connection (MultiplexTransport.upgrade)
// binds the authenticated key to the identity it dialed and to the identity the peer
// reports about itself. A real Switch with a real MultiplexTransport dials the attacker's
// TCP listener on the loopback interface, or is dialed by the attacker.

func nodeInfoFor(id p2p.ID, listen string, moniker string) p2p.DefaultNodeInfo {
	return p2p.DefaultNodeInfo{
		ProtocolVersion: p2p.NewProtocolVersion(1, 1, 0),
		DefaultNodeID:   id,
		ListenAddr:      listen,
		Network:         "c20",
		Version:         "1.0.0",
		Channels:        []byte{0x01},
		Moniker:         moniker,
	}
}

func realSwitch(key *ecdsa.PrivateKey, listen string) (*p2p.Switch, *p2p.MultiplexTransport, p2p.DefaultNodeInfo) {
	cfg := configs.DefaultP2PConfig()
	cfg.AllowDuplicateIP = true
	cfg.PexReactor = false
	nk := p2p.NodeKey{PrivKey: key}
	ni := nodeInfoFor(nk.ID(), listen, "real")
	t := p2p.NewMultiplexTransport(ni, nk, p2p.MConnConfig(cfg))
	sw := p2p.NewSwitch(cfg, t)
	sw.SetLogger(log.NewNopLogger())
	sw.SetNodeKey(&nk)
	sw.SetNodeInfo(ni)
	return sw, t, ni
}

// evilNodeInfo sends the attacker's self-description over the established session.
func (m *evil) sendNodeInfo(ni p2p.DefaultNodeInfo) {
	b, err := ni.ToProto().Marshal()
	if err != nil {
		panic(err)
	}
	m.e.Write(m.s.sealStream(pbDelimited(b)))
}

type transportScenario struct {
	name string
	// what the attacker claims
	dialVictimID   bool // the dialer believes the address belongs to the victim
	claimVictimKey bool // the attacker puts the victim's key into its auth message (own signature)
	reportVictimID bool // the attacker's NodeInfo carries the victim's ID
	mustReject     bool
}

var transportScenarios = []transportScenario{
	{name: "honest-attacker-under-own-identity", mustReject: false},
	{name: "attacker-at-victims-address", dialVictimID: true, mustReject: true},
	{name: "attacker-at-victims-address-reporting-victims-id", dialVictimID: true, reportVictimID: true, mustReject: true},
	{name: "attacker-at-victims-address-claiming-victims-key", dialVictimID: true, claimVictimKey: true, reportVictimID: true, mustReject: true},
	{name: "attacker-reporting-victims-id", reportVictimID: true, mustReject: true},
}

// outboundIdentity: the real switch dials an address where the attacker listens.
func outboundIdentity(c *core.Case) {
	run, r := c.Run, c.R
	sc := transportScenarios[c.I%len(transportScenarios)]
	kD, kM, kV := detKey(r), detKey(r), detKey(r)
	idM := p2p.PubKeyToID(kM.PublicKey)
	idV := p2p.PubKeyToID(kV.PublicKey)
	ln, err := net.Listen("tcp", "127.0.0.1:0")
	if err != nil {
		run.Inconclusive("cannot listen on the loopback interface: " + err.Error())
		return
	}
	defer ln.Close()
	var notes []string
	done := make(chan struct{})
	accepted := make(chan net.Conn, 1)
	go func() {
		defer close(done)
		cn, err := ln.Accept()
		if err != nil {
			return
		}
		accepted <- cn
		defer cn.Close()
		cn.SetDeadline(time.Now().Add(watchdog))
		m := newEvil(cn, r, kM)
		if m.exchangeEph(nil) != nil {
			notes = m.log
			return
		}
		pub := pubBytes(&kM.PublicKey)
		if sc.claimVictimKey {
			pub = pubBytes(&kV.PublicKey)
		}
		m.sendAuth(pub, m.sign(m.s.challenge[:]))
		id := idM
		if sc.reportVictimID {
			id = idV
		}
		m.sendNodeInfo(nodeInfoFor(id, ln.Addr().String(), "attacker"))
		m.recvAuth()
		m.hangUp()
		notes = m.log
	}()
	sw, _, _ := realSwitch(kD, "127.0.0.1:1")
	dialID := idM
	if sc.dialVictimID {
		dialID = idV
	}
	addr, err := p2p.NewNetAddressString(p2p.IDAddressString(dialID, ln.Addr().String()))
	if err != nil {
		run.Inconclusive("address: " + err.Error())
		return
	}
	var derr error
	panicked := c.Guard("DialPeerWithAddress", func() interface{} { return sc.name }, func() { derr = sw.DialPeerWithAddress(addr) })
	ln.Close()
	select {
	case cn := <-accepted:
		cn.Close() // the dial has returned: whatever the outcome, the attacker's socket is no longer needed
	default:
	}
	select {
	case <-done:
	case <-time.After(watchdog):
		run.Inconclusive("watchdog: attacker's side of transport scenario did not finish")
	}
	run.Eval(1)
	if panicked {
		return
	}
	out := "accepted"
	if derr != nil {
		out = "rejected"
	}
	run.Count("transport_outbound:"+sc.name+":"+out, 1)
	wit := map[string]interface{}{"scenario": sc.name, "dial_error": fmt.Sprint(derr), "dialed_id": dialID, "attacker_id": idM, "victim_id": idV, "attacker_notes": notes}
	if sc.mustReject && derr == nil {
		c.Violation("transport:"+sc.name+":accepted", fmt.Sprintf("%s: the transport accepted a peer as %s; the party at the other end holds only the key of %s", sc.name, dialID, idM), wit)
		return
	}
	if !sc.mustReject && derr != nil {
		if strings.Contains(derr.Error(), "timeout") || strings.Contains(derr.Error(), "deadline") {
			run.Inconclusive("transport: honest dial hit one of the transport's own wall-clock timeouts: " + derr.Error())
			return
		}
		c.Violation("transport:"+sc.name+":rejected", fmt.Sprintf("%s: a peer acting honestly under its own identity was rejected: %v", sc.name, derr), wit)
		return
	}
	if sc.mustReject {
		run.Count("transport_impersonations_rejected", 1)
		run.Distinct("transport_rejection_texts", trimDigitsHex(derr.Error()))
	}
	run.Nontrivial(fmt.Sprint("transport-out", sc.name, c.I))
}

func trimDigitsHex(s string) string {
	// drop ids, addresses and ports
	f := strings.Fields(s)
	var out []string
	for _, w := range f {
		if len(w) >= 12 || strings.ContainsAny(w, "0123456789") {
			continue
		}
		out = append(out, w)
	}
	return strings.Join(out, " ")
}

// inboundIdentity: the attacker dials a real listening switch and reports the victim's ID.
func inboundIdentity(c *core.Case) {
	run, r := c.Run, c.R
	reportVictim := c.I%2 == 0
	kD, kM, kV := detKey(r), detKey(r), detKey(r)
	idM := p2p.PubKeyToID(kM.PublicKey)
	idV := p2p.PubKeyToID(kV.PublicKey)
	// find a free port for the real transport
	var sw *p2p.Switch
	var listen string
	for try := 0; try < 5 && sw == nil; try++ {
		l, err := net.Listen("tcp", "127.0.0.1:0")
		if err != nil {
			continue
		}
		listen = l.Addr().String()
		l.Close()
		s, t, ni := realSwitch(kD, listen)
		na, err := p2p.NewNetAddressString(p2p.IDAddressString(ni.ID(), listen))
		if err != nil {
			continue
		}
		if err := t.Listen(*na); err != nil {
			continue
		}
		sw = s
		defer t.Close()
	}
	if sw == nil {
		run.Inconclusive("cannot give the real transport a loopback port")
		return
	}
	if err := sw.Start(); err != nil {
		run.Inconclusive("switch start: " + err.Error())
		return
	}
	defer sw.Stop()
	cn, err := net.DialTimeout("tcp", listen, 10*time.Second)
	if err != nil {
		run.Inconclusive("cannot connect to the real transport: " + err.Error())
		return
	}
	defer cn.Close()
	cn.SetDeadline(time.Now().Add(60 * time.Second))
	m := newEvil(cn, r, kM)
	closedByPeer := false
	func() {
		if m.exchangeEph(nil) != nil {
			return
		}
		m.sendAuth(pubBytes(&kM.PublicKey), m.sign(m.s.challenge[:]))
		id := idM
		if reportVictim {
			id = idV
		}
		m.sendNodeInfo(nodeInfoFor(id, "127.0.0.1:1", "attacker"))
		if _, _, err := m.recvAuth(); err != nil {
			return
		}
		if reportVictim {
			// wait for the listener to hang up (its way of rejecting)
			_, err := io.Copy(io.Discard, cn)
			closedByPeer = err == nil
		} else {
			// accepted peers stay connected: wait until the switch lists us
			for i := 0; i < 600 && !sw.Peers().Has(idM); i++ {
				time.Sleep(50 * time.Millisecond)
			}
		}
	}()
	run.Eval(1)
	hasV, hasM := sw.Peers().Has(idV), sw.Peers().Has(idM)
	wit := map[string]interface{}{"reports_victims_id": reportVictim, "attacker_id": idM, "victim_id": idV, "peer_set_has_victim": hasV, "peer_set_has_attacker": hasM, "attacker_notes": m.log}
	if hasV {
		c.Violation("transport:inbound:accepted-as-victim", "the switch lists the victim as a peer; the party at the other end holds only the attacker's key", wit)
		return
	}
	if reportVictim {
		if hasM {
			// under its true identity although it lied about it: not an impersonation
			run.Count("transport_inbound_liar_listed_under_true_identity", 1)
		}
		if !closedByPeer {
			run.Inconclusive("transport inbound: the listener did not hang up within the watchdog; absence of the victim in the peer set is not conclusive")
			return
		}
		run.Count("transport_impersonations_rejected", 1)
	} else {
		if !hasM {
			run.Inconclusive("transport inbound: an honest peer was not listed within the watchdog")
			return
		}
		run.Count("transport_inbound_honest_accepted", 1)
	}
	run.Nontrivial(fmt.Sprint("transport-in", reportVictim, c.I))
}
