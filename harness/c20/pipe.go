package c20

import (
	"errors"
	"io"
	"math/rand"
	"net"
	"sync"
	"time"
)

// half is one direction of the harness duplex: an unbounded in-memory byte queue
// whose Read side hands out chunks of harness-chosen sizes. Writes never block,
// so a conversation can be written completely before anything is read (needed by
// the man-in-the-middle groups, which manipulate the bytes in between).
type half struct {
	mu      sync.Mutex
	cond    *sync.Cond
	buf     []byte
	wclosed bool // writer closed: readers drain buf, then get io.EOF
	rclosed bool // reader closed: reads fail at once, writes fail
	eofErr  error

	rnd      *rand.Rand // chunk sizes (nil: as much as asked for)
	maxChunk int
	yield    int // 1/yield of the reads give up the processor first (0: never)

	hold bool   // man in the middle: written bytes are parked in held instead of buf
	held []byte //
	rec  bool   // record everything written (handshake transcripts)
	log  []byte

	gate    bool // network stall: writers block while it is set
	waiting int  // writers currently blocked at the gate

	written int64
	reads   int64
}

func newHalf(seed int64, maxChunk, yield int) *half {
	h := &half{maxChunk: maxChunk, yield: yield, eofErr: io.EOF}
	if maxChunk > 0 {
		h.rnd = rand.New(rand.NewSource(seed))
	}
	h.cond = sync.NewCond(&h.mu)
	return h
}

var errClosedPipe = errors.New("harness duplex: closed")

func (h *half) write(p []byte) (int, error) {
	h.mu.Lock()
	defer h.mu.Unlock()
	for h.gate && !h.wclosed && !h.rclosed {
		h.waiting++
		h.cond.Broadcast()
		h.cond.Wait()
		h.waiting--
	}
	if h.wclosed || h.rclosed {
		return 0, errClosedPipe
	}
	if h.rec {
		h.log = append(h.log, p...)
	}
	h.written += int64(len(p))
	if h.hold {
		h.held = append(h.held, p...)
	} else {
		h.buf = append(h.buf, p...)
	}
	h.cond.Broadcast()
	return len(p), nil
}

func (h *half) read(p []byte) (int, error) {
	h.mu.Lock()
	for len(h.buf) == 0 && !h.wclosed && !h.rclosed {
		h.cond.Wait()
	}
	if h.rclosed {
		h.mu.Unlock()
		return 0, errClosedPipe
	}
	if len(h.buf) == 0 {
		e := h.eofErr
		h.mu.Unlock()
		return 0, e
	}
	n := len(p)
	if n > len(h.buf) {
		n = len(h.buf)
	}
	doYield := false
	if h.rnd != nil && n > 0 {
		var k int
		switch h.rnd.Intn(4) {
		case 0:
			k = 1 + h.rnd.Intn(3)
		case 1:
			k = 1 + h.rnd.Intn(64)
		default:
			k = 1 + h.rnd.Intn(h.maxChunk)
		}
		if k < n {
			n = k
		}
		doYield = h.yield > 0 && h.rnd.Intn(h.yield) == 0
	}
	copy(p, h.buf[:n])
	h.buf = h.buf[n:]
	h.reads++
	h.mu.Unlock()
	if doYield {
		// a scheduling perturbation, never a decision
		time.Sleep(time.Duration(50) * time.Microsecond)
	}
	return n, nil
}

func (h *half) closeWrite() {
	h.mu.Lock()
	h.wclosed = true
	h.cond.Broadcast()
	h.mu.Unlock()
}

func (h *half) closeRead() {
	h.mu.Lock()
	h.rclosed = true
	h.cond.Broadcast()
	h.mu.Unlock()
}

// inject appends bytes to the readable side bypassing hold (man in the middle).
func (h *half) inject(p []byte) {
	h.mu.Lock()
	h.buf = append(h.buf, p...)
	h.cond.Broadcast()
	h.mu.Unlock()
}

func (h *half) setHold(on bool) {
	h.mu.Lock()
	h.hold = on
	h.mu.Unlock()
}

// setGate(true) stalls the direction: Write blocks until the gate is opened again.
func (h *half) setGate(on bool) {
	h.mu.Lock()
	h.gate = on
	h.cond.Broadcast()
	h.mu.Unlock()
}

// waitBlockedWriter waits until a writer is blocked at the gate; false = watchdog.
func (h *half) waitBlockedWriter(d time.Duration) bool {
	t := time.AfterFunc(d, func() { h.mu.Lock(); h.cond.Broadcast(); h.mu.Unlock() })
	defer t.Stop()
	start := time.Now()
	h.mu.Lock()
	defer h.mu.Unlock()
	for h.waiting == 0 {
		if time.Since(start) >= d || h.wclosed || h.rclosed {
			return false
		}
		h.cond.Wait()
	}
	return true
}

func (h *half) takeHeld() []byte {
	h.mu.Lock()
	b := h.held
	h.held = nil
	h.mu.Unlock()
	return b
}

func (h *half) setRecord(on bool) {
	h.mu.Lock()
	h.rec = on
	h.mu.Unlock()
}

func (h *half) recorded() []byte {
	h.mu.Lock()
	b := append([]byte{}, h.log...)
	h.mu.Unlock()
	return b
}

func (h *half) pending() int {
	h.mu.Lock()
	defer h.mu.Unlock()
	return len(h.buf)
}

// end is one endpoint of the duplex; it implements net.Conn.
type end struct {
	name string
	in   *half // we read from
	out  *half // we write to
	once sync.Once
}

type pipeAddr string

func (a pipeAddr) Network() string { return "harness" }
func (a pipeAddr) String() string  { return string(a) }

func (e *end) Read(p []byte) (int, error)  { return e.in.read(p) }
func (e *end) Write(p []byte) (int, error) { return e.out.write(p) }

// Close behaves like closing a TCP socket after the kernel has taken the data:
// what was written before stays readable by the peer, then the peer sees EOF;
// local reads fail.
func (e *end) Close() error {
	e.once.Do(func() {
		e.out.closeWrite()
		e.in.closeRead()
	})
	return nil
}
func (e *end) LocalAddr() net.Addr                { return pipeAddr(e.name) }
func (e *end) RemoteAddr() net.Addr               { return pipeAddr(e.name + "-peer") }
func (e *end) SetDeadline(t time.Time) error      { return nil }
func (e *end) SetReadDeadline(t time.Time) error  { return nil }
func (e *end) SetWriteDeadline(t time.Time) error { return nil }

var _ net.Conn = (*end)(nil)

// duplex joins two endpoints. ab carries a->b, ba carries b->a.
type duplex struct {
	a, b   *end
	ab, ba *half
}

// newDuplex: maxChunk 0 = unchunked reads; otherwise read chunk sizes are drawn
// from a PRNG seeded with seed (one per direction).
func newDuplex(seed int64, maxChunk, yield int) *duplex {
	ab := newHalf(seed*2+1, maxChunk, yield)
	ba := newHalf(seed*2+2, maxChunk, yield)
	d := &duplex{ab: ab, ba: ba}
	d.a = &end{name: "a", in: ba, out: ab}
	d.b = &end{name: "b", in: ab, out: ba}
	return d
}

func (d *duplex) closeAll() {
	d.a.Close()
	d.b.Close()
}
