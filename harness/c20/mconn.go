package c20

import (
	"crypto/sha256"
	"encoding/binary"
	"fmt"
	"math/rand"
	"net"
	"runtime"
	"strings"
	"sync"
	"sync/atomic"
	"time"

	"github.com/kardiachain/go-kardia/lib/log"
	"github.com/kardiachain/go-kardia/lib/p2p/conn"

	"verifharness/core"
)

// ---------------------------------------------------------------------------------------
// Observation: every Send/TrySend is recorded with logical call/return stamps, every
// onReceive and onError callback with the stamp at which it ran. One clock per case.
// ---------------------------------------------------------------------------------------

type chanSpec struct {
	ID       byte `json:"id"`
	Priority int  `json:"priority"`
	SendQ    int  `json:"send_queue"`
	RecvCap  int  `json:"recv_message_capacity"`
	RecvBuf  int  `json:"recv_buffer"`
}

type sendOp struct {
	Ch   int  `json:"ch"` // index into the channel list
	Size int  `json:"size"`
	Try  bool `json:"try,omitempty"`
}

type sendRec struct {
	Side   string `json:"side"`
	Sender int    `json:"sender"`
	Ch     byte   `json:"ch"`
	Ctr    uint32 `json:"ctr"`
	Size   int    `json:"size"`
	Try    bool   `json:"try,omitempty"`
	OK     bool   `json:"ok"`
	Call   int64  `json:"call"`
	Ret    int64  `json:"ret"`
	hash   [32]byte
}

type delivery struct {
	Ch    byte  `json:"ch"`
	Size  int   `json:"size"`
	Stamp int64 `json:"stamp"`
	hash  [32]byte
	head  []byte
}

type clock struct{ t int64 }

func (c *clock) tick() int64 { return atomic.AddInt64(&c.t, 1) }

// message builds the payload of (side, sender, channel, counter, size): a 16-byte header
// (as much of it as fits) followed by bytes derived from the header.
func message(side byte, sender int, ch byte, ctr uint32, size int) []byte {
	var hdr [16]byte
	hdr[0] = 0xC2
	hdr[1] = side
	hdr[2] = byte(sender)
	hdr[3] = ch
	binary.BigEndian.PutUint32(hdr[4:], ctr)
	binary.BigEndian.PutUint32(hdr[8:], uint32(size))
	s := sha256.Sum256(hdr[:12])
	copy(hdr[12:], s[:4])
	b := make([]byte, size)
	x := binary.BigEndian.Uint64(s[8:16]) | 1
	for i := 0; i < size; i++ {
		x ^= x << 13
		x ^= x >> 7
		x ^= x << 17
		b[i] = byte(x >> 24)
	}
	copy(b, hdr[:])
	return b
}

type mnode struct {
	side  string
	mc    *conn.MConnection
	clk   *clock
	mu    sync.Mutex
	recvd []delivery
	errs  []string
	errAt int64
	errCh chan struct{}
	sent  []*sendRec
	count int64 // deliveries, readable without the lock
	cond  *sync.Cond
}

func newNode(side string, clk *clock) *mnode {
	n := &mnode{side: side, clk: clk, errCh: make(chan struct{})}
	n.cond = sync.NewCond(&n.mu)
	return n
}

func (n *mnode) onReceive(ch byte, msg []byte) {
	d := delivery{Ch: ch, Size: len(msg), hash: sha256.Sum256(msg)}
	if len(msg) >= 16 {
		d.head = append([]byte{}, msg[:16]...)
	}
	n.mu.Lock()
	d.Stamp = n.clk.tick()
	n.recvd = append(n.recvd, d)
	atomic.AddInt64(&n.count, 1)
	n.cond.Broadcast()
	n.mu.Unlock()
}

func (n *mnode) onError(r interface{}) {
	n.mu.Lock()
	n.errs = append(n.errs, fmt.Sprint(r))
	if len(n.errs) == 1 {
		n.errAt = n.clk.tick()
		close(n.errCh)
	}
	n.cond.Broadcast()
	n.mu.Unlock()
}

func (n *mnode) waitErr(d time.Duration) bool {
	t := time.NewTimer(d)
	defer t.Stop()
	select {
	case <-n.errCh:
		return true
	case <-t.C:
		return false
	}
}

// waitCount waits until at least k messages were delivered or the connection reported
// an error; false = watchdog.
func (n *mnode) waitCount(k int, d time.Duration) bool {
	deadline := time.AfterFunc(d, func() { n.mu.Lock(); n.cond.Broadcast(); n.mu.Unlock() })
	defer deadline.Stop()
	start := time.Now()
	n.mu.Lock()
	defer n.mu.Unlock()
	for len(n.recvd) < k && len(n.errs) == 0 {
		if time.Since(start) >= d {
			return false
		}
		n.cond.Wait()
	}
	return true
}

func (n *mnode) snapshot() (recvd []delivery, errs []string, errAt int64) {
	n.mu.Lock()
	defer n.mu.Unlock()
	return append([]delivery{}, n.recvd...), append([]string{}, n.errs...), n.errAt
}

// send performs one Send/TrySend and records it.
func (n *mnode) send(sender int, spec chanSpec, ctr uint32, size int, try bool, log *[]*sendRec) *sendRec {
	msg := message(n.side[0], sender, spec.ID, ctr, size)
	rec := &sendRec{Side: n.side, Sender: sender, Ch: spec.ID, Ctr: ctr, Size: size, Try: try, hash: sha256.Sum256(msg)}
	rec.Call = n.clk.tick()
	if try {
		rec.OK = n.mc.TrySend(spec.ID, msg)
	} else {
		rec.OK = n.mc.Send(spec.ID, msg)
	}
	rec.Ret = n.clk.tick()
	*log = append(*log, rec)
	return rec
}

type mconnCfg struct {
	Channels  []chanSpec `json:"channels"`
	Payload   int        `json:"max_packet_payload"`
	FlushUs   int        `json:"flush_throttle_us"`
	Rate      int64      `json:"send_recv_rate"`
	Secret    bool       `json:"over_secret_connection"`
	Chunk     int        `json:"transport_chunk_max"`
	descs     []*conn.ChannelDescriptor
	mconnConf conn.MConnConfig
}

func (cfg *mconnCfg) build() {
	cfg.descs = nil
	for _, s := range cfg.Channels {
		cfg.descs = append(cfg.descs, &conn.ChannelDescriptor{ID: s.ID, Priority: s.Priority, SendQueueCapacity: s.SendQ, RecvMessageCapacity: s.RecvCap, RecvBufferCapacity: s.RecvBuf})
	}
	cfg.mconnConf = conn.DefaulKAIConnConfig()
	cfg.mconnConf.SendRate = cfg.Rate
	cfg.mconnConf.RecvRate = cfg.Rate
	cfg.mconnConf.MaxPacketMsgPayloadSize = cfg.Payload
	cfg.mconnConf.FlushThrottle = time.Duration(cfg.FlushUs) * time.Microsecond
	// no pings of its own during a case: the pong timeout (which must be shorter than the ping interval) is a wall-clock
	// decision of the code under test; pings from the peer, and the pongs they trigger while messages are being sent,
	// are the subject of group mconn-pongs
	cfg.mconnConf.PingInterval = 10 * time.Minute
	cfg.mconnConf.PongTimeout = 9 * time.Minute
}

type mpair struct {
	d    *duplex
	a, b *mnode
	clk  *clock
}

// startPair builds two real MConnections joined by the harness duplex, optionally with
// real SecretConnections in between. ok=false: could not be set up (already reported).
func startPair(c *core.Case, cfg *mconnCfg, wit interface{}) (*mpair, bool) {
	r := c.R
	cfg.build()
	p := &mpair{clk: &clock{}}
	p.d = newDuplex(r.Int63(), cfg.Chunk, 11)
	p.a, p.b = newNode("a", p.clk), newNode("b", p.clk)
	var ca, cb net.Conn = p.d.a, p.d.b
	if cfg.Secret {
		ra, rb, ok := establish(p.d, detKey(r), detKey(r))
		if !ok {
			c.Run.Inconclusive(fmt.Sprintf("watchdog: handshake of %s:%d did not finish", c.Group, c.I))
			return nil, false
		}
		if ra.err != nil || rb.err != nil {
			c.Violation("handshake:honest-failed", fmt.Sprintf("honest handshake failed: a=%v b=%v", ra.err, rb.err), wit)
			p.d.closeAll()
			return nil, false
		}
		ca, cb = ra.sc, rb.sc
	}
	p.a.mc = conn.NewMConnectionWithConfig(ca, cfg.descs, p.a.onReceive, p.a.onError, cfg.mconnConf)
	p.b.mc = conn.NewMConnectionWithConfig(cb, cfg.descs, p.b.onReceive, p.b.onError, cfg.mconnConf)
	p.a.mc.SetLogger(log.NewNopLogger())
	p.b.mc.SetLogger(log.NewNopLogger())
	if err := p.a.mc.Start(); err != nil {
		c.Violation("mconn:start-failed", err.Error(), wit)
		return nil, false
	}
	if err := p.b.mc.Start(); err != nil {
		c.Violation("mconn:start-failed", err.Error(), wit)
		return nil, false
	}
	return p, true
}

func (p *mpair) shutdown() {
	p.a.mc.Stop()
	p.b.mc.Stop()
	p.d.closeAll()
}

// randomChannels draws 1..6 channels. minCap: smallest receive capacity allowed.
func randomChannels(r *rand.Rand, payload, minCap int) []chanSpec {
	n := 1 + r.Intn(6)
	var out []chanSpec
	// channel ids are bytes: a third of the connections use ids of 0x80 and above (two bytes as a varint on the wire)
	base := []int{0x20, 0x20, 0x90, 0xc8}[r.Intn(4)]
	for i := 0; i < n; i++ {
		s := chanSpec{ID: byte(base + i*7 + r.Intn(7)), Priority: 1 + r.Intn(10), SendQ: 1 + r.Intn(4)}
		if r.Intn(4) == 0 {
			s.Priority = []int{1, 1, 100, 1000}[r.Intn(4)]
		}
		switch r.Intn(6) {
		case 0:
			s.RecvCap = []int{1, 2, 15, 16, 17}[r.Intn(5)]
		case 1:
			s.RecvCap = payload * (1 + r.Intn(3))
		case 2:
			s.RecvCap = payload*(1+r.Intn(3)) + []int{-1, 1}[r.Intn(2)]
		default:
			s.RecvCap = 1 + r.Intn(6000)
		}
		if s.RecvCap < minCap {
			s.RecvCap = minCap + r.Intn(3000)
		}
		if s.RecvCap < 1 {
			s.RecvCap = 1
		}
		s.RecvBuf = []int{0, 1, 16, 4096}[r.Intn(4)]
		out = append(out, s)
	}
	return out
}

func randomCfg(r *rand.Rand, minCap int) *mconnCfg {
	cfg := &mconnCfg{}
	switch r.Intn(5) {
	case 0:
		cfg.Payload = []int{1, 2, 3, 16, 1023, 1024}[r.Intn(6)]
	case 1:
		cfg.Payload = 1 + r.Intn(32)
	default:
		cfg.Payload = 1 + r.Intn(1024)
	}
	cfg.FlushUs = []int{1, 50, 200, 1000, 3000}[r.Intn(5)]
	cfg.Rate = []int64{0, 0, 1 << 40, 50_000_000}[r.Intn(4)]
	cfg.Secret = r.Intn(2) == 0
	cfg.Chunk = []int{0, 1 + r.Intn(16), 1 + r.Intn(3000), 1 + r.Intn(3000)}[r.Intn(4)]
	cfg.Channels = randomChannels(r, cfg.Payload, minCap)
	return cfg
}

// pickMsgSize draws a size in [lo, cap]; boundaries around multiples of the packet payload.
func pickMsgSize(r *rand.Rand, payload, lo, cp int) int {
	if cp < lo {
		return cp
	}
	var s int
	switch r.Intn(7) {
	case 0:
		s = payload*(r.Intn(5)) + []int{-1, 0, 1}[r.Intn(3)]
	case 1:
		s = cp - r.Intn(3)
	case 2:
		s = lo + r.Intn(3)
	case 3:
		s = lo + r.Intn(40)
	default:
		if payload < 8 { // tiny packets: keep the number of packets per message moderate
			s = lo + r.Intn(200)
		} else {
			s = lo + r.Intn(cp-lo+1)
		}
	}
	if s < lo {
		s = lo
	}
	if s > cp {
		s = cp
	}
	if payload < 8 && s > 600 {
		s = 600
	}
	return s
}

// ---------------------------------------------------------------------------------------
// Offline history checker
// ---------------------------------------------------------------------------------------

type chanVerdict struct {
	key  string
	what string
}

func sizeClass(n int) string {
	if n == 0 {
		return "empty-message"
	}
	return "message"
}

// checkDirection judges what `to` received against what `from` sent.
// complete: every send that returned true must have been delivered (the connection was
// flushed and read to its end); otherwise what was delivered must be a gap-free beginning.
// sequential: each channel had at most one sender goroutine (then the exact sequence is known,
// which also covers messages too short to carry an id).
func checkDirection(sent []*sendRec, recvd []delivery, specs []chanSpec, complete, sequential bool) *chanVerdict {
	byCh := map[byte][]*sendRec{}
	for _, s := range sent {
		byCh[s.Ch] = append(byCh[s.Ch], s)
	}
	rcCh := map[byte][]delivery{}
	known := map[byte]bool{}
	capOf := map[byte]int{}
	for _, s := range specs {
		known[s.ID] = true
		capOf[s.ID] = s.RecvCap
	}
	for _, d := range recvd {
		if !known[d.Ch] {
			return &chanVerdict{"mconn:delivered-on-unknown-channel", fmt.Sprintf("a message was delivered on channel %#x, which is not configured", d.Ch)}
		}
		if d.Size > capOf[d.Ch] {
			return &chanVerdict{"mconn:oversized-delivered", fmt.Sprintf("a message of %d bytes was delivered on channel %#x whose receive capacity is %d", d.Size, d.Ch, capOf[d.Ch])}
		}
		rcCh[d.Ch] = append(rcCh[d.Ch], d)
	}
	for _, spec := range specs {
		ch := spec.ID
		ss, ds := byCh[ch], rcCh[ch]
		byHash := map[[32]byte][]*sendRec{}
		for _, s := range ss {
			byHash[s.hash] = append(byHash[s.hash], s)
		}
		if sequential {
			// program order of the single sender = order of Call stamps
			var exp []*sendRec
			for _, s := range ss {
				if s.OK {
					exp = append(exp, s)
				}
			}
			for i, d := range ds {
				if i < len(exp) && exp[i].hash == d.hash {
					continue
				}
				// classify
				if i >= len(exp) {
					if cands := byHash[d.hash]; len(cands) > 0 {
						if !cands[0].OK && countOK(cands) == 0 {
							return &chanVerdict{"mconn:delivered-although-send-returned-false", fmt.Sprintf("channel %#x: message #%d (%d bytes) was delivered although %s returned false", ch, cands[0].Ctr, d.Size, kindName(cands[0]))}
						}
						return &chanVerdict{"mconn:duplicated", fmt.Sprintf("channel %#x: delivery %d repeats message #%d (%d bytes); %d messages were accepted for sending", ch, i, cands[0].Ctr, d.Size, len(exp))}
					}
					return &chanVerdict{"mconn:fabricated-or-corrupted", fmt.Sprintf("channel %#x: delivery %d (%d bytes) is not a message that was sent", ch, i, d.Size)}
				}
				if cands := byHash[d.hash]; len(cands) > 0 {
					if countOK(cands) == 0 {
						return &chanVerdict{"mconn:delivered-although-send-returned-false", fmt.Sprintf("channel %#x: message #%d (%d bytes) was delivered although %s returned false", ch, cands[0].Ctr, d.Size, kindName(cands[0]))}
					}
					later := false
					for _, cnd := range cands {
						if cnd.OK && cnd.Call > exp[i].Call {
							later = true
						}
					}
					if later {
						return &chanVerdict{"mconn:sent-not-delivered:" + sizeClass(exp[i].Size), fmt.Sprintf("channel %#x: message #%d (%d bytes, %s returned true) was skipped: delivery %d is the later message #%d", ch, exp[i].Ctr, exp[i].Size, kindName(exp[i]), i, cands[0].Ctr)}
					}
					return &chanVerdict{"mconn:duplicated-or-reordered", fmt.Sprintf("channel %#x: delivery %d is the earlier message #%d again, message #%d was due", ch, i, cands[0].Ctr, exp[i].Ctr)}
				}
				if i+1 < len(exp) && d.Size == exp[i].Size+exp[i+1].Size {
					return &chanVerdict{"mconn:messages-merged", fmt.Sprintf("channel %#x: delivery %d has %d bytes = the sizes of messages #%d and #%d together", ch, i, d.Size, exp[i].Ctr, exp[i+1].Ctr)}
				}
				if d.Size == exp[i].Size {
					return &chanVerdict{"mconn:corrupted", fmt.Sprintf("channel %#x: delivery %d has the size of message #%d (%d bytes) but different content", ch, i, exp[i].Ctr, d.Size)}
				}
				return &chanVerdict{"mconn:fabricated-or-corrupted", fmt.Sprintf("channel %#x: delivery %d (%d bytes) is not a message that was sent; message #%d (%d bytes) was due", ch, i, d.Size, exp[i].Ctr, exp[i].Size)}
			}
			if complete && len(ds) < len(exp) {
				m := exp[len(ds)]
				return &chanVerdict{"mconn:sent-not-delivered:" + sizeClass(m.Size), fmt.Sprintf("channel %#x: %d of %d accepted messages were delivered; the first missing one is #%d (%d bytes, %s returned true at stamp %d)", ch, len(ds), len(exp), m.Ctr, m.Size, kindName(m), m.Ret)}
			}
			continue
		}
		// concurrent senders: unique ids
		seen := map[[32]byte]int{}
		nextOf := map[int]uint32{} // per sender: counters must arrive ascending
		var order []*sendRec
		for i, d := range ds {
			cands := byHash[d.hash]
			if len(cands) == 0 {
				return &chanVerdict{"mconn:fabricated-or-corrupted", fmt.Sprintf("channel %#x: delivery %d (%d bytes) is not a message that was sent", ch, i, d.Size)}
			}
			s := cands[0]
			if j, dup := seen[d.hash]; dup {
				return &chanVerdict{"mconn:duplicated", fmt.Sprintf("channel %#x: message #%d of sender %d was delivered twice (deliveries %d and %d)", ch, s.Ctr, s.Sender, j, i)}
			}
			seen[d.hash] = i
			if !s.OK {
				return &chanVerdict{"mconn:delivered-although-send-returned-false", fmt.Sprintf("channel %#x: message #%d of sender %d was delivered although %s returned false", ch, s.Ctr, s.Sender, kindName(s))}
			}
			if last, ok := nextOf[s.Sender]; ok && s.Ctr < last {
				return &chanVerdict{"mconn:reordered", fmt.Sprintf("channel %#x: sender %d: message #%d was delivered after #%d", ch, s.Sender, s.Ctr, last)}
			}
			nextOf[s.Sender] = s.Ctr
			if d.Stamp < s.Call {
				return &chanVerdict{"mconn:delivered-before-sent", fmt.Sprintf("channel %#x: message #%d of sender %d was delivered at stamp %d, before its send was called (%d)", ch, s.Ctr, s.Sender, d.Stamp, s.Call)}
			}
			order = append(order, s)
		}
		// real-time order: if send x returned before send y was called, x is not delivered after y
		minRetLater := int64(1) << 62
		var minRec *sendRec
		for i := len(order) - 1; i >= 0; i-- {
			if minRetLater < order[i].Call {
				return &chanVerdict{"mconn:reordered", fmt.Sprintf("channel %#x: message #%d of sender %d (send returned at stamp %d) was delivered after message #%d of sender %d (send called at stamp %d)", ch, minRec.Ctr, minRec.Sender, minRec.Ret, order[i].Ctr, order[i].Sender, order[i].Call)}
			}
			if order[i].Ret < minRetLater {
				minRetLater, minRec = order[i].Ret, order[i]
			}
		}
		// no gaps: an accepted message that is missing although a message sent strictly later was delivered
		var maxCallDelivered int64 = -1
		for _, s := range order {
			if s.Call > maxCallDelivered {
				maxCallDelivered = s.Call
			}
		}
		for _, s := range ss {
			if !s.OK {
				continue
			}
			if _, ok := seen[s.hash]; ok {
				continue
			}
			if complete || s.Ret < maxCallDelivered {
				return &chanVerdict{"mconn:sent-not-delivered:" + sizeClass(s.Size), fmt.Sprintf("channel %#x: message #%d of sender %d (%d bytes, %s returned true at stamp %d) was never delivered", ch, s.Ctr, s.Sender, s.Size, kindName(s), s.Ret)}
			}
		}
	}
	return nil
}

func countOK(c []*sendRec) int {
	n := 0
	for _, s := range c {
		if s.OK {
			n++
		}
	}
	return n
}

func kindName(s *sendRec) string {
	if s.Try {
		return "TrySend"
	}
	return "Send"
}

func panicRecovered(errs []string) string {
	for _, e := range errs {
		if strings.Contains(e, "recovered from panic") {
			return e
		}
	}
	return ""
}

// ---------------------------------------------------------------------------------------
// Traffic cases
// ---------------------------------------------------------------------------------------

type trafficPlan struct {
	Cfg        *mconnCfg  `json:"config"`
	Mode       string     `json:"mode"` // sequential | concurrent
	Flusher    string     `json:"side_that_flushes_and_stops_first"`
	Senders    [][]sendOp `json:"flusher_side_senders"`
	Back       [][]sendOp `json:"other_side_senders,omitempty"`
	Stall      int        `json:"network_stall_after_op,omitempty"`
	AllowEmpty bool       `json:"empty_messages,omitempty"`
}

func genOps(r *rand.Rand, cfg *mconnCfg, chans []int, n int, lo int, allowEmpty bool) []sendOp {
	var ops []sendOp
	for i := 0; i < n; i++ {
		ci := chans[r.Intn(len(chans))]
		sp := cfg.Channels[ci]
		l := lo
		if l > sp.RecvCap {
			l = sp.RecvCap
		}
		size := pickMsgSize(r, cfg.Payload, l, sp.RecvCap)
		if size == 0 && !allowEmpty {
			size = 1
		}
		ops = append(ops, sendOp{Ch: ci, Size: size, Try: r.Intn(3) == 0})
	}
	return ops
}

func genTraffic(r *rand.Rand, allowEmpty bool) *trafficPlan {
	pl := &trafficPlan{AllowEmpty: allowEmpty}
	concurrent := r.Intn(3) == 0
	minCap := 1
	lo := 0
	if concurrent {
		pl.Mode = "concurrent"
		minCap, lo = 16, 16
	} else {
		pl.Mode = "sequential"
	}
	pl.Cfg = randomCfg(r, minCap)
	pl.Flusher = []string{"a", "b"}[r.Intn(2)]
	nch := len(pl.Cfg.Channels)
	gen := func(total int) [][]sendOp {
		var out [][]sendOp
		if concurrent {
			k := 2 + r.Intn(3)
			all := make([]int, nch)
			for i := range all {
				all[i] = i
			}
			for s := 0; s < k; s++ {
				out = append(out, genOps(r, pl.Cfg, all, total/k+1, lo, false))
			}
			return out
		}
		// sequential: every channel belongs to exactly one sender goroutine
		k := 1 + r.Intn(min(nch, 3))
		own := make([][]int, k)
		for ci := 0; ci < nch; ci++ {
			s := ci % k
			own[s] = append(own[s], ci)
		}
		for s := 0; s < k; s++ {
			out = append(out, genOps(r, pl.Cfg, own[s], total/k+1, lo, allowEmpty))
		}
		return out
	}
	pl.Senders = gen(10 + r.Intn(50))
	if r.Intn(2) == 0 {
		pl.Back = gen(5 + r.Intn(30))
		// the direction that is judged by counting never carries empty messages
		for _, ops := range pl.Back {
			for i := range ops {
				if ops[i].Size == 0 {
					ops[i].Size = 1
				}
			}
		}
	}
	if !concurrent && len(pl.Senders) == 1 && r.Intn(3) == 0 {
		pl.Stall = 1 + r.Intn(len(pl.Senders[0]))
		pl.Cfg.FlushUs = 1
	}
	return pl
}

func runSenders(n *mnode, cfg *mconnCfg, plan [][]sendOp, wg *sync.WaitGroup, logs [][]*sendRec, stall func(sender, op int)) {
	for s := range plan {
		wg.Add(1)
		go func(s int) {
			defer wg.Done()
			ctr := uint32(0)
			for i, op := range plan[s] {
				if stall != nil {
					stall(s, i)
				}
				n.send(s, cfg.Channels[op.Ch], ctr, op.Size, op.Try, &logs[s])
				ctr++
			}
		}(s)
	}
}

func flatten(logs [][]*sendRec) []*sendRec {
	var out []*sendRec
	for _, l := range logs {
		out = append(out, l...)
	}
	return out
}

func trafficCase(c *core.Case, pl *trafficPlan) {
	run := c.Run
	if strings.HasPrefix(c.Group, "race-") {
		run.Count("cases_under_race_detector", 1)
	}
	p, ok := startPair(c, pl.Cfg, pl)
	if !ok {
		return
	}
	defer p.shutdown()
	fl, other := p.a, p.b
	flOut := p.d.ab
	if pl.Flusher == "b" {
		fl, other = p.b, p.a
		flOut = p.d.ba
	}
	flLogs := make([][]*sendRec, len(pl.Senders))
	otLogs := make([][]*sendRec, len(pl.Back))
	var wg sync.WaitGroup
	var stallFn func(sender, op int)
	stalledSends, stalledRefused := 0, 0
	if pl.Stall > 0 {
		stallFn = func(sender, op int) {
			if op != pl.Stall {
				return
			}
			// the network stalls: writes of the flusher's connection block; TrySend until the queue overflows
			flOut.setGate(true)
			spec := pl.Cfg.Channels[pl.Senders[0][op].Ch]
			size := min(spec.RecvCap, 64)
			if size < 1 {
				size = 1
			}
			for k := 0; k < 3000 && stalledRefused < 3; k++ {
				rec := fl.send(sender, spec, uint32(1000000+k), size, true, &flLogs[sender])
				stalledSends++
				if !rec.OK {
					stalledRefused++
				}
			}
			flOut.setGate(false)
		}
	}
	runSenders(fl, pl.Cfg, pl.Senders, &wg, flLogs, stallFn)
	runSenders(other, pl.Cfg, pl.Back, &wg, otLogs, nil)
	// a bystander reads the connection's status and send hints while traffic flows (for the race detector)
	var sendersDone int32
	pollDone := make(chan struct{})
	go func() {
		defer close(pollDone)
		for i := 0; i < 300 && atomic.LoadInt32(&sendersDone) == 0; i++ {
			st := fl.mc.Status()
			for _, chs := range st.Channels {
				fl.mc.CanSend(chs.ID)
			}
			_ = other.mc.Status()
			runtime.Gosched()
		}
	}()
	defer func() { atomic.StoreInt32(&sendersDone, 1); <-pollDone }()
	if !waitOrWatchdog(&wg, watchdog) {
		run.Inconclusive(fmt.Sprintf("watchdog: senders of %s:%d did not finish", c.Group, c.I))
		return
	}
	flSent, otSent := flatten(flLogs), flatten(otLogs)
	for _, s := range flSent {
		if s.OK && s.Size == 0 {
			run.Count("mconn_empty_messages_accepted", 1)
		}
	}
	// the other side's messages: wait until the flusher has received as many as were accepted
	otOK := 0
	for _, s := range otSent {
		if s.OK {
			otOK++
		}
	}
	backComplete := true
	if !fl.waitCount(otOK, 60*time.Second) {
		backComplete = false
		// Slow or stuck? The wire decides, not the clock alone: if for a further 30 observations, one second apart, not a
		// byte is written to or read from either direction, nothing is left unread on the wire and neither side has
		// reported an error, then the accepted messages sit inside the sender with nothing under way that could move them
		// (the flush throttle is 100 us, the rates are unlimited or 50 MB/s, the next ping is 10 minutes away).
		type wire struct{ aw, ar, bw, br int64 }
		look := func() (wire, int) {
			p.d.ab.mu.Lock()
			w := wire{aw: p.d.ab.written, ar: int64(p.d.ab.reads)}
			pend := len(p.d.ab.buf)
			p.d.ab.mu.Unlock()
			p.d.ba.mu.Lock()
			w.bw, w.br = p.d.ba.written, int64(p.d.ba.reads)
			pend += len(p.d.ba.buf)
			p.d.ba.mu.Unlock()
			return w, pend
		}
		w0, pend := look()
		idle := pend == 0
		for i := 0; i < 30 && idle; i++ {
			time.Sleep(time.Second)
			w1, p1 := look()
			if w1 != w0 || p1 != 0 {
				idle = false
			}
		}
		flR, flE, _ := fl.snapshot()
		_, otE, _ := other.snapshot()
		if idle && len(flE) == 0 && len(otE) == 0 && len(flR) < otOK {
			c.Violation("mconn:accepted-messages-stuck-in-the-sender", fmt.Sprintf("%d messages were accepted by Send on side %s, %d were delivered; 60 s later and for 30 further seconds not a byte moved on the wire in either direction, the wire is empty and neither side reported an error: the rest sits in the sender with nothing under way to flush it", otOK, other.side, len(flR)),
				map[string]interface{}{"plan": pl, "accepted": otOK, "delivered": len(flR)})
			return
		}
		run.Inconclusive(fmt.Sprintf("watchdog: %s:%d: %d messages accepted on side %s, not all delivered within the watchdog", c.Group, c.I, otOK, other.side))
	}
	// flush and stop: everything accepted by the flusher is on the wire before its connection closes;
	// the other side reads to the end of the stream and reports it
	fl.mc.FlushStop()
	if !other.waitErr(watchdog) {
		run.Inconclusive(fmt.Sprintf("watchdog: %s:%d: side %s never reported the end of the stream", c.Group, c.I, other.side))
		return
	}
	run.Eval(1)
	flRecvd, flErrs, _ := fl.snapshot()
	otRecvd, otErrs, _ := other.snapshot()
	wit := func() interface{} {
		return map[string]interface{}{"plan": pl, "sent_by_flusher": trimRecs(flSent), "sent_by_other": trimRecs(otSent),
			"delivered_at_other": trimDel(otRecvd), "delivered_at_flusher": trimDel(flRecvd), "errors_flusher": flErrs, "errors_other": otErrs}
	}
	if e := panicRecovered(append(append([]string{}, flErrs...), otErrs...)); e != "" {
		c.Violation("mconn:panic-recovered", "a connection goroutine panicked: "+firstLine(e), wit())
		return
	}
	if len(otErrs) != 1 {
		c.Violation("mconn:onerror-count", fmt.Sprintf("onError was called %d times on side %s", len(otErrs), other.side), wit())
		return
	}
	if !strings.Contains(otErrs[0], "EOF") {
		c.Violation("mconn:spurious-error", fmt.Sprintf("honest traffic: side %s reported %q instead of the end of the stream", other.side, otErrs[0]), wit())
		return
	}
	seq := pl.Mode == "sequential"
	if v := checkDirection(flSent, otRecvd, pl.Cfg.Channels, true, seq); v != nil {
		c.Violation(v.key, "flushed direction: "+v.what, wit())
		return
	}
	if v := checkDirection(otSent, flRecvd, pl.Cfg.Channels, backComplete && len(flErrs) == 0, seq); v != nil {
		c.Violation(v.key, "other direction: "+v.what, wit())
		return
	}
	// bookkeeping
	nOK, nFalse, nTryFalse, packets := 0, 0, 0, 0
	for _, s := range append(append([]*sendRec{}, flSent...), otSent...) {
		if s.OK {
			nOK++
			packets += (s.Size + pl.Cfg.Payload - 1) / pl.Cfg.Payload
			for _, sp := range pl.Cfg.Channels {
				if sp.ID == s.Ch && s.Size == sp.RecvCap {
					run.Count("mconn_messages_of_exactly_capacity", 1)
				}
			}
			if s.Size > 0 && s.Size%pl.Cfg.Payload == 0 {
				run.Count("mconn_messages_multiple_of_packet_size", 1)
			}
		} else {
			nFalse++
			if s.Try {
				nTryFalse++
			}
		}
	}
	run.Count("mconn_cases", 1)
	run.Count("mconn_messages_delivered", len(flRecvd)+len(otRecvd))
	run.Count("mconn_sends_true", nOK)
	run.Count("mconn_sends_false", nFalse)
	run.Count("mconn_trysend_false", nTryFalse)
	run.Count("mconn_packets", packets)
	run.Count("mconn_mode:"+pl.Mode, 1)
	if pl.Stall > 0 {
		run.Count("mconn_network_stalls", 1)
		run.Count("mconn_stall_trysends", stalledSends)
		run.Count("mconn_stall_refused", stalledRefused)
	}
	if pl.Cfg.Secret {
		run.Count("mconn_over_secret_connection", 1)
	}
	run.Distinct("mconn_channel_counts", fmt.Sprint(len(pl.Cfg.Channels)))
	run.Distinct("mconn_payload_sizes", fmt.Sprint(pl.Cfg.Payload))
	// interleaving across channels at the receiver
	sw := 0
	for i := 1; i < len(otRecvd); i++ {
		if otRecvd[i].Ch != otRecvd[i-1].Ch {
			sw++
		}
	}
	run.Count("mconn_channel_switches_at_receiver", sw)
	if nOK >= 5 && packets > nOK {
		run.Nontrivial(fmt.Sprint("mconn", c.Group, c.I, len(pl.Cfg.Channels), pl.Cfg.Payload, nOK))
	}
	if c.I == 1 {
		run.Sample(map[string]interface{}{"group": c.Group, "case": c.I, "config": pl.Cfg, "mode": pl.Mode, "messages_accepted": nOK, "refused": nFalse, "packets": packets, "delivered": len(flRecvd) + len(otRecvd)})
	}
}

func firstLine(s string) string {
	if i := strings.IndexByte(s, '\n'); i > 0 {
		s = s[:i]
	}
	if len(s) > 300 {
		s = s[:300]
	}
	return s
}

func trimRecs(r []*sendRec) interface{} {
	if len(r) > 400 {
		return map[string]interface{}{"first_400_of": len(r), "records": r[:400]}
	}
	return r
}

func trimDel(d []delivery) interface{} {
	if len(d) > 400 {
		return map[string]interface{}{"first_400_of": len(d), "records": d[:400]}
	}
	return d
}

func trafficRandom(c *core.Case) {
	trafficCase(c, genTraffic(c.R, false))
}

// fixed boundary corpus: message sizes around k*payload and around the capacity, one and
// two channels, with and without the secret connection.
func trafficCorpus(c *core.Case) {
	payloads := []int{1, 7, 64, 1024}
	if c.I >= len(payloads)*4 {
		return
	}
	pay := payloads[c.I%len(payloads)]
	variant := c.I / len(payloads)
	cp := pay*3 + 1
	cfg := &mconnCfg{Payload: pay, FlushUs: 100, Rate: 0, Secret: variant%2 == 1, Chunk: []int{0, 5, 1000, 1044}[c.I%4]}
	cfg.Channels = []chanSpec{{ID: 0x30, Priority: 1, SendQ: 2, RecvCap: cp, RecvBuf: 1}}
	if variant >= 2 {
		cfg.Channels = append(cfg.Channels, chanSpec{ID: 0x40, Priority: 5, SendQ: 1, RecvCap: pay * 2, RecvBuf: 4096})
	}
	pl := &trafficPlan{Cfg: cfg, Mode: "sequential", Flusher: "a"}
	sizes := []int{1, pay - 1, pay, pay + 1, 2*pay - 1, 2 * pay, 2*pay + 1, 3 * pay, cp - 1, cp, 1, pay, pay, cp}
	var ops []sendOp
	for i, s := range sizes {
		if s < 1 {
			s = 1
		}
		ch := 0
		if len(cfg.Channels) == 2 && i%2 == 1 && s <= pay*2 {
			ch = 1
		}
		ops = append(ops, sendOp{Ch: ch, Size: s})
	}
	pl.Senders = [][]sendOp{ops}
	trafficCase(c, pl)
}

// emptyMessages: messages of size 0 mixed with others on several channels.
func emptyMessages(c *core.Case) {
	r := c.R
	pl := genTraffic(r, true)
	for pl.Mode != "sequential" || len(pl.Cfg.Channels) < 2 {
		pl = genTraffic(r, true)
	}
	pl.Back = nil
	for _, ops := range pl.Senders {
		for i := range ops {
			if r.Intn(3) == 0 {
				ops[i].Size = 0
			}
		}
	}
	trafficCase(c, pl)
}
