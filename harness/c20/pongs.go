package c20

import (
	"bytes"
	"fmt"
	"io"
	"runtime"
	"sync"
	"time"

	"github.com/kardiachain/go-kardia/lib/log"
	"github.com/kardiachain/go-kardia/lib/p2p/conn"

	"verifharness/core"
)

// Group mconn-pongs: a real MConnection sends a batch of messages while its peer - a raw writer on the harness duplex -
// floods it with pings. Every ping makes the connection write a pong, i.e. there is a second reason to write while
// the send routine is writing. The byte stream the peer reads must stay a sequence of well-formed packets whose
// message packets reassemble to exactly what was sent, in order. (The same workload runs under the race detector.)

type rawPacket struct {
	kind    int // 1 ping, 2 pong, 3 message packet
	channel uint64
	eof     bool
	data    []byte
}

func parseRawPacket(b []byte) (p rawPacket, err error) {
	field := func(b []byte) (num int, wt int, val []byte, v uint64, rest []byte, err error) {
		t, n := rawUvarint(b)
		if n <= 0 {
			return 0, 0, nil, 0, nil, fmt.Errorf("bad tag")
		}
		b = b[n:]
		num, wt = int(t>>3), int(t&7)
		switch wt {
		case 0:
			v, n = rawUvarint(b)
			if n <= 0 {
				return 0, 0, nil, 0, nil, fmt.Errorf("bad varint")
			}
			return num, wt, nil, v, b[n:], nil
		case 2:
			l, n := rawUvarint(b)
			if n <= 0 || uint64(len(b)-n) < l {
				return 0, 0, nil, 0, nil, fmt.Errorf("bad length")
			}
			return num, wt, b[n : n+int(l)], 0, b[n+int(l):], nil
		}
		return 0, 0, nil, 0, nil, fmt.Errorf("illegal wire type %d", wt)
	}
	num, wt, val, _, rest, err := field(b)
	if err != nil {
		return p, err
	}
	if wt != 2 || len(rest) != 0 || num < 1 || num > 3 {
		return p, fmt.Errorf("packet is not exactly one of ping/pong/message (field %d, wire type %d, %d trailing bytes)", num, wt, len(rest))
	}
	p.kind = num
	if num != 3 {
		if len(val) != 0 {
			return p, fmt.Errorf("ping/pong with %d bytes of content", len(val))
		}
		return p, nil
	}
	for len(val) > 0 {
		n, w, bv, v, r2, err := field(val)
		if err != nil {
			return p, fmt.Errorf("message packet: %v", err)
		}
		switch {
		case n == 1 && w == 0:
			p.channel = v
		case n == 2 && w == 0:
			p.eof = v != 0
		case n == 3 && w == 2:
			p.data = bv
		default:
			return p, fmt.Errorf("message packet: unexpected field %d (wire type %d)", n, w)
		}
		val = r2
	}
	return p, nil
}

func rawUvarint(b []byte) (uint64, int) {
	var x uint64
	var s uint
	for i, c := range b {
		if i == 10 {
			return 0, -1
		}
		if c < 0x80 {
			return x | uint64(c)<<s, i + 1
		}
		x |= uint64(c&0x7f) << s
		s += 7
	}
	return 0, 0
}

func pongCase(c *core.Case) {
	run, r := c.Run, c.R
	payload := []int{64, 512, 1024}[r.Intn(3)]
	cfg := &mconnCfg{Payload: payload, FlushUs: []int{1, 100}[r.Intn(2)], Rate: 0, Chunk: 0}
	cfg.Channels = []chanSpec{{ID: 0x40, Priority: 1, SendQ: 8, RecvCap: 1 << 20, RecvBuf: 4096}}
	cfg.build()
	clk := &clock{}
	b := newNode("b", clk)
	d := newDuplex(r.Int63(), 0, 0)
	b.mc = conn.NewMConnectionWithConfig(d.b, cfg.descs, b.onReceive, b.onError, cfg.mconnConf)
	b.mc.SetLogger(log.NewNopLogger())
	if err := b.mc.Start(); err != nil {
		c.Violation("mconn:start-failed", err.Error(), nil)
		return
	}
	nMsgs := 40 + r.Intn(60)
	msgs := make([][]byte, nMsgs)
	for i := range msgs {
		msgs[i] = message('p', 0, 0x40, uint32(i), 16+r.Intn(6*payload))
	}
	nPings := 1500 + r.Intn(1500)
	stop := make(chan struct{})
	var wg sync.WaitGroup
	wg.Add(2)
	go func() { // the peer's pings
		defer wg.Done()
		ping := pbDelimited(pbBytes(nil, 1, nil))
		for i := 0; i < nPings; i++ {
			select {
			case <-stop:
				return
			default:
			}
			if _, err := d.a.Write(ping); err != nil {
				return
			}
			if i%16 == 0 {
				runtime.Gosched()
			}
		}
	}()
	go func() { // the connection's own traffic
		defer wg.Done()
		for _, m := range msgs {
			if !b.mc.Send(0x40, m) {
				return
			}
		}
	}()
	wit := map[string]interface{}{"config": cfg, "messages": nMsgs, "pings": nPings}
	// the peer reads and parses until every message has arrived
	type result struct {
		err   string
		pongs int
	}
	resCh := make(chan result, 1)
	go func() {
		var cur []byte
		got, pongs := 0, 0
		for got < nMsgs {
			l, err := readUvarint(d.a)
			if err != nil {
				resCh <- result{fmt.Sprintf("stream ended after %d of %d messages: %v", got, nMsgs, err), pongs}
				return
			}
			if l > uint64(payload)+64 {
				resCh <- result{fmt.Sprintf("packet length prefix %d is larger than any packet the connection can write (payload limit %d)", l, payload), pongs}
				return
			}
			buf := make([]byte, l)
			if _, err := io.ReadFull(d.a, buf); err != nil {
				resCh <- result{fmt.Sprintf("stream ended inside a packet: %v", err), pongs}
				return
			}
			p, err := parseRawPacket(buf)
			if err != nil {
				resCh <- result{fmt.Sprintf("after %d messages and %d pongs the stream holds a malformed packet (% x): %v", got, pongs, buf[:min(len(buf), 24)], err), pongs}
				return
			}
			switch p.kind {
			case 2:
				pongs++
			case 3:
				if p.channel != 0x40 {
					resCh <- result{fmt.Sprintf("message packet for channel %#x", p.channel), pongs}
					return
				}
				cur = append(cur, p.data...)
				if p.eof {
					if !bytes.Equal(cur, msgs[got]) {
						resCh <- result{fmt.Sprintf("message %d arrives changed (%d bytes, sent %d)", got, len(cur), len(msgs[got])), pongs}
						return
					}
					got++
					cur = nil
				}
			}
		}
		resCh <- result{"", pongs}
	}()
	var res result
	select {
	case res = <-resCh:
	case <-time.After(watchdog):
		close(stop)
		run.Inconclusive(fmt.Sprintf("watchdog: %s:%d: the messages did not arrive", c.Group, c.I))
		b.mc.Stop()
		d.closeAll()
		return
	}
	close(stop)
	b.mc.Stop()
	d.closeAll()
	wg.Wait()
	run.Eval(1)
	run.Count("pong_cases", 1)
	run.Count("pong_cases_pongs_seen_between_message_packets", res.pongs)
	_, errs, _ := b.snapshot()
	if e := panicRecovered(errs); e != "" {
		c.Violation("mconn:panic-recovered:pongs-while-sending", firstLine(e), wit)
		return
	}
	if res.err != "" {
		c.Violation("mconn:stream-corrupted-while-answering-pings", res.err, wit)
		return
	}
	if res.pongs > 0 {
		run.Nontrivial(fmt.Sprint("pongs", c.I, nMsgs, res.pongs))
	}
}
