package c20

import (
	"bytes"
	"crypto/ecdsa"
	"encoding/hex"
	"fmt"
	"io"
	"math/big"
	"math/rand"
	"sync"

	"github.com/kardiachain/go-kardia/lib/crypto"

	"verifharness/core"
)

// evil is the attacker: it owns a long-term key, speaks the protocol through the
// reference implementation (ref.go) and deviates where a scenario tells it to.
type evil struct {
	e    io.ReadWriter // *end of the harness duplex, or a TCP connection
	r    *rand.Rand
	key  *ecdsa.PrivateKey
	pub  [32]byte // ephemeral key it considers its own
	priv [32]byte
	s    *refSession
	log  []string
	// forceDH: the shared secret the attacker knows its victim will compute (low-order points)
	forceDH *[32]byte
}

func newEvil(e io.ReadWriter, r *rand.Rand, key *ecdsa.PrivateKey) *evil {
	m := &evil{e: e, r: r, key: key}
	m.pub, m.priv = refEphemeral(r)
	return m
}

// hangUp: the attacker has said everything: it closes its sending direction (the endpoint
// sees the end of the stream after what was sent) and reads until the endpoint hangs up.
func (m *evil) hangUp() {
	switch e := m.e.(type) {
	case *end:
		e.out.closeWrite()
	case interface{ CloseWrite() error }:
		e.CloseWrite()
	}
	io.Copy(io.Discard, m.e)
}

func (m *evil) note(f string, a ...interface{}) { m.log = append(m.log, fmt.Sprintf(f, a...)) }

// exchangeEph sends `raw` as first message (nil: the honest encoding of m.pub), reads the
// peer's key and derives the session as if `seen` had been sent (nil: m.pub).
func (m *evil) exchangeEph(raw []byte) error {
	if raw == nil {
		raw = ephMsg(m.pub[:])
	}
	m.e.Write(raw)
	rem, _, err := readEphMsg(m.e)
	if err != nil {
		m.note("reading the peer's ephemeral key: %v", err)
		return err
	}
	if m.forceDH != nil {
		m.s = refDeriveDH(m.pub, m.priv, rem, *m.forceDH)
	} else {
		m.s = refDerive(m.pub, m.priv, rem)
	}
	return nil
}

// recvAuth reads and opens the peer's auth message (one frame for an honest peer).
func (m *evil) recvAuth() (pub, sig []byte, err error) {
	fr := make([]byte, refSealed)
	if _, err = io.ReadFull(m.e, fr); err != nil {
		m.note("reading the peer's auth frame: %v", err)
		return nil, nil, err
	}
	data, _, err := m.s.openFrame(fr)
	if err != nil {
		m.note("opening the peer's auth frame: %v", err)
		return nil, nil, err
	}
	l, n := uvarint(data)
	if n <= 0 || int(l) != len(data)-n {
		return nil, nil, fmt.Errorf("auth frame: length prefix %d for %d bytes", l, len(data)-n)
	}
	return parseAuthMsg(data[n:])
}

func uvarint(b []byte) (uint64, int) {
	var x uint64
	var s uint
	for i, c := range b {
		if i == 10 {
			return 0, -1
		}
		if c < 0x80 {
			return x | uint64(c)<<s, i + 1
		}
		x |= uint64(c&0x7f) << s
		s += 7
	}
	return 0, 0
}

func (m *evil) sign(challenge []byte) []byte {
	sig, err := crypto.Sign(challenge, m.key)
	if err != nil {
		panic(err)
	}
	return sig
}

// sendAuth sends an auth message with the given claimed key and signature.
func (m *evil) sendAuth(pub, sig []byte) { m.e.Write(m.s.sealStream(authMsg(pub, sig))) }

// verifies that sig is a signature of `challenge` by the holder of pub (reference check,
// via public key recovery of the curve library).
func sigBy(pub, sig, challenge []byte) bool {
	if len(sig) != 65 {
		return false
	}
	rec, err := crypto.Ecrecover(challenge, sig)
	return err == nil && bytes.Equal(rec, pub)
}

type realSide struct {
	name string
	key  *ecdsa.PrivateKey
	res  hsResult
}

// outcome describes how one real endpoint finished.
func (s *realSide) outcome(names map[string]string) string {
	if s.res.pan != nil {
		return "panic"
	}
	if s.res.err != nil {
		return "error"
	}
	return "completed:" + keyName(s.res.sc.RemotePubKey(), names)
}

type hsScenario struct {
	name string
	// run returns, per real endpoint, the set of identities it may report when it
	// completes ("" = it must fail).
	run func(c *core.Case, h *hsHarness)
}

type hsHarness struct {
	c       *core.Case
	names   map[string]string
	keys    map[string]*ecdsa.PrivateKey
	notes   []string
	timeout bool
}

func (h *hsHarness) key(name string) *ecdsa.PrivateKey {
	if k, ok := h.keys[name]; ok {
		return k
	}
	k := detKey(h.c.R)
	h.keys[name] = k
	h.names[string(pubBytes(&k.PublicKey))] = name
	return k
}

// judge applies the authentication rule to one real endpoint: it may fail, or
// complete reporting one of the allowed identities.
func (h *hsHarness) judge(scn string, s *realSide, allowed ...string) bool {
	run := h.c.Run
	out := s.outcome(h.names)
	run.Count("handshake_outcome:"+scn+":"+s.name+":"+out, 1)
	wit := map[string]interface{}{"scenario": scn, "endpoint": s.name, "outcome": out, "allowed_identities": allowed, "notes": h.notes, "error": fmt.Sprint(s.res.err)}
	if s.res.pan != nil {
		wit["stack"] = s.res.stack
		h.c.Violation("panic:"+core.PanicKey(s.res.stack), fmt.Sprintf("%s: MakeSecretConnection panicked: %v", scn, s.res.pan), wit)
		return false
	}
	if s.res.err != nil {
		return true
	}
	got := keyName(s.res.sc.RemotePubKey(), h.names)
	for _, a := range allowed {
		if a == got {
			return true
		}
	}
	if len(allowed) == 0 {
		h.c.Violation("handshake:"+scn+":completed", fmt.Sprintf("%s: endpoint %s completed the handshake (remote identity %s) although it must fail", scn, s.name, got), wit)
	} else {
		h.c.Violation("handshake:"+scn+":wrong-identity", fmt.Sprintf("%s: endpoint %s completed with remote identity %s; the party that completed it holds only the key of %v", scn, s.name, got, allowed), wit)
	}
	return false
}

// mustComplete additionally requires success (honest runs).
func (h *hsHarness) mustComplete(scn string, s *realSide, who string) bool {
	if s.res.err != nil && s.res.pan == nil {
		h.c.Violation("handshake:"+scn+":honest-failed", fmt.Sprintf("%s: endpoint %s failed although its peer is honest and unmodified: %v", scn, s.name, s.res.err),
			map[string]interface{}{"scenario": scn, "notes": h.notes})
		return false
	}
	return h.judge(scn, s, who)
}

// vsEvil runs a real endpoint (key name `victimName`) against a scripted attacker.
func (h *hsHarness) vsEvil(realName string, script func(m *evil)) *realSide {
	r := h.c.R
	d := newDuplex(r.Int63(), 1+r.Intn(2000), 0)
	s := &realSide{name: realName, key: h.key(realName)}
	m := newEvil(d.b, r, h.key("M"))
	var wg sync.WaitGroup
	wg.Add(2)
	realHandshake(d.a, s.key, &s.res, &wg, true)
	go func() {
		defer wg.Done()
		defer d.b.Close() // the attacker always hangs up at the end of its script
		script(m)
	}()
	// the real endpoint's connection is closed by its owner as soon as it returns (as the transport does on error)
	if !waitOrWatchdog(&wg, watchdog) {
		h.timeout = true
		d.closeAll()
		h.c.Run.Inconclusive(fmt.Sprintf("watchdog: handshake scenario of %s:%d did not finish", h.c.Group, h.c.I))
	}
	d.closeAll()
	h.notes = append(h.notes, m.log...)
	return s
}

// relay forwards a->b and b->a unit by unit (first the 35-byte key message, then sealed
// frames); hook may rewrite each unit. dir 0 = from x to y.
func relay(x, y *end, hook func(dir, idx int, unit []byte) []byte) *sync.WaitGroup {
	var wg sync.WaitGroup
	pump := func(dir int, src, dst *end) {
		defer wg.Done()
		defer dst.out.closeWrite()
		for idx := 0; ; idx++ {
			n := refSealed
			if idx == 0 {
				n = refEphMsgLen
			}
			u := make([]byte, n)
			k, err := io.ReadFull(src, u)
			if k > 0 {
				out := u[:k]
				if err == nil && hook != nil {
					out = hook(dir, idx, out)
				}
				dst.Write(out)
			}
			if err != nil {
				return
			}
		}
	}
	wg.Add(2)
	go pump(0, x, y)
	go pump(1, y, x)
	return &wg
}

// viaRelay: honest A and honest B, an on-path attacker in between.
func (h *hsHarness) viaRelay(hook func(dir, idx int, unit []byte) []byte) (a, b *realSide) {
	r := h.c.R
	d1 := newDuplex(r.Int63(), 1+r.Intn(2000), 0) // A = d1.a, attacker holds d1.b
	d2 := newDuplex(r.Int63(), 1+r.Intn(2000), 0) // attacker holds d2.a, B = d2.b
	a = &realSide{name: "A", key: h.key("A")}
	b = &realSide{name: "B", key: h.key("B")}
	var wg sync.WaitGroup
	wg.Add(2)
	realHandshake(d1.a, a.key, &a.res, &wg, true)
	realHandshake(d2.b, b.key, &b.res, &wg, true)
	rw := relay(d1.b, d2.a, hook)
	if !waitOrWatchdog(&wg, watchdog) {
		h.timeout = true
		h.c.Run.Inconclusive(fmt.Sprintf("watchdog: relayed handshake of %s:%d did not finish", h.c.Group, h.c.I))
	}
	d1.closeAll()
	d2.closeAll()
	waitOrWatchdog(rw, watchdog)
	return a, b
}

// low-order and non-canonical encodings of Curve25519 u-coordinates (RFC 7748 section 6.1
// warning; the list is the well-known one also used by libsodium).
var lowOrderPoints = []string{
	"0000000000000000000000000000000000000000000000000000000000000000",
	"0100000000000000000000000000000000000000000000000000000000000000",
	"e0eb7a7c3b41b8ae1656e3faf19fc46ada098deb9c32b1fd866205165f49b800",
	"5f9c95bca3508c24b1d0b1559c83ef5b04445cc4581c8e86d8224eddd09f1157",
	"ecffffffffffffffffffffffffffffffffffffffffffffffffffffffffffff7f",
	"edffffffffffffffffffffffffffffffffffffffffffffffffffffffffffff7f",
	"eeffffffffffffffffffffffffffffffffffffffffffffffffffffffffffff7f",
	"cdeb7a7c3b41b8ae1656e3faf19fc46ada098deb9c32b1fd866205165f49b880",
	"4c9c95bca3508c24b1d0b1559c83ef5b04445cc4581c8e86d8224eddd09f11d7",
	"d9ffffffffffffffffffffffffffffffffffffffffffffffffffffffffffffff",
	"daffffffffffffffffffffffffffffffffffffffffffffffffffffffffffffff",
	"dbffffffffffffffffffffffffffffffffffffffffffffffffffffffffffffff",
	"0000000000000000000000000000000000000000000000000000000000000080",
	"0100000000000000000000000000000000000000000000000000000000000080",
}

var hsScenarios = []hsScenario{
	{"honest-direct", func(c *core.Case, h *hsHarness) {
		r := c.R
		d := newDuplex(r.Int63(), []int{0, 1, 2, 34, 35, 36, 1043, 1044, 1 + r.Intn(3000)}[r.Intn(9)], 3)
		a := &realSide{name: "A", key: h.key("A")}
		b := &realSide{name: "B", key: h.key("B")}
		var ok bool
		a.res, b.res, ok = establish(d, a.key, b.key)
		d.closeAll()
		if !ok {
			c.Run.Inconclusive("watchdog: honest handshake did not finish")
			return
		}
		if h.mustComplete("honest-direct", a, "B") && h.mustComplete("honest-direct", b, "A") {
			c.Run.Count("handshakes_honest_ok", 1)
		}
	}},
	{"honest-through-passive-relay", func(c *core.Case, h *hsHarness) {
		a, b := h.viaRelay(nil)
		if h.timeout {
			return
		}
		h.mustComplete("honest-through-passive-relay", a, "B")
		h.mustComplete("honest-through-passive-relay", b, "A")
	}},
	{"attacker-own-key", func(c *core.Case, h *hsHarness) {
		// the attacker behaves honestly with its own key; the real endpoint must name the attacker.
		// The attacker also checks the real endpoint's auth message against the reference computation.
		var victimPub, victimSig, challenge []byte
		v := h.vsEvil("A", func(m *evil) {
			if m.exchangeEph(nil) != nil {
				return
			}
			m.sendAuth(pubBytes(&m.key.PublicKey), m.sign(m.s.challenge[:]))
			victimPub, victimSig, _ = m.recvAuth()
			challenge = m.s.challenge[:]
		})
		if h.timeout {
			return
		}
		if !h.mustComplete("attacker-own-key", v, "M") {
			return
		}
		if !bytes.Equal(victimPub, pubBytes(&v.key.PublicKey)) || !sigBy(victimPub, victimSig, challenge) {
			c.Violation("handshake:auth-message-differs-from-protocol", "the real endpoint's auth message is not its key plus a signature of the challenge the protocol derives from both ephemeral keys and the shared secret",
				map[string]interface{}{"notes": h.notes, "pub": hex.EncodeToString(victimPub), "sig": hex.EncodeToString(victimSig), "challenge": hex.EncodeToString(challenge)})
			return
		}
		c.Run.Count("handshake_auth_messages_checked_against_reference", 1)
	}},
	{"attacker-claims-victim-key-own-signature", func(c *core.Case, h *hsHarness) {
		vk := h.key("V")
		v := h.vsEvil("A", func(m *evil) {
			if m.exchangeEph(nil) != nil {
				return
			}
			m.sendAuth(pubBytes(&vk.PublicKey), m.sign(m.s.challenge[:]))
			m.recvAuth()
		})
		h.judge("attacker-claims-victim-key-own-signature", v)
	}},
	{"attacker-claims-victim-key-forged-signature", func(c *core.Case, h *hsHarness) {
		vk := h.key("V")
		variant := c.R.Intn(6)
		v := h.vsEvil("A", func(m *evil) {
			if m.exchangeEph(nil) != nil {
				return
			}
			sig := m.sign(m.s.challenge[:])
			switch variant {
			case 0:
				sig = make([]byte, 65)
			case 1:
				sig[64] ^= 1
			case 2:
				sig[c.R.Intn(64)] ^= 1 << uint(c.R.Intn(8))
			case 3: // a valid signature of the attacker, but of something else
				other := make([]byte, 32)
				c.R.Read(other)
				sig, _ = crypto.Sign(other, m.key)
			case 4: // (r, n-s) malleated attacker signature
				n, _ := new(big.Int).SetString("fffffffffffffffffffffffffffffffebaaedce6af48a03bbfd25e8cd0364141", 16)
				s := new(big.Int).Sub(n, new(big.Int).SetBytes(sig[32:64]))
				copy(sig[32:64], s.FillBytes(make([]byte, 32)))
				sig[64] ^= 1
			case 5:
				c.R.Read(sig[:64])
				sig[64] = byte(c.R.Intn(2))
			}
			m.sendAuth(pubBytes(&vk.PublicKey), sig)
			m.recvAuth()
		})
		h.judge(fmt.Sprintf("attacker-claims-victim-key-forged-signature:%d", variant), v)
	}},
	{"replay-of-recorded-auth-message", func(c *core.Case, h *hsHarness) {
		// session 1: the victim V (real code) talks to the attacker, who records V's auth message
		var recPub, recSig []byte
		sameEph := c.R.Intn(2) == 0
		var eph [2][32]byte
		s1 := h.vsEvil("V", func(m *evil) {
			eph[0], eph[1] = m.pub, m.priv
			if m.exchangeEph(nil) != nil {
				return
			}
			m.sendAuth(pubBytes(&m.key.PublicKey), m.sign(m.s.challenge[:]))
			recPub, recSig, _ = m.recvAuth()
		})
		if h.timeout || !h.mustComplete("replay-of-recorded-auth-message:recording-session", s1, "M") {
			return
		}
		if recSig == nil {
			c.Run.Inconclusive("replay scenario: nothing recorded")
			return
		}
		// session 2: the attacker presents the recording to A
		v := h.vsEvil("A", func(m *evil) {
			if sameEph {
				m.pub, m.priv = eph[0], eph[1]
			}
			if m.exchangeEph(nil) != nil {
				return
			}
			m.sendAuth(recPub, recSig)
			m.recvAuth()
		})
		if h.judge("replay-of-recorded-auth-message", v) {
			c.Run.Count("handshake_replays_rejected", 1)
		}
	}},
	{"two-session-man-in-the-middle", func(c *core.Case, h *hsHarness) {
		// A <-> M <-> B with separate key exchanges; M forwards each side's auth message into the other session.
		r := c.R
		d1 := newDuplex(r.Int63(), 1+r.Intn(2000), 0)
		d2 := newDuplex(r.Int63(), 1+r.Intn(2000), 0)
		a := &realSide{name: "A", key: h.key("A")}
		b := &realSide{name: "B", key: h.key("B")}
		m1 := newEvil(d1.b, r, h.key("M"))
		m2 := newEvil(d2.a, r, h.key("M"))
		if r.Intn(2) == 0 {
			m2.pub, m2.priv = m1.pub, m1.priv
		}
		var wg, mw sync.WaitGroup
		wg.Add(2)
		realHandshake(d1.a, a.key, &a.res, &wg, true)
		realHandshake(d2.b, b.key, &b.res, &wg, true)
		mw.Add(1)
		go func() {
			defer mw.Done()
			defer d1.b.Close()
			defer d2.a.Close()
			if m1.exchangeEph(nil) != nil || m2.exchangeEph(nil) != nil {
				return
			}
			pa, sa, e1 := m1.recvAuth()
			pb, sb, e2 := m2.recvAuth()
			if e1 != nil || e2 != nil {
				return
			}
			m1.sendAuth(pb, sb)
			m2.sendAuth(pa, sa)
		}()
		if !waitOrWatchdog(&wg, watchdog) {
			c.Run.Inconclusive("watchdog: man-in-the-middle scenario did not finish")
			d1.closeAll()
			d2.closeAll()
			return
		}
		d1.closeAll()
		d2.closeAll()
		waitOrWatchdog(&mw, watchdog)
		h.notes = append(append(h.notes, m1.log...), m2.log...)
		h.judge("two-session-man-in-the-middle", a, "M")
		h.judge("two-session-man-in-the-middle", b, "M")
	}},
	{"ephemeral-key-rewritten-in-transit", func(c *core.Case, h *hsHarness) {
		// the attacker replaces an ephemeral key by a different encoding of the same point (top bit set):
		// both sides still compute the same shared secret, only the transcript binding can notice.
		which := c.R.Intn(3)
		a, b := h.viaRelay(func(dir, idx int, unit []byte) []byte {
			if idx == 0 && (which == 2 || which == dir) {
				u := append([]byte{}, unit...)
				u[len(u)-1] ^= 0x80
				return u
			}
			return unit
		})
		if h.timeout {
			return
		}
		scn := fmt.Sprintf("ephemeral-key-rewritten-in-transit:%d", which)
		okA := h.judge(scn, a)
		okB := h.judge(scn, b)
		if okA && okB {
			c.Run.Count("handshake_rewritten_ephemeral_key_rejected", 1)
		}
	}},
	{"auth-frame-modified-in-transit", func(c *core.Case, h *hsHarness) {
		dir0 := c.R.Intn(2)
		bit := c.R.Intn(refSealed * 8)
		a, b := h.viaRelay(func(dir, idx int, unit []byte) []byte {
			if idx == 1 && dir == dir0 {
				u := append([]byte{}, unit...)
				u[bit/8] ^= 1 << uint(bit%8)
				return u
			}
			return unit
		})
		if h.timeout {
			return
		}
		// the receiver of the modified frame must fail; the other side may complete with its true peer
		if dir0 == 0 {
			h.judge("auth-frame-modified-in-transit", b)
			h.judge("auth-frame-modified-in-transit", a, "B")
		} else {
			h.judge("auth-frame-modified-in-transit", a)
			h.judge("auth-frame-modified-in-transit", b, "A")
		}
	}},
	{"auth-frames-exchanged-between-directions", func(c *core.Case, h *hsHarness) {
		// each side gets its own auth frame back instead of the peer's
		r := c.R
		d1 := newDuplex(r.Int63(), 0, 0)
		d2 := newDuplex(r.Int63(), 0, 0)
		a := &realSide{name: "A", key: h.key("A")}
		b := &realSide{name: "B", key: h.key("B")}
		var wg, mw sync.WaitGroup
		wg.Add(2)
		realHandshake(d1.a, a.key, &a.res, &wg, true)
		realHandshake(d2.b, b.key, &b.res, &wg, true)
		mw.Add(1)
		go func() {
			defer mw.Done()
			defer d1.b.Close()
			defer d2.a.Close()
			ea, eb := make([]byte, refEphMsgLen), make([]byte, refEphMsgLen)
			if _, err := io.ReadFull(d1.b, ea); err != nil {
				return
			}
			if _, err := io.ReadFull(d2.a, eb); err != nil {
				return
			}
			d1.b.Write(eb)
			d2.a.Write(ea)
			fa, fb := make([]byte, refSealed), make([]byte, refSealed)
			if _, err := io.ReadFull(d1.b, fa); err != nil {
				return
			}
			if _, err := io.ReadFull(d2.a, fb); err != nil {
				return
			}
			d1.b.Write(fa)
			d2.a.Write(fb)
		}()
		if !waitOrWatchdog(&wg, watchdog) {
			c.Run.Inconclusive("watchdog: exchanged-auth-frames scenario did not finish")
		}
		d1.closeAll()
		d2.closeAll()
		waitOrWatchdog(&mw, watchdog)
		h.judge("auth-frames-exchanged-between-directions", a)
		h.judge("auth-frames-exchanged-between-directions", b)
	}},
	{"reflection", func(c *core.Case, h *hsHarness) {
		// everything the endpoint sends is sent back to it
		r := c.R
		d := newDuplex(r.Int63(), 1+r.Intn(2000), 0)
		a := &realSide{name: "A", key: h.key("A")}
		var wg, mw sync.WaitGroup
		wg.Add(1)
		realHandshake(d.a, a.key, &a.res, &wg, true)
		mw.Add(1)
		go func() {
			defer mw.Done()
			defer d.b.Close()
			buf := make([]byte, 4096)
			total := 0
			for total < refEphMsgLen+refSealed {
				n, err := d.b.Read(buf)
				if n > 0 {
					d.b.Write(buf[:n])
					total += n
				}
				if err != nil {
					return
				}
			}
		}()
		if !waitOrWatchdog(&wg, watchdog) {
			c.Run.Inconclusive("watchdog: reflection scenario did not finish")
		}
		d.closeAll()
		waitOrWatchdog(&mw, watchdog)
		h.judge("reflection", a)
	}},
	{"low-order-ephemeral-point", func(c *core.Case, h *hsHarness) {
		idx := c.I % len(lowOrderPoints)
		pt, _ := hex.DecodeString(lowOrderPoints[idx])
		v := h.vsEvil("A", func(m *evil) {
			copy(m.pub[:], pt)
			// every scalar times a point of order 1, 2, 4 or 8 is the neutral element: the victim computes the all-zero secret
			m.forceDH = &[32]byte{}
			if m.exchangeEph(nil) != nil {
				return
			}
			// the shared secret is all zero for every scalar: the attacker can go on without knowing anything
			m.sendAuth(pubBytes(&m.key.PublicKey), m.sign(m.s.challenge[:]))
			m.recvAuth()
		})
		if h.judge(fmt.Sprintf("low-order-ephemeral-point:%d", idx), v) {
			c.Run.Count("handshake_low_order_points_rejected", 1)
		}
		c.Run.Distinct("low_order_points_tried", lowOrderPoints[idx])
	}},
}

// handshakeCase runs scenario c.I % len(hsScenarios).
func handshakeCase(c *core.Case) {
	sc := hsScenarios[c.I%len(hsScenarios)]
	h := &hsHarness{c: c, names: map[string]string{}, keys: map[string]*ecdsa.PrivateKey{}}
	h.key("A")
	h.key("B")
	h.key("M")
	h.key("V")
	sc.run(c, h)
	c.Run.Eval(1)
	c.Run.Count("handshake_scenarios_run", 1)
	c.Run.Distinct("handshake_scenarios", sc.name)
	if !h.timeout {
		c.Run.Nontrivial(fmt.Sprint("hs", sc.name, c.I))
	}
	if c.I == 6 {
		c.Run.Sample(map[string]interface{}{"group": c.Group, "case": c.I, "scenario": sc.name, "attacker_notes": h.notes})
	}
}

// lowOrderAll runs every low-order encoding (fixed corpus).
func lowOrderAll(c *core.Case) {
	if c.I >= len(lowOrderPoints) {
		return
	}
	h := &hsHarness{c: c, names: map[string]string{}, keys: map[string]*ecdsa.PrivateKey{}}
	for _, n := range []string{"A", "B", "M", "V"} {
		h.key(n)
	}
	hsScenarios[len(hsScenarios)-1].run(c, h)
	c.Run.Eval(1)
}
