// Package c20 decides C20: peer connections are authenticated, tamper-evident,
// ordered and exactly-once. The real SecretConnection and MConnection run over a
// harness duplex that controls chunking, stalls and - as man in the middle -
// rewrites sealed frames and handshake messages; an independent implementation of
// the wire protocol plays the attacker and cross-checks the framing.
package c20

import (
	"os"

	"verifharness/core"
)

func init() { core.Register("C20", Main) }

func Main() {
	r := core.Start("C20", "exploration")
	r.SetRule("TODO")
	only := os.Getenv("C20_ONLY") // DEV-ONLY group filter
	want := func(g string) bool { return only == "" || only == g }
	if want("stream") {
		r.Cases("stream-corpus", len(writeSizeCorpus)*len(readSizeCorpus), core.Opts{Workers: 16}, streamCorpus)
		r.Cases("stream", r.N(150, 20000), core.Opts{Workers: 16}, streamRandom)
		r.Cases("stream-concurrent-writers", r.N(60, 6000), core.Opts{Workers: 8}, concurrentWriters)
	}
	if want("tamper") {
		r.Cases("tamper-enumeration", len(tamperConversations), core.Opts{Workers: 8}, tamperEnumerate)
		r.Cases("tamper-all-bytes", 36, core.Opts{Workers: 16}, tamperAllBytes)
		r.Cases("tamper-random", r.N(200, 40000), core.Opts{Workers: 16}, tamperRandom)
	}
	if want("handshake") {
		r.Cases("handshake-low-order", len(lowOrderPoints), core.Opts{Workers: 8}, lowOrderAll)
		r.Cases("handshake", r.N(20, 1500)*len(hsScenarios), core.Opts{Workers: 16}, handshakeCase)
		r.Cases("handshake-malformed", r.N(2, 40)*malformedCount(), core.Opts{Procs: 8, StallSec: 150, HangIsViolation: true}, malformedCase)
		r.Cases("crafted-frames", r.N(2, 40)*len(craftedLengths), core.Opts{Procs: 4, StallSec: 150, HangIsViolation: true}, craftedFrames)
		r.Cases("short-frames", r.N(30, 2000), core.Opts{Workers: 8}, zeroLengthFrames)
	}
	r.Finish()
}
