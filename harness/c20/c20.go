// Package c20 decides C20: peer connections are authenticated, tamper-evident,
// ordered and exactly-once. The real SecretConnection and MConnection run over a
// harness duplex that controls chunking, stalls and - as man in the middle -
// rewrites sealed frames and handshake messages; an independent implementation of
// the wire protocol plays the attacker and cross-checks the framing.
package c20

import (
	"fmt"
	"os"
	"strings"
	"time"

	"verifharness/core"
)

func init() { core.Register("C20", Main) }

func Main() {
	r := core.Start("C20", "exploration")
	r.SetRule("case = one conversation over the real lib/p2p/conn code joined by the harness duplex: " +
		"(stream) honest SecretConnection pair, writes of 0..5120 bytes, read buffers of 1..4096 bytes, transport chunks of 1..3000 bytes, both directions, 2-5 concurrent writers; non-trivial = at least 2 frames and every byte compared; " +
		"(tamper) one manipulation of the sealed 1044-byte frames of a short conversation by a man in the middle (flip, drop, duplicate, swap, truncate, replay, frame of another session, frame of the opposite direction, garbage, zeros), every frame position x every manipulation enumerated for the fixed conversations; non-trivial = the reader's output and final error were judged against the prefix-then-error rule; " +
		"(handshake) one scenario of the matrix (honest, attacker with own key, attacker claiming the victim's key, replayed auth message, two-session man in the middle, rewritten ephemeral key, modified/exchanged auth frames, reflection, low-order points, malformed and oversized messages, lying length fields) with an independent protocol implementation as attacker; non-trivial = the real endpoint returned and its outcome (error / identity) was judged; " +
		"(transport) real Switch+MultiplexTransport over loopback TCP against the attacker; " +
		"(mconn) two real MConnections with 1-6 channels, payload 1..1024, messages of 1..capacity bytes (0 in a dedicated group, capacity+1.. in another), TrySend overflow under a network stall, FlushStop/Stop racing with senders, raw bytes fed to the packet layer; non-trivial = at least 5 accepted messages needing more packets than messages, or a judged refusal; distinct by group, case index and shape")
	r.Assume("an on-path attacker sees and rewrites bytes of the underlying connection but holds no long-term private key other than its own; an authenticated malicious peer holds its own key only")
	r.Assume("tamper-evidence of the handshake (DESIGN oracle): when an ephemeral key is rewritten in transit between two honest parties neither side may complete, even though both would still derive the same secret")
	r.Assume("end of stream: a truncation exactly at a frame boundary is indistinguishable from the peer closing the connection and is reported as io.EOF after exactly the intact frames; every other manipulation must end in an error other than io.EOF")
	r.Assume("a message accepted by Send/TrySend must be delivered unless the connection stops first: FlushStop flushes everything accepted before it was called; after a plain Stop or an error only a gap-free beginning of each channel's sequence is required")
	r.Assume("the code's own wall-clock mechanisms (10 s send timeout, ping/pong, handshake and dial timeouts) are kept out of the oracles: pings are disabled, a Send that returns false is simply a refused message")
	only := os.Getenv("C20_ONLY") // DEV-ONLY: comma-separated group name prefixes
	timing := os.Getenv("C20_TIMING") != "" && !r.IsChild()
	grp := func(name string, n int, o core.Opts, fn func(*core.Case)) {
		if only != "" {
			hit := false
			for _, pre := range strings.Split(only, ",") {
				hit = hit || strings.HasPrefix(name, pre)
			}
			if !hit {
				return
			}
		}
		t0 := time.Now()
		r.Cases(name, n, o, fn)
		if timing {
			fmt.Fprintf(os.Stderr, "%-32s %6d cases %8.2fs\n", name, n, time.Since(t0).Seconds())
		}
	}
	child := core.Opts{Procs: 8, StallSec: 150, HangIsViolation: true}
	// (A) stream
	grp("stream-corpus", len(writeSizeCorpus)*len(readSizeCorpus), core.Opts{Workers: 16}, streamCorpus)
	grp("stream-random", r.N(300, 30000), core.Opts{Workers: 16}, streamRandom)
	grp("stream-concurrent-writers", r.N(80, 8000), core.Opts{Workers: 8}, concurrentWriters)
	grp("stream-interop", r.N(100, 10000), core.Opts{Workers: 16}, interopCase)
	grp("short-frames", r.N(40, 4000), core.Opts{Workers: 8}, zeroLengthFrames)
	// (B) tampering
	grp("tamper-enumeration", len(tamperConversations), core.Opts{Workers: 8}, tamperEnumerate)
	grp("tamper-all-bytes", 36, core.Opts{Workers: 16}, tamperAllBytes)
	grp("tamper-random", r.N(400, 60000), core.Opts{Workers: 16}, tamperRandom)
	// (C) handshake
	grp("handshake-low-order", len(lowOrderPoints), core.Opts{Workers: 8}, lowOrderAll)
	grp("handshake-matrix", r.N(20, 2000)*len(hsScenarios), core.Opts{Workers: 16}, handshakeCase)
	grp("handshake-malformed", r.N(2, 60)*malformedCount(), child, malformedCase)
	grp("crafted-frames", r.N(3, 100)*len(craftedLengths), child, craftedFrames)
	grp("transport-outbound", r.N(4, 100)*len(transportScenarios), core.Opts{Workers: 4}, outboundIdentity)
	grp("transport-inbound", r.N(6, 200), core.Opts{Workers: 2}, inboundIdentity)
	// (D) MConnection
	grp("mconn-corpus", 16, core.Opts{Workers: 8}, trafficCorpus)
	grp("mconn-traffic", r.N(250, 25000), core.Opts{Workers: 16}, trafficRandom)
	grp("mconn-empty-messages", r.N(20, 500), core.Opts{Workers: 8}, emptyMessages)
	grp("mconn-oversize", r.N(80, 8000), core.Opts{Workers: 16}, oversizeCase)
	grp("mconn-stop-race", r.N(120, 12000), core.Opts{Workers: 64}, stopRaceCase) // wall time here is the 10 s send timeout of the code under test, not CPU
	grp("mconn-double-failure", r.N(60, 3000), core.Opts{Workers: 8}, doubleFailure)
	grp("mconn-garbage", r.N(8, 400)*len(garbageClasses), child, garbageCase)
	grp("mconn-pongs", r.N(24, 2000), core.Opts{Workers: 8}, pongCase)
	// the concurrent workloads again under the race detector (child processes of the -race binary)
	race := core.Opts{Procs: 8, Workers: 4, Race: true, StallSec: 300, Env: []string{"GORACE=halt_on_error=1"}}
	grp("race-stream-concurrent-writers", r.N(40, 2500), race, concurrentWriters)
	grp("race-mconn-traffic", r.N(60, 4000), race, trafficRandom)
	grp("race-mconn-stop", r.N(48, 2000), race, stopRaceCase)
	grp("race-mconn-pongs", r.N(16, 800), race, pongCase)

	if !r.IsChild() {
		// the fault-enumeration sub-check: what was enumerated, and that all of it ran
		type convRow struct {
			Conversation  string `json:"conversation"`
			Writes        []int  `json:"write_sizes"`
			Frames        int    `json:"frames"`
			Manipulations int    `json:"position_x_manipulation_pairs"`
		}
		var rows []convRow
		expected := 0
		for _, cv := range tamperConversations {
			n := len(manipsFor(cv.frames(), nil))
			rows = append(rows, convRow{cv.Name, cv.Writes, cv.frames(), n})
			expected += n
		}
		executed := r.Counter("tamper_enumeration_runs")
		r.Extra("fault_enumeration", map[string]interface{}{
			"unit":                         "sealed frame of 1044 bytes (4-byte length + 1024 data bytes + 16-byte tag)",
			"manipulation_kinds":           []string{"flip (11 fixed bit positions per frame: length field, data, padding, tag)", "drop", "duplicate", "swap with next", "truncate (6 cut offsets incl. frame boundary)", "replay of every earlier frame (inserted / replacing)", "frame of another session (inserted / replacing)", "frame of the opposite direction", "garbage frame inserted", "zero frame"},
			"conversations":                rows,
			"pairs_enumerated":             expected,
			"pairs_executed":               executed,
			"every_byte_of_2_frames":       map[string]interface{}{"bytes": 2 * refSealed, "executed": r.Counter("tamper_all_bytes_positions")},
			"exhaustive_over_stated_space": executed == int64(expected) && r.Counter("tamper_all_bytes_positions") == 2*refSealed,
			"low_order_encodings":          map[string]interface{}{"listed": len(lowOrderPoints), "rejected": r.Counter("handshake_low_order_points_rejected")},
			"malformed_handshake_scripts":  malformedCount(),
			"garbage_classes":              len(garbageClasses),
		})
		if only == "" {
			r.Floor("tamper_enumeration_runs", int64(expected))
			r.Floor("tamper_all_bytes_positions", 2*refSealed)
			r.Floor("handshakes_honest_ok", 300)
			r.Floor("stream_frames", 3000)
			r.Floor("stream_reads", 100000)
			r.Floor("concurrent_writer_switches", 200)
			r.Floor("interop_frames_opened_by_reference", 300)
			r.Floor("zero_length_frames", 50)
			r.Floor("tamper_detected_as_error", 2500)
			r.Floor("tamper_truncation_at_frame_boundary", 20)
			r.Floor("handshake_replays_rejected", 10)
			r.Floor("handshake_rewritten_ephemeral_key_rejected", 10)
			r.Floor("handshake_low_order_points_rejected", int64(len(lowOrderPoints)))
			r.Floor("handshake_auth_messages_checked_against_reference", 10)
			r.Floor("malformed_handshakes_rejected", 100)
			r.Floor("unusual_but_valid_handshakes_completed_as_attacker", 10)
			r.Floor("crafted_length_frames_rejected", 30)
			r.Floor("transport_impersonations_rejected", 15)
			r.Floor("mconn_messages_delivered", 5000)
			r.Floor("mconn_trysend_false", 200)
			r.Floor("mconn_stall_refused", 20)
			r.Floor("mconn_messages_of_exactly_capacity", 200)
			r.Floor("mconn_messages_multiple_of_packet_size", 200)
			r.Floor("mconn_channel_switches_at_receiver", 1000)
			r.Floor("mconn_empty_messages_accepted", 50)
			r.Floor("mconn_oversize_refused_with_error", 50)
			r.Floor("mconn_stop_race_accepted_but_lost_legitimately", 100)
			r.Floor("porcupine_checks", 200)
			r.Floor("garbage_rejected_with_error", 40)
			r.Floor("mconn_double_failures", 40)
			r.Floor("cases_under_race_detector", 120)
		}
	}
	r.Finish()
}
