// Package c20 decides C20: peer connections are authenticated, tamper-evident,
// ordered and exactly-once. The real SecretConnection and MConnection run over a
// harness duplex that controls chunking, stalls and - as man in the middle -
// rewrites sealed frames and handshake messages; an independent implementation of
// the wire protocol plays the attacker and cross-checks the framing.
package c20

import (
	"fmt"
	"os"
	"strings"
	"time"

	"verifharness/core"
)

func init() { core.Register("C20", Main) }

func Main() {
	r := core.Start("C20", "exploration")
	r.SetRule("TODO")
	only := os.Getenv("C20_ONLY") // DEV-ONLY: group name prefix filter
	timing := os.Getenv("C20_TIMING") != "" && !r.IsChild()
	grp := func(name string, n int, o core.Opts, fn func(*core.Case)) {
		if only != "" && !strings.HasPrefix(name, only) {
			return
		}
		t0 := time.Now()
		r.Cases(name, n, o, fn)
		if timing {
			fmt.Fprintf(os.Stderr, "%-28s %6d cases %8.2fs\n", name, n, time.Since(t0).Seconds())
		}
	}
	child := core.Opts{Procs: 8, StallSec: 150, HangIsViolation: true}
	grp("stream-corpus", len(writeSizeCorpus)*len(readSizeCorpus), core.Opts{Workers: 16}, streamCorpus)
	grp("stream-random", r.N(150, 20000), core.Opts{Workers: 16}, streamRandom)
	grp("stream-concurrent-writers", r.N(60, 6000), core.Opts{Workers: 8}, concurrentWriters)
	grp("tamper-enumeration", len(tamperConversations), core.Opts{Workers: 8}, tamperEnumerate)
	grp("tamper-all-bytes", 36, core.Opts{Workers: 16}, tamperAllBytes)
	grp("tamper-random", r.N(200, 40000), core.Opts{Workers: 16}, tamperRandom)
	grp("handshake-low-order", len(lowOrderPoints), core.Opts{Workers: 8}, lowOrderAll)
	grp("handshake-matrix", r.N(20, 1500)*len(hsScenarios), core.Opts{Workers: 16}, handshakeCase)
	grp("handshake-malformed", r.N(2, 40)*malformedCount(), child, malformedCase)
	grp("crafted-frames", r.N(2, 40)*len(craftedLengths), child, craftedFrames)
	grp("short-frames", r.N(30, 2000), core.Opts{Workers: 8}, zeroLengthFrames)
	grp("mconn-corpus", 16, core.Opts{Workers: 8}, trafficCorpus)
	grp("mconn-traffic", r.N(150, 15000), core.Opts{Workers: 16}, trafficRandom)
	grp("mconn-empty-messages", r.N(20, 500), core.Opts{Workers: 8}, emptyMessages)
	grp("mconn-oversize", r.N(60, 6000), core.Opts{Workers: 16}, oversizeCase)
	grp("mconn-stop-race", r.N(80, 8000), core.Opts{Workers: 8}, stopRaceCase)
	// the same concurrent workloads under the race detector (child processes of the -race binary)
	race := core.Opts{Procs: 8, Race: true, StallSec: 300, Env: []string{"GORACE=halt_on_error=1"}}
	grp("race-stream-concurrent-writers", r.N(40, 3000), race, concurrentWriters)
	grp("race-mconn-traffic", r.N(60, 5000), race, trafficRandom)
	grp("race-mconn-stop", r.N(40, 3000), race, stopRaceCase)
	grp("mconn-garbage", r.N(6, 300)*len(garbageClasses), child, garbageCase)
	r.Finish()
}
