// Package c09 decides C09: transaction execution conserves value and accounts
// for gas and nonces exactly. The real blockchain.ApplyTransaction is called
// on the harness's own StateDB / GasPool / header over generated pre-states and
// transactions; a full account sweep before and after each call is compared
// with the balances the property's rules give (value-flow model fed by the KVM
// tracer hooks), and blocks mixing valid and rejected transactions are executed
// on twin chains through BlockOperations.CommitAndValidateBlockTxs.
package c09

import (
	"verifharness/c09/txgen"
	"verifharness/core"
)

func init() { core.Register("C09", Main) }

func randomCase(c *core.Case) {
	r := c.R
	w := txgen.NewWorld(r, txgen.WorldOpts{Galaxias: r.Intn(2) == 0, NEOA: 1 + r.Intn(3), NContracts: 3 + r.Intn(4)})
	gasLimit := uint64(200000 + r.Intn(3000000))
	if r.Intn(4) == 0 {
		gasLimit = uint64(60000 + r.Intn(200000))
	}
	sequence(c, w, gasLimit, 4+r.Intn(8))
}

func Main() {
	r := core.Start("C09", "exploration")
	r.SetRule("case = generated pre-state (EOAs, 3-6 contracts of value-moving bytecode, coinbase of 5 kinds, both fork rule sets) + a block of 4-11 generated transactions applied one by one with blockchain.ApplyTransaction under commitBlock's snapshot/revert protocol; each transaction is judged by a full account sweep before/after; non-trivial = the transaction ran >= 2 call/create frames, or a self-destruct, or a failed frame, or earned a refund; distinct by (case, position)")
	r.Cases("random", r.N(700, 120000), core.Opts{Workers: 16}, randomCase)
	r.Finish()
}
