// Package c09 decides C09: transaction execution conserves value and accounts
// for gas and nonces exactly. The real blockchain.ApplyTransaction is called
// on the harness's own StateDB / GasPool / header over generated pre-states and
// transactions; a full account sweep before and after each call is compared
// with the balances the property's rules give (value-flow model fed by the KVM
// tracer hooks), and blocks mixing valid and rejected transactions are executed
// on twin chains through BlockOperations.CommitAndValidateBlockTxs.
package c09

import (
	"verifharness/c09/txgen"
	"verifharness/core"
)

func init() { core.Register("C09", Main) }

func randomCase(c *core.Case) {
	r := c.R
	w := txgen.NewWorld(r, txgen.WorldOpts{Galaxias: r.Intn(2) == 0, NEOA: 1 + r.Intn(3), NContracts: 3 + r.Intn(4)})
	gasLimit := uint64(500000 + r.Intn(6000000))
	if r.Intn(4) == 0 {
		gasLimit = uint64(60000 + r.Intn(300000))
	}
	sequence(c, w, gasLimit, 4+r.Intn(8))
}

func Main() {
	r := core.Start("C09", "exploration")
	r.SetRule("case = generated pre-state (EOAs, 3-6 contracts of value-moving bytecode, coinbase of 5 kinds, both fork rule sets) + a block of 4-11 generated transactions applied one by one with blockchain.ApplyTransaction under commitBlock's snapshot/revert protocol; each transaction is judged by a full account sweep before/after; non-trivial = the transaction ran >= 2 call/create frames, or a self-destruct, or a failed frame, or earned a refund; distinct by (case, position)")
	r.Assume("the call/create/selfdestruct frames reported through the KVM tracer hooks (kvm.Config{Debug, Tracer}) are the frames the KVM executed; the balances they imply are recomputed by the harness and compared with a full account sweep, the hooks are not trusted for amounts")
	r.Assume("a transaction rejected by ApplyTransaction is judged after the caller's RevertToSnapshot, as BlockOperations.commitBlock does; the gas pool is judged as ApplyTransaction left it")
	r.Assume("value that reaches an account after it self-destructed in the same transaction is deleted with the account (standard EVM rule); it is counted separately from self-destruct-to-self burns")
	r.Cases("corpus", 2*len(scenarios()), core.Opts{}, corpusCase)
	r.Cases("random", r.N(700, 120000), core.Opts{Workers: 16}, randomCase)
	// block level: real chain stacks with background goroutines, so in child processes
	r.Cases("block-corpus", 6, core.Opts{Procs: 2, Workers: 3, StallSec: 600}, blockCase)
	r.Cases("block", r.N(16, 1500), core.Opts{Procs: 4, Workers: 4, StallSec: 600}, blockCase)
	r.Floor("executed", 1500)
	r.Floor("rejected", 500)
	for _, k := range []string{"nonce-low", "nonce-high", "insufficient-funds-for-gas", "block-gas-exhausted", "intrinsic-gas", "insufficient-funds-for-transfer", "signature"} {
		r.Floor("rejected:"+k, 10)
	}
	r.Floor("value_transfers", 500)
	r.Floor("frames_failed", 300)
	r.Floor("creates", 100)
	r.Floor("selfdestructs_to_self", 20)
	r.Floor("burn_selfdestruct_to_self", 10)
	r.Floor("burn_value_sent_to_destroyed_account", 1)
	r.Floor("tx_refund_capped", 10)
	r.Floor("corpus_scenarios", int64(2*len(scenarios())))
	r.Floor("blocks", 30)
	r.Floor("runs_without_tracer_compared", 100)
	r.Floor("blocks_mixing_executed_and_rejected", 15)
	r.Finish()
}
