package c09

import (
	"fmt"
	"math/big"
	"strings"

	"github.com/kardiachain/go-kardia/lib/common"
	"github.com/kardiachain/go-kardia/types"

	"verifharness/c09/chainkit"
	"verifharness/c09/txgen"
	"verifharness/core"
)

// Block level: a block mixing executed and rejected transactions is executed by
// the real BlockOperations.CommitAndValidateBlockTxs on chain A; the same block
// without its FIRST rejected transaction on chain B, and without ALL rejected
// transactions on chain C (twin chains from the same genesis; their block hashes
// differ from the first removed transaction on, so the generated programs of
// this group do not read BLOCKHASH). "As if it had
// not been in the block": state root, receipts of the other transactions, block
// gas used, bloom, returned validators and the set of other rejected
// transactions must be the same.

type execRec struct {
	Tx      string   `json:"tx"`
	Status  uint64   `json:"status"`
	GasUsed uint64   `json:"gas_used"`
	Logs    []string `json:"logs,omitempty"`
}

type blockResult struct {
	Root     common.Hash
	Vals     []string
	GasUsed  uint64
	Bloom    types.Bloom
	Executed []execRec
	Rejected []chainkit.Rejected
}

func runBlock(ch *chainkit.Chain, height, gasLimit uint64, txs []*types.Transaction) (*blockResult, error) {
	blk, ps := ch.RawBlock(height, gasLimit, ch.ValAddr(0), txs)
	ch.Rej.Take()
	vals, root, info, err := ch.ExecRaw(blk, ps)
	if err != nil {
		return nil, err
	}
	if info == nil {
		return nil, fmt.Errorf("no block info stored for block %d", height)
	}
	res := &blockResult{Root: root, Vals: chainkit.SortedVals(vals), GasUsed: info.GasUsed, Bloom: info.Bloom, Rejected: ch.Rej.Take()}
	rej := map[string]bool{}
	for _, r := range res.Rejected {
		rej[r.Tx] = true
	}
	if len(res.Rejected)+len(info.Receipts) != len(txs) {
		return nil, fmt.Errorf("observation gap: %d transactions, %d receipts, %d rejections seen in the log", len(txs), len(info.Receipts), len(res.Rejected))
	}
	i, prev := 0, uint64(0)
	for _, tx := range txs {
		if rej[tx.Hash().Hex()] {
			continue
		}
		rc := info.Receipts[i]
		i++
		er := execRec{Tx: tx.Hash().Hex(), Status: rc.Status, GasUsed: rc.CumulativeGasUsed - prev}
		prev = rc.CumulativeGasUsed
		for _, l := range rc.Logs {
			er.Logs = append(er.Logs, fmt.Sprintf("%x|%x|%x", l.Address, l.Topics, l.Data))
		}
		res.Executed = append(res.Executed, er)
	}
	return res, nil
}

func cmpResults(a, b *blockResult, removed map[string]bool) (string, string) {
	if a.Root != b.Root {
		return "state-root", fmt.Sprintf("state root %x with the rejected transaction(s), %x without", a.Root[:6], b.Root[:6])
	}
	if len(a.Executed) != len(b.Executed) {
		return "executed-set", fmt.Sprintf("%d transactions executed with the rejected transaction(s) in the block, %d without", len(a.Executed), len(b.Executed))
	}
	for i := range a.Executed {
		x, y := a.Executed[i], b.Executed[i]
		if x.Tx != y.Tx || x.Status != y.Status || x.GasUsed != y.GasUsed || strings.Join(x.Logs, ",") != strings.Join(y.Logs, ",") {
			return "receipts", fmt.Sprintf("receipt %d differs: %+v vs %+v", i, x, y)
		}
	}
	if a.GasUsed != b.GasUsed {
		return "block-gas-used", fmt.Sprintf("block gas used %d vs %d", a.GasUsed, b.GasUsed)
	}
	if a.Bloom != b.Bloom {
		return "bloom", "logs bloom differs"
	}
	if strings.Join(a.Vals, ",") != strings.Join(b.Vals, ",") {
		return "validators", fmt.Sprintf("returned validators %v vs %v", a.Vals, b.Vals)
	}
	var ra, rb []string
	for _, r := range a.Rejected {
		if !removed[r.Tx] {
			ra = append(ra, r.Tx)
		}
	}
	for _, r := range b.Rejected {
		rb = append(rb, r.Tx)
	}
	if strings.Join(ra, ",") != strings.Join(rb, ",") {
		return "rejected-set", fmt.Sprintf("other rejected transactions: %d with, %d without the removed one(s)", len(ra), len(rb))
	}
	return "", ""
}

type blockPlan struct {
	gasLimit uint64
	specs    []*txgen.TxSpec
}

// planBlock draws the transactions of one block from the state at the head of chain A.
func planBlock(cs *core.Case, w *txgen.World, ch *chainkit.Chain) (*blockPlan, error) {
	r := cs.R
	st, err := ch.N.BC.State()
	if err != nil {
		return nil, err
	}
	p := &blockPlan{gasLimit: uint64(300000 + r.Intn(4000000))}
	if r.Intn(4) == 0 {
		p.gasLimit = uint64(60000 + r.Intn(200000))
	}
	nonce, bal := map[common.Address]uint64{}, map[common.Address]*big.Int{}
	for _, a := range w.EOAs {
		nonce[a], bal[a] = st.GetNonce(a), new(big.Int).Set(st.GetBalance(a))
	}
	pool := p.gasLimit
	n := 3 + r.Intn(8)
	for i := 0; i < n; i++ {
		spec := txgen.GenTx(r, w, txgen.Ctx{Nonce: func(a common.Address) uint64 { return nonce[a] }, Balance: func(a common.Address) *big.Int { return bal[a] }, PoolGas: pool})
		from := w.EOAs[spec.From]
		// rough bookkeeping (an estimate only: it steers the generator, it judges nothing)
		if precheck(spec, w.Galaxias, nonce[from], bal[from], pool) == "" {
			nonce[from]++
			ig := txgen.IntrinsicGas(spec.Data, spec.To == nil, w.Galaxias)
			use := ig + (spec.Gas-ig)/3
			bal[from] = new(big.Int).Sub(bal[from], new(big.Int).Add(spec.Value, new(big.Int).Mul(new(big.Int).SetUint64(use), spec.Price)))
			if bal[from].Sign() < 0 {
				bal[from] = new(big.Int)
			}
			pool -= use
		}
		p.specs = append(p.specs, spec)
	}
	return p, nil
}

// fixed block-level boundary plans: a rejected transaction followed by one that needs the whole block gas.
func corpusPlan(i int, w *txgen.World, ch *chainkit.Chain) *blockPlan {
	st, _ := ch.N.BC.State()
	from := w.EOAs[0]
	n := st.GetNonce(from)
	to := txgen.FreshAddr(0)
	ig := txgen.IntrinsicGas(nil, false, w.Galaxias)
	mk := func(nonce uint64, value *big.Int, gas uint64) *txgen.TxSpec {
		return &txgen.TxSpec{To: &to, Nonce: nonce, Value: value, Gas: gas, Price: big.NewInt(1), Class: "block-corpus"}
	}
	tooMuch := new(big.Int).Add(st.GetBalance(from), big.NewInt(1))
	switch i {
	case 0: // intrinsic gas too low, then a transaction that fits only if nothing leaked
		return &blockPlan{gasLimit: 100000, specs: []*txgen.TxSpec{mk(n, big.NewInt(1), ig-1), mk(n, big.NewInt(1), 100000), mk(n+1, big.NewInt(1), 100000-ig)}}
	case 1: // value exceeds the balance, then the same
		return &blockPlan{gasLimit: 100000, specs: []*txgen.TxSpec{mk(n, tooMuch, 40000), mk(n, big.NewInt(1), 100000), mk(n+1, big.NewInt(1), 100000-ig)}}
	case 2: // several rejections of every kind in a row, then valid ones
		return &blockPlan{gasLimit: 200000, specs: []*txgen.TxSpec{mk(n+1, big.NewInt(1), 50000), mk(n, big.NewInt(1), ig-1), mk(n, tooMuch, 50000), mk(n, big.NewInt(1), 200001),
			mk(n, big.NewInt(1), 200000), mk(n+1, big.NewInt(2), 200000-ig), mk(n, big.NewInt(1), 50000)}}
	}
	return nil
}

func blockCase(cs *core.Case) {
	r, run := cs.R, cs.Run
	corpus := cs.Group == "block-corpus"
	var galaxias *uint64
	gal := r.Intn(2) == 0
	if corpus {
		gal = cs.I%2 == 1
	}
	if gal {
		z := uint64(0)
		galaxias = &z
	}
	val0 := chainkit.ValAddrOf(0)
	w := txgen.NewWorld(r, txgen.WorldOpts{Galaxias: gal, NEOA: 2 + r.Intn(2), NContracts: 3 + r.Intn(3), FixedCoinbase: &val0, NoBlockHash: true})
	if corpus {
		w.Accounts[w.EOAs[0]].Balance = new(big.Int).Exp(big.NewInt(10), big.NewInt(20), nil)
	}
	gen := chainkit.Genesis(w, []int64{20}, galaxias)
	var chains [3]*chainkit.Chain
	for i, l := range []string{"all", "first-rejected-removed", "all-rejected-removed"} {
		ch, err := chainkit.New(gen, 1, nil, nil, l)
		if err != nil {
			run.Inconclusive("cannot build chain: " + err.Error())
			return
		}
		defer ch.Close(false)
		chains[i] = ch
	}
	nBlocks := 2 + r.Intn(3)
	if corpus {
		nBlocks = 1
	}
	var history []interface{}
	for h := uint64(1); h <= uint64(nBlocks); h++ {
		var plan *blockPlan
		if corpus {
			plan = corpusPlan(cs.I/2, w, chains[0])
		} else {
			var err error
			if plan, err = planBlock(cs, w, chains[0]); err != nil {
				run.Inconclusive("head state unavailable: " + err.Error())
				return
			}
		}
		var txs []*types.Transaction
		for _, s := range plan.specs {
			s.DataHex = fmt.Sprintf("%x", s.Data)
			txs = append(txs, s.Sign(w))
		}
		a, err := runBlock(chains[0], h, plan.gasLimit, txs)
		if err != nil {
			run.Inconclusive(fmt.Sprintf("block execution on chain A failed (case %s:%d height %d): %v", cs.Group, cs.I, h, err))
			return
		}
		run.Eval(len(txs))
		run.Count("blocks", 1)
		run.Count("block_txs", len(txs))
		run.Count("block_txs_rejected", len(a.Rejected))
		first, all := map[string]bool{}, map[string]bool{}
		cls := "none"
		for i, rj := range a.Rejected {
			if i == 0 {
				first[rj.Tx] = true
				cls = errClass(fmt.Errorf("%s", rj.Err))
			}
			all[rj.Tx] = true
			run.Count("block_rejected:"+errClass(fmt.Errorf("%s", rj.Err)), 1)
		}
		if len(a.Rejected) > 0 && len(a.Executed) > 0 {
			run.Count("blocks_mixing_executed_and_rejected", 1)
			run.Nontrivial(fmt.Sprintf("block/%s/%d/%d", cs.Group, cs.I, h))
		}
		without := func(rm map[string]bool) []*types.Transaction {
			var out []*types.Transaction
			for _, tx := range txs {
				if !rm[tx.Hash().Hex()] {
					out = append(out, tx)
				}
			}
			return out
		}
		history = append(history, map[string]interface{}{"height": h, "gas_limit": plan.gasLimit, "txs": plan.specs, "rejected_on_A": a.Rejected, "executed_on_A": a.Executed})
		for k, rm := range []map[string]bool{first, all} {
			b, err := runBlock(chains[k+1], h, plan.gasLimit, without(rm))
			if err != nil {
				run.Inconclusive(fmt.Sprintf("block execution on twin chain failed (case %s:%d height %d): %v", cs.Group, cs.I, h, err))
				return
			}
			if what, detail := cmpResults(a, b, rm); what != "" {
				if what == "state-root" {
					detail += "; accounts that differ (with -> without): " + stateDiff(chains[0], chains[k+1], w)
				}
				which := "first rejected transaction"
				if k == 1 {
					which = "all rejected transactions"
				}
				cs.Violation("block-differs-without-rejected-tx:"+what+":"+cls,
					fmt.Sprintf("height %d: executing the block without its %s gives a different result: %s", h, which, detail),
					map[string]interface{}{"galaxias": gal, "eoas": w.EOAs, "blocks": history, "twin": chains[k+1].Label, "twin_rejected": b.Rejected, "twin_executed": b.Executed})
				return
			}
		}
	}
	if cs.I == 0 && !corpus {
		run.Sample(map[string]interface{}{"block_case": cs.I, "blocks": history})
	}
}

// stateDiff names the accounts that differ between the head states of two chains.
func stateDiff(a, b *chainkit.Chain, w *txgen.World) string {
	sa, err1 := a.N.BC.State()
	sb, err2 := b.N.BC.State()
	if err1 != nil || err2 != nil {
		return "(head state unavailable)"
	}
	x, err1 := sweep(sa)
	y, err2 := sweep(sb)
	if err1 != nil || err2 != nil {
		return "(sweep failed)"
	}
	names := map[common.Hash]common.Address{}
	for _, t := range w.Targets() {
		names[addrHash(t)] = t
	}
	for t := range w.Accounts {
		names[addrHash(t)] = t
	}
	d := x.diff(y, names)
	if len(d) > 6 {
		d = append(d[:6], fmt.Sprintf("... %d more", len(d)-6))
	}
	return strings.Join(d, "; ")
}
