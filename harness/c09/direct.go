package c09

import (
	"fmt"
	"math/big"
	"strings"
	"time"

	"github.com/kardiachain/go-kardia/configs"
	"github.com/kardiachain/go-kardia/kai/kaidb/memorydb"
	"github.com/kardiachain/go-kardia/kai/state"
	"github.com/kardiachain/go-kardia/kvm"
	"github.com/kardiachain/go-kardia/lib/common"
	"github.com/kardiachain/go-kardia/lib/log"
	"github.com/kardiachain/go-kardia/mainchain/blockchain"
	vm "github.com/kardiachain/go-kardia/mainchain/kvm"
	"github.com/kardiachain/go-kardia/types"

	"verifharness/c09/txgen"
	"verifharness/core"
)

var quietLogger = func() log.Logger {
	l := log.New()
	l.SetHandler(log.DiscardHandler())
	return l
}()

// chainCtx is the vm.ChainContext of the direct calls (no ancestors).
type chainCtx struct{ cfg *configs.ChainConfig }

func (c chainCtx) Config() *configs.ChainConfig                { return c.cfg }
func (c chainCtx) GetHeader(common.Hash, uint64) *types.Header { return nil }

// env is one block under construction: a state, a header, a gas pool.
type env struct {
	w       *txgen.World
	cfg     *configs.ChainConfig
	st      *state.StateDB
	header  *types.Header
	gp      *types.GasPool
	used    *uint64
	names   map[common.Hash]common.Address // every address the harness knows (pre-state + named by traces)
	cur     *sweepT
	txIndex int
}

func chainConfig(w *txgen.World) *configs.ChainConfig {
	cfg := &configs.ChainConfig{ChainID: w.ChainID}
	if w.Galaxias {
		zero := uint64(0)
		cfg.GalaxiasBlock = &zero
	}
	return cfg
}

// newEnv installs the world's pre-state in a fresh StateDB.
func newEnv(w *txgen.World, gasLimit uint64) (*env, error) {
	st, err := state.New(common.Hash{}, state.NewDatabase(memorydb.New()), nil)
	if err != nil {
		return nil, err
	}
	e := &env{w: w, cfg: chainConfig(w), names: map[common.Hash]common.Address{}}
	for _, a := range w.Sorted() {
		acc := w.Accounts[a]
		st.AddBalance(a, acc.Balance) // creates the object even for a zero balance
		if acc.Nonce != 0 {
			st.SetNonce(a, acc.Nonce)
		}
		if len(acc.Code) > 0 {
			st.SetCode(a, acc.Code)
		}
		for k, v := range acc.Storage {
			st.SetState(a, k, v)
		}
	}
	root, err := st.Commit(false)
	if err != nil {
		return nil, err
	}
	if st, err = state.New(root, st.Database(), nil); err != nil {
		return nil, err
	}
	e.st = st
	for _, a := range w.Targets() {
		e.names[addrHash(a)] = a
	}
	for a := range w.Accounts {
		e.names[addrHash(a)] = a
	}
	e.header = &types.Header{Height: 7, Time: time.Unix(1700000000, 0).UTC(), GasLimit: gasLimit, ProposerAddress: w.Coinbase}
	e.gp = new(types.GasPool).AddGas(gasLimit)
	e.used = new(uint64)
	if e.cur, err = sweep(e.st); err != nil {
		return nil, err
	}
	return e, nil
}

func errClass(err error) string {
	s := err.Error()
	switch {
	case strings.Contains(s, "nonce too low"):
		return "nonce-low"
	case strings.Contains(s, "nonce too high"):
		return "nonce-high"
	case strings.Contains(s, "insufficient funds for transfer"):
		return "insufficient-funds-for-transfer"
	case strings.Contains(s, "insufficient funds"):
		return "insufficient-funds-for-gas"
	case strings.Contains(s, "gas limit reached"):
		return "block-gas-exhausted"
	case strings.Contains(s, "intrinsic gas"):
		return "intrinsic-gas"
	case strings.Contains(s, "signature") || strings.Contains(s, "chain id") || strings.Contains(s, "invalid sender") || strings.Contains(s, "v, r, s"):
		return "signature"
	}
	if len(s) > 40 {
		s = s[:40]
	}
	return "other:" + s
}

// outcome of one observed transaction.
type outcome struct {
	Spec     *txgen.TxSpec `json:"tx"`
	Expect   string        `json:"expected_rejection,omitempty"`
	Err      string        `json:"error,omitempty"`
	Status   uint64        `json:"status"`
	GasUsed  uint64        `json:"gas_used"`
	PoolPre  uint64        `json:"pool_before"`
	PoolPost uint64        `json:"pool_after"`
	Burn     string        `json:"burnt,omitempty"`
	Frames   int           `json:"frames,omitempty"`
}

// witness assembles what is needed to understand (the replay is by seed/case).
func (e *env) witness(hist []*outcome, extra map[string]interface{}) map[string]interface{} {
	accts := map[string]interface{}{}
	for _, a := range e.w.Sorted() {
		acc := e.w.Accounts[a]
		m := map[string]interface{}{"balance": acc.Balance.String(), "nonce": acc.Nonce}
		if len(acc.Code) > 0 {
			m["code"] = fmt.Sprintf("%x", acc.Code)
		}
		if len(acc.Storage) > 0 {
			st := map[string]string{}
			for k, v := range acc.Storage {
				st[k.Big().String()] = v.Big().String()
			}
			m["storage"] = st
		}
		accts[a.Hex()] = m
	}
	w := map[string]interface{}{"galaxias": e.w.Galaxias, "coinbase": e.w.Coinbase.Hex(), "coinbase_kind": e.w.CoinbaseKind, "block_gas_limit": e.header.GasLimit,
		"height": e.header.Height, "pre_state": accts, "transactions_so_far": hist}
	eoas := []string{}
	for _, a := range e.w.EOAs {
		eoas = append(eoas, a.Hex())
	}
	w["eoas"] = eoas
	for k, v := range extra {
		w[k] = v
	}
	return w
}

// step applies one transaction the way BlockOperations.commitBlock does
// (snapshot, ApplyTransaction, revert on error) and judges it. It returns false
// when the case must stop (a violation makes later bookkeeping meaningless).
func (e *env) step(c *core.Case, spec *txgen.TxSpec, hist *[]*outcome) bool {
	run := c.Run
	w := e.w
	tx := spec.Sign(w)
	from := w.EOAs[spec.From]
	pre := e.cur
	poolPre, usedPre := e.gp.Gas(), *e.used
	expect := precheck(spec, w.Galaxias, pre.nonce(from), pre.balance(from), poolPre)
	out := &outcome{Spec: spec, Expect: expect, PoolPre: poolPre}
	*hist = append(*hist, out)
	fail := func(key, what string, extra map[string]interface{}) bool {
		c.Violation(key, what, e.witness(*hist, extra))
		return false
	}

	// twin state for the refund measurement (taken before the observed call)
	var twinBase, plainBase *state.StateDB
	if expect == "" {
		twinBase = e.st.Copy()
		if c.I%8 == 0 {
			plainBase = e.st.Copy() // for a run without tracer: the observation must not change the execution
		}
	}

	// value-flow model, fed by the tracer hooks of the observed call itself
	m := newFlowModel(pre.balance)
	gasCost := new(big.Int).Mul(new(big.Int).SetUint64(spec.Gas), spec.Price)
	if expect == "" {
		m.sub(from, gasCost, "gas purchase")
		m.undo = nil // the purchase is not part of any frame
	}

	e.st.Prepare(tx.Hash(), common.Hash{}, e.txIndex)
	snap := e.st.Snapshot()
	receipt, _, err := blockchain.ApplyTransaction(e.cfg, quietLogger, chainCtx{e.cfg}, e.gp, e.st, e.header, tx, e.used, kvm.Config{Debug: true, Tracer: tracer{m}})
	if err != nil {
		e.st.RevertToSnapshot(snap)
	}
	run.Eval(1)
	out.PoolPost = e.gp.Gas()
	post, serr := sweep(e.st)
	if serr != nil {
		return fail("state-not-committable-after-tx", "the state after the transaction cannot be committed/enumerated: "+serr.Error(), nil)
	}
	e.cur = post

	// ---------------- rejected
	if err != nil {
		out.Err = err.Error()
		cls := errClass(err)
		run.Count("rejected", 1)
		run.Count("rejected:"+cls, 1)
		run.Distinct("rejection_class", cls+"|"+spec.Class)
		if expect == "" {
			return fail("valid-tx-rejected:"+cls, fmt.Sprintf("a transaction that passes every pre-execution rule of the property was rejected: %v", err), nil)
		}
		if d := pre.diff(post, e.names); len(d) > 0 {
			return fail("rejected-tx-changed-state:"+cls, fmt.Sprintf("a transaction rejected before execution (%v) changed the state (after the caller's revert): %s", err, strings.Join(d, "; ")), nil)
		}
		if *e.used != usedPre {
			return fail("rejected-tx-counted-gas:"+cls, fmt.Sprintf("block gas-used counter moved by %d for a rejected transaction", *e.used-usedPre), nil)
		}
		if e.gp.Gas() != poolPre {
			// keep going: the rest of the block is still judged, against the pool as the code left it
			c.Violation("rejected-tx-consumes-block-gas:"+cls, fmt.Sprintf("a transaction rejected before execution (%v) left the block gas pool at %d instead of %d (its gas limit %d was taken and not returned)", err, e.gp.Gas(), poolPre, spec.Gas),
				e.witness(*hist, nil))
			run.Count("rejected_with_pool_leak", 1)
		}
		return true
	}

	// ---------------- executed
	e.txIndex++
	out.Status, out.GasUsed, out.Frames = receipt.Status, receipt.GasUsed, m.nFrames
	run.Count("executed", 1)
	if receipt.Status == types.ReceiptStatusFailed {
		run.Count("executed_failed_status", 1)
	}
	if expect != "" {
		return fail("executed-tx-must-be-rejected:"+expect, fmt.Sprintf("transaction executed although the property's pre-execution rule %q rejects it", expect), nil)
	}
	if len(m.frames) != 0 {
		run.Inconclusive(fmt.Sprintf("tracer frames unbalanced in case %s:%d", c.Group, c.I))
		return false
	}
	gasUsed := receipt.GasUsed
	fee := new(big.Int).Mul(new(big.Int).SetUint64(gasUsed), spec.Price)
	if gasUsed > spec.Gas {
		return fail("gas-used-exceeds-limit", fmt.Sprintf("gas used %d > gas limit %d", gasUsed, spec.Gas), nil)
	}
	if poolPre-e.gp.Gas() != gasUsed || e.gp.Gas() > poolPre {
		return fail("gas-pool-delta-differs-from-gas-used", fmt.Sprintf("block gas pool went %d -> %d (delta %d) for a transaction that used %d", poolPre, e.gp.Gas(), int64(poolPre)-int64(e.gp.Gas()), gasUsed), nil)
	}
	if *e.used-usedPre != gasUsed || receipt.CumulativeGasUsed != *e.used {
		return fail("cumulative-gas-differs", fmt.Sprintf("block gas-used counter moved by %d (receipt cumulative %d) for a transaction that used %d", *e.used-usedPre, receipt.CumulativeGasUsed, gasUsed), nil)
	}
	if n := post.nonce(from); n != pre.nonce(from)+1 {
		return fail("sender-nonce-delta", fmt.Sprintf("sender nonce %d -> %d for an executed transaction", pre.nonce(from), n), nil)
	}
	// balances: gas settlement per the property, then deletion of the destroyed accounts
	m.add(from, new(big.Int).Sub(gasCost, fee))
	m.add(w.Coinbase, fee)
	m.finish()
	if len(m.problems) > 0 {
		return fail("value-flow:"+m.problemKey, m.problems[0], map[string]interface{}{"all": m.problems})
	}
	for a := range m.touched {
		e.names[addrHash(a)] = a
	}
	if receipt.ContractAddress != (common.Address{}) {
		e.names[addrHash(receipt.ContractAddress)] = receipt.ContractAddress
	}
	var bad []string
	for h := range post.Accts {
		if _, ok := e.names[h]; !ok {
			bad = append(bad, fmt.Sprintf("account with address hash %s (balance %v) appeared, named by no operation of the transaction", h.Hex(), post.Accts[h].Balance))
		}
	}
	for h, a := range e.names {
		want := m.get(a)
		have := new(big.Int)
		if x := post.Accts[h]; x != nil {
			have = x.Balance
		}
		if want.Cmp(have) != 0 {
			role := ""
			switch a {
			case from:
				role = " (sender)"
			case w.Coinbase:
				role = " (coinbase)"
			}
			bad = append(bad, fmt.Sprintf("%s%s: balance %v, the rules give %v (before: %v)", a.Hex(), role, have, want, pre.balance(a)))
		}
	}
	burn := new(big.Int).Add(m.burnSelf, m.burnLate)
	if len(bad) > 0 {
		key := "balance-differs-from-rules"
		switch {
		case new(big.Int).Sub(pre.Total, post.Total).Cmp(burn) == 0:
			key = "balance-misplaced" // total right, distribution wrong
		case post.Total.Cmp(pre.Total) > 0:
			key = "value-created"
		}
		return fail(key, strings.Join(bad, "; "), map[string]interface{}{"total_before": pre.Total.String(), "total_after": post.Total.String(), "burnt_by_rule": burn.String(), "gas_used": gasUsed})
	}
	if d := new(big.Int).Sub(pre.Total, post.Total); d.Cmp(burn) != 0 {
		return fail("total-differs-from-burn", fmt.Sprintf("sum of balances went %v -> %v (delta %v), self-destructed value is %v", pre.Total, post.Total, d, burn), nil)
	}
	if burn.Sign() > 0 {
		out.Burn = burn.String()
		run.Count("tx_with_burn", 1)
		if m.burnSelf.Sign() > 0 {
			run.Count("burn_selfdestruct_to_self", 1)
		}
		if m.burnLate.Sign() > 0 {
			run.Count("burn_value_sent_to_destroyed_account", 1)
		}
	}

	if plainBase != nil {
		used2 := usedPre
		rc2, _, err2 := blockchain.ApplyTransaction(e.cfg, quietLogger, chainCtx{e.cfg}, new(types.GasPool).AddGas(poolPre), plainBase, e.header, tx, &used2, kvm.Config{})
		var root2 common.Hash
		if err2 == nil {
			if sw, err := sweep(plainBase); err == nil {
				root2 = sw.Root
			}
		}
		if err2 != nil || rc2.GasUsed != gasUsed || rc2.Status != receipt.Status || root2 != post.Root {
			run.Inconclusive(fmt.Sprintf("execution with the tracer attached differs from execution without it (case %s:%d)", c.Group, c.I))
			return false
		}
		run.Count("runs_without_tracer_compared", 1)
	}

	// refund: twin run behind an interface wrapper that hides the refund counter
	tw := &refundTwin{StateDB: twinBase, noRefund: true}
	msg, merr := tx.AsMessage(types.MakeSigner(e.cfg, &e.header.Height))
	if merr != nil {
		run.Inconclusive("twin: AsMessage failed after a successful ApplyTransaction: " + merr.Error())
		return false
	}
	kenv := kvm.NewKVM(vm.NewKVMContext(msg, e.header, chainCtx{e.cfg}), blockchain.NewKVMTxContext(msg), tw, e.cfg, kvm.Config{})
	res, terr := blockchain.NewStateTransition(kenv, msg, new(types.GasPool).AddGas(poolPre)).TransitionDb()
	if terr != nil {
		run.Inconclusive(fmt.Sprintf("twin run rejected (%v) what the observed run executed, case %s:%d", terr, c.Group, c.I))
		return false
	}
	if res.Failed() != (receipt.Status == types.ReceiptStatusFailed) {
		run.Inconclusive(fmt.Sprintf("twin run without refunds ended differently from the observed run, case %s:%d", c.Group, c.I))
		return false
	}
	G, C := res.UsedGas, tw.counter
	refund := int64(G) - int64(gasUsed)
	wantRefund := C
	if G/2 < wantRefund {
		wantRefund = G / 2
	}
	if refund < 0 || uint64(refund) > G/2 {
		return fail("refund-exceeds-half-of-gas-used", fmt.Sprintf("gas before refund %d, charged %d: refund %d, allowed at most %d (refund counter %d)", G, gasUsed, refund, G/2, C), nil)
	}
	if uint64(refund) != wantRefund {
		return fail("refund-differs-from-counter", fmt.Sprintf("gas before refund %d, charged %d: refund %d, but min(counter %d, half %d) = %d", G, gasUsed, refund, C, G/2, wantRefund), nil)
	}
	if C > 0 {
		run.Count("tx_with_refund", 1)
		if C > G/2 {
			run.Count("tx_refund_capped", 1)
		}
	}
	// the wrapper's log of destroyed balances against the model's (two observations of the same run)
	if len(tw.suicides) != liveDestroyed(m) {
		run.Inconclusive(fmt.Sprintf("burn measurements disagree (wrapper saw %d live self-destructs, tracer model %d), case %s:%d", len(tw.suicides), liveDestroyed(m), c.Group, c.I))
		return false
	}

	// coverage
	run.Count("frames", m.nFrames)
	run.Count("frames_failed", m.nFailed)
	run.Count("value_transfers", m.nValue)
	run.Count("selfdestructs", m.nSD)
	run.Count("selfdestructs_to_self", m.nSDSelf)
	run.Count("creates", m.nCreate)
	run.Max("max_call_depth", int64(m.maxDepth))
	for k, v := range m.failKinds {
		run.Count("frame_error:"+k, v)
	}
	if !m.topSeen {
		run.Count("executed_without_top_frame", 1)
	}
	if spec.To == nil {
		run.Count("creation_txs", 1)
	}
	if spec.Price.Sign() == 0 {
		run.Count("price_zero", 1)
	}
	run.Distinct("tx_class", fmt.Sprintf("%s|create=%v|status=%d|gal=%v", spec.Class, spec.To == nil, receipt.Status, w.Galaxias))
	if m.nFrames >= 2 || m.nSD > 0 || m.nFailed > 0 || C > 0 {
		run.Nontrivial(fmt.Sprintf("%s/%d/%d", c.Group, c.I, len(*hist)))
	}
	return true
}

// liveDestroyed counts the self-destructs the model still holds (not undone).
func liveDestroyed(m *flowModel) int { return m.liveSD }

// sequence runs n generated transactions on one block environment.
func sequence(c *core.Case, w *txgen.World, gasLimit uint64, n int) {
	e, err := newEnv(w, gasLimit)
	if err != nil {
		c.Run.Inconclusive("cannot build pre-state: " + err.Error())
		return
	}
	var hist []*outcome
	for i := 0; i < n; i++ {
		ctx := txgen.Ctx{Nonce: e.cur.nonce, Balance: e.cur.balance, PoolGas: e.gp.Gas()}
		spec := txgen.GenTx(c.R, w, ctx)
		if !e.step(c, spec, &hist) {
			return
		}
	}
	if c.I < 2 && c.Group == "random" {
		if len(hist) > 4 {
			hist = hist[:4]
		}
		c.Run.Sample(map[string]interface{}{"case": c.I, "galaxias": w.Galaxias, "coinbase": w.CoinbaseKind, "first_transactions": hist})
	}
}
