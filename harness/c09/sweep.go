package c09

import (
	"bytes"
	"fmt"
	"math/big"

	"github.com/kardiachain/go-kardia/kai/state"
	"github.com/kardiachain/go-kardia/lib/common"
	"github.com/kardiachain/go-kardia/lib/crypto"
	"github.com/kardiachain/go-kardia/lib/rlp"
	"github.com/kardiachain/go-kardia/trie"
	"github.com/kardiachain/go-kardia/types"
)

// acct is one account as stored in the committed account trie.
type acct struct {
	Nonce    uint64
	Balance  *big.Int
	Root     common.Hash
	CodeHash []byte
}

// sweepT is a full enumeration of the state: every account of the committed
// account trie, keyed by the trie key (hash of the address).
type sweepT struct {
	Accts map[common.Hash]*acct
	Total *big.Int
	Root  common.Hash
}

// sweep enumerates all accounts. StateDB.RawDump cannot be used (it panics on
// this tree), so: Copy() -> Commit(true) -> own iteration of the account trie.
// The observed state itself is left untouched.
func sweep(s *state.StateDB) (out *sweepT, err error) {
	defer func() {
		if e := recover(); e != nil { // e.g. an account that cannot be encoded (negative balance)
			out, err = nil, fmt.Errorf("panic while committing a copy of the state: %v", e)
		}
	}()
	cp := s.Copy()
	root, err := cp.Commit(true)
	if err != nil {
		return nil, fmt.Errorf("commit of the copy: %v", err)
	}
	tr, err := cp.Database().OpenTrie(root)
	if err != nil {
		return nil, fmt.Errorf("open trie: %v", err)
	}
	out = &sweepT{Accts: map[common.Hash]*acct{}, Total: new(big.Int), Root: root}
	it := trie.NewIterator(tr.NodeIterator(nil))
	for it.Next() {
		var a types.StateAccount
		if err := rlp.DecodeBytes(it.Value, &a); err != nil {
			return nil, fmt.Errorf("account rlp: %v", err)
		}
		if a.Balance == nil {
			a.Balance = new(big.Int)
		}
		out.Accts[common.BytesToHash(it.Key)] = &acct{a.Nonce, a.Balance, a.Root, a.CodeHash}
		out.Total.Add(out.Total, a.Balance)
	}
	if it.Err != nil {
		return nil, fmt.Errorf("trie iteration: %v", it.Err)
	}
	return out, nil
}

func addrHash(a common.Address) common.Hash { return crypto.Keccak256Hash(a[:]) }

func (s *sweepT) balance(a common.Address) *big.Int {
	if x := s.Accts[addrHash(a)]; x != nil {
		return x.Balance
	}
	return new(big.Int)
}

func (s *sweepT) nonce(a common.Address) uint64 {
	if x := s.Accts[addrHash(a)]; x != nil {
		return x.Nonce
	}
	return 0
}

// diff lists the accounts (by trie key) whose record differs between two sweeps.
func (s *sweepT) diff(o *sweepT, names map[common.Hash]common.Address) []string {
	var out []string
	name := func(h common.Hash) string {
		if a, ok := names[h]; ok {
			return a.Hex()
		}
		return "hash:" + h.Hex()
	}
	for h, x := range s.Accts {
		y := o.Accts[h]
		switch {
		case y == nil:
			out = append(out, fmt.Sprintf("%s: disappeared (balance %v nonce %d)", name(h), x.Balance, x.Nonce))
		case x.Nonce != y.Nonce || x.Balance.Cmp(y.Balance) != 0 || x.Root != y.Root || !bytes.Equal(x.CodeHash, y.CodeHash):
			out = append(out, fmt.Sprintf("%s: balance %v -> %v, nonce %d -> %d, storage root changed=%v, code changed=%v", name(h), x.Balance, y.Balance, x.Nonce, y.Nonce, x.Root != y.Root, !bytes.Equal(x.CodeHash, y.CodeHash)))
		}
	}
	for h, y := range o.Accts {
		if s.Accts[h] == nil {
			out = append(out, fmt.Sprintf("%s: appeared (balance %v nonce %d)", name(h), y.Balance, y.Nonce))
		}
	}
	return out
}
