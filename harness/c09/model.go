package c09

import (
	"fmt"
	"math/big"
	"time"

	"github.com/kardiachain/go-kardia/kai/state"
	"github.com/kardiachain/go-kardia/kvm"
	"github.com/kardiachain/go-kardia/lib/common"

	"verifharness/c09/txgen"
)

// ---------------------------------------------------------------- reference pre-execution check

// precheck is the property's list of reasons for which a transaction is rejected
// before execution, evaluated on the observed pre-state. "" = must be executed.
func precheck(spec *txgen.TxSpec, galaxias bool, nonce uint64, balance *big.Int, pool uint64) string {
	if spec.BadSig != "" {
		return "signature"
	}
	if spec.Nonce < nonce {
		return "nonce-low"
	}
	if spec.Nonce > nonce {
		return "nonce-high"
	}
	cost := new(big.Int).Mul(new(big.Int).SetUint64(spec.Gas), spec.Price)
	if balance.Cmp(cost) < 0 {
		return "insufficient-funds-for-gas"
	}
	if pool < spec.Gas {
		return "block-gas-exhausted"
	}
	if spec.Gas < txgen.IntrinsicGas(spec.Data, spec.To == nil, galaxias) {
		return "intrinsic-gas"
	}
	if new(big.Int).Sub(balance, cost).Cmp(spec.Value) < 0 {
		return "insufficient-funds-for-transfer"
	}
	return ""
}

// ---------------------------------------------------------------- value-flow model driven by the tracer hooks

// flowModel keeps the balances the property's rules predict, following the
// call/create/selfdestruct frames reported through the KVM's tracer hooks:
// a frame moves its value from caller to callee on entry; a frame that ends
// with an error undoes everything that happened inside it (its own transfer
// included); SELFDESTRUCT moves the whole balance to the beneficiary (to
// itself: the funds are burnt) and marks the account for deletion at the end
// of the transaction, together with whatever it still receives afterwards.
type flowModel struct {
	pre         func(common.Address) *big.Int
	bal         map[common.Address]*big.Int
	destroyed   map[common.Address]bool
	pendingSD   bool // a SELFDESTRUCT instruction was executed and its balance move has not been reported yet
	pendingSDAt common.Address
	undo        []func()
	frames      []int
	burnSelf    *big.Int
	burnLate    *big.Int // value that reached an already self-destructed account
	touched     map[common.Address]bool
	problems    []string
	problemKey  string

	liveSD                                                    int // self-destructs not undone by a failed frame
	nFrames, nFailed, nValue, nSD, nSDSelf, nCreate, maxDepth int
	topErr                                                    error
	topSeen                                                   bool
	failKinds                                                 map[string]int
}

func newFlowModel(pre func(common.Address) *big.Int) *flowModel {
	return &flowModel{pre: pre, bal: map[common.Address]*big.Int{}, destroyed: map[common.Address]bool{}, burnSelf: new(big.Int), burnLate: new(big.Int),
		touched: map[common.Address]bool{}, failKinds: map[string]int{}}
}

func (m *flowModel) problem(key, text string) {
	m.problems = append(m.problems, text)
	if m.problemKey == "" {
		m.problemKey = key
	}
}

func (m *flowModel) get(a common.Address) *big.Int {
	if b, ok := m.bal[a]; ok {
		return b
	}
	return m.pre(a)
}

func (m *flowModel) set(a common.Address, v *big.Int) {
	prev, had := m.bal[a]
	m.undo = append(m.undo, func() {
		if had {
			m.bal[a] = prev
		} else {
			delete(m.bal, a)
		}
	})
	m.bal[a] = v
	m.touched[a] = true
}

func (m *flowModel) add(a common.Address, v *big.Int) { m.set(a, new(big.Int).Add(m.get(a), v)) }

func (m *flowModel) sub(a common.Address, v *big.Int, what string) {
	n := new(big.Int).Sub(m.get(a), v)
	if n.Sign() < 0 {
		m.problem("overdraft", fmt.Sprintf("%s takes %v from %s which holds %v", what, v, a.Hex(), m.get(a)))
	}
	m.set(a, n)
}

func (m *flowModel) enter(typ kvm.OpCode, from, to common.Address, value *big.Int) {
	m.frames = append(m.frames, len(m.undo))
	m.nFrames++
	if len(m.frames) > m.maxDepth {
		m.maxDepth = len(m.frames)
	}
	m.touched[from], m.touched[to] = true, true
	switch typ {
	case kvm.CALL, kvm.CREATE, kvm.CREATE2:
		if typ != kvm.CALL {
			m.nCreate++
		}
		if value != nil && value.Sign() > 0 {
			m.nValue++
			m.sub(from, value, typ.String())
			m.add(to, value)
		}
	case kvm.SELFDESTRUCT:
		m.nSD++
		m.liveSD++
		m.undo = append(m.undo, func() { m.liveSD-- })
		amt := m.get(from)
		if value == nil || value.Cmp(amt) != 0 {
			m.problem("selfdestruct-amount", fmt.Sprintf("selfdestruct of %s moved %v, the account should hold %v at that point", from.Hex(), value, amt))
		}
		if to == from {
			m.nSDSelf++
			prev := m.burnSelf
			m.undo = append(m.undo, func() { m.burnSelf = prev })
			m.burnSelf = new(big.Int).Add(m.burnSelf, amt)
		} else {
			m.add(to, amt)
		}
		m.set(from, new(big.Int))
		if !m.destroyed[from] {
			m.undo = append(m.undo, func() { delete(m.destroyed, from) })
			m.destroyed[from] = true
		}
	}
}

func (m *flowModel) exit(err error) {
	if len(m.frames) == 0 {
		m.problem("tracer-frames-unbalanced", "frame exit without entry")
		return
	}
	mark := m.frames[len(m.frames)-1]
	m.frames = m.frames[:len(m.frames)-1]
	if err != nil {
		m.nFailed++
		m.failKinds[errKind(err)]++
		for i := len(m.undo) - 1; i >= mark; i-- {
			m.undo[i]()
		}
		m.undo = m.undo[:mark]
	}
}

func errKind(err error) string {
	s := err.Error()
	if len(s) > 28 {
		s = s[:28]
	}
	return s
}

// finish applies the end-of-transaction deletion of self-destructed accounts.
func (m *flowModel) finish() {
	for a := range m.destroyed {
		if b := m.get(a); b.Sign() != 0 {
			m.burnLate.Add(m.burnLate, b)
			m.bal[a] = new(big.Int)
		}
	}
}

// tracer adapts the model to kvm.KVMLogger.
type tracer struct{ m *flowModel }

func (t tracer) CaptureStart(env *kvm.KVM, from, to common.Address, create bool, input []byte, gas uint64, value *big.Int) {
	typ := kvm.CALL
	if create {
		typ = kvm.CREATE
	}
	t.m.topSeen = true
	t.m.enter(typ, from, to, value)
}

// CaptureState with a nil error is reported right before an instruction is executed (its stack, gas and static-context
// checks have passed). An executed SELFDESTRUCT moves the whole balance: it must be followed by the frame report of that
// move before anything else happens - whether or not the account was destroyed before in the transaction.
func (t tracer) CaptureState(pc uint64, op kvm.OpCode, gas, cost uint64, scope *kvm.ScopeContext, rData []byte, depth int, err error) {
	t.m.checkPendingSD()
	if op == kvm.SELFDESTRUCT && err == nil {
		t.m.pendingSD = true
		t.m.pendingSDAt = scope.Contract.Address()
	}
}
func (t tracer) CaptureEnter(typ kvm.OpCode, from, to common.Address, input []byte, gas uint64, value *big.Int) {
	if typ == kvm.SELFDESTRUCT {
		t.m.pendingSD = false
	}
	t.m.checkPendingSD()
	t.m.enter(typ, from, to, value)
}
func (t tracer) CaptureExit(output []byte, gasUsed uint64, err error) {
	t.m.checkPendingSD()
	t.m.exit(err)
}

func (m *flowModel) checkPendingSD() {
	if m.pendingSD {
		m.pendingSD = false
		m.problem("selfdestruct-executed-without-moving-the-balance", fmt.Sprintf("%s executed SELFDESTRUCT and no balance move was reported for it (the account holds %v)", m.pendingSDAt.Hex(), m.get(m.pendingSDAt)))
	}
}
func (t tracer) CaptureFault(pc uint64, op kvm.OpCode, gas, cost uint64, scope *kvm.ScopeContext, depth int, err error) {
}
func (t tracer) CaptureEnd(output []byte, gasUsed uint64, d time.Duration, err error) {
	t.m.checkPendingSD()
	t.m.topErr = err
	t.m.exit(err)
}

// ---------------------------------------------------------------- refund twin

// refundTwin wraps a StateDB behind the kvm.StateDB interface. It keeps its own
// refund counter (journaled by snapshot id like the real one) and, in noRefund
// mode, hides the counter from the state transition, so that the twin run
// reports the gas used before any refund.
type refundTwin struct {
	*state.StateDB
	noRefund bool
	counter  uint64
	marks    []twinMark
	suicides []twinSuicide
}

type twinMark struct {
	id, nSuicides int
	counter       uint64
}

type twinSuicide struct {
	addr      common.Address
	destroyed *big.Int
}

func (w *refundTwin) AddRefund(g uint64) {
	w.counter += g
	if !w.noRefund {
		w.StateDB.AddRefund(g)
	}
}

func (w *refundTwin) SubRefund(g uint64) {
	if g > w.counter {
		g = w.counter
	}
	w.counter -= g
	if !w.noRefund {
		w.StateDB.SubRefund(g)
	}
}

func (w *refundTwin) GetRefund() uint64 {
	if w.noRefund {
		return 0
	}
	return w.StateDB.GetRefund()
}

func (w *refundTwin) Snapshot() int {
	id := w.StateDB.Snapshot()
	w.marks = append(w.marks, twinMark{id, len(w.suicides), w.counter})
	return id
}

func (w *refundTwin) RevertToSnapshot(id int) {
	w.StateDB.RevertToSnapshot(id)
	for i := len(w.marks) - 1; i >= 0; i-- {
		if w.marks[i].id == id {
			w.counter = w.marks[i].counter
			w.suicides = w.suicides[:w.marks[i].nSuicides]
			w.marks = w.marks[:i]
			return
		}
	}
}

// Suicide logs the balance the call destroys (entries undone by a revert are forgotten).
func (w *refundTwin) Suicide(a common.Address) bool {
	b := new(big.Int).Set(w.StateDB.GetBalance(a))
	ok := w.StateDB.Suicide(a)
	if ok {
		w.suicides = append(w.suicides, twinSuicide{a, b})
	}
	return ok
}
