package c09

import (
	"fmt"
	"math/big"

	"github.com/kardiachain/go-kardia/kvm"
	"github.com/kardiachain/go-kardia/lib/common"
	"github.com/kardiachain/go-kardia/lib/crypto"

	"verifharness/c09/txgen"
	"verifharness/core"
)

// The boundary corpus: fixed scenarios at which a mutation of the anchored
// mechanism shows, each run under both fork rule sets through the same step()
// oracle as the random cases.

const (
	oSTOP   = byte(kvm.STOP)
	oADD    = byte(kvm.ADD)
	oADDR   = byte(kvm.ADDRESS)
	oCALLER = byte(kvm.CALLER)
	oORIGIN = byte(kvm.ORIGIN)
	oCOINB  = byte(kvm.COINBASE)
	oSELFB  = byte(kvm.SELFBALANCE)
	oCALLV  = byte(kvm.CALLVALUE)
	oPOP    = byte(kvm.POP)
	oSSTORE = byte(kvm.SSTORE)
	oGAS    = byte(kvm.GAS)
	oJUMP   = byte(kvm.JUMP)
	oJDEST  = byte(kvm.JUMPDEST)
	oCREATE = byte(kvm.CREATE)
	oCREAT2 = byte(kvm.CREATE2)
	oCALL   = byte(kvm.CALL)
	oCCODE  = byte(kvm.CALLCODE)
	oDCALL  = byte(kvm.DELEGATECALL)
	oINVAL  = byte(kvm.INVALID)
	oSD     = byte(kvm.SELFDESTRUCT)
)

func asm() *txgen.Asm { return &txgen.Asm{} }

// call appends CALL(gas, to, value) POP; value < 0 means "whole balance", -2 "whole balance + 1", -3 "CALLVALUE".
func call(a *txgen.Asm, to common.Address, value int64, gas uint64) *txgen.Asm {
	a.PushU(0).PushU(0).PushU(0).PushU(0)
	switch value {
	case -1:
		a.Op(oSELFB)
	case -2:
		a.Op(oSELFB).PushU(1).Op(oADD)
	case -3:
		a.Op(oCALLV)
	default:
		a.PushU(uint64(value))
	}
	a.PushAddr(to)
	if gas == 0 {
		a.Op(oGAS)
	} else {
		a.PushU(gas)
	}
	return a.Op(oCALL, oPOP)
}

func create(a *txgen.Asm, init []byte, value int64, create2 bool) *txgen.Asm {
	a.StoreCode(init)
	if create2 {
		a.PushU(1)
	}
	a.PushU(uint64(len(init))).PushU(0)
	if value < 0 {
		a.Op(oSELFB)
	} else {
		a.PushU(uint64(value))
	}
	if create2 {
		return a.Op(oCREAT2, oPOP)
	}
	return a.Op(oCREATE, oPOP)
}

func clearSlots(n int) []byte {
	a := asm()
	for s := 0; s < n; s++ {
		a.PushU(0).PushU(uint64(s)).Op(oSSTORE)
	}
	return a.B
}

func slots(n int) map[common.Hash]common.Hash {
	m := map[common.Hash]common.Hash{}
	for s := 0; s < n; s++ {
		m[common.BigToHash(big.NewInt(int64(s)))] = common.BigToHash(big.NewInt(7))
	}
	return m
}

var (
	initRevert  = asm().Revert().B
	initInvalid = []byte{oINVAL}
	initSpin    = asm().Op(oJDEST).PushU(0).Op(oJUMP).B
	initTooBig  = asm().Return(0, 40000).B
	initStoreOO = asm().Return(0, 6000).B
	initSDSelf  = []byte{oADDR, oSD}
	initSDCall  = []byte{oCALLER, oSD}
	initRuntime = asm().PushBytes([]byte{oCALLER, oSD}).PushU(0).Op(byte(kvm.MSTORE)).Return(30, 2).B
)

type scenario struct {
	name      string
	contracts [][]byte    // code of contract i
	balances  []int64     // balance of contract i (default 1000)
	storage   map[int]int // contract i -> number of pre-set slots
	coinbase  string      // "", "sender", "new", "precompile"
	gasLimit  uint64
	senderBal *big.Int
	collide   []int // contract indices whose next CREATE address is occupied (nonce 1); -1 = the sender
	txs       func(w *txgen.World, e *env) []*txgen.TxSpec
}

func c(i int) common.Address { return txgen.ContractAddr(i) }

func toC(i int) *common.Address { a := c(i); return &a }

func plain(to *common.Address, value int64, gas uint64, price int64) *txgen.TxSpec {
	return &txgen.TxSpec{To: to, Value: big.NewInt(value), Gas: gas, Price: big.NewInt(price), Class: "corpus"}
}

func scenarios() []scenario {
	eoaTarget := txgen.FreshAddr(0)
	pre1 := common.BytesToAddress([]byte{1})
	pre6 := common.BytesToAddress([]byte{6})
	big30 := new(big.Int).Exp(big.NewInt(10), big.NewInt(30), nil)
	var list []scenario
	add := func(s scenario) { list = append(list, s) }

	// --- pre-execution checks from both sides
	add(scenario{name: "intrinsic-gas-boundary", txs: func(w *txgen.World, e *env) []*txgen.TxSpec {
		ig := txgen.IntrinsicGas(nil, false, w.Galaxias)
		data := []byte{0, 1, 0, 2, 3}
		igd := txgen.IntrinsicGas(data, false, w.Galaxias)
		igc := txgen.IntrinsicGas(initRuntime, true, w.Galaxias)
		d := plain(&eoaTarget, 1, igd-1, 3)
		d.Data = data
		d2 := plain(&eoaTarget, 1, igd, 3)
		d2.Data = data
		cr := plain(nil, 5, igc-1, 2)
		cr.Data = initRuntime
		cr2 := plain(nil, 5, igc, 2) // exactly intrinsic: creation runs out of gas at once
		cr2.Data = initRuntime
		cr3 := plain(nil, 5, igc+100000, 2)
		cr3.Data = initRuntime
		return []*txgen.TxSpec{plain(&eoaTarget, 1, ig-1, 2), plain(&eoaTarget, 1, ig, 2), plain(&eoaTarget, 1, ig+1, 2), d, d2, cr, cr2, cr3,
			plain(&eoaTarget, 1<<40, ig-1, 0), plain(&eoaTarget, 1, ig, 0)}
	}})
	add(scenario{name: "block-gas-boundary", gasLimit: 100000, txs: func(w *txgen.World, e *env) []*txgen.TxSpec {
		ig := txgen.IntrinsicGas(nil, false, w.Galaxias)
		return []*txgen.TxSpec{plain(&eoaTarget, 1, 100001, 1), plain(&eoaTarget, 1, 100000, 1), plain(&eoaTarget, 1, 100000-ig+1, 1), plain(&eoaTarget, 1, 100000-ig, 1),
			plain(&eoaTarget, 1, 100000-2*ig+1, 1), plain(&eoaTarget, 1, ig, 1)}
	}})
	add(scenario{name: "rejected-then-exact-fit", gasLimit: 100000, txs: func(w *txgen.World, e *env) []*txgen.TxSpec {
		ig := txgen.IntrinsicGas(nil, false, w.Galaxias)
		tooMuch := new(big.Int).Add(w.Accounts[w.EOAs[0]].Balance, big.NewInt(1))
		v := plain(&eoaTarget, 0, 30000, 1)
		v.Value = tooMuch
		return []*txgen.TxSpec{plain(&eoaTarget, 1, ig-1, 1), v, plain(&eoaTarget, 1, 100000, 1), plain(&eoaTarget, 1, 100000-ig, 1)}
	}})
	add(scenario{name: "balance-boundary", senderBal: big.NewInt(1000000000), txs: func(w *txgen.World, e *env) []*txgen.TxSpec {
		bal := e.cur.balance(w.EOAs[0])
		gas := uint64(50000)
		cost := big.NewInt(int64(gas) * 7)
		over := plain(&eoaTarget, 0, gas, 7)
		over.Value = new(big.Int).Add(new(big.Int).Sub(bal, cost), big.NewInt(1))
		exact := plain(&eoaTarget, 0, gas, 7)
		exact.Value = new(big.Int).Sub(bal, cost)
		return []*txgen.TxSpec{over, exact}
	}})
	add(scenario{name: "gas-funds-boundary", senderBal: big.NewInt(50000 * 9), txs: func(w *txgen.World, e *env) []*txgen.TxSpec {
		return []*txgen.TxSpec{plain(&eoaTarget, 0, 50001, 9), plain(&eoaTarget, 0, 50000, 9)}
	}})
	add(scenario{name: "nonce-boundary", txs: func(w *txgen.World, e *env) []*txgen.TxSpec {
		n := e.cur.nonce(w.EOAs[0])
		lo, hi, ok, again := plain(&eoaTarget, 1, 50000, 1), plain(&eoaTarget, 1, 50000, 1), plain(&eoaTarget, 1, 50000, 1), plain(&eoaTarget, 1, 50000, 1)
		lo.Nonce, hi.Nonce, ok.Nonce, again.Nonce = n-1, n+1, n, n
		lo.Class, hi.Class, ok.Class, again.Class = "nonce", "nonce", "nonce", "nonce"
		return []*txgen.TxSpec{lo, hi, ok, again}
	}})
	add(scenario{name: "price-zero-and-huge", senderBal: new(big.Int).Mul(big30, big.NewInt(100000)), coinbase: "new", txs: func(w *txgen.World, e *env) []*txgen.TxSpec {
		h := plain(&eoaTarget, 5, 40000, 0)
		h.Price = big30
		return []*txgen.TxSpec{plain(&eoaTarget, 5, 40000, 0), plain(toC(0), 0, 90000, 0), h}
	}, contracts: [][]byte{clearSlots(2)}, storage: map[int]int{0: 2}})

	// --- refunds
	add(scenario{name: "refund-capped", contracts: [][]byte{clearSlots(4), clearSlots(1), append(clearSlots(2), oCALLER, oSD)}, storage: map[int]int{0: 4, 1: 1, 2: 2},
		txs: func(w *txgen.World, e *env) []*txgen.TxSpec {
			return []*txgen.TxSpec{plain(toC(0), 0, 200000, 3), plain(toC(1), 0, 200000, 3), plain(toC(2), 0, 200000, 3), plain(toC(0), 0, 200000, 3)}
		}})
	add(scenario{name: "refund-then-revert", contracts: [][]byte{append(clearSlots(3), asm().Revert().B...), call(asm(), c(0), 0, 0).Op(oSTOP).B}, storage: map[int]int{0: 3},
		txs: func(w *txgen.World, e *env) []*txgen.TxSpec {
			return []*txgen.TxSpec{plain(toC(0), 0, 200000, 1), plain(toC(1), 0, 200000, 1)}
		}})

	// --- value sent to a failing callee
	add(scenario{name: "value-to-reverting-callee", contracts: [][]byte{asm().Revert().B, initInvalid, initSpin,
		call(asm(), c(0), 5, 0).Op(oSTOP).B,                       // 3: pays a reverting callee, goes on
		call(call(asm(), c(5), 5, 0), c(1), 7, 50000).Op(oSTOP).B, // 4: pays a good one, then a failing one
		{oSTOP},                              // 5
		call(asm(), c(5), 9, 0).Revert().B,   // 6: pays, then reverts itself
		call(asm(), c(6), 11, 0).Op(oSTOP).B, // 7: calls 6 (which pays and reverts)
	}, txs: func(w *txgen.World, e *env) []*txgen.TxSpec {
		return []*txgen.TxSpec{plain(toC(0), 1000, 100000, 2), plain(toC(1), 1000, 100000, 2), plain(toC(2), 1000, 60000, 2), plain(toC(3), 100, 200000, 2),
			plain(toC(4), 100, 300000, 2), plain(toC(6), 100, 200000, 2), plain(toC(7), 100, 300000, 2)}
	}})
	add(scenario{name: "inner-call-exceeds-balance", contracts: [][]byte{call(call(asm(), c(1), -2, 0), c(1), -1, 0).Op(oSTOP).B, {oSTOP}},
		txs: func(w *txgen.World, e *env) []*txgen.TxSpec { return []*txgen.TxSpec{plain(toC(0), 10, 200000, 1)} }})

	// --- creations with endowment
	var creators [][]byte
	for _, ic := range [][]byte{nil, initRevert, initInvalid, initSpin, initTooBig, initStoreOO, initSDSelf, initSDCall, initRuntime} {
		creators = append(creators, create(asm(), ic, 50, false).Op(oSTOP).B)
	}
	add(scenario{name: "create-with-endowment", contracts: creators, txs: func(w *txgen.World, e *env) []*txgen.TxSpec {
		var out []*txgen.TxSpec
		for i := range creators {
			out = append(out, plain(toC(i), 100, 400000, 1))
		}
		for _, ic := range [][]byte{nil, initRevert, initInvalid, initSpin, initTooBig, initStoreOO, initSDSelf, initSDCall, initRuntime} {
			t := plain(nil, 77, 300000, 1)
			t.Data = ic
			out = append(out, t)
		}
		return out
	}, gasLimit: 20000000})
	add(scenario{name: "create-then-revert", contracts: [][]byte{create(asm(), initRuntime, 50, false).Revert().B, create(asm(), initRuntime, 50, true).Op(oSTOP).B,
		call(asm(), c(0), 60, 0).Op(oSTOP).B},
		txs: func(w *txgen.World, e *env) []*txgen.TxSpec {
			return []*txgen.TxSpec{plain(toC(0), 10, 300000, 1), plain(toC(1), 10, 300000, 1), plain(toC(1), 10, 300000, 1) /* CREATE2 collides */, plain(toC(2), 10, 400000, 1)}
		}})
	add(scenario{name: "create-collision", contracts: [][]byte{create(asm(), initRuntime, 50, false).Op(oSTOP).B}, collide: []int{0, -1},
		txs: func(w *txgen.World, e *env) []*txgen.TxSpec {
			t := plain(nil, 77, 300000, 1)
			t.Data = initRuntime
			return []*txgen.TxSpec{plain(toC(0), 10, 300000, 1), t}
		}})

	// --- self-destruct
	sdTo := func(push func(a *txgen.Asm)) []byte { a := asm(); push(a); return a.Op(oSD).B }
	add(scenario{name: "selfdestruct", contracts: [][]byte{
		sdTo(func(a *txgen.Asm) { a.Op(oADDR) }),                    // 0 to self: burn
		sdTo(func(a *txgen.Asm) { a.PushAddr(c(5)) }),               // 1 to an existing contract
		sdTo(func(a *txgen.Asm) { a.PushAddr(txgen.FreshAddr(1)) }), // 2 to a new account
		sdTo(func(a *txgen.Asm) { a.Op(oORIGIN) }),                  // 3 to the sender
		sdTo(func(a *txgen.Asm) { a.Op(oCOINB) }),                   // 4 to the coinbase
		{oSTOP}, // 5
		call(call(asm(), c(7), 0, 0), c(7), 5, 0).Op(oSTOP).B,                                    // 6: lets 7 destroy itself, then pays it: late burn
		asm().Op(oCALLV).PushU(6).Op(byte(kvm.JUMPI), oCALLER, oSD, oJDEST, oSTOP).B,             // 7: destroys itself when called without value, accepts value otherwise
		call(asm(), c(0), 3, 0).Revert().B,                                                       // 8: self-destruct of 0 inside a frame that is then reverted
		asm().PushU(0).PushU(0).PushU(0).PushU(0).PushAddr(c(0)).Op(oGAS, oDCALL, oPOP, oSTOP).B, // 9: delegatecall into "ADDRESS SELFDESTRUCT": burns 9's own balance
	}, txs: func(w *txgen.World, e *env) []*txgen.TxSpec {
		var out []*txgen.TxSpec
		for _, i := range []int{8, 9, 0, 1, 2, 3, 4, 6} {
			out = append(out, plain(toC(i), 40, 300000, 2))
		}
		out = append(out, plain(toC(0), 40, 300000, 2)) // 0 was destroyed: now a plain transfer to a new account
		return out
	}})

	// --- an address destroyed, funded again and re-created within the same block: the new contract inherits the funds
	{
		runtime := asm().Op(oCALLV).PushU(6).Op(byte(kvm.JUMPI), oCALLER, oSD, oJDEST, oSTOP).B // destroys itself when called without value
		init := asm().PushBytes(runtime).PushU(0).Op(byte(kvm.MSTORE)).Return(uint64(32-len(runtime)), uint64(len(runtime))).B
		child := crypto.CreateAddress2(c(0), common.BigToHash(big.NewInt(1)), crypto.Keccak256(init))
		add(scenario{name: "destroy-fund-recreate", contracts: [][]byte{create(asm(), init, 50, true).Op(oSTOP).B}, balances: []int64{100000},
			txs: func(w *txgen.World, e *env) []*txgen.TxSpec {
				return []*txgen.TxSpec{
					plain(toC(0), 10, 400000, 1), // CREATE2: the child exists with 50
					plain(&child, 0, 200000, 1),  // the child destroys itself (funds to the sender)
					plain(&child, 77, 60000, 1),  // the empty address is funded
					plain(toC(0), 10, 400000, 1), // CREATE2 again at the same address: 77 + 50
					plain(&child, 0, 200000, 1),  // destroyed again: 127 to the sender
					plain(&child, 5, 60000, 1),   // funded
					plain(&child, 6, 60000, 1),   // and again
					plain(toC(0), 10, 400000, 1), // third incarnation: 11 + 50
				}
			}})
	}

	// --- a contract that destroys itself, is paid again within the same transaction and destroys itself again: every
	// payment ends at the beneficiary (a destructed contract keeps its code until the transaction ends)
	add(scenario{name: "destroyed-paid-destroyed-again", contracts: [][]byte{
		call(call(call(asm(), c(1), 0, 0), c(1), 7, 0), c(1), 3, 0).Op(oSTOP).B, // driver: three calls in one transaction
		asm().PushAddr(c(2)).Op(oSD).B,                                          // always destroys itself in favour of contract 2
		{oSTOP},
		call(call(asm(), c(4), 5, 0), c(4), 6, 0).Op(oSTOP).B, // the same with the caller as beneficiary
		{oCALLER, oSD},
	}, balances: []int64{1000, 300, 0, 1000, 40},
		txs: func(w *txgen.World, e *env) []*txgen.TxSpec {
			return []*txgen.TxSpec{plain(toC(0), 10, 400000, 1), plain(toC(3), 0, 400000, 1), plain(toC(0), 1, 400000, 1)}
		}})

	// --- odd recipients
	add(scenario{name: "precompile-and-self", contracts: [][]byte{
		call(asm(), pre1, 5, 0).Op(oSTOP).B,
		asm().PushBytes(make([]byte, 31)).PushU(0).Op(byte(kvm.MSTORE)).PushU(0).PushU(0).PushU(64).PushU(0).PushU(6).PushAddr(pre6).Op(oGAS, oCALL, oPOP, oSTOP).B,   // zero point: valid
		asm().PushBytes([]byte{0xff, 0xee}).PushU(0).Op(byte(kvm.MSTORE)).PushU(0).PushU(0).PushU(64).PushU(0).PushU(6).PushAddr(pre6).Op(oGAS, oCALL, oPOP, oSTOP).B, // garbage point: fails, value must come back
		asm().PushU(0).PushU(0).PushU(0).PushU(0).PushU(4).Op(oADDR).PushU(30000).Op(oCALL, oPOP, oSTOP).B,                                                            // pays itself, recursively
		asm().PushU(0).PushU(0).PushU(0).PushU(0).PushU(4).PushAddr(c(5)).Op(oGAS, oCCODE, oPOP, oSTOP).B,                                                             // CALLCODE with value: nothing moves
		{oSTOP},
	}, txs: func(w *txgen.World, e *env) []*txgen.TxSpec {
		self := w.EOAs[0]
		return []*txgen.TxSpec{plain(&pre1, 9, 60000, 1), plain(&pre6, 9, 60000, 1), plain(toC(0), 10, 200000, 1), plain(toC(1), 10, 200000, 1), plain(toC(2), 10, 200000, 1),
			plain(toC(3), 10, 400000, 1), plain(toC(4), 10, 200000, 1), plain(&self, 12, 60000, 1), plain(&w.Coinbase, 12, 60000, 1)}
	}})
	add(scenario{name: "sender-is-coinbase", coinbase: "sender", contracts: [][]byte{call(asm(), c(1), -3, 0).Op(oSTOP).B, {oSTOP}},
		txs: func(w *txgen.World, e *env) []*txgen.TxSpec {
			return []*txgen.TxSpec{plain(&eoaTarget, 5, 60000, 3), plain(toC(0), 5, 200000, 3)}
		}})
	return list
}

func corpusCase(cs *core.Case) {
	list := scenarios()
	if cs.I >= 2*len(list) {
		return
	}
	sc := list[cs.I/2]
	gal := cs.I%2 == 1
	w := &txgen.World{ChainID: big.NewInt(242), Galaxias: gal, Accounts: map[common.Address]*txgen.Account{}}
	k := txgen.Key(0)
	w.Keys = append(w.Keys, k)
	w.EOAs = append(w.EOAs, crypto.PubkeyToAddress(k.PublicKey))
	bal := sc.senderBal
	if bal == nil {
		bal = new(big.Int).Exp(big.NewInt(10), big.NewInt(21), nil)
	}
	w.Accounts[w.EOAs[0]] = &txgen.Account{Balance: bal, Nonce: 3}
	for i, code := range sc.contracts {
		a := &txgen.Account{Balance: big.NewInt(1000), Code: code}
		if i < len(sc.balances) {
			a.Balance = big.NewInt(sc.balances[i])
		}
		if n, ok := sc.storage[i]; ok {
			a.Storage = slots(n)
		}
		w.Contracts = append(w.Contracts, c(i))
		w.Accounts[c(i)] = a
	}
	for i := 0; i < 3; i++ {
		w.Fresh = append(w.Fresh, txgen.FreshAddr(i))
	}
	w.Precompiles = []common.Address{common.BytesToAddress([]byte{1}), common.BytesToAddress([]byte{6})}
	switch sc.coinbase {
	case "sender":
		w.Coinbase, w.CoinbaseKind = w.EOAs[0], "sender-eoa"
	case "new":
		w.Coinbase, w.CoinbaseKind = common.BytesToAddress([]byte{0xcb, 0x02}), "new"
	default:
		w.Coinbase, w.CoinbaseKind = common.BytesToAddress([]byte{0xcb, 0x01}), "existing"
		w.Accounts[w.Coinbase] = &txgen.Account{Balance: big.NewInt(12345)}
	}
	for _, i := range sc.collide {
		from := w.EOAs[0]
		if i >= 0 {
			from = c(i)
		}
		w.Accounts[crypto.CreateAddress(from, w.Accounts[from].Nonce)] = &txgen.Account{Balance: big.NewInt(31), Nonce: 1}
	}
	gl := sc.gasLimit
	if gl == 0 {
		gl = 5000000
	}
	e, err := newEnv(w, gl)
	if err != nil {
		cs.Run.Inconclusive("corpus " + sc.name + ": " + err.Error())
		return
	}
	var hist []*outcome
	for _, spec := range sc.txs(w, e) {
		if spec.Class != "nonce" {
			spec.Nonce = e.cur.nonce(w.EOAs[0])
		}
		spec.Class = sc.name
		spec.DataHex = fmt.Sprintf("%x", spec.Data)
		if !e.step(cs, spec, &hist) {
			return
		}
	}
	cs.Run.Count("corpus_scenarios", 1)
	cs.Run.Nontrivial("corpus:" + sc.name + fmt.Sprint(gal))
}
