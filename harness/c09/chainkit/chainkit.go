// Package chainkit drives a real chain stack (netsim.BuildNode: BlockChain,
// TxPool, cstate store, BlockOperations, BlockExecutor) block by block without
// running consensus: blocks are built by the harness (or by the real
// CreateProposalBlock), commits are signed with the validator keys, and blocks
// are executed through BlockOperations.CommitAndValidateBlockTxs (C09) or
// BlockExecutor.ApplyBlock (C06).
package chainkit

import (
	"crypto/ecdsa"
	"encoding/binary"
	"fmt"
	"math/big"
	"sort"
	"time"

	"github.com/kardiachain/go-kardia/configs"
	"github.com/kardiachain/go-kardia/kai/kaidb"
	"github.com/kardiachain/go-kardia/kai/rawdb"
	"github.com/kardiachain/go-kardia/kai/state/cstate"
	"github.com/kardiachain/go-kardia/lib/common"
	"github.com/kardiachain/go-kardia/lib/crypto"
	"github.com/kardiachain/go-kardia/lib/log"
	"github.com/kardiachain/go-kardia/lib/rlp"
	"github.com/kardiachain/go-kardia/mainchain/blockchain"
	"github.com/kardiachain/go-kardia/mainchain/genesis"
	"github.com/kardiachain/go-kardia/mainchain/staking"
	stypes "github.com/kardiachain/go-kardia/mainchain/staking/types"
	kproto "github.com/kardiachain/go-kardia/proto/kardiachain/types"
	"github.com/kardiachain/go-kardia/trie"
	"github.com/kardiachain/go-kardia/types"
	"sync"

	"verifharness/c09/txgen"
	"verifharness/netsim"
)

const ChainID = "verif-exec"

// ValKeys returns the validator keys (netsim's deterministic keys).
func ValKeys(n int) []*ecdsa.PrivateKey {
	var ks []*ecdsa.PrivateKey
	for i := 0; i < n; i++ {
		ks = append(ks, netsim.Key(i))
	}
	return ks
}

// Genesis builds a genesis with nVals staking validators and the world's accounts.
// galaxias: nil = never, otherwise the fork height.
func Genesis(w *txgen.World, powers []int64, galaxias *uint64) *genesis.Genesis {
	netsim.Quiet()
	keys := ValKeys(len(powers))
	return netsim.MakeGenesis(keys, powers, ChainID, func(g *genesis.Genesis) { AddWorld(g, w, galaxias) })
}

// AddWorld puts the world's accounts and fork schedule into a genesis.
func AddWorld(g *genesis.Genesis, w *txgen.World, galaxias *uint64) {
	cfg := *configs.TestnetChainConfig
	cfg.ChainID = new(big.Int).Set(w.ChainID)
	cfg.GalaxiasBlock = galaxias
	g.Config = &cfg
	for a, acc := range w.Accounts {
		ga := genesis.GenesisAccount{Balance: new(big.Int).Set(acc.Balance), Nonce: acc.Nonce, Code: acc.Code}
		if len(acc.Storage) > 0 {
			ga.Storage = map[common.Hash]common.Hash{}
			for k, v := range acc.Storage {
				ga.Storage[k] = v
			}
		}
		g.Alloc[a] = ga
	}
}

// Rejected is one transaction the block processing skipped, as logged by commitBlock.
type Rejected struct {
	Tx  string
	Err string
}

// RejLog captures commitBlock's "ApplyTransaction failed" records: which transactions of a
// block were rejected is not stored anywhere (receipts carry no transaction hash).
type RejLog struct {
	mu  sync.Mutex
	rej []Rejected
}

func (l *RejLog) handle(r *log.Record) error {
	if r.Msg != "ApplyTransaction failed" {
		return nil
	}
	var e Rejected
	for i := 0; i+1 < len(r.Ctx); i += 2 {
		switch r.Ctx[i] {
		case "tx":
			e.Tx = fmt.Sprint(r.Ctx[i+1])
		case "err":
			e.Err = fmt.Sprint(r.Ctx[i+1])
		}
	}
	l.mu.Lock()
	l.rej = append(l.rej, e)
	l.mu.Unlock()
	return nil
}

// Take returns and clears what was captured.
func (l *RejLog) Take() []Rejected {
	l.mu.Lock()
	defer l.mu.Unlock()
	out := l.rej
	l.rej = nil
	return out
}

// Chain is one replica.
type Chain struct {
	N        *netsim.Node
	BO       *blockchain.BlockOperations // the replica's BlockOperations (own instance, logging into Rej)
	Exec     *cstate.BlockExecutor
	Rej      *RejLog
	ValHook  func(height uint64, appVals []*types.Validator) []*types.Validator
	AppVals  []string // validators the application returned for the last block (canonical order)
	AppOrder []string // ... in the order it reported them
	Returned []string // what the executor was given (after ValHook)
	Gen      *genesis.Genesis
	Keys     []*ecdsa.PrivateKey
	State    cstate.LatestBlockState // consensus state after the last applied block (ApplyBlock-driven chains)
	Label    string
	lastBID  types.BlockID
	lastTime time.Time
}

// New builds a replica on the given store (nil: fresh memory store).
func New(g *genesis.Genesis, nVals int, base kaidb.Database, cache *blockchain.CacheConfig, label string) (*Chain, error) {
	keys := ValKeys(nVals)
	n, err := netsim.BuildNode(0, g, keys[0], base, nil, nil, netsim.NodeOpts{Cache: cache})
	if err != nil {
		return nil, err
	}
	st, err := n.Store.LoadStateFromDBOrGenesisDoc(g)
	if err != nil {
		n.Stop(false)
		return nil, err
	}
	su, err := staking.NewSmcStakingUtil()
	if err != nil {
		n.Stop(false)
		return nil, err
	}
	c := &Chain{N: n, Gen: g, Keys: keys, State: st, Label: label, lastTime: g.Timestamp, Rej: &RejLog{}}
	lg := log.New()
	lg.SetHandler(log.FuncHandler(c.Rej.handle))
	c.BO = blockchain.NewBlockOperations(lg, n.BC, n.Pool, n.EvPool, su)
	quiet := log.New()
	quiet.SetHandler(log.DiscardHandler())
	c.Exec = cstate.NewBlockExecutor(n.Store, quiet, n.EvPool, &appStore{c.BO, c})
	c.Exec.SetEventBus(n.Bus)
	return c, nil
}

// appStore is the cstate.BlockStore the replica's executor talks to: the real BlockOperations,
// observed (validators returned by the application, app hash) and optionally with the returned
// validator list rewritten by ValHook (the same multiset on every replica, in replica-specific order).
type appStore struct {
	*blockchain.BlockOperations
	c *Chain
}

func (a *appStore) CommitAndValidateBlockTxs(b *types.Block, lc stypes.LastCommitInfo, byz []stypes.Evidence) ([]*types.Validator, common.Hash, error) {
	vals, root, err := a.BlockOperations.CommitAndValidateBlockTxs(b, lc, byz)
	a.c.AppVals = SortedVals(vals)
	a.c.AppOrder = nil
	for _, v := range vals {
		a.c.AppOrder = append(a.c.AppOrder, fmt.Sprintf("%x", v.Address[:4]))
	}
	if err == nil && a.c.ValHook != nil {
		vals = a.c.ValHook(b.Height(), vals)
	}
	a.c.Returned = SortedVals(vals)
	return vals, root, err
}

// RawBlockInfo reads the stored execution result of a block without rawdb.ReadBlockInfo's
// derivation step (which refuses blocks whose receipt count differs from the transaction
// count, i.e. every block with a skipped transaction).
func (c *Chain) RawBlockInfo(hash common.Hash, height uint64) *types.BlockInfo {
	return RawBlockInfo(c.N.DB, hash, height)
}

// RawBlockInfo reads the stored block info record of a block from a node database.
func RawBlockInfo(db kaidb.Database, hash common.Hash, height uint64) *types.BlockInfo {
	key := append([]byte("i"), make([]byte, 8)...)
	binary.BigEndian.PutUint64(key[1:], height)
	key = append(key, hash.Bytes()...)
	data, _ := db.Get(key)
	if len(data) == 0 {
		return nil
	}
	bi := &types.BlockInfo{}
	if err := rlp.DecodeBytes(data, bi); err != nil {
		return nil
	}
	return bi
}

func (c *Chain) Close(flush bool) { c.N.Stop(flush) }

func (c *Chain) Height() uint64 { return c.N.BC.CurrentBlock().Height() }

// ValAddr returns validator i's address.
func (c *Chain) ValAddr(i int) common.Address { return netsim.Addr(c.Keys[i]) }

// ---------------------------------------------------------------- raw execution (C09)

// RawBlock builds block `height` with the given transactions and gas limit; nothing
// but what CommitAndValidateBlockTxs reads needs to be right.
func (c *Chain) RawBlock(height uint64, gasLimit uint64, proposer common.Address, txs []*types.Transaction) (*types.Block, *types.PartSet) {
	h := &types.Header{Height: height, Time: c.Gen.Timestamp.Add(time.Duration(height) * 5 * time.Second), GasLimit: gasLimit, ProposerAddress: proposer,
		NumTxs: uint64(len(txs)), LastBlockID: c.lastBID}
	lc := EmptyCommit()
	if height > 1 {
		// stored blocks above height 1 must carry a commit with signatures (the tx pool re-reads them on every head event)
		lc = c.SignCommit(c.State.Validators, height-1, c.lastBID, h.Time, nil)
	}
	blk := types.NewBlock(h, txs, lc, nil, trie.NewStackTrie(nil))
	return blk, blk.MakePartSet(types.BlockPartSizeBytes)
}

// ExecRaw saves the block and executes it through CommitAndValidateBlockTxs.
func (c *Chain) ExecRaw(blk *types.Block, ps *types.PartSet) ([]*types.Validator, common.Hash, *types.BlockInfo, error) {
	bid := types.BlockID{Hash: blk.Hash(), PartsHeader: ps.Header()}
	c.BO.SaveBlock(blk, ps, c.SignCommit(c.State.Validators, blk.Height(), bid, blk.Time(), nil))
	var lc stypes.LastCommitInfo
	if blk.Height() > 1 {
		for i := range c.Keys {
			_, v := c.State.Validators.GetByAddress(c.ValAddr(i))
			if v != nil {
				lc.Votes = append(lc.Votes, stypes.VoteInfo{Address: v.Address, VotingPower: big.NewInt(v.VotingPower), SignedLastBlock: true})
			}
		}
	}
	vals, root, err := c.BO.CommitAndValidateBlockTxs(blk, lc, nil)
	if err != nil {
		return nil, common.Hash{}, nil, err
	}
	c.lastBID = bid
	return vals, root, c.RawBlockInfo(blk.Hash(), blk.Height()), nil
}

// ---------------------------------------------------------------- consensus-shaped execution (C06)

// SignCommit makes the commit of block `bid` at the given height, signed by every validator of set.
func (c *Chain) SignCommit(set *types.ValidatorSet, height uint64, bid types.BlockID, ts time.Time, absent map[int]bool) *types.Commit {
	sigs := make([]types.CommitSig, len(set.Validators))
	for i, v := range set.Validators {
		var key *ecdsa.PrivateKey
		ki := -1
		for j, k := range c.Keys {
			if netsim.Addr(k) == v.Address {
				key, ki = k, j
			}
		}
		if key == nil || absent[ki] {
			sigs[i] = types.NewCommitSigAbsent()
			continue
		}
		t := ts.Add(time.Duration(ki) * time.Millisecond)
		vote := &types.Vote{ValidatorAddress: v.Address, ValidatorIndex: uint32(i), Height: height, Round: 1, Timestamp: t, Type: kproto.PrecommitType, BlockID: bid}
		sig, err := crypto.Sign(crypto.Keccak256(types.VoteSignBytes(c.State.ChainID, vote.ToProto())), key)
		if err != nil {
			panic(err)
		}
		sigs[i] = types.NewCommitSigForBlock(sig, v.Address, t)
	}
	return types.NewCommit(height, 1, bid, sigs)
}

// Proposer returns the proposer of the next height according to the replica's state.
func (c *Chain) Proposer() common.Address { return c.State.Validators.GetProposer().Address }

// Propose lets the real BlockOperations build the next block from the replica's pool.
func (c *Chain) Propose(lastCommit *types.Commit) (*types.Block, *types.PartSet) {
	return c.BO.CreateProposalBlock(c.State.LastBlockHeight+1, c.State, c.Proposer(), lastCommit)
}

// HandBlock builds a block with the given transactions on top of the replica's state, as a
// (possibly careless) proposer could: header fields as CreateProposalBlock sets them.
func (c *Chain) HandBlock(lastCommit *types.Commit, gasLimit uint64, txs []*types.Transaction, evidence ...types.Evidence) (*types.Block, *types.PartSet) {
	st := c.State
	height := st.LastBlockHeight + 1
	t := st.LastBlockTime
	if height > st.InitialHeight {
		t = cstate.MedianTime(lastCommit, st.LastValidators)
	}
	h := &types.Header{Height: height, Time: t, GasLimit: gasLimit, LastBlockID: st.LastBlockID, ProposerAddress: c.Proposer(),
		ValidatorsHash: st.Validators.Hash(), NextValidatorsHash: st.NextValidators.Hash(), AppHash: st.AppHash}
	blk := types.NewBlock(h, txs, lastCommit, evidence, trie.NewStackTrie(nil))
	return blk, blk.MakePartSet(types.BlockPartSizeBytes)
}

// DuplicateVote fabricates the evidence that validator key ki prevoted two different blocks at the
// given (already committed) height: both votes are signed with its key.
func (c *Chain) DuplicateVote(ki int, height uint64) (types.Evidence, error) {
	set, err := c.N.Store.LoadValidators(height)
	if err != nil {
		return nil, err
	}
	addr := c.ValAddr(ki)
	idx, _ := set.GetByAddress(addr)
	if idx < 0 {
		return nil, fmt.Errorf("validator %d not in the set of height %d", ki, height)
	}
	meta := c.N.BC.LoadBlockMeta(height)
	if meta == nil {
		return nil, fmt.Errorf("no block meta at height %d", height)
	}
	mk := func(tag byte) *types.Vote {
		bid := types.BlockID{Hash: common.BytesToHash([]byte{0xe0, tag, byte(height)}), PartsHeader: types.PartSetHeader{Total: 1, Hash: common.BytesToHash([]byte{0xe1, tag})}}
		v := &types.Vote{ValidatorAddress: addr, ValidatorIndex: uint32(idx), Height: height, Round: 1, Timestamp: meta.Header.Time, Type: kproto.PrevoteType, BlockID: bid}
		sig, err := crypto.Sign(crypto.Keccak256(types.VoteSignBytes(c.State.ChainID, v.ToProto())), c.Keys[ki])
		if err != nil {
			panic(err)
		}
		v.Signature = sig
		return v
	}
	ev := types.NewDuplicateVoteEvidence(mk(1), mk(2), meta.Header.Time, set)
	if ev == nil {
		return nil, fmt.Errorf("evidence could not be built")
	}
	return ev, nil
}

// EmptyCommit is the last commit of the first block.
func EmptyCommit() *types.Commit { return types.NewCommit(0, 0, types.BlockID{}, nil) }

// Apply saves and applies a block the way consensus' finalizeCommit does (SaveBlock, then ApplyBlock).
func (c *Chain) Apply(blk *types.Block, ps *types.PartSet, seen *types.Commit) error {
	bid := types.BlockID{Hash: blk.Hash(), PartsHeader: ps.Header()}
	if err := c.Exec.ValidateBlock(c.State, blk); err != nil {
		return fmt.Errorf("ValidateBlock: %w", err)
	}
	c.BO.SaveBlock(blk, ps, seen)
	st, _, err := c.Exec.ApplyBlock(c.State, bid, blk)
	if err != nil {
		return fmt.Errorf("ApplyBlock: %w", err)
	}
	c.State = st
	c.lastBID = bid
	return nil
}

// BlockInfo returns the stored execution result of a block through the public reader.
func (c *Chain) BlockInfo(blk *types.Block) *types.BlockInfo {
	return rawdb.ReadBlockInfo(c.N.DB, blk.Hash(), blk.Height(), c.N.BC.Config())
}

// SortedVals renders a validator list canonically.
func SortedVals(vals []*types.Validator) []string {
	var out []string
	for _, v := range vals {
		out = append(out, fmt.Sprintf("%x=%d", v.Address[:], v.VotingPower))
	}
	sort.Strings(out)
	return out
}

// ValAddrOf returns the address of validator key i.
func ValAddrOf(i int) common.Address { return netsim.Addr(netsim.Key(i)) }
