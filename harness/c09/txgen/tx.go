package txgen

import (
	"crypto/ecdsa"
	"fmt"
	"math/big"
	"math/rand"

	"github.com/kardiachain/go-kardia/configs"
	"github.com/kardiachain/go-kardia/lib/common"
	"github.com/kardiachain/go-kardia/lib/crypto"
	"github.com/kardiachain/go-kardia/types"
)

// TxSpec describes one generated transaction.
type TxSpec struct {
	From    int             `json:"from_eoa"`
	To      *common.Address `json:"to"`
	Nonce   uint64          `json:"nonce"`
	Value   *big.Int        `json:"value"`
	Gas     uint64          `json:"gas"`
	Price   *big.Int        `json:"price"`
	Data    []byte          `json:"-"`
	DataHex string          `json:"data"`
	BadSig  string          `json:"bad_sig,omitempty"` // "", "other-fork-signer", "other-chain-id"
	Class   string          `json:"class"`             // what the generator aimed at
}

// IntrinsicGas is the property's intrinsic gas rule with this code base's
// constants (configs): base cost by kind and fork, plus the per-byte data cost.
func IntrinsicGas(data []byte, creation, galaxias bool) uint64 {
	var g uint64
	switch {
	case creation:
		g = configs.TxGasContractCreation
	case galaxias:
		g = configs.TxGas
	default:
		g = configs.TxGasLegacy
	}
	for _, b := range data {
		if b == 0 {
			g += configs.TxDataZeroGas
		} else {
			g += configs.TxDataNonZeroGas
		}
	}
	return g
}

// Ctx is what the generator may look at.
type Ctx struct {
	Nonce   func(common.Address) uint64
	Balance func(common.Address) *big.Int
	PoolGas uint64
}

func randPrice(r *rand.Rand) *big.Int {
	switch r.Intn(6) {
	case 0:
		return new(big.Int)
	case 1:
		return big.NewInt(1)
	case 2:
		return big.NewInt(int64(1 + r.Intn(10)))
	case 3:
		return big.NewInt(1000000000)
	case 4:
		return new(big.Int).Mul(big.NewInt(int64(1+r.Intn(1000))), pow10(9+r.Intn(6)))
	}
	return big.NewInt(int64(1 + r.Intn(1000)))
}

// GenTx draws one transaction. The classes aim at every pre-execution check from both sides.
func GenTx(r *rand.Rand, w *World, c Ctx) *TxSpec {
	s := &TxSpec{From: 0}
	if len(w.EOAs) > 1 && r.Intn(3) == 0 {
		s.From = r.Intn(len(w.EOAs))
	}
	from := w.EOAs[s.From]
	nonce, bal := c.Nonce(from), c.Balance(from)
	s.Nonce = nonce
	creation := r.Intn(5) == 0
	if creation {
		if r.Intn(2) == 0 {
			_, s.Data = InitCodes(w, r)
		} else {
			s.Data = Program(r, w, -1)
		}
	} else {
		var to common.Address
		switch k := r.Intn(10); {
		case k < 6:
			to = w.Contracts[r.Intn(len(w.Contracts))]
		default:
			t := w.Targets()
			to = t[r.Intn(len(t))]
		}
		s.To = &to
		if r.Intn(3) == 0 {
			s.Data = make([]byte, r.Intn(40))
			for i := range s.Data {
				if r.Intn(3) != 0 {
					s.Data[i] = byte(r.Intn(256))
				}
			}
		}
	}
	ig := IntrinsicGas(s.Data, creation, w.Galaxias)
	s.Gas = ig + uint64(r.Intn(600000))
	if r.Intn(4) == 0 {
		s.Gas = ig + uint64(r.Intn(40000))
	}
	s.Price = randPrice(r)
	s.Value = new(big.Int)
	switch r.Intn(4) {
	case 0:
	case 1:
		s.Value = big.NewInt(int64(r.Intn(5000)))
	default:
		if bal.Sign() > 0 {
			s.Value = new(big.Int).Rand(r, new(big.Int).Add(new(big.Int).Div(bal, big.NewInt(int64(2+r.Intn(1000)))), big.NewInt(1)))
		}
	}
	s.Class = "plain"
	cost := func() *big.Int { return new(big.Int).Mul(new(big.Int).SetUint64(s.Gas), s.Price) }
	switch k := r.Intn(100); {
	case k < 52:
	case k < 56:
		s.Gas, s.Class = ig-1, "gas=intrinsic-1"
	case k < 60:
		s.Gas, s.Class = ig, "gas=intrinsic"
	case k < 63:
		s.Gas, s.Class = ig+1, "gas=intrinsic+1"
	case k < 66:
		if c.PoolGas > 0 {
			s.Gas, s.Class = c.PoolGas-1, "gas=pool-1"
		}
	case k < 69:
		s.Gas, s.Class = c.PoolGas, "gas=pool"
	case k < 73:
		s.Gas, s.Class = c.PoolGas+1, "gas=pool+1"
	case k < 76:
		if nonce > 0 {
			s.Nonce, s.Class = nonce-1, "nonce-1"
		}
	case k < 79:
		s.Nonce, s.Class = nonce+1+uint64(r.Intn(3)), "nonce+k"
	case k < 84: // exactly the needed balance: value = balance - gas*price
		if s.Price.Sign() == 0 {
			s.Price = big.NewInt(1)
		}
		if v := new(big.Int).Sub(bal, cost()); v.Sign() >= 0 {
			s.Value, s.Class = v, "balance=needed"
		}
	case k < 89: // one less than needed
		if s.Price.Sign() == 0 {
			s.Price = big.NewInt(1)
		}
		if v := new(big.Int).Sub(bal, cost()); v.Sign() >= 0 {
			s.Value, s.Class = v.Add(v, big.NewInt(1)), "balance=needed-1"
		}
	case k < 92: // cannot pay for the gas by one unit
		if s.Gas > 0 {
			p := new(big.Int).Div(bal, new(big.Int).SetUint64(s.Gas))
			s.Price, s.Value, s.Class = p.Add(p, big.NewInt(1)), new(big.Int), "gas*price>balance"
		}
	case k < 94: // pays for the gas exactly, nothing left
		if s.Gas > 0 && bal.Sign() > 0 {
			g := new(big.Int).SetUint64(s.Gas)
			if new(big.Int).Mod(bal, g).Sign() == 0 {
				s.Price, s.Value, s.Class = new(big.Int).Div(bal, g), new(big.Int), "gas*price=balance"
			}
		}
	case k < 97:
		s.BadSig, s.Class = "other-fork-signer", "bad-signature"
		if r.Intn(2) == 0 && w.Galaxias {
			s.BadSig = "other-chain-id"
		}
	default: // a large gas limit
		s.Gas, s.Class = ig+uint64(r.Intn(3000000)), "big-gas"
	}
	s.DataHex = fmt.Sprintf("%x", s.Data)
	return s
}

// Signer returns the signer the chain expects at this fork.
func (w *World) Signer() types.Signer {
	if w.Galaxias {
		return types.NewChainIDSigner(w.ChainID)
	}
	return types.HomesteadSigner{}
}

// Sign builds and signs the transaction.
func (s *TxSpec) Sign(w *World) *types.Transaction {
	var tx *types.Transaction
	if s.To == nil {
		tx = types.NewContractCreation(s.Nonce, s.Value, s.Gas, s.Price, s.Data)
	} else {
		tx = types.NewTransaction(s.Nonce, *s.To, s.Value, s.Gas, s.Price, s.Data)
	}
	signer := w.Signer()
	switch s.BadSig {
	case "other-fork-signer":
		if w.Galaxias {
			// an unprotected signature is still accepted after the fork, so use a foreign chain id instead
			signer = types.NewChainIDSigner(new(big.Int).Add(w.ChainID, big.NewInt(1)))
		} else {
			signer = types.NewChainIDSigner(w.ChainID)
		}
	case "other-chain-id":
		signer = types.NewChainIDSigner(new(big.Int).Add(w.ChainID, big.NewInt(7)))
	}
	return SignWith(signer, tx, w.Keys[s.From])
}

// SignWith signs the hash the given signer defines. (types.SignTx cannot be used:
// it always signs the pre-fork hash, so with a ChainIDSigner it yields a
// transaction whose recovered sender is not the key's address.)
func SignWith(signer types.Signer, tx *types.Transaction, key *ecdsa.PrivateKey) *types.Transaction {
	h := signer.Hash(tx)
	sig, err := crypto.Sign(h[:], key)
	if err != nil {
		panic(err)
	}
	stx, err := tx.WithSignature(signer, sig)
	if err != nil {
		panic(err)
	}
	return stx
}
