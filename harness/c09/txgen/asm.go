// Package txgen generates pre-states ("worlds"), value-moving contract code and
// transactions for the execution properties C09 (conservation / gas / nonce
// accounting) and C06 (deterministic block execution). Everything is a
// deterministic function of the *rand.Rand handed in.
package txgen

import (
	"math/big"

	"github.com/kardiachain/go-kardia/kvm"
	"github.com/kardiachain/go-kardia/lib/common"
)

// opcode numbers are taken from the KVM's own table (its numbering is not Ethereum's everywhere)
const (
	opSTOP         = byte(kvm.STOP)
	opADD          = byte(kvm.ADD)
	opISZERO       = byte(kvm.ISZERO)
	opSHA3         = byte(kvm.SHA3)
	opADDRESS      = byte(kvm.ADDRESS)
	opBALANCE      = byte(kvm.BALANCE)
	opORIGIN       = byte(kvm.ORIGIN)
	opCALLER       = byte(kvm.CALLER)
	opCALLVALUE    = byte(kvm.CALLVALUE)
	opCOINBASE     = byte(kvm.COINBASE)
	opSELFBALANCE  = byte(kvm.SELFBALANCE)
	opPOP          = byte(kvm.POP)
	opMSTORE       = byte(kvm.MSTORE)
	opSLOAD        = byte(kvm.SLOAD)
	opSSTORE       = byte(kvm.SSTORE)
	opJUMP         = byte(kvm.JUMP)
	opJUMPI        = byte(kvm.JUMPI)
	opGAS          = byte(kvm.GAS)
	opJUMPDEST     = byte(kvm.JUMPDEST)
	opPUSH1        = byte(kvm.PUSH1)
	opDUP1         = byte(kvm.DUP1)
	opLOG1         = byte(kvm.LOG1)
	opCREATE       = byte(kvm.CREATE)
	opCALL         = byte(kvm.CALL)
	opCALLCODE     = byte(kvm.CALLCODE)
	opRETURN       = byte(kvm.RETURN)
	opDELEGATECALL = byte(kvm.DELEGATECALL)
	opCREATE2      = byte(kvm.CREATE2)
	opSTATICCALL   = byte(kvm.STATICCALL)
	opREVERT       = byte(kvm.REVERT)
	opINVALID      = byte(kvm.INVALID)
	opSELFDESTRUCT = byte(kvm.SELFDESTRUCT)
)

// Asm is a tiny straight-line assembler.
type Asm struct{ B []byte }

func (a *Asm) Op(ops ...byte) *Asm { a.B = append(a.B, ops...); return a }

// PushBytes pushes d (1..32 bytes, leading zeros kept as given).
func (a *Asm) PushBytes(d []byte) *Asm {
	if len(d) == 0 {
		d = []byte{0}
	}
	if len(d) > 32 {
		d = d[len(d)-32:]
	}
	a.B = append(a.B, opPUSH1+byte(len(d)-1))
	a.B = append(a.B, d...)
	return a
}

func (a *Asm) Push(v *big.Int) *Asm           { return a.PushBytes(v.Bytes()) }
func (a *Asm) PushU(v uint64) *Asm            { return a.Push(new(big.Int).SetUint64(v)) }
func (a *Asm) PushAddr(x common.Address) *Asm { return a.PushBytes(x[:]) }

// StoreCode puts code (<= 32 bytes) at memory offset 0 (left aligned), so that
// CREATE(value, 0, len(code)) runs it as init code.
func (a *Asm) StoreCode(code []byte) *Asm {
	if len(code) == 0 {
		return a
	}
	w := make([]byte, 32)
	copy(w, code)
	return a.PushBytes(w).PushU(0).Op(opMSTORE)
}

// Return returns memory [off, off+size).
func (a *Asm) Return(off, size uint64) *Asm { return a.PushU(size).PushU(off).Op(opRETURN) }
func (a *Asm) Revert() *Asm                 { return a.PushU(0).PushU(0).Op(opREVERT) }
