package txgen

import (
	"crypto/ecdsa"
	"fmt"
	"math/big"
	"math/rand"
	"sort"

	"github.com/kardiachain/go-kardia/kvm"
	"github.com/kardiachain/go-kardia/lib/common"
	"github.com/kardiachain/go-kardia/lib/crypto"
)

// Account is one pre-state account.
type Account struct {
	Balance *big.Int
	Nonce   uint64
	Code    []byte
	Storage map[common.Hash]common.Hash
}

// World is a generated pre-state plus the address pools programs and
// transactions draw from.
type World struct {
	ChainID      *big.Int
	Galaxias     bool
	Keys         []*ecdsa.PrivateKey
	EOAs         []common.Address // EOAs[i] belongs to Keys[i]
	Contracts    []common.Address
	Fresh        []common.Address // do not exist in the pre-state
	Precompiles  []common.Address
	NoBlockHash  bool // programs must not read BLOCKHASH (twin chains whose block hashes differ by construction)
	Coinbase     common.Address
	CoinbaseKind string
	Accounts     map[common.Address]*Account // the pre-state
}

// Key returns the deterministic key of generated EOA i.
func Key(i int) *ecdsa.PrivateKey {
	k, err := crypto.ToECDSA(common.Hex2Bytes(fmt.Sprintf("%064x", 0x770000+i)))
	if err != nil {
		panic(err)
	}
	return k
}

func ContractAddr(i int) common.Address {
	return common.BytesToAddress([]byte{0xc0, 0xde, byte(i + 1)})
}
func FreshAddr(i int) common.Address { return common.BytesToAddress([]byte{0xf0, 0x0d, byte(i + 1)}) }

// Targets returns every address a program may name.
func (w *World) Targets() []common.Address {
	var t []common.Address
	t = append(t, w.EOAs...)
	t = append(t, w.Contracts...)
	t = append(t, w.Fresh...)
	t = append(t, w.Precompiles...)
	t = append(t, w.Coinbase)
	return t
}

// Sorted returns the pre-state addresses in a fixed order.
func (w *World) Sorted() []common.Address {
	var out []common.Address
	for a := range w.Accounts {
		out = append(out, a)
	}
	sort.Slice(out, func(i, j int) bool { return string(out[i][:]) < string(out[j][:]) })
	return out
}

func pow10(n int) *big.Int { return new(big.Int).Exp(big.NewInt(10), big.NewInt(int64(n)), nil) }

func randBalance(r *rand.Rand) *big.Int {
	switch r.Intn(6) {
	case 0:
		return new(big.Int)
	case 1:
		return big.NewInt(int64(1 + r.Intn(3)))
	case 2:
		return big.NewInt(int64(r.Intn(100000)))
	case 3:
		return new(big.Int).Mul(big.NewInt(int64(1+r.Intn(1000))), pow10(15))
	case 4:
		return new(big.Int).Mul(big.NewInt(int64(1+r.Intn(1000))), pow10(24))
	}
	return big.NewInt(int64(r.Intn(5000)))
}

// WorldOpts tunes NewWorld.
type WorldOpts struct {
	Galaxias   bool
	NEOA       int
	NContracts int
	ChainID    *big.Int
	// FixedCoinbase, if set, is used as coinbase (chain-level use: the proposer).
	FixedCoinbase *common.Address
	// RichEOAs gives every EOA a large balance (chain-level use).
	RichEOAs bool
	// NoCollisions: do not pre-place accounts at future CREATE addresses.
	NoCollisions bool
	// NoBlockHash: generated programs do not read BLOCKHASH.
	NoBlockHash bool
}

// NewWorld draws a pre-state.
func NewWorld(r *rand.Rand, o WorldOpts) *World {
	if o.NEOA == 0 {
		o.NEOA = 3
	}
	if o.NContracts == 0 {
		o.NContracts = 5
	}
	if o.ChainID == nil {
		o.ChainID = big.NewInt(242)
	}
	w := &World{ChainID: o.ChainID, Galaxias: o.Galaxias, NoBlockHash: o.NoBlockHash, Accounts: map[common.Address]*Account{}}
	for i := 0; i < o.NEOA; i++ {
		k := Key(i)
		w.Keys = append(w.Keys, k)
		w.EOAs = append(w.EOAs, crypto.PubkeyToAddress(k.PublicKey))
	}
	for i := 0; i < o.NContracts; i++ {
		w.Contracts = append(w.Contracts, ContractAddr(i))
	}
	for i := 0; i < 3; i++ {
		w.Fresh = append(w.Fresh, FreshAddr(i))
	}
	for _, p := range []byte{1, 2, 4, 6} {
		w.Precompiles = append(w.Precompiles, common.BytesToAddress([]byte{p}))
	}
	// coinbase
	switch k := r.Intn(6); {
	case o.FixedCoinbase != nil:
		w.Coinbase, w.CoinbaseKind = *o.FixedCoinbase, "fixed"
	case k == 0:
		w.Coinbase, w.CoinbaseKind = w.EOAs[0], "sender-eoa"
	case k == 1 && o.NEOA > 1:
		w.Coinbase, w.CoinbaseKind = w.EOAs[o.NEOA-1], "other-eoa"
	case k == 2:
		w.Coinbase, w.CoinbaseKind = common.BytesToAddress([]byte{2}), "precompile"
	case k == 3:
		w.Coinbase, w.CoinbaseKind = common.BytesToAddress([]byte{0xcb, 0x01}), "existing"
		w.Accounts[w.Coinbase] = &Account{Balance: randBalance(r)}
	default:
		w.Coinbase, w.CoinbaseKind = common.BytesToAddress([]byte{0xcb, 0x02}), "new"
	}
	// EOAs
	for i, a := range w.EOAs {
		bal := new(big.Int).Mul(big.NewInt(int64(1+r.Intn(1000))), pow10(15+3*r.Intn(4)))
		if !o.RichEOAs && i > 0 && r.Intn(4) == 0 {
			bal = randBalance(r)
		}
		if o.RichEOAs {
			bal = new(big.Int).Mul(big.NewInt(int64(1+r.Intn(1000))), pow10(24))
		}
		acc := w.Accounts[a]
		if acc == nil {
			acc = &Account{}
			w.Accounts[a] = acc
		}
		acc.Balance = bal
		if !o.RichEOAs {
			acc.Nonce = uint64(r.Intn(4))
		}
	}
	// an existing but completely empty account among the fresh ones
	if r.Intn(3) == 0 {
		w.Accounts[w.Fresh[2]] = &Account{Balance: new(big.Int)}
	}
	// contracts: code is drawn after all addresses are known
	for _, a := range w.Contracts {
		acc := &Account{Balance: randBalance(r), Storage: map[common.Hash]common.Hash{}}
		if r.Intn(3) == 0 {
			acc.Nonce = 1
		}
		for s := 0; s < 4; s++ {
			if r.Intn(2) == 0 {
				acc.Storage[common.BigToHash(big.NewInt(int64(s)))] = common.BigToHash(big.NewInt(int64(1 + r.Intn(3))))
			}
		}
		w.Accounts[a] = acc
	}
	for i, a := range w.Contracts {
		w.Accounts[a].Code = Program(r, w, i)
	}
	// pre-placed accounts at future CREATE addresses: collisions and balance carry-over
	if !o.NoCollisions {
		for _, a := range append(append([]common.Address{}, w.Contracts[:2]...), w.EOAs[0]) {
			if r.Intn(5) != 0 {
				continue
			}
			at := crypto.CreateAddress(a, w.Accounts[a].Nonce)
			if r.Intn(2) == 0 {
				w.Accounts[at] = &Account{Balance: randBalance(r), Nonce: 1} // collision
			} else {
				w.Accounts[at] = &Account{Balance: big.NewInt(int64(1 + r.Intn(1000)))} // balance carried over
			}
		}
	}
	return w
}

// ---------------------------------------------------------------- programs

// InitCodes are init-code variants of at most 32 bytes, by name.
func InitCodes(w *World, r *rand.Rand) (string, []byte) {
	a := &Asm{}
	switch r.Intn(12) {
	case 0:
		return "empty", nil
	case 1:
		return "stop", []byte{opSTOP}
	case 2:
		return "revert", a.Revert().B
	case 3:
		return "invalid", []byte{opINVALID}
	case 4: // infinite loop: out of gas
		return "spin", a.Op(opJUMPDEST).PushU(0).Op(opJUMP).B
	case 5:
		return "selfdestruct-to-creator", []byte{opCALLER, opSELFDESTRUCT}
	case 6:
		return "selfdestruct-to-self", []byte{opADDRESS, opSELFDESTRUCT}
	case 7: // runtime = CALLER SELFDESTRUCT
		return "runtime-sd-caller", a.PushBytes([]byte{opCALLER, opSELFDESTRUCT}).PushU(0).Op(opMSTORE).Return(30, 2).B
	case 8: // runtime = ADDRESS SELFDESTRUCT
		return "runtime-sd-self", a.PushBytes([]byte{opADDRESS, opSELFDESTRUCT}).PushU(0).Op(opMSTORE).Return(30, 2).B
	case 9: // code larger than the maximum
		return "code-too-large", a.Return(0, 40000).B
	case 10: // code-store gas cannot be paid by a small CREATE
		return "code-store-oog", a.Return(0, 3000+uint64(r.Intn(3000))).B
	}
	// forwards its endowment to somebody and stops
	t := w.Targets()
	a.PushU(0).PushU(0).PushU(0).PushU(0).Op(opSELFBALANCE)
	a.PushBytes(trimAddr(t[r.Intn(len(t))]))
	a.Op(opGAS, opCALL)
	return "forward-endowment", a.B
}

func trimAddr(x common.Address) []byte {
	b := x[:]
	for len(b) > 1 && b[0] == 0 {
		b = b[1:]
	}
	return b
}

func pushValue(a *Asm, r *rand.Rand) string {
	switch r.Intn(8) {
	case 0, 1:
		a.PushU(0)
		return "0"
	case 2:
		a.PushU(1)
		return "1"
	case 3, 4:
		a.PushU(uint64(r.Intn(5000)))
		return "small"
	case 5:
		a.Op(opSELFBALANCE)
		return "all"
	case 6:
		a.Op(opSELFBALANCE).PushU(1).Op(opADD)
		return "all+1"
	}
	a.Op(opCALLVALUE)
	return "callvalue"
}

func pushTarget(a *Asm, r *rand.Rand, w *World, self int) {
	switch r.Intn(12) {
	case 0:
		a.Op(opADDRESS)
	case 1:
		a.Op(opCALLER)
	case 2:
		a.Op(opORIGIN)
	case 3:
		a.Op(opCOINBASE)
	case 4, 5, 6: // another contract (often a later one, so that call chains are finite more often than not)
		a.PushBytes(trimAddr(w.Contracts[r.Intn(len(w.Contracts))]))
	default:
		t := w.Targets()
		a.PushBytes(trimAddr(t[r.Intn(len(t))]))
	}
}

func pushGas(a *Asm, r *rand.Rand) {
	switch r.Intn(5) {
	case 0:
		a.PushU(0)
	case 1:
		a.PushU(2300)
	case 2:
		a.Op(opGAS)
	default:
		a.PushU(uint64(r.Intn(200000)))
	}
}

// Program draws a straight-line value-moving program for contract index self (-1: init code of a creation transaction).
func Program(r *rand.Rand, w *World, self int) []byte {
	a := &Asm{}
	n := 1 + r.Intn(6)
	for i := 0; i < n; i++ {
		switch r.Intn(20) {
		case 0, 1, 2, 3, 4, 5: // CALL with value
			inSize := uint64(0)
			if r.Intn(4) == 0 {
				inSize = 64
			}
			a.PushU(0).PushU(0).PushU(inSize).PushU(0)
			pushValue(a, r)
			pushTarget(a, r, w, self)
			pushGas(a, r)
			a.Op(opCALL, opPOP)
		case 6: // CALLCODE with value (no value moves)
			a.PushU(0).PushU(0).PushU(0).PushU(0)
			pushValue(a, r)
			a.PushBytes(trimAddr(w.Contracts[r.Intn(len(w.Contracts))]))
			pushGas(a, r)
			a.Op(opCALLCODE, opPOP)
		case 7: // DELEGATECALL / STATICCALL
			a.PushU(0).PushU(0).PushU(0).PushU(0)
			a.PushBytes(trimAddr(w.Contracts[r.Intn(len(w.Contracts))]))
			pushGas(a, r)
			if r.Intn(2) == 0 {
				a.Op(opDELEGATECALL, opPOP)
			} else {
				a.Op(opSTATICCALL, opPOP)
			}
		case 8, 9, 10: // CREATE with endowment
			_, ic := InitCodes(w, r)
			a.StoreCode(ic)
			a.PushU(uint64(len(ic))).PushU(0)
			pushValue(a, r)
			a.Op(opCREATE, opPOP)
		case 11: // CREATE2 with a tiny salt space: repeated execution collides
			_, ic := InitCodes(w, r)
			a.StoreCode(ic)
			a.PushU(uint64(r.Intn(2))).PushU(uint64(len(ic))).PushU(0)
			pushValue(a, r)
			a.Op(opCREATE2, opPOP)
		case 12, 13, 14: // SSTORE: set / reset / clear (refund)
			a.PushU(uint64(r.Intn(3))).PushU(uint64(r.Intn(4))).Op(opSSTORE)
		case 15: // clear all four slots: a refund larger than half the gas used is within reach
			for s := 0; s < 4; s++ {
				a.PushU(0).PushU(uint64(s)).Op(opSSTORE)
			}
		case 16: // LOG1
			a.PushU(uint64(r.Intn(4))).PushU(32).PushU(0).Op(opLOG1)
		case 17:
			if r.Intn(2) == 0 { // SHA3 of a growing memory area: burns gas
				a.PushU(uint64(32*(1+r.Intn(64)))).PushU(0).Op(opSHA3, opPOP)
			} else { // record something of the execution environment in storage (block context, gas left)
				envOps := []byte{byte(kvm.TIMESTAMP), byte(kvm.NUMBER), opCOINBASE, byte(kvm.GASLIMIT), byte(kvm.GASPRICE), opORIGIN, opCALLER, opGAS, byte(kvm.CHAINID), byte(kvm.BLOCKHASH)}
				op := envOps[r.Intn(len(envOps))]
				if op == byte(kvm.BLOCKHASH) && w.NoBlockHash {
					op = byte(kvm.NUMBER)
				}
				if op == byte(kvm.BLOCKHASH) {
					a.PushU(1).Op(byte(kvm.NUMBER), byte(kvm.SUB))
				}
				a.Op(op).PushU(uint64(4 + r.Intn(3))).Op(opSSTORE)
			}
		case 18: // SELFDESTRUCT in the middle (the rest is dead code, kept for its bytes)
			if r.Intn(3) == 0 {
				selfdestruct(a, r, w, self)
			}
		case 19:
			if r.Intn(3) == 0 {
				a.Revert()
			}
		}
	}
	switch r.Intn(14) {
	case 0:
		a.Revert()
	case 1:
		a.Op(opINVALID)
	case 2, 3:
		selfdestruct(a, r, w, self)
	case 4:
		if r.Intn(3) == 0 { // out of gas by looping
			pc := uint64(len(a.B))
			a.Op(opJUMPDEST).PushU(pc).Op(opJUMP)
		}
	case 5:
		a.Return(0, 32)
	}
	return a.B
}

func selfdestruct(a *Asm, r *rand.Rand, w *World, self int) {
	switch r.Intn(6) {
	case 0, 1:
		a.Op(opADDRESS)
	case 2:
		a.Op(opCALLER)
	case 3:
		a.PushBytes(trimAddr(w.Fresh[r.Intn(len(w.Fresh))]))
	default:
		pushTarget(a, r, w, self)
	}
	a.Op(opSELFDESTRUCT)
}
