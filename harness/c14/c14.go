// Package c14 decides C14: the consensus state survives a save/load round trip
// unchanged. Chains of consensus states are produced by the REAL update path
// (cstate.BlockExecutor.ApplyBlock -> updateState -> Store.Save) over a real
// kaidb database; the application behind the executor is scripted (a
// height-indexed validator schedule) and writes the block metas / app hashes /
// head markers through rawdb exactly as SaveBlock and WriteBlockAndSetHead do.
// After every save a deep copy of the in-memory state is taken with the
// monitor's own snapshot code; the state loaded from disk (Store.Load,
// LoadStateFromDBOrGenesisDoc, LoadValidators, LoadConsensusParams), with and
// without PruneState ranges, is compared with it field by field.
package c14

import (
	"bytes"
	"crypto/ecdsa"
	"fmt"
	"math/big"
	"math/rand"
	"os"
	"runtime/debug"
	"sort"
	"strings"
	"sync"
	"sync/atomic"
	"time"

	"github.com/kardiachain/go-kardia/configs"
	"github.com/kardiachain/go-kardia/kai/kaidb"
	"github.com/kardiachain/go-kardia/kai/kaidb/leveldb"
	"github.com/kardiachain/go-kardia/kai/kaidb/memorydb"
	"github.com/kardiachain/go-kardia/kai/rawdb"
	"github.com/kardiachain/go-kardia/kai/state/cstate"
	"github.com/kardiachain/go-kardia/lib/common"
	"github.com/kardiachain/go-kardia/lib/crypto"
	"github.com/kardiachain/go-kardia/lib/log"
	"github.com/kardiachain/go-kardia/mainchain/genesis"
	stypes "github.com/kardiachain/go-kardia/mainchain/staking/types"
	kproto "github.com/kardiachain/go-kardia/proto/kardiachain/types"
	"github.com/kardiachain/go-kardia/trie"
	"github.com/kardiachain/go-kardia/types"

	"verifharness/core"
)

func init() { core.Register("C14", Main) }

// ---------------------------------------------------------------------------
// deterministic validator keys

const keyPoolSize = 48

var (
	keyOnce  sync.Once
	keyPool  []*ecdsa.PrivateKey
	keyAddrs []common.Address
	keyByAdr map[common.Address]*ecdsa.PrivateKey
)

func keys() {
	keyOnce.Do(func() {
		keyByAdr = map[common.Address]*ecdsa.PrivateKey{}
		for i := 0; i < keyPoolSize; i++ {
			k, err := crypto.ToECDSA(crypto.Keccak256([]byte(fmt.Sprintf("verif c14 validator key %d", i))))
			if err != nil {
				panic(err)
			}
			keyPool = append(keyPool, k)
			a := crypto.PubkeyToAddress(k.PublicKey)
			keyAddrs = append(keyAddrs, a)
			keyByAdr[a] = k
		}
	})
}

// ---------------------------------------------------------------------------
// the monitor's own deep copies (never go-kardia's Copy())

type valSnap struct {
	Addr  common.Address
	Power int64
	Prio  int64
}

type setSnap struct {
	Nil      bool
	Vals     []valSnap
	Proposer *valSnap // the designated proposer record
	Total    int64
}

type stateSnap struct {
	ChainID       string
	InitialHeight uint64
	Height        uint64
	TotalTx       uint64
	BlockHash     common.Hash
	PartsTotal    uint32
	PartsHash     common.Hash
	TimeNano      int64
	AppHash       common.Hash
	Params        []byte
	ParamsStr     string
	LHVC          uint64
	LHCPC         uint64
	Last          setSnap
	Cur           setSnap
	Next          setSnap
}

func snapSet(vs *types.ValidatorSet) setSnap {
	if vs == nil {
		return setSnap{Nil: true}
	}
	s := setSnap{}
	for _, v := range vs.Validators {
		s.Vals = append(s.Vals, valSnap{v.Address, v.VotingPower, v.ProposerPriority})
		s.Total += v.VotingPower
	}
	if vs.Proposer != nil {
		s.Proposer = &valSnap{vs.Proposer.Address, vs.Proposer.VotingPower, vs.Proposer.ProposerPriority}
	}
	return s
}

func snapState(st *cstate.LatestBlockState) *stateSnap {
	pb, _ := st.ConsensusParams.Marshal()
	return &stateSnap{
		ChainID: st.ChainID, InitialHeight: st.InitialHeight, Height: st.LastBlockHeight, TotalTx: st.LastBlockTotalTx,
		BlockHash: st.LastBlockID.Hash, PartsTotal: st.LastBlockID.PartsHeader.Total, PartsHash: st.LastBlockID.PartsHeader.Hash,
		TimeNano: st.LastBlockTime.UnixNano(), AppHash: st.AppHash,
		Params: append([]byte(nil), pb...), ParamsStr: st.ConsensusParams.String(),
		LHVC: st.LastHeightValidatorsChanged, LHCPC: st.LastHeightConsensusParamsChanged,
		Last: snapSet(st.LastValidators), Cur: snapSet(st.Validators), Next: snapSet(st.NextValidators),
	}
}

func (s setSnap) dump() []string {
	if s.Nil {
		return []string{"<nil set>"}
	}
	var o []string
	for _, v := range s.Vals {
		o = append(o, fmt.Sprintf("%x power=%d prio=%d", v.Addr[:4], v.Power, v.Prio))
	}
	if s.Proposer != nil {
		o = append(o, fmt.Sprintf("proposer=%x", s.Proposer.Addr[:4]))
	} else {
		o = append(o, "proposer=<nil>")
	}
	return o
}

// diff is one difference between a saved and a loaded item.
type diff struct {
	Key  string // suffix of the violation key
	What string
}

// cmpSet classifies how a loaded set differs from the saved one:
// membership (addresses, powers, order, size), priorities, proposer.
func cmpSet(saved, loaded setSnap) (kind, what string) {
	if saved.Nil != loaded.Nil {
		return "membership", fmt.Sprintf("saved nil=%v, loaded nil=%v", saved.Nil, loaded.Nil)
	}
	if saved.Nil {
		return "", ""
	}
	if len(saved.Vals) != len(loaded.Vals) {
		return "membership", fmt.Sprintf("saved %d validators, loaded %d", len(saved.Vals), len(loaded.Vals))
	}
	for i := range saved.Vals {
		a, b := saved.Vals[i], loaded.Vals[i]
		if a.Addr != b.Addr || a.Power != b.Power {
			return "membership", fmt.Sprintf("index %d: saved %x power=%d, loaded %x power=%d", i, a.Addr[:4], a.Power, b.Addr[:4], b.Power)
		}
	}
	for i := range saved.Vals {
		a, b := saved.Vals[i], loaded.Vals[i]
		if a.Prio != b.Prio {
			return "priorities", fmt.Sprintf("validator %x (index %d): saved priority %d, loaded %d", a.Addr[:4], i, a.Prio, b.Prio)
		}
	}
	switch {
	case saved.Proposer == nil && loaded.Proposer == nil:
	case saved.Proposer == nil || loaded.Proposer == nil:
		return "proposer", fmt.Sprintf("saved proposer nil=%v, loaded proposer nil=%v", saved.Proposer == nil, loaded.Proposer == nil)
	case saved.Proposer.Addr != loaded.Proposer.Addr:
		return "proposer", fmt.Sprintf("saved proposer %x, loaded proposer %x", saved.Proposer.Addr[:4], loaded.Proposer.Addr[:4])
	}
	return "", ""
}

// cmpState compares the listed fields of the property.
func cmpState(saved, loaded *stateSnap) []diff {
	var d []diff
	add := func(k, f string, a ...interface{}) { d = append(d, diff{k, fmt.Sprintf(f, a...)}) }
	genesisField := func(field string) string {
		if saved.Height == 0 {
			return "genesis-state-not-roundtrip-stable:" + field
		}
		return "state-after-reload:" + field
	}
	if saved.Height != loaded.Height {
		add(genesisField("last-block-height"), "saved LastBlockHeight %d, loaded %d", saved.Height, loaded.Height)
	}
	if saved.ChainID != loaded.ChainID {
		add(genesisField("chain-id"), "saved ChainID %q, loaded %q", saved.ChainID, loaded.ChainID)
	}
	if saved.InitialHeight != loaded.InitialHeight {
		add(genesisField("initial-height"), "saved InitialHeight %d, loaded %d", saved.InitialHeight, loaded.InitialHeight)
	}
	if saved.BlockHash != loaded.BlockHash || saved.PartsTotal != loaded.PartsTotal || saved.PartsHash != loaded.PartsHash {
		add(genesisField("last-block-id"), "saved LastBlockID %x:%d:%x, loaded %x:%d:%x", saved.BlockHash[:6], saved.PartsTotal, saved.PartsHash[:6],
			loaded.BlockHash[:6], loaded.PartsTotal, loaded.PartsHash[:6])
	}
	if saved.TimeNano != loaded.TimeNano {
		add(genesisField("last-block-time"), "saved LastBlockTime %d ns, loaded %d ns", saved.TimeNano, loaded.TimeNano)
	}
	if saved.AppHash != loaded.AppHash {
		add(genesisField("app-hash"), "saved AppHash %x, loaded %x", saved.AppHash[:8], loaded.AppHash[:8])
	}
	if !bytes.Equal(saved.Params, loaded.Params) {
		add(genesisField("consensus-params"), "saved params {%s}, loaded {%s}", saved.ParamsStr, loaded.ParamsStr)
	}
	if saved.LHVC != loaded.LHVC {
		add(genesisField("last-height-validators-changed"), "saved LastHeightValidatorsChanged %d, loaded %d", saved.LHVC, loaded.LHVC)
	}
	for _, s := range []struct {
		name string
		a, b setSnap
	}{{"last", saved.Last, loaded.Last}, {"current", saved.Cur, loaded.Cur}, {"next", saved.Next, loaded.Next}} {
		if kind, what := cmpSet(s.a, s.b); kind != "" {
			add(kind+"-after-reload:"+s.name, "%s validator set of the state at height %d: %s", s.name, saved.Height, what)
		}
	}
	return d
}

// ---------------------------------------------------------------------------
// the scripted application (implements cstate.BlockStore)

type appVal struct {
	Key   int   `json:"key"`
	Power int64 `json:"power"`
}

type scriptedApp struct {
	db       kaidb.Database
	salt     int64
	vals     []appVal            // the application's current validator list
	schedule map[uint64][]appVal // height -> the list from that height on
	sendNil  map[uint64]bool     // heights at which the application reports no list at all
}

func (a *scriptedApp) Config() *configs.ChainConfig { return configs.TestChainConfig }

func appRoot(salt int64, height uint64) common.Hash {
	return common.BytesToHash(crypto.Keccak256([]byte(fmt.Sprintf("c14 app root %d %d", salt, height))))
}

// CommitAndValidateBlockTxs does to the database what BlockOperations.CommitAndValidateBlockTxs
// -> BlockChain.WriteBlockAndSetHead does (block info, canonical hash, app hash of the height in one
// batch, then canonical hash / tx lookup / head block hash in a second one), and returns the
// scripted validator list in place of the staking contract's.
func (a *scriptedApp) CommitAndValidateBlockTxs(block *types.Block, _ stypes.LastCommitInfo, _ []stypes.Evidence) ([]*types.Validator, common.Hash, error) {
	h := block.Height()
	root := appRoot(a.salt, h)
	b := a.db.NewBatch()
	rawdb.WriteBlockInfo(b, block.Hash(), h, &types.BlockInfo{})
	rawdb.WriteCanonicalHash(b, block.Hash(), h)
	rawdb.WriteAppHash(b, h, root)
	if err := b.Write(); err != nil {
		return nil, common.Hash{}, err
	}
	b = a.db.NewBatch()
	rawdb.WriteCanonicalHash(b, block.Hash(), h)
	rawdb.WriteTxLookupEntries(b, block)
	rawdb.WriteHeadBlockHash(b, block.Hash())
	if err := b.Write(); err != nil {
		return nil, common.Hash{}, err
	}
	if l, ok := a.schedule[h]; ok {
		a.vals = l
	}
	if a.sendNil[h] {
		return nil, root, nil
	}
	keys()
	out := make([]*types.Validator, 0, len(a.vals))
	for _, v := range a.vals {
		out = append(out, &types.Validator{Address: keyAddrs[v.Key], VotingPower: v.Power})
	}
	return out, root, nil
}

// ---------------------------------------------------------------------------
// script of one chain

type script struct {
	Class     string              `json:"class"`
	ChainID   string              `json:"chain_id"`
	Genesis   []appVal            `json:"genesis_validators"`
	NotStart  []appVal            `json:"genesis_validators_not_started,omitempty"`
	Params    string              `json:"consensus_params"`
	Length    int                 `json:"length"`
	Schedule  map[uint64][]appVal `json:"schedule,omitempty"`
	SendNil   []uint64            `json:"app_reports_no_list_at,omitempty"`
	AbsentPct int                 `json:"absent_signers_pct"`
	params    *kproto.ConsensusParams
	salt      int64
	genTime   time.Time
}

type world struct {
	sc       *script
	db       kaidb.Database
	mem      *memorydb.Database
	store    cstate.Store
	exec     *cstate.BlockExecutor
	app      *scriptedApp
	bus      *types.EventBus
	gdoc     *genesis.Genesis
	state    cstate.LatestBlockState
	saved    map[uint64]*stateSnap // height -> deep copy of the state Save() was called with
	signers  map[uint64]setSnap    // height -> set that was entitled to sign (and signed) that height
	commit   *types.Commit         // seen commit of the head block
	pruned   map[uint64]bool
	r        *rand.Rand
	appAt    map[uint64][]appVal             // height -> the application's list after that block (for rewinds)
	schedule map[uint64][]appVal             // the application's schedule (the script's; may be altered after a rewind)
	inApply  bool                            // set while BlockExecutor.ApplyBlock runs (a panic then is the real code's)
	full     *fullStack                      // non-nil: real BlockChain + BlockOperations instead of the scripted application
	wrap     func(cstate.Store) cstate.Store // optional: observe the store's calls (group atomic)
}

func powerOf(r *rand.Rand, class int) int64 {
	switch class {
	case 0:
		return 1
	case 1:
		return 1 + int64(r.Intn(5))
	case 2:
		return 1 + int64(r.Intn(1000))
	case 3: // skewed
		if r.Intn(3) == 0 {
			return 1 + r.Int63n(1e12)
		}
		return 1 + int64(r.Intn(3))
	}
	return 1 + r.Int63n(1e15)
}

func randParams(r *rand.Rand) *kproto.ConsensusParams {
	switch r.Intn(4) {
	case 0:
		return configs.DefaultConsensusParams()
	case 1:
		return configs.TestConsensusParams()
	}
	p := configs.DefaultConsensusParams()
	p.Block.MaxBytes = 1 + r.Int63n(1<<30)
	p.Block.MaxGas = uint64(r.Int63n(1 << 40))
	p.Block.TimeIotaMs = 1 + r.Int63n(100000)
	p.Evidence.MaxAgeNumBlocks = 1 + r.Int63n(1<<30)
	p.Evidence.MaxAgeDuration = time.Duration(1 + r.Int63n(int64(1000*time.Hour)))
	p.Evidence.MaxBytes = r.Int63n(1 << 30)
	if r.Intn(2) == 0 {
		p.Validator.PubKeyTypes = []string{"secp256k1"}
	}
	return p
}

func copyVals(l []appVal) []appVal { return append([]appVal(nil), l...) }

// genScript draws one chain script. class selects the workload class of the property's quantifier.
func genScript(r *rand.Rand, class string, length int) *script {
	sc := &script{Class: class, ChainID: fmt.Sprintf("c14-%d", r.Intn(1000)), Length: length, Schedule: map[uint64][]appVal{}}
	sc.salt = r.Int63()
	sc.genTime = time.Unix(1700000000+int64(r.Intn(1e6)), int64(r.Intn(1000))*1e6).UTC()
	sc.params = randParams(r)
	sc.Params = sc.params.String()
	n := 1 + r.Intn(7)
	if class == "single" {
		n = 1
	}
	pclass := r.Intn(5)
	perm := r.Perm(keyPoolSize)
	nextKey := 0
	fresh := func() int { k := perm[nextKey%keyPoolSize]; nextKey++; return k }
	for i := 0; i < n; i++ {
		sc.Genesis = append(sc.Genesis, appVal{fresh(), powerOf(r, pclass)})
	}
	if r.Intn(4) == 0 {
		sc.NotStart = append(sc.NotStart, appVal{fresh(), powerOf(r, pclass)})
	}
	if r.Intn(3) == 0 {
		sc.AbsentPct = 10 + r.Intn(20) // the signers keep more than 2/3 of the power
	}
	cur := copyVals(sc.Genesis)
	history := [][]appVal{copyVals(cur)}
	mutate := func() {
		// one random valid change of the application's list
		switch x := r.Intn(10); {
		case x < 3 && len(cur) < 9: // add
			cur = append(cur, appVal{fresh(), powerOf(r, pclass)})
		case x < 6 && len(cur) > 1: // remove
			i := r.Intn(len(cur))
			cur = append(cur[:i:i], cur[i+1:]...)
		case x < 9: // power change
			i := r.Intn(len(cur))
			old := cur[i].Power
			for cur[i].Power == old {
				cur[i].Power = powerOf(r, r.Intn(5))
			}
		default: // several at once
			i := r.Intn(len(cur))
			cur[i].Power += 1 + int64(r.Intn(3))
			if len(cur) < 9 {
				cur = append(cur, appVal{fresh(), powerOf(r, pclass)})
			}
		}
	}
	set := func(h int) {
		sc.Schedule[uint64(h)] = copyVals(cur)
		history = append(history, copyVals(cur))
	}
	L := length
	switch class {
	case "static", "genesis":
	case "single":
		// a single validator whose power changes now and then, possibly joined by a second for a while
		for h := 1; h <= L; h++ {
			if r.Intn(4) == 0 {
				if len(cur) == 1 && r.Intn(3) == 0 {
					cur = append(cur, appVal{fresh(), powerOf(r, pclass)})
				} else if len(cur) == 2 && r.Intn(2) == 0 {
					cur = cur[:1]
				} else {
					cur[0].Power += 1 + int64(r.Intn(5))
				}
				set(h)
			}
		}
	case "consecutive":
		// runs of changes at consecutive heights
		for h := 1; h <= L; {
			h += r.Intn(4)
			run := 2 + r.Intn(4)
			for k := 0; k < run && h <= L; k++ {
				mutate()
				set(h)
				h++
			}
			h += r.Intn(5)
		}
	case "return":
		// a pool of 2..4 memberships (the genesis one possibly among them); the application walks among them at
		// random heights, with gaps of 0..4 heights (gap 0 = changes at consecutive heights), so that every
		// membership is left and re-entered, with different priorities each time
		pool := [][]appVal{}
		if r.Intn(2) == 0 {
			pool = append(pool, copyVals(cur))
		}
		for len(pool) < 2+r.Intn(3) {
			mutate()
			pool = append(pool, copyVals(cur))
		}
		cur = copyVals(sc.Genesis)
		at := -1
		for h := 1 + r.Intn(2); h <= L; h += 1 + r.Intn(5) {
			k := r.Intn(len(pool))
			if k == at {
				k = (k + 1) % len(pool)
			}
			at = k
			cur = copyVals(pool[k])
			set(h)
			if r.Intn(3) == 0 { // a run at consecutive heights
				for j := 0; j < 1+r.Intn(4) && h+1 <= L; j++ {
					h++
					at = (at + 1 + r.Intn(len(pool)-1)) % len(pool)
					cur = copyVals(pool[at])
					set(h)
				}
			}
		}
	default: // "random"
		p := 1 + r.Intn(6)
		for h := 1; h <= L; h++ {
			if r.Intn(10) < p {
				if r.Intn(4) == 0 && len(history) > 1 {
					cur = copyVals(history[r.Intn(len(history))]) // back to some earlier membership
				} else {
					mutate()
				}
				set(h)
			}
		}
	}
	if r.Intn(3) == 0 {
		for h := 1; h <= L; h++ {
			if _, ok := sc.Schedule[uint64(h)]; !ok && r.Intn(5) == 0 {
				sc.SendNil = append(sc.SendNil, uint64(h))
			}
		}
	}
	return sc
}

// ---------------------------------------------------------------------------
// building the chain through the real code

// writeGenesisBlock writes a height-0 block as genesis.Genesis.Commit does.
func writeGenesisBlock(db kaidb.Database, sc *script) {
	head := &types.Header{Time: sc.genTime, Height: 0, GasLimit: configs.GenesisGasLimit, AppHash: appRoot(sc.salt, 0)}
	block := types.NewBlock(head, nil, &types.Commit{}, nil, trie.NewStackTrie(nil))
	parts := block.MakePartSet(types.BlockPartSizeBytes)
	rawdb.WriteBlock(db, block, parts, &types.Commit{})
	rawdb.WriteBlockInfo(db, block.Hash(), block.Height(), nil)
	rawdb.WriteCanonicalHash(db, block.Hash(), block.Height())
	rawdb.WriteHeadBlockHash(db, block.Hash())
	rawdb.WriteAppHash(db, block.Height(), block.AppHash())
	rawdb.WriteChainConfig(db, block.Hash(), configs.TestChainConfig)
}

func genesisDoc(sc *script) *genesis.Genesis {
	keys()
	g := &genesis.Genesis{ChainID: sc.ChainID, InitialHeight: 0, Timestamp: sc.genTime, ConsensusParams: sc.params}
	mk := func(v appVal, start bool) *genesis.GenesisValidator {
		tokens := new(big.Int).Mul(big.NewInt(v.Power), configs.PowerReduction).String()
		return &genesis.GenesisValidator{Name: fmt.Sprintf("v%d", v.Key), Address: keyAddrs[v.Key].Hex(), SelfDelegate: tokens, StartWithGenesis: start}
	}
	for _, v := range sc.Genesis {
		g.Validators = append(g.Validators, mk(v, true))
	}
	for _, v := range sc.NotStart {
		g.Validators = append(g.Validators, mk(v, false))
	}
	return g
}

func newWorld(sc *script, r *rand.Rand, db kaidb.Database) (*world, error) {
	return newWorldWith(sc, r, db, nil)
}

func newWorldWith(sc *script, r *rand.Rand, db kaidb.Database, wrap func(cstate.Store) cstate.Store) (*world, error) {
	w := &world{sc: sc, db: db, wrap: wrap, saved: map[uint64]*stateSnap{}, signers: map[uint64]setSnap{}, pruned: map[uint64]bool{}, r: r,
		appAt: map[uint64][]appVal{}, schedule: map[uint64][]appVal{}}
	for h, l := range sc.Schedule {
		w.schedule[h] = l
	}
	if mem, ok := db.(*memorydb.Database); ok {
		w.mem = mem
	}
	writeGenesisBlock(w.db, sc)
	w.gdoc = genesisDoc(sc)
	w.bind()
	st, err := w.store.LoadStateFromDBOrGenesisDoc(w.gdoc)
	if err != nil {
		return nil, err
	}
	w.state = st
	w.saved[0] = snapState(&st)
	return w, nil
}

// bind creates the store / executor / application over w.db (again after the database was replaced by a copy).
func (w *world) bind() {
	if w.bus != nil {
		w.bus.Stop()
	}
	w.store = cstate.NewStore(w.db)
	if w.wrap != nil {
		w.store = w.wrap(w.store)
	}
	var cur []appVal
	if w.app != nil {
		cur = w.app.vals
	} else {
		cur = copyVals(w.sc.Genesis)
	}
	w.app = &scriptedApp{db: w.db, salt: w.sc.salt, vals: cur, schedule: w.schedule, sendNil: map[uint64]bool{}}
	for _, h := range w.sc.SendNil {
		w.app.sendNil[h] = true
	}
	w.exec = cstate.NewBlockExecutor(w.store, log.New(), evpool{}, w.app)
	w.bus = types.NewEventBus()
	w.bus.Start()
	w.exec.SetEventBus(w.bus)
}

func (w *world) close() {
	if w.bus != nil {
		w.bus.Stop()
		w.bus = nil
	}
}

type evpool struct{}

func (evpool) Update(cstate.LatestBlockState, types.EvidenceList) {}
func (evpool) CheckEvidence(types.EvidenceList) error             { return nil }

// grow applies one more block through BlockExecutor.ApplyBlock.
func (w *world) grow() error {
	keys()
	st := w.state
	h := st.LastBlockHeight + 1
	var lastCommit *types.Commit
	var tm time.Time
	if h == 1 {
		lastCommit = types.NewCommit(0, 0, types.BlockID{}, nil)
		tm = st.LastBlockTime
	} else {
		lastCommit = w.commit
		tm = cstate.MedianTime(lastCommit, st.LastValidators)
	}
	proposer := st.Validators.GetProposer().Address
	header := &types.Header{Height: h, Time: tm, LastBlockID: st.LastBlockID, ProposerAddress: proposer,
		ValidatorsHash: st.Validators.Hash(), NextValidatorsHash: st.NextValidators.Hash(), AppHash: st.AppHash, GasLimit: configs.BlockGasLimit}
	block := types.NewBlock(header, nil, lastCommit, nil, trie.NewStackTrie(nil))
	parts := block.MakePartSet(types.BlockPartSizeBytes)
	blockID := types.BlockID{Hash: block.Hash(), PartsHeader: parts.Header()}

	// the set entitled to sign height h is the current set of the state before the block
	signers := st.Validators
	w.signers[h] = snapSet(signers)
	round := uint32(w.r.Intn(3))
	vs := types.NewVoteSet(st.ChainID, h, round, kproto.PrecommitType, signers)
	total := signers.TotalVotingPower()
	absentBudget := int64(0)
	if w.sc.AbsentPct > 0 {
		absentBudget = total * int64(w.sc.AbsentPct) / 100
	}
	base := w.sc.genTime.Add(time.Duration(h) * time.Second)
	for i, v := range signers.Validators {
		if v.VotingPower <= absentBudget && w.r.Intn(2) == 0 {
			absentBudget -= v.VotingPower
			continue
		}
		vote := &types.Vote{ValidatorAddress: v.Address, ValidatorIndex: uint32(i), Height: h, Round: round, Type: kproto.PrecommitType,
			BlockID: blockID, Timestamp: base.Add(time.Duration(w.r.Intn(900)) * time.Millisecond)}
		pv := vote.ToProto()
		if err := types.NewDefaultPrivValidator(keyByAdr[v.Address]).SignVote(st.ChainID, pv); err != nil {
			return err
		}
		vote.Signature = pv.Signature
		if ok, err := vs.AddVote(vote); !ok || err != nil {
			return fmt.Errorf("AddVote height %d index %d: %v", h, i, err)
		}
	}
	seen := vs.MakeCommit()

	// consensus saves the block (SaveBlock -> rawdb.WriteBlock), then applies it
	rawdb.WriteBlock(w.db, block, parts, seen)
	var ns cstate.LatestBlockState
	var err error
	w.inApply = true
	ns, _, err = w.exec.ApplyBlock(st, blockID, block)
	w.inApply = false
	if err != nil {
		return fmt.Errorf("ApplyBlock height %d: %v", h, err)
	}
	if ns.LastBlockHeight != h {
		return fmt.Errorf("ApplyBlock height %d returned a state at height %d", h, ns.LastBlockHeight)
	}
	w.state = ns
	w.commit = seen
	w.saved[h] = snapState(&ns) // ApplyBlock called store.Save(ns)
	w.appAt[h] = copyVals(w.app.vals)
	return nil
}

// rewindTo makes the world continue from the state loaded at the earlier height h (the head marker was moved).
func (w *world) rewindTo(h uint64, st *cstate.LatestBlockState) {
	for k := range w.saved {
		if k > h {
			delete(w.saved, k)
			delete(w.signers, k)
			delete(w.appAt, k)
			delete(w.pruned, k)
		}
	}
	w.state = *st
	if h == 0 {
		w.commit = nil
		w.app.vals = copyVals(w.sc.Genesis)
	} else {
		w.commit = rawdb.ReadSeenCommit(w.db, h) // as consensus reconstructs its last commit after a restart
		w.app.vals = copyVals(w.appAt[h])
	}
	w.bind()
}

// growGuarded extends the chain by one block. A panic while BlockExecutor.ApplyBlock runs is the real code's and
// becomes a violation; a panic while the workload builds the block or its commit is returned as an error.
func (o *obs) growGuarded(w *world, fn func() error) (err error, ok bool) {
	defer func() {
		if e := recover(); e != nil {
			if w.inApply {
				w.inApply = false
				st := string(debug.Stack())
				o.violation("apply-block-panics:"+core.PanicKey(st), fmt.Sprintf("ApplyBlock panicked: %v", e), map[string]interface{}{"stack": firstLines(st, 30)})
				ok = false
				return
			}
			err, ok = fmt.Errorf("workload panic: %v", e), true
		}
	}()
	return fn(), true
}

// cloneDB copies every key of the in-memory database.
func cloneDB(src *memorydb.Database) *memorydb.Database {
	dst := memorydb.New()
	it := src.NewIterator(nil, nil)
	for it.Next() {
		dst.Put(append([]byte(nil), it.Key()...), append([]byte(nil), it.Value()...))
	}
	it.Release()
	return dst
}

// ---------------------------------------------------------------------------
// observation

type obs struct {
	c     *core.Case
	sc    *script
	trace []string
	bad   bool
}

func (o *obs) step(f string, a ...interface{}) { o.trace = append(o.trace, fmt.Sprintf(f, a...)) }

var violationsRaised int64

func (o *obs) violation(key, what string, extra map[string]interface{}) {
	o.bad = true
	atomic.AddInt64(&violationsRaised, 1)
	wit := map[string]interface{}{"script": o.sc, "steps": o.trace}
	for k, v := range extra {
		wit[k] = v
	}
	o.c.Violation(key, what, wit)
}

// guarded runs fn; a panic inside go-kardia becomes a violation keyed by phase and innermost frame.
func (o *obs) guarded(phase string, fn func()) (ok bool) {
	defer func() {
		if e := recover(); e != nil {
			st := string(debug.Stack())
			o.violation(phase+"-panics:"+core.PanicKey(st), fmt.Sprintf("%s panicked: %v", phase, e), map[string]interface{}{"stack": firstLines(st, 30)})
			ok = false
		}
	}()
	fn()
	return true
}

func firstLines(s string, n int) string {
	c := 0
	for i := range s {
		if s[i] == '\n' {
			c++
			if c == n {
				return s[:i]
			}
		}
	}
	return s
}

// checkHead loads the state at the head from store (a fresh Store over the same database, as after a
// restart) and compares it with the deep copy taken when that state was saved.
func (o *obs) checkHead(db kaidb.Database, gdoc *genesis.Genesis, saved *stateSnap, phase string) *cstate.LatestBlockState {
	run := o.c.Run
	var loaded cstate.LatestBlockState
	if !o.guarded("load-"+phase, func() { loaded = cstate.NewStore(db).Load() }) {
		return nil
	}
	run.Count("loads", 1)
	if loaded.IsEmpty() {
		o.violation("state-missing-"+phase, fmt.Sprintf("Load() returns the empty state although the state of height %d was saved", saved.Height), nil)
		return nil
	}
	ls := snapState(&loaded)
	for _, d := range cmpState(saved, ls) {
		if phase == "after-rewind" && strings.HasSuffix(d.Key, ":last-height-validators-changed") {
			// not one of the fields the property lists, and not stable for a non-head state by construction of the
			// hash-keyed records (a later save of a set with the same hash rewrites it): observed, not judged
			run.Count("lhvc_differs_after_rewind", 1)
			continue
		}
		o.violation(d.Key+suffix(phase), fmt.Sprintf("[%s] %s", phase, d.What), map[string]interface{}{
			"saved":  map[string]interface{}{"last": saved.Last.dump(), "current": saved.Cur.dump(), "next": saved.Next.dump()},
			"loaded": map[string]interface{}{"last": ls.Last.dump(), "current": ls.Cur.dump(), "next": ls.Next.dump()}})
	}
	run.Count("fields_compared", 9+3)
	// the restart entry point must return the same (and must not re-create the genesis state)
	var again cstate.LatestBlockState
	var err error
	if !o.guarded("load-or-genesis-"+phase, func() { again, err = cstate.NewStore(db).LoadStateFromDBOrGenesisDoc(gdoc) }) {
		return nil
	}
	if err != nil {
		o.violation("load-or-genesis-error-"+phase, "LoadStateFromDBOrGenesisDoc: "+err.Error(), nil)
		return nil
	}
	as := snapState(&again)
	for _, d := range cmpState(saved, as) {
		if phase == "after-rewind" && strings.HasSuffix(d.Key, ":last-height-validators-changed") {
			continue
		}
		o.violation(d.Key+suffix(phase), fmt.Sprintf("[%s, LoadStateFromDBOrGenesisDoc] %s", phase, d.What), nil)
	}
	// a restart with a genesis document whose consensus parameters differ from the persisted ones (a new release's
	// compiled-in defaults: cmd/utils fills them in) must still return the state that was saved
	if gdoc != nil && gdoc.ConsensusParams != nil {
		g2 := *gdoc
		p2 := *gdoc.ConsensusParams
		p2.Block.MaxGas += 7
		p2.Block.MaxBytes += 3
		p2.Evidence.MaxAgeNumBlocks += 11
		g2.ConsensusParams = &p2
		var third cstate.LatestBlockState
		if !o.guarded("load-or-other-genesis-"+phase, func() { third, err = cstate.NewStore(db).LoadStateFromDBOrGenesisDoc(&g2) }) {
			return nil
		}
		if err != nil {
			o.violation("load-or-genesis-error-"+phase, "LoadStateFromDBOrGenesisDoc (document with other consensus parameters): "+err.Error(), nil)
			return nil
		}
		run.Count("restarts_with_a_genesis_document_of_other_params", 1)
		for _, d := range cmpState(saved, snapState(&third)) {
			if phase == "after-rewind" && strings.HasSuffix(d.Key, ":last-height-validators-changed") {
				continue
			}
			o.violation(d.Key+":restart-with-other-genesis-params"+suffix(phase), fmt.Sprintf("[%s, LoadStateFromDBOrGenesisDoc with a genesis document whose consensus parameters differ from the saved ones] %s", phase, d.What), nil)
		}
	}
	return &loaded
}

// suffix makes the phase part of the violation key except for the plain save/load round trip.
func suffix(phase string) string {
	if phase == "after-save" {
		return ""
	}
	return "@" + phase
}

// checkHistory checks LoadValidators / LoadConsensusParams for every kept height.
func (o *obs) checkHistory(db kaidb.Database, w *world, pruned map[uint64]bool, phase string) {
	run := o.c.Run
	store := cstate.NewStore(db)
	head := w.state.LastBlockHeight
	for h := uint64(0); h <= head; h++ {
		if pruned[h] {
			continue
		}
		// consensus params of a kept height
		var p kproto.ConsensusParams
		var err error
		if !o.guarded("load-consensus-params-"+phase, func() { p, err = store.LoadConsensusParams(h) }) {
			return
		}
		if err != nil {
			o.violation("load-consensus-params-error-"+phase, fmt.Sprintf("LoadConsensusParams(%d) of a kept state: %v", h, err), nil)
			return
		}
		if pb, _ := p.Marshal(); !bytes.Equal(pb, w.saved[h].Params) {
			o.violation("load-consensus-params-differ-"+phase, fmt.Sprintf("LoadConsensusParams(%d) = {%s}, saved {%s}", h, p.String(), w.saved[h].ParamsStr), nil)
			return
		}
		run.Count("load_consensus_params", 1)
		if h == 0 {
			continue // nobody signed height 0
		}
		var vs *types.ValidatorSet
		if !o.guarded("load-validators-"+phase, func() { vs, err = store.LoadValidators(h) }) {
			return
		}
		if err != nil {
			o.violation("load-validators-error-"+phase, fmt.Sprintf("LoadValidators(%d) of a kept state (head %d): %v", h, head, err), nil)
			return
		}
		run.Count("load_validators", 1)
		want := w.signers[h]
		if kind, what := cmpSet(want, snapSet(vs)); kind != "" {
			o.violation("load-validators-"+kind+"-"+phase, fmt.Sprintf("LoadValidators(%d) is not the set that was entitled to sign height %d: %s", h, h, what),
				map[string]interface{}{"entitled": want.dump(), "loaded": snapSet(vs).dump()})
			return
		}
	}
}

// ---------------------------------------------------------------------------
// fingerprints of what a chain exercised

type chainFacts struct {
	changes         int  // heights at which the next set changed membership/power
	staticPrioMoves int  // heights at which priorities changed while the set hash stayed the same
	consecutive     bool // changes at two consecutive heights
	returned        bool // a set hash re-appeared after a different one
	threeDistinct   bool // last/current/next of one state pairwise different in priorities with equal hash
}

func (w *world) facts() chainFacts {
	var f chainFacts
	head := w.state.LastBlockHeight
	key := func(s setSnap) string {
		var b bytes.Buffer
		for _, v := range s.Vals {
			fmt.Fprintf(&b, "%x:%d,", v.Addr, v.Power)
		}
		return b.String()
	}
	prio := func(s setSnap) string {
		var b bytes.Buffer
		for _, v := range s.Vals {
			fmt.Fprintf(&b, "%d,", v.Prio)
		}
		return b.String()
	}
	seen := map[string]uint64{}
	prevKey := ""
	lastChange := uint64(0)
	for h := uint64(0); h <= head; h++ {
		s := w.saved[h]
		k := key(s.Next)
		if h > 0 {
			if k != prevKey {
				f.changes++
				if lastChange != 0 && lastChange == h-1 {
					f.consecutive = true
				}
				lastChange = h
				if _, ok := seen[k]; ok {
					f.returned = true
				}
			} else if prio(s.Next) != prio(w.saved[h-1].Next) {
				f.staticPrioMoves++
			}
		}
		seen[k] = h
		prevKey = k
		if !s.Last.Nil && key(s.Last) == key(s.Cur) && key(s.Cur) == key(s.Next) && prio(s.Last) != prio(s.Cur) && prio(s.Cur) != prio(s.Next) {
			f.threeDistinct = true
		}
	}
	return f
}

// ---------------------------------------------------------------------------
// groups

func buildChain(o *obs, sc *script, r *rand.Rand) *world {
	return buildChainOn(o, sc, r, memorydb.New())
}

func buildChainOn(o *obs, sc *script, r *rand.Rand, db kaidb.Database) *world {
	w, err := newWorld(sc, r, db)
	if err != nil {
		o.c.Run.Inconclusive(fmt.Sprintf("case %s:%d: cannot create the genesis state: %v", o.c.Group, o.c.I, err))
		return nil
	}
	return w
}

// runChain builds the chain of the script, checking the head round trip after every save when everyStep is set.
func runChain(o *obs, w *world, upto int, everyStep bool) bool {
	run := o.c.Run
	for int(w.state.LastBlockHeight) < upto {
		var err error
		var ok bool
		if err, ok = o.growGuarded(w, w.grow); !ok {
			return false
		}
		if err != nil {
			run.Inconclusive(fmt.Sprintf("case %s:%d: workload could not extend the chain: %v", o.c.Group, o.c.I, err))
			return false
		}
		run.Count("blocks_applied", 1)
		run.Eval(1)
		if everyStep {
			h := w.state.LastBlockHeight
			o.step("applied block %d", h)
			o.checkHead(w.db, w.gdoc, w.saved[h], "after-save")
			if o.bad {
				return false
			}
		}
	}
	return true
}

func account(run *core.Run, c *core.Case, w *world, sc *script, extra string) {
	f := w.facts()
	run.Count("valset_changes", f.changes)
	run.Count("static_heights_with_priority_moves", f.staticPrioMoves)
	if f.consecutive {
		run.Count("chains_with_changes_at_consecutive_heights", 1)
	}
	if f.returned {
		run.Count("chains_returning_to_earlier_membership", 1)
	}
	if f.threeDistinct {
		run.Count("chains_with_last_cur_next_same_hash_different_priorities", 1)
	}
	run.Distinct("class", sc.Class)
	run.Distinct("genesis_size", fmt.Sprint(len(sc.Genesis)))
	if f.staticPrioMoves > 0 || f.changes > 0 {
		run.Nontrivial(fmt.Sprintf("%s|%d|%s|%d|%d|%s", c.Group, c.I, sc.Class, sc.Length, f.changes, extra))
	}
}

// genesisCase: chain length 0. The genesis state is created and saved by the real entry point and
// immediately reloaded.
func genesisCase(c *core.Case) {
	sc := genScript(c.R, "genesis", 0)
	o := &obs{c: c, sc: sc}
	w := buildChain(o, sc, c.R)
	if w == nil {
		return
	}
	defer w.close()
	c.Run.Eval(1)
	c.Run.Count("genesis_states", 1)
	o.step("genesis state created and saved by LoadStateFromDBOrGenesisDoc")
	o.checkHead(w.db, w.gdoc, w.saved[0], "after-save")
	o.checkHistory(w.db, w, nil, "after-save")
	// the genesis validators are those flagged StartWithGenesis, with the genesis powers
	want := map[common.Address]int64{}
	for _, v := range sc.Genesis {
		want[keyAddrs[v.Key]] = v.Power
	}
	got := w.saved[0].Cur
	okWorkload := len(got.Vals) == len(want)
	for _, v := range got.Vals {
		if want[v.Addr] != v.Power {
			okWorkload = false
		}
	}
	if !okWorkload { // the workload did not produce the genesis state it meant to: nothing can be attributed
		c.Run.Inconclusive(fmt.Sprintf("genesis case %d: genesis state %v does not have the script's validators", c.I, got.dump()))
	}
	c.Run.Nontrivial(fmt.Sprintf("genesis|%d|%d", c.I, len(sc.Genesis)))
	c.Run.Distinct("genesis_size", fmt.Sprint(len(sc.Genesis)))
	if c.I < 1 {
		c.Run.Sample(map[string]interface{}{"group": c.Group, "case": c.I, "script": sc, "saved_current": w.saved[0].Cur.dump(), "saved_next": w.saved[0].Next.dump()})
	}
}

var classes = []string{"static", "consecutive", "return", "random", "single"}

// exhaustive checks one finished short chain: the history, every prune range 0<=from<=to<=head and every rewind
// target, each on its own copy of the database.
func exhaustive(o *obs, w *world) {
	c := o.c
	o.checkHistory(w.db, w, nil, "after-save")
	if o.bad {
		return
	}
	head := w.state.LastBlockHeight
	for from := uint64(0); from <= head && !o.bad; from++ {
		for to := from; to <= head && !o.bad; to++ {
			db := cloneDB(w.mem)
			o.trace = o.trace[:0]
			o.step("chain of %d blocks built; PruneState(%d,%d) on a copy of the database", head, from, to)
			if !o.guarded("prune", func() { cstate.NewStore(db).PruneState(from, to) }) {
				return
			}
			c.Run.Count("prunes", 1)
			c.Run.Eval(1)
			pruned := map[uint64]bool{}
			for h := from; h < to; h++ {
				if h > 0 {
					pruned[h] = true
				}
			}
			o.checkHead(db, w.gdoc, w.saved[head], "after-prune")
			if !o.bad {
				o.checkHistory(db, w, pruned, "after-prune")
			}
			// a second prune of an adjacent or overlapping range must not hurt either
			if !o.bad && to < head {
				to2 := to + 1 + uint64(w.r.Intn(int(head-to)))
				o.step("then PruneState(%d,%d)", from, to2)
				if !o.guarded("prune", func() { cstate.NewStore(db).PruneState(from, to2) }) {
					return
				}
				for h := from; h < to2; h++ {
					if h > 0 {
						pruned[h] = true
					}
				}
				o.checkHead(db, w.gdoc, w.saved[head], "after-prune")
				if !o.bad {
					o.checkHistory(db, w, pruned, "after-prune")
				}
			}
		}
	}
	// the head marker moved back to a kept height (what BlockChain.setHeadBeyondRoot does when the head's
	// application state is missing after a crash): the state of THAT height must come back as it was saved
	for h := uint64(0); h < head && !o.bad; h++ {
		db := cloneDB(w.mem)
		o.trace = o.trace[:0]
		o.step("chain of %d blocks built; head block marker moved back to height %d on a copy of the database", head, h)
		rawdb.WriteHeadBlockHash(db, rawdb.ReadCanonicalHash(db, h))
		c.Run.Count("rewinds", 1)
		c.Run.Eval(1)
		o.checkHead(db, w.gdoc, w.saved[h], "after-rewind")
	}
}

// shortCase: chains of 1..6 blocks; round trip after every save; then every prune range and rewind target.
// oldFormat: a database written before the per-height validator-set records existed (states written by the release
// before c7377d2 hold only the hash-keyed records) must still load at the head with the right MEMBERS and POWERS in the
// last, current and next sets. (Priorities and the proposer are what that format could not keep: not judged here.)
func oldFormat(o *obs, w *world) {
	if w.mem == nil {
		return
	}
	run := o.c.Run
	db := cloneDB(w.mem)
	var del [][]byte
	it := db.NewIterator([]byte("ConsensusValSetAtHeight"), nil)
	for it.Next() {
		del = append(del, append([]byte(nil), it.Key()...))
	}
	it.Release()
	if len(del) == 0 {
		return
	}
	for _, k := range del {
		db.Delete(k)
	}
	h := w.state.LastBlockHeight
	saved := w.saved[h]
	var loaded cstate.LatestBlockState
	if !o.guarded("load-old-format", func() { loaded = cstate.NewStore(db).Load() }) {
		return
	}
	run.Count("old_format_loads", 1)
	if loaded.IsEmpty() {
		o.violation("old-format:state-missing", fmt.Sprintf("without the per-height validator-set records Load() returns the empty state for height %d", h), nil)
		return
	}
	ls := snapState(&loaded)
	members := func(s setSnap) string {
		out := ""
		for _, v := range s.Vals {
			out += fmt.Sprintf("%x:%d ", v.Addr[:4], v.Power)
		}
		return out
	}
	for _, x := range []struct {
		name          string
		saved, loaded setSnap
	}{{"last", saved.Last, ls.Last}, {"current", saved.Cur, ls.Cur}, {"next", saved.Next, ls.Next}} {
		if members(x.saved) != members(x.loaded) {
			o.violation("old-format:members-after-reload:"+x.name, fmt.Sprintf("a database without per-height validator-set records loads, at height %d, a %s validator set with other members or powers: saved [%s], loaded [%s]", h, x.name, members(x.saved), members(x.loaded)), nil)
			return
		}
	}
	if members(saved.Cur) != members(saved.Next) {
		run.Count("old_format_loads_with_a_set_change_in_flight", 1)
	}
}

func shortCase(c *core.Case) {
	r := c.R
	class := classes[c.I%len(classes)]
	L := 1 + r.Intn(6)
	sc := genScript(r, class, L)
	o := &obs{c: c, sc: sc}
	w := buildChain(o, sc, r)
	if w == nil {
		return
	}
	defer w.close()
	o.checkHead(w.db, w.gdoc, w.saved[0], "after-save")
	if o.bad || !runChain(o, w, L, true) {
		return
	}
	oldFormat(o, w)
	exhaustive(o, w)
	account(c.Run, c, w, sc, "short")
	if c.I < 2 {
		c.Run.Sample(map[string]interface{}{"group": c.Group, "case": c.I, "script": sc, "head_saved_next": w.saved[w.state.LastBlockHeight].Next.dump()})
	}
}

// corpus: fixed chains aimed at the mechanisms (record keyed by a hash that ignores priorities, next-only saving,
// prune protecting only the genesis state and the state at the upper bound, LastHeightValidatorsChanged).
func corpusScripts() []*script {
	av := func(kp ...int64) []appVal { // pairs key,power
		var l []appVal
		for i := 0; i+1 < len(kp); i += 2 {
			l = append(l, appVal{int(kp[i]), kp[i+1]})
		}
		return l
	}
	mk := func(name string, length int, gen []appVal, sched map[uint64][]appVal) *script {
		sc := &script{Class: "corpus:" + name, ChainID: "c14-corpus", Genesis: gen, Length: length, Schedule: sched}
		if sc.Schedule == nil {
			sc.Schedule = map[uint64][]appVal{}
		}
		sc.salt = int64(len(name))*7919 + int64(length)
		sc.genTime = time.Unix(1700000000, 0).UTC()
		sc.params = configs.DefaultConsensusParams()
		sc.Params = sc.params.String()
		return sc
	}
	G := av(0, 10, 1, 10)
	B, C, D, E := av(0, 11, 1, 10), av(0, 12, 1, 10), av(0, 13, 1, 10), av(0, 14, 1, 10)
	return []*script{
		mk("static-4-equal", 6, av(0, 1, 1, 1, 2, 1, 3, 1), nil),
		mk("static-3-unequal", 6, av(0, 5, 1, 3, 2, 1), nil),
		mk("static-skewed", 6, av(0, 1000000000000, 1, 1, 2, 2), nil),
		mk("static-7", 5, av(0, 7, 1, 6, 2, 5, 3, 4, 4, 3, 5, 2, 6, 1), nil),
		mk("single-static", 5, av(0, 10), nil),
		mk("single-power-changes", 5, av(0, 10), map[uint64][]appVal{1: av(0, 11), 2: av(0, 12), 4: av(0, 10)}),
		mk("genesis-then-one-block", 1, av(0, 3, 1, 2, 2, 1), nil),
		mk("changes-at-consecutive-heights", 6, G, map[uint64][]appVal{1: B, 2: C, 3: D, 4: E}),
		mk("change-every-height-with-joiner-and-leaver", 6, av(0, 10, 1, 10, 2, 10), map[uint64][]appVal{
			1: av(0, 10, 1, 10, 2, 10, 3, 10), 2: av(0, 10, 1, 10, 3, 10), 3: av(0, 10, 1, 10, 3, 10, 4, 5), 4: av(1, 10, 3, 10, 4, 5), 5: av(0, 10, 1, 10, 3, 10, 4, 5)}),
		// the membership B is left at block 2 and re-entered at block 5; PruneState(1,4) at head 5 or 6 deletes B's
		// hash-keyed record (state 4 references only C, D, E) although the kept states 5 and 6 still reference it
		mk("return-to-non-genesis-membership", 6, G, map[uint64][]appVal{1: B, 2: C, 3: D, 4: E, 5: B}),
		mk("return-to-genesis-membership", 6, G, map[uint64][]appVal{1: B, 3: G}),
		mk("oscillation-at-consecutive-heights", 6, G, map[uint64][]appVal{1: B, 2: G, 3: B, 4: G, 5: B}),
		mk("oscillation-not-through-genesis", 6, G, map[uint64][]appVal{1: B, 2: C, 3: B, 4: C, 5: B, 6: C}),
		mk("remove-and-rejoin", 6, av(0, 10, 1, 10, 2, 10), map[uint64][]appVal{1: av(0, 10, 1, 10), 3: av(0, 10, 1, 10, 2, 10)}),
		mk("change-only-at-last-block", 4, G, map[uint64][]appVal{4: B}),
		mk("change-only-at-first-block", 4, G, map[uint64][]appVal{1: B}),
	}
}

func corpusCase(c *core.Case) {
	list := corpusScripts()
	if c.I >= len(list) {
		return
	}
	sc := list[c.I]
	o := &obs{c: c, sc: sc}
	w := buildChain(o, sc, c.R)
	if w == nil {
		return
	}
	defer w.close()
	o.checkHead(w.db, w.gdoc, w.saved[0], "after-save")
	if o.bad || !runChain(o, w, sc.Length, true) {
		return
	}
	exhaustive(o, w)
	account(c.Run, c, w, sc, "corpus")
	c.Run.Count("corpus_scenarios", 1)
}

// longCase: chains of 5..60 blocks with random prunes, restarts (continue from the LOADED state) and head rewinds
// (continue from the state loaded at an earlier kept height) interleaved with growth on the live database;
// one case in eight runs on a real LevelDB.
func longCase(c *core.Case) {
	r := c.R
	class := classes[c.I%len(classes)]
	L := 5 + r.Intn(56)
	sc := genScript(r, class, L)
	o := &obs{c: c, sc: sc}
	var w *world
	if c.I%8 == 7 {
		dir, err := os.MkdirTemp("", "c14-ldb")
		if err != nil {
			c.Run.Inconclusive("mkdtemp: " + err.Error())
			return
		}
		defer os.RemoveAll(dir)
		ldb, err := leveldb.New(dir, 16, 16)
		if err != nil {
			c.Run.Inconclusive("leveldb: " + err.Error())
			return
		}
		defer ldb.Close()
		w = buildChainOn(o, sc, r, ldb)
		c.Run.Count("chains_on_leveldb", 1)
	} else {
		w = buildChain(o, sc, r)
	}
	if w == nil {
		return
	}
	defer w.close()
	every := r.Intn(4) == 0
	nStops := r.Intn(5)
	at := []int{}
	for i := 0; i < nStops; i++ {
		at = append(at, 1+r.Intn(L))
	}
	at = append(at, L)
	sort.Ints(at)
	for _, stop := range at {
		if !runChain(o, w, stop, every) {
			return
		}
		head := w.state.LastBlockHeight
		o.step("chain grown to height %d", head)
		loaded := o.checkHead(w.db, w.gdoc, w.saved[head], "after-save")
		if o.bad {
			return
		}
		switch x := r.Intn(10); {
		case x < 2:
			// restart: go on from the state that was loaded
			if loaded != nil {
				o.step("restart at height %d: continuing from the loaded state", head)
				w.state = *loaded
				w.bind()
				c.Run.Count("restarts_continued_from_loaded_state", 1)
			}
			continue
		case x < 4 && head > 0:
			// head marker moved back to a kept height; the node goes on from the state loaded there
			var cand []uint64
			for h := uint64(0); h < head; h++ {
				if !w.pruned[h] {
					cand = append(cand, h)
				}
			}
			h := cand[r.Intn(len(cand))]
			o.step("head block marker moved back from %d to %d", head, h)
			rawdb.WriteHeadBlockHash(w.db, rawdb.ReadCanonicalHash(w.db, h))
			c.Run.Count("rewinds", 1)
			st := o.checkHead(w.db, w.gdoc, w.saved[h], "after-rewind")
			if o.bad || st == nil {
				return
			}
			w.rewindTo(h, st)
			switch r.Intn(3) {
			case 0: // the second history has no validator changes above h
				for k := range w.schedule {
					if k > h {
						delete(w.schedule, k)
					}
				}
				o.step("second history: schedule entries above %d dropped", h)
			case 1: // the second history makes the same changes one block later
				ns := map[uint64][]appVal{}
				for k, l := range w.schedule {
					if k > h {
						ns[k+1] = l
					} else {
						ns[k] = l
					}
				}
				w.schedule = ns
				w.bind()
				o.step("second history: schedule entries above %d shifted by one height", h)
			}
			continue
		case x < 5 && stop == L:
			continue
		}
		// a prune range inside [0, head]
		from := uint64(r.Intn(int(head) + 1))
		to := from + uint64(r.Intn(int(head-from)+1))
		switch r.Intn(6) {
		case 0:
			to = head
		case 1:
			from = 0
		case 2:
			from, to = 0, head
		}
		o.step("PruneState(%d,%d) at head %d", from, to, head)
		if !o.guarded("prune", func() { w.store.PruneState(from, to) }) {
			return
		}
		c.Run.Count("prunes", 1)
		for h := from; h < to; h++ {
			if h > 0 {
				w.pruned[h] = true
			}
		}
		o.checkHead(w.db, w.gdoc, w.saved[head], "after-prune")
		if o.bad {
			return
		}
		o.checkHistory(w.db, w, w.pruned, "after-prune")
		if o.bad {
			return
		}
	}
	if !runChain(o, w, L, every) { // a rewind may have left the chain short of L
		return
	}
	head := w.state.LastBlockHeight
	o.checkHead(w.db, w.gdoc, w.saved[head], "after-save")
	if !o.bad {
		o.checkHistory(w.db, w, w.pruned, "after-prune")
	}
	account(c.Run, c, w, sc, "long")
	if c.I < 1 {
		c.Run.Sample(map[string]interface{}{"group": c.Group, "case": c.I, "script": sc, "steps": o.trace})
	}
}

func Main() {
	log.Root().SetHandler(log.DiscardHandler())
	keys()
	r := core.Start("C14", "exploration")
	r.SetRule("case = one chain of consensus states produced by BlockExecutor.ApplyBlock over a scripted application (1..9 validators, 5 power classes, validator schedule by height) on a real memorydb (1/8 of the long chains: LevelDB), each state deep-copied at save time and compared field by field with Store.Load()/LoadStateFromDBOrGenesisDoc/LoadValidators/LoadConsensusParams after every save, after PruneState ranges, after restarts and after head rewinds; group fullstack does the same over the real BlockChain+BlockOperations+staking genesis; non-trivial = the chain contains at least one height where the proposer priorities moved under an unchanged set hash, or a validator-set change; distinct by (group, case, class, length, changes)")
	r.Assume("prune ranges stay inside [0, head]: PruneState(from,to) with to > head removes the head state itself, which is then not a kept state")
	r.Assume("a head rewind is modelled as BlockChain.setHeadBeyondRoot does it: only the head-block marker moves back; LastHeightValidatorsChanged of a non-head state is observed but not judged (not a listed field)")
	r.Assume("the state of height 0 counts as kept after every prune (PruneState documents that it never prunes height 0); the designated proposer is compared by address; LastBlockTotalTx and LastHeightConsensusParamsChanged are not among the listed fields and are not compared")
	r.Cases("corpus", len(corpusScripts()), core.Opts{Workers: 8}, corpusCase)
	r.Cases("genesis", r.N(60, 2000), core.Opts{Workers: 8}, genesisCase)
	r.Cases("short", r.N(400, 14000), core.Opts{Workers: 16}, shortCase)
	r.Cases("long", r.N(300, 16000), core.Opts{Workers: 16}, longCase)
	r.Cases("fullstack", r.N(12, 200), core.Opts{Workers: 6}, fullstackCase)
	r.Cases("atomic", r.N(120, 4000), core.Opts{Workers: 16}, atomicCase)
	r.Cases("stop", r.N(60, 2000), core.Opts{Workers: 16}, stopCase)
	if atomic.LoadInt64(&violationsRaised) == 0 { // a chain stops at its first violation, so floors say nothing then
		r.Floor("saves_observed", 300)
		r.Floor("stop_waited_for_the_block", 10)
		r.Floor("old_format_loads_with_a_set_change_in_flight", 30)
		r.Floor("restarts_with_a_genesis_document_of_other_params", 1000)
		r.Floor("loads", 200)
		r.Floor("static_heights_with_priority_moves", 100)
		r.Floor("valset_changes", 50)
		r.Floor("chains_returning_to_earlier_membership", 10)
		r.Floor("chains_with_changes_at_consecutive_heights", 10)
		r.Floor("chains_with_last_cur_next_same_hash_different_priorities", 20)
		r.Floor("prunes", 100)
		r.Floor("rewinds", 20)
		r.Floor("load_validators", 500)
		r.Floor("corpus_scenarios", int64(len(corpusScripts())))
		r.Floor("fullstack_blocks", 10)
	}
	r.Finish()
}
