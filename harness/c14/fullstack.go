package c14

import (
	"fmt"
	"math/big"
	"sync"
	"time"

	"github.com/kardiachain/go-kardia/configs"
	"github.com/kardiachain/go-kardia/kai/kaidb/memorydb"
	"github.com/kardiachain/go-kardia/kai/state/cstate"
	"github.com/kardiachain/go-kardia/lib/log"
	"github.com/kardiachain/go-kardia/mainchain/blockchain"
	"github.com/kardiachain/go-kardia/mainchain/genesis"
	"github.com/kardiachain/go-kardia/mainchain/staking"
	"github.com/kardiachain/go-kardia/mainchain/tx_pool"
	kproto "github.com/kardiachain/go-kardia/proto/kardiachain/types"
	"github.com/kardiachain/go-kardia/types"
	"github.com/kardiachain/go-kardia/types/evidence"

	"verifharness/core"
)

// Group fullstack: the same observation over the real node stack — genesis block and staking genesis written by
// blockchain.NewBlockChain, blocks proposed by BlockOperations.CreateProposalBlock, stored by
// BlockOperations.SaveBlock and applied by BlockExecutor.ApplyBlock over the real
// BlockOperations.CommitAndValidateBlockTxs (-> WriteBlockAndSetHead, staking contract's validator list).
// No staking transactions are composed, so the validator set is static: exactly the class in which the proposer
// priorities differ every height while the set hash stays constant. It also shows that the scripted application
// of the other groups writes what the real one writes, as far as the loader is concerned.

type fullStack struct {
	bc   *blockchain.BlockChain
	bo   *blockchain.BlockOperations
	pool *tx_pool.TxPool
}

var contractsOnce sync.Once

func fullGenesis(sc *script) *genesis.Genesis {
	contractsOnce.Do(func() {
		configs.AddDefaultContract()
		for key, contract := range configs.GetContracts() {
			configs.LoadGenesisContract(key, contract.Address, contract.ByteCode, contract.ABI)
		}
	})
	keys()
	initValue, _ := big.NewInt(0).SetString("1000000000000000000000000000", 10)
	alloc := map[string]*big.Int{}
	var vals []*genesis.GenesisValidator
	for i, v := range sc.Genesis {
		addr := keyAddrs[v.Key]
		alloc[addr.Hex()] = initValue
		tokens := new(big.Int).Mul(big.NewInt(v.Power), configs.PowerReduction)
		vals = append(vals, &genesis.GenesisValidator{Name: fmt.Sprintf("validator-%02d-padding-to-32-bytes-xxxxxxxxxxxx", i), Address: addr.Hex(),
			CommissionRate: "100000000000000000", MaxRate: "250000000000000000", MaxChangeRate: "50000000000000000",
			SelfDelegate: tokens.String(), StartWithGenesis: true})
	}
	g := genesis.DefaulTestnetFullGenesisBlock(alloc, map[string]string{})
	g.ChainID = sc.ChainID
	g.Validators = vals
	g.Timestamp = sc.genTime
	g.ConsensusParams = sc.params
	return g
}

func newFullWorld(sc *script, c *core.Case) (*world, error) {
	mem := memorydb.New()
	w := &world{sc: sc, db: mem, mem: mem, saved: map[uint64]*stateSnap{}, signers: map[uint64]setSnap{}, pruned: map[uint64]bool{}, r: c.R,
		appAt: map[uint64][]appVal{}, schedule: map[uint64][]appVal{}}
	w.gdoc = fullGenesis(sc)
	cache := &blockchain.CacheConfig{TrieCleanLimit: 1, TrieDirtyDisabled: true, TrieTimeLimit: 5 * time.Minute, SnapshotLimit: 0}
	bc, err := blockchain.NewBlockChain(mem, cache, w.gdoc)
	if err != nil {
		return nil, err
	}
	st, err := staking.NewSmcStakingUtil()
	if err != nil {
		return nil, err
	}
	pool := tx_pool.NewTxPool(tx_pool.TxPoolConfig{GlobalSlots: 64, GlobalQueue: 512}, bc.Config(), bc)
	w.store = cstate.NewStore(mem)
	evPool, err := evidence.NewPool(w.store, mem, bc)
	if err != nil {
		return nil, err
	}
	logger := log.New()
	bo := blockchain.NewBlockOperations(logger, bc, pool, evPool, st)
	w.exec = cstate.NewBlockExecutor(w.store, logger, evPool, bo)
	w.bus = types.NewEventBus()
	w.bus.Start()
	w.exec.SetEventBus(w.bus)
	w.full = &fullStack{bc: bc, bo: bo, pool: pool}
	state, err := w.store.LoadStateFromDBOrGenesisDoc(w.gdoc)
	if err != nil {
		return nil, err
	}
	w.state = state
	w.saved[0] = snapState(&state)
	return w, nil
}

func (w *world) closeFull() {
	if w.full != nil {
		w.full.pool.Stop()
		w.full.bc.Stop()
	}
	w.close()
}

// growFull proposes, stores and applies one block through the real BlockOperations.
func (w *world) growFull() error {
	st := w.state
	h := st.LastBlockHeight + 1
	var lastCommit *types.Commit
	if h == 1 {
		lastCommit = types.NewCommit(0, 0, types.BlockID{}, nil)
	} else {
		lastCommit = w.commit
	}
	proposer := st.Validators.GetProposer().Address
	block, parts := w.full.bo.CreateProposalBlock(h, st, proposer, lastCommit)
	blockID := types.BlockID{Hash: block.Hash(), PartsHeader: parts.Header()}
	signers := st.Validators
	w.signers[h] = snapSet(signers)
	vs := types.NewVoteSet(st.ChainID, h, 0, kproto.PrecommitType, signers)
	base := w.sc.genTime.Add(time.Duration(h) * time.Second)
	for i, v := range signers.Validators {
		vote := &types.Vote{ValidatorAddress: v.Address, ValidatorIndex: uint32(i), Height: h, Round: 0, Type: kproto.PrecommitType,
			BlockID: blockID, Timestamp: base.Add(time.Duration(w.r.Intn(900)) * time.Millisecond)}
		pv := vote.ToProto()
		if err := types.NewDefaultPrivValidator(keyByAdr[v.Address]).SignVote(st.ChainID, pv); err != nil {
			return err
		}
		vote.Signature = pv.Signature
		if ok, err := vs.AddVote(vote); !ok || err != nil {
			return fmt.Errorf("AddVote height %d index %d: %v", h, i, err)
		}
	}
	seen := vs.MakeCommit()
	w.full.bo.SaveBlock(block, parts, seen)
	var ns cstate.LatestBlockState
	var err error
	w.inApply = true
	ns, _, err = w.exec.ApplyBlock(st, blockID, block)
	w.inApply = false
	if err != nil {
		return fmt.Errorf("ApplyBlock height %d: %v", h, err)
	}
	if ns.LastBlockHeight != h {
		return fmt.Errorf("ApplyBlock height %d returned a state at height %d", h, ns.LastBlockHeight)
	}
	w.state = ns
	w.commit = seen
	w.saved[h] = snapState(&ns)
	return nil
}

func fullstackCase(c *core.Case) {
	r := c.R
	n := 1 + r.Intn(4)
	sc := &script{Class: "fullstack-static", ChainID: fmt.Sprintf("c14-full-%d", c.I), Length: 3 + r.Intn(6), Schedule: map[uint64][]appVal{}}
	sc.genTime = time.Unix(1700000000+int64(r.Intn(1e6)), 0).UTC()
	sc.params = configs.TestConsensusParams()
	sc.Params = sc.params.String()
	perm := r.Perm(keyPoolSize)
	for i := 0; i < n; i++ {
		// self-delegations of 1.5e25 .. 3.0e25 tokens (power = tokens / 1e10)
		sc.Genesis = append(sc.Genesis, appVal{perm[i], 1500000000000000 + int64(r.Intn(4))*500000000000000})
	}
	o := &obs{c: c, sc: sc}
	var w *world
	var err error
	func() {
		defer func() {
			if e := recover(); e != nil {
				err = fmt.Errorf("panic: %v", e)
			}
		}()
		w, err = newFullWorld(sc, c)
	}()
	if err != nil {
		c.Run.Inconclusive(fmt.Sprintf("case %s:%d: cannot build the node stack: %v", c.Group, c.I, err))
		return
	}
	defer w.closeFull()
	o.step("genesis state created and saved by LoadStateFromDBOrGenesisDoc over the real genesis block")
	o.checkHead(w.db, w.gdoc, w.saved[0], "after-save")
	if o.bad {
		return
	}
	c.Run.Count("genesis_states", 1)
	for int(w.state.LastBlockHeight) < sc.Length {
		var err error
		var ok bool
		if err, ok = o.growGuarded(w, w.growFull); !ok {
			return
		}
		if err != nil {
			c.Run.Inconclusive(fmt.Sprintf("case %s:%d: workload could not extend the chain: %v", c.Group, c.I, err))
			return
		}
		h := w.state.LastBlockHeight
		c.Run.Count("fullstack_blocks", 1)
		c.Run.Eval(1)
		o.step("applied block %d", h)
		o.checkHead(w.db, w.gdoc, w.saved[h], "after-save")
		if o.bad {
			return
		}
	}
	exhaustive(o, w)
	account(c.Run, c, w, sc, "fullstack")
	if c.I < 1 {
		c.Run.Sample(map[string]interface{}{"group": c.Group, "case": c.I, "script": sc, "head_saved_next": w.saved[w.state.LastBlockHeight].Next.dump()})
	}
}
