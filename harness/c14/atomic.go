package c14

import (
	"fmt"

	"github.com/kardiachain/go-kardia/kai/kaidb/memorydb"
	"github.com/kardiachain/go-kardia/kai/state/cstate"

	"verifharness/core"
	"verifharness/netsim"
)

// Group atomic: Store.Save is all-or-nothing. The chain runs on a recording database (every Put, Delete and batch
// write is one durable unit); the units of every Save call are delimited by a wrapper around the store. For every
// STRICT inner prefix of a Save's units the database image is rebuilt and loaded: the outcome must be the outcome of
// the image before the Save or of the image after it - anything else is a state that was never saved. (What a
// restart finds BEFORE the save is C05's business and is not judged here; a Save that is a single unit has no inner
// prefix and is atomic by construction - the number of units per Save is counted.)

type markStore struct {
	cstate.Store
	log   *netsim.DurLog
	spans *[]saveSpan
}

type saveSpan struct {
	height uint64
	a, b   int
}

func (m *markStore) Save(st cstate.LatestBlockState) {
	a := m.log.Len()
	m.Store.Save(st)
	*m.spans = append(*m.spans, saveSpan{st.LastBlockHeight, a, m.log.Len()})
}

type loadOutcome struct {
	kind string // "panic" | "empty" | "state"
	snap *stateSnap
	what string
}

func (x loadOutcome) same(y loadOutcome) bool {
	if x.kind != y.kind {
		return false
	}
	if x.kind != "state" {
		return true
	}
	return len(cmpState(x.snap, y.snap)) == 0 && len(cmpState(y.snap, x.snap)) == 0
}

func outcomeAt(evs []netsim.DurEv, k int) (out loadOutcome) {
	db, _ := netsim.ImageAt(evs, k)
	defer func() {
		if p := recover(); p != nil {
			out = loadOutcome{kind: "panic", what: firstLines(fmt.Sprint(p), 2)}
		}
	}()
	st := cstate.NewStore(db).Load()
	if st.IsEmpty() {
		return loadOutcome{kind: "empty"}
	}
	return loadOutcome{kind: "state", snap: snapState(&st), what: fmt.Sprintf("state of height %d", st.LastBlockHeight)}
}

func atomicCase(c *core.Case) {
	r, run := c.R, c.Run
	class := classes[c.I%len(classes)]
	L := 2 + r.Intn(6)
	sc := genScript(r, class, L)
	o := &obs{c: c, sc: sc}
	log := &netsim.DurLog{}
	db := &netsim.RecDB{Database: memorydb.New(), Log: log}
	var spans []saveSpan
	w, err := newWorldWith(sc, r, db, func(s cstate.Store) cstate.Store { return &markStore{Store: s, log: log, spans: &spans} })
	if err != nil {
		run.Inconclusive(fmt.Sprintf("case %s:%d: cannot create the genesis state: %v", c.Group, c.I, err))
		return
	}
	defer w.close()
	if !runChain(o, w, L, true) {
		return
	}
	evs := log.Snapshot()
	for _, sp := range spans {
		run.Count("saves_observed", 1)
		run.Count("save_durable_units", sp.b-sp.a)
		run.Max("max_durable_units_of_one_save", int64(sp.b-sp.a))
		run.Eval(1)
		if sp.b-sp.a < 2 {
			continue
		}
		pre, post := outcomeAt(evs, sp.a), outcomeAt(evs, sp.b)
		for k := sp.a + 1; k < sp.b; k++ {
			run.Count("inner_prefixes_of_a_save_loaded", 1)
			mid := outcomeAt(evs, k)
			if mid.same(pre) || mid.same(post) {
				continue
			}
			what := fmt.Sprintf("Save of the state of height %d performs %d durable units; a process death after %d of them leaves a database that loads as %s (%s) - neither what loads before the Save (%s) nor the saved state",
				sp.height, sp.b-sp.a, k-sp.a, mid.kind, mid.what, pre.kind)
			if mid.kind == "state" && post.kind == "state" {
				if ds := cmpState(post.snap, mid.snap); len(ds) > 0 {
					what += ": " + ds[0].What
				}
			}
			var units []string
			for _, e := range evs[sp.a:sp.b] {
				units = append(units, e.Desc)
			}
			o.violation("save-not-atomic:"+mid.kind, what, map[string]interface{}{"units_of_the_save": units, "death_after": k - sp.a})
			return
		}
	}
	account(run, c, w, sc, "atomic")
}
