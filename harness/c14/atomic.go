package c14

import (
	"fmt"
	"time"

	"github.com/kardiachain/go-kardia/kai/kaidb"

	"github.com/kardiachain/go-kardia/kai/kaidb/memorydb"
	"github.com/kardiachain/go-kardia/kai/state/cstate"

	"verifharness/core"
	"verifharness/netsim"
)

// Group atomic: Store.Save is all-or-nothing. The chain runs on a recording database (every Put, Delete and batch
// write is one durable unit); the units of every Save call are delimited by a wrapper around the store. For every
// STRICT inner prefix of a Save's units the database image is rebuilt and loaded: the outcome must be the outcome of
// the image before the Save or of the image after it - anything else is a state that was never saved. (What a
// restart finds BEFORE the save is C05's business and is not judged here; a Save that is a single unit has no inner
// prefix and is atomic by construction - the number of units per Save is counted.)

type markStore struct {
	cstate.Store
	log   *netsim.DurLog
	spans *[]saveSpan
}

type saveSpan struct {
	height uint64
	a, b   int
}

func (m *markStore) Save(st cstate.LatestBlockState) {
	a := m.log.Len()
	m.Store.Save(st)
	*m.spans = append(*m.spans, saveSpan{st.LastBlockHeight, a, m.log.Len()})
}

type loadOutcome struct {
	kind string // "panic" | "empty" | "state"
	snap *stateSnap
	what string
}

func (x loadOutcome) same(y loadOutcome) bool {
	if x.kind != y.kind {
		return false
	}
	if x.kind != "state" {
		return true
	}
	return len(cmpState(x.snap, y.snap)) == 0 && len(cmpState(y.snap, x.snap)) == 0
}

func outcomeAt(evs []netsim.DurEv, k int) (out loadOutcome) {
	db, _ := netsim.ImageAt(evs, k)
	defer func() {
		if p := recover(); p != nil {
			out = loadOutcome{kind: "panic", what: firstLines(fmt.Sprint(p), 2)}
		}
	}()
	st := cstate.NewStore(db).Load()
	if st.IsEmpty() {
		return loadOutcome{kind: "empty"}
	}
	return loadOutcome{kind: "state", snap: snapState(&st), what: fmt.Sprintf("state of height %d", st.LastBlockHeight)}
}

func atomicCase(c *core.Case) {
	r, run := c.R, c.Run
	class := classes[c.I%len(classes)]
	L := 2 + r.Intn(6)
	sc := genScript(r, class, L)
	o := &obs{c: c, sc: sc}
	log := &netsim.DurLog{}
	db := &netsim.RecDB{Database: memorydb.New(), Log: log}
	var spans []saveSpan
	w, err := newWorldWith(sc, r, db, func(s cstate.Store) cstate.Store { return &markStore{Store: s, log: log, spans: &spans} })
	if err != nil {
		run.Inconclusive(fmt.Sprintf("case %s:%d: cannot create the genesis state: %v", c.Group, c.I, err))
		return
	}
	defer w.close()
	if !runChain(o, w, L, true) {
		return
	}
	evs := log.Snapshot()
	for _, sp := range spans {
		run.Count("saves_observed", 1)
		run.Count("save_durable_units", sp.b-sp.a)
		run.Max("max_durable_units_of_one_save", int64(sp.b-sp.a))
		run.Eval(1)
		if sp.b-sp.a < 2 {
			continue
		}
		pre, post := outcomeAt(evs, sp.a), outcomeAt(evs, sp.b)
		for k := sp.a + 1; k < sp.b; k++ {
			run.Count("inner_prefixes_of_a_save_loaded", 1)
			mid := outcomeAt(evs, k)
			if mid.same(pre) || mid.same(post) {
				continue
			}
			what := fmt.Sprintf("Save of the state of height %d performs %d durable units; a process death after %d of them leaves a database that loads as %s (%s) - neither what loads before the Save (%s) nor the saved state",
				sp.height, sp.b-sp.a, k-sp.a, mid.kind, mid.what, pre.kind)
			if mid.kind == "state" && post.kind == "state" {
				if ds := cmpState(post.snap, mid.snap); len(ds) > 0 {
					what += ": " + ds[0].What
				}
			}
			var units []string
			for _, e := range evs[sp.a:sp.b] {
				units = append(units, e.Desc)
			}
			o.violation("save-not-atomic:"+mid.kind, what, map[string]interface{}{"units_of_the_save": units, "death_after": k - sp.a})
			return
		}
	}
	account(run, c, w, sc, "atomic")
}

// Group stop: BlockExecutor.Stop() is what the node calls right before it closes its databases; it must not return
// while a block is half applied. A database wrapper calls Stop from another goroutine at a chosen write of
// ApplyBlock and gives it 30 ms: if Stop has returned by then (it may only do so when nothing is pending), the
// database as it is at that moment - what a closing node would leave on disk - must load as the state before the
// block or as the state after it. (If Stop is still waiting, as it should, nothing is judged; the wait is a
// stimulus, a slow machine can only make the group miss something, never raise an alarm.)

type hookDB struct {
	kaidb.Database
	on func()
}

func (d *hookDB) Put(k, v []byte) error { d.on(); return d.Database.Put(k, v) }
func (d *hookDB) Delete(k []byte) error { d.on(); return d.Database.Delete(k) }
func (d *hookDB) NewBatch() kaidb.Batch { return &hookBatch{Batch: d.Database.NewBatch(), d: d} }

type hookBatch struct {
	kaidb.Batch
	d *hookDB
}

func (b *hookBatch) Write() error { b.d.on(); return b.Batch.Write() }

func stopCase(c *core.Case) {
	r, run := c.R, c.Run
	class := classes[c.I%len(classes)]
	L := 2 + r.Intn(4)
	sc := genScript(r, class, L+1)
	o := &obs{c: c, sc: sc}
	mem := memorydb.New()
	writes, target := 0, -1
	var stopped chan struct{}
	var image *memorydb.Database
	armed := false
	db := &hookDB{Database: mem}
	var w *world
	db.on = func() {
		if !armed {
			return
		}
		writes++
		if writes != target || stopped != nil {
			return
		}
		stopped = make(chan struct{})
		go func() { w.exec.Stop(); close(stopped) }()
		select {
		case <-stopped:
			image = cloneDB(mem) // what is on disk when Stop says nothing is pending
		case <-time.After(30 * time.Millisecond):
		}
	}
	var err error
	w, err = newWorldWith(sc, r, db, nil)
	if err != nil {
		run.Inconclusive(fmt.Sprintf("case %s:%d: cannot create the genesis state: %v", c.Group, c.I, err))
		return
	}
	defer w.close()
	if !runChain(o, w, L, false) {
		return
	}
	before := w.saved[w.state.LastBlockHeight]
	// one more block, with Stop arriving at its target-th database write
	armed, target = true, 1+c.I/len(classes)%6
	gerr, ok := o.growGuarded(w, w.grow)
	armed = false
	if stopped != nil {
		select {
		case <-stopped:
		case <-time.After(30 * time.Second):
			run.Inconclusive("BlockExecutor.Stop did not return 30 s after the block was applied")
			return
		}
	}
	run.Eval(1)
	run.Count("stops_during_a_block", 1)
	if !ok {
		return
	}
	if stopped == nil {
		run.Count("stop_target_write_not_reached", 1)
		return
	}
	if image == nil {
		run.Count("stop_waited_for_the_block", 1)
		run.Nontrivial(fmt.Sprint("stop", c.I, target))
		return
	}
	run.Count("stop_returned_while_a_block_was_being_applied", 1)
	out := func() (res loadOutcome) {
		defer func() {
			if p := recover(); p != nil {
				res = loadOutcome{kind: "panic", what: firstLines(fmt.Sprint(p), 2)}
			}
		}()
		st := cstate.NewStore(image).Load()
		if st.IsEmpty() {
			return loadOutcome{kind: "empty"}
		}
		return loadOutcome{kind: "state", snap: snapState(&st)}
	}()
	after := before
	if gerr == nil {
		after = w.saved[w.state.LastBlockHeight]
	}
	if out.kind == "state" && (len(cmpState(before, out.snap)) == 0 || len(cmpState(after, out.snap)) == 0) {
		return
	}
	o.violation("stop-returns-while-a-block-is-half-applied:"+out.kind, fmt.Sprintf("BlockExecutor.Stop() returned at database write %d of ApplyBlock(height %d); the database at that moment loads as %s %s - neither the state before the block nor the state after it",
		target, before.Height+1, out.kind, out.what), nil)
}
