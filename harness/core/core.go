// Package core is the shared runtime of the verification harness: seeds, case
// lists, child-process isolation, evidence files, replay files, known findings
// and the three-valued verdict.
package core

import (
	"bufio"
	"encoding/json"
	"fmt"
	"hash/fnv"
	"math/rand"
	"os"
	"os/exec"
	"path/filepath"
	"regexp"
	"runtime"
	"runtime/debug"
	"sort"
	"strconv"
	"strings"
	"sync"
	"sync/atomic"
	"syscall"
	"time"
)

// Root is the /verif directory (overridable for tests with VERIF_ROOT).
func Root() string {
	if r := os.Getenv("VERIF_ROOT"); r != "" {
		return r
	}
	return "/verif"
}

type Violation struct {
	Key     string      `json:"key"`
	What    string      `json:"what"`
	Group   string      `json:"group,omitempty"`
	Case    int         `json:"case"`
	Witness interface{} `json:"witness,omitempty"`
}

// partial is what a child process hands back to its parent.
type partial struct {
	Evals      int64               `json:"evals"`
	Nontrivial []uint64            `json:"nontrivial"`
	NTOverflow int64               `json:"nt_overflow"`
	Samples    []interface{}       `json:"samples"`
	Counters   map[string]int64    `json:"counters"`
	Maxes      map[string]int64    `json:"maxes"`
	Sets       map[string][]string `json:"sets"`
	Violations []Violation         `json:"violations"`
	Inconcl    []string            `json:"inconclusive"`
	Done       bool                `json:"done"`
}

type Run struct {
	scratch string
	Prop    string
	Tier    string
	Seed    int64
	Level   string

	mu         sync.Mutex
	evals      int64
	nontrivial map[uint64]struct{}
	ntOverflow int64
	samples    []interface{}
	counters   map[string]int64
	maxes      map[string]int64
	sets       map[string]map[string]struct{}
	violations []Violation
	knownHits  map[string]int
	inconcl    []string
	rule       string
	assume     []string
	extra      map[string]interface{}
	start      time.Time
	known      map[string]string // key -> what

	// child mode
	child      bool
	childName  string
	childLo    int
	childHi    int
	childOut   string
	progress   *os.File
	exhaustive *bool
}

const maxNontrivialKept = 2000000
const maxSamples = 6

// Start creates the run context for a property. tier comes from VERIF_TIER
// (default quick), the seed from VERIF_SEED (default 1).
func Start(prop, level string) *Run {
	r := &Run{Prop: prop, Level: level, Tier: "quick", Seed: 1,
		nontrivial: map[uint64]struct{}{}, counters: map[string]int64{}, maxes: map[string]int64{},
		sets: map[string]map[string]struct{}{}, knownHits: map[string]int{}, extra: map[string]interface{}{},
		start: time.Now(), known: map[string]string{}}
	if t := os.Getenv("VERIF_TIER"); t == "thorough" || t == "quick" {
		r.Tier = t
	}
	if s := os.Getenv("VERIF_SEED"); s != "" {
		if v, err := strconv.ParseInt(s, 10, 64); err == nil {
			r.Seed = v
		}
	}
	if spec := os.Getenv("VERIF_CHILD"); spec != "" {
		// name|lo|hi|outfile|progressfile
		p := strings.Split(spec, "|")
		if len(p) == 5 {
			r.child = true
			r.childName = p[0]
			r.childLo, _ = strconv.Atoi(p[1])
			r.childHi, _ = strconv.Atoi(p[2])
			r.childOut = p[3]
			r.progress, _ = os.OpenFile(p[4], os.O_CREATE|os.O_WRONLY, 0644)
		}
	}
	if !r.child {
		// one scratch directory per run for everything temporary (children inherit it); removed in Finish
		base := ""
		if fi, err := os.Stat("/dev/shm"); err == nil && fi.IsDir() {
			base = "/dev/shm"
		}
		if d, err := os.MkdirTemp(base, "verifrun"); err == nil {
			r.scratch = d
			os.Setenv("TMPDIR", d)
			os.Setenv("VERIF_SCRATCH", d)
		}
	}
	r.loadKnown()
	return r
}

func (r *Run) loadKnown() {
	f, err := os.Open(filepath.Join(Root(), "known_findings.jsonl"))
	if err != nil {
		return
	}
	defer f.Close()
	sc := bufio.NewScanner(f)
	sc.Buffer(make([]byte, 1<<20), 1<<20)
	for sc.Scan() {
		var e struct{ Kind, Property, Key, What string }
		if json.Unmarshal(sc.Bytes(), &e) == nil && e.Kind == "known" && e.Property == r.Prop {
			r.known[e.Key] = e.What
		}
	}
}

func (r *Run) Quick() bool   { return r.Tier != "thorough" }
func (r *Run) IsChild() bool { return r.child }
func (r *Run) N(q, t int) int {
	if r.Quick() {
		return q
	}
	return t
}

// Rng returns a PRNG determined by (seed, property, stream, index) only.
func (r *Run) Rng(stream string, i int) *rand.Rand {
	h := fnv.New64a()
	fmt.Fprintf(h, "%d|%s|%s|%d", r.Seed, r.Prop, stream, i)
	return rand.New(rand.NewSource(int64(h.Sum64())))
}

func (r *Run) Eval(n int) { atomic.AddInt64(&r.evals, int64(n)) }

// Nontrivial records the fingerprint of a case that was non-trivial by the
// property's rule; distinct fingerprints are counted.
func (r *Run) Nontrivial(fp string) {
	h := fnv.New64a()
	h.Write([]byte(fp))
	v := h.Sum64()
	r.mu.Lock()
	if _, ok := r.nontrivial[v]; !ok {
		if len(r.nontrivial) < maxNontrivialKept {
			r.nontrivial[v] = struct{}{}
		} else {
			r.ntOverflow++
		}
	}
	r.mu.Unlock()
}

func (r *Run) Sample(x interface{}) {
	r.mu.Lock()
	if len(r.samples) < maxSamples {
		r.samples = append(r.samples, x)
	}
	r.mu.Unlock()
}

func (r *Run) Count(name string, n int) {
	r.mu.Lock()
	r.counters[name] += int64(n)
	r.mu.Unlock()
}

func (r *Run) Max(name string, n int64) {
	r.mu.Lock()
	if n > r.maxes[name] {
		r.maxes[name] = n
	}
	r.mu.Unlock()
}

// Distinct adds a value to a named set whose size is reported (e.g. distinct
// abstract states, schedule fingerprints, opcodes).
func (r *Run) Distinct(set, val string) {
	r.mu.Lock()
	m := r.sets[set]
	if m == nil {
		m = map[string]struct{}{}
		r.sets[set] = m
	}
	if len(m) < 200000 {
		m[val] = struct{}{}
	}
	r.mu.Unlock()
}

func (r *Run) Counter(name string) int64 {
	r.mu.Lock()
	defer r.mu.Unlock()
	return r.counters[name]
}

func (r *Run) SetRule(s string)              { r.rule = s }
func (r *Run) Assume(s string)               { r.assume = append(r.assume, s) }
func (r *Run) Extra(k string, v interface{}) { r.mu.Lock(); r.extra[k] = v; r.mu.Unlock() }
func (r *Run) Exhaustive(b bool)             { r.exhaustive = &b }

// Violation records a refutation of the property. key identifies the failing
// input class / call site / history shape (used for known findings and for
// de-duplication); witness must be enough to replay.
func (r *Run) Violation(caseIdx int, group, key, what string, witness interface{}) {
	r.mu.Lock()
	defer r.mu.Unlock()
	for _, v := range r.violations {
		if v.Key == key && v.Group == group {
			r.counters["violation_repeats"]++
			return
		}
	}
	r.violations = append(r.violations, Violation{Key: key, What: what, Group: group, Case: caseIdx, Witness: witness})
}

func (r *Run) Inconclusive(reason string) {
	r.mu.Lock()
	r.inconcl = append(r.inconcl, reason)
	r.mu.Unlock()
}

// Case is one generated case of a case list.
type Case struct {
	Run   *Run
	Group string
	I     int
	R     *rand.Rand
}

func (c *Case) Violation(key, what string, witness interface{}) {
	c.Run.Violation(c.I, c.Group, key, what, witness)
}

type Opts struct {
	Procs           int  // >0: run in that many child processes (crash isolation); 0: in this process
	Workers         int  // goroutines per process (default 1)
	StallSec        int  // watchdog: no progress for that long => SIGQUIT (default 300)
	HangIsViolation bool // a stalled child is a violation (C10/C18) instead of inconclusive
	Race            bool // use the -race binary for the children
	MemMB           int  // ulimit -v for children (0 = none)
	// InconclusiveFatal: a child death whose key contains one of these substrings is attributed to the test
	// support code named there, not to the property (reported inconclusive, counted).
	InconclusiveFatal []string
	Env               []string
}

var goKardiaFrame = regexp.MustCompile(`github\.com/kardiachain/go-kardia/([^\s(]+(?:\([^)]*\))?[^\s(]*)`)

// PanicKey derives a stable key from a panic stack: the innermost go-kardia frame.
func PanicKey(stack string) string {
	for _, line := range strings.Split(stack, "\n") {
		if strings.Contains(line, "/harness/") || strings.HasPrefix(strings.TrimSpace(line), "/") {
			continue
		}
		if m := goKardiaFrame.FindStringSubmatch(line); m != nil {
			f := m[1]
			if i := strings.LastIndex(f, "("); i > 0 && strings.HasSuffix(f, ")") && !strings.Contains(f[i:], "*") {
				f = f[:i]
			}
			return f
		}
	}
	return "unknown-frame"
}

// Guard runs fn and converts a panic into a violation of the case.
func (c *Case) Guard(what string, witness func() interface{}, fn func()) (panicked bool) {
	defer func() {
		if e := recover(); e != nil {
			st := string(debug.Stack())
			panicked = true
			var w interface{}
			if witness != nil {
				w = witness()
			}
			c.Violation("panic:"+PanicKey(st), fmt.Sprintf("%s: panic: %v", what, e), map[string]interface{}{"input": w, "stack": firstLines(st, 40)})
		}
	}()
	fn()
	return false
}

func firstLines(s string, n int) string {
	l := strings.Split(s, "\n")
	if len(l) > n {
		l = l[:n]
	}
	return strings.Join(l, "\n")
}

// Cases runs fn for the cases [0,n) of the named group.
func (r *Run) Cases(group string, n int, o Opts, fn func(c *Case)) {
	if o.Workers <= 0 {
		o.Workers = 1
	}
	if r.child {
		if r.childName != group {
			return
		}
		r.runRange(group, r.childLo, r.childHi, o.Workers, fn)
		return
	}
	if only := os.Getenv("VERIF_ONLY_CASE"); only != "" {
		// replay of a single case: group:index
		if k := strings.LastIndex(only, ":"); k > 0 && only[:k] == group { // group names may contain colons
			i, _ := strconv.Atoi(only[k+1:])
			r.runRange(group, i, i+1, 1, fn)
		}
		return
	}
	if o.Procs <= 0 {
		r.runRange(group, 0, n, o.Workers, fn)
		return
	}
	r.runChildren(group, n, o)
}

func (r *Run) runRange(group string, lo, hi, workers int, fn func(c *Case)) {
	var next int64 = int64(lo)
	var wg sync.WaitGroup
	for w := 0; w < workers; w++ {
		wg.Add(1)
		go func() {
			defer wg.Done()
			for {
				i := int(atomic.AddInt64(&next, 1) - 1)
				if i >= hi {
					return
				}
				if r.progress != nil && workers == 1 {
					r.progress.WriteAt([]byte(fmt.Sprintf("%-19d\n", i)), 0)
				}
				c := &Case{Run: r, Group: group, I: i, R: r.Rng(group, i)}
				c.Guard("case "+group, nil, func() { fn(c) })
			}
		}()
	}
	wg.Wait()
}

func (r *Run) runChildren(group string, n int, o Opts) {
	if o.StallSec <= 0 {
		o.StallSec = 300
	}
	procs := o.Procs
	if procs > n {
		procs = n
	}
	if procs < 1 {
		return
	}
	tmp, err := os.MkdirTemp("", "vchild")
	if err != nil {
		r.Inconclusive("mkdtemp: " + err.Error())
		return
	}
	defer os.RemoveAll(tmp)
	var wg sync.WaitGroup
	per := (n + procs - 1) / procs
	for p := 0; p < procs; p++ {
		lo, hi := p*per, (p+1)*per
		if hi > n {
			hi = n
		}
		if lo >= hi {
			continue
		}
		wg.Add(1)
		go func(p, lo, hi int) {
			defer wg.Done()
			restarts := 0
			for lo < hi {
				last, ok := r.oneChild(group, p, restarts, lo, hi, tmp, o)
				if ok {
					return
				}
				restarts++
				if restarts > 25 {
					r.Inconclusive(fmt.Sprintf("group %s: child for [%d,%d) died more than 25 times", group, lo, hi))
					return
				}
				lo = last + 1
			}
		}(p, lo, hi)
	}
	wg.Wait()
}

// oneChild runs one child over [lo,hi); returns ok=false and the case it died in
// when it did not finish.
func (r *Run) oneChild(group string, p, gen, lo, hi int, tmp string, o Opts) (int, bool) {
	out := filepath.Join(tmp, fmt.Sprintf("%s.%d.%d.out", group, p, gen))
	prog := filepath.Join(tmp, fmt.Sprintf("%s.%d.%d.prog", group, p, gen))
	logf := filepath.Join(tmp, fmt.Sprintf("%s.%d.%d.log", group, p, gen))
	exe, _ := os.Executable()
	if o.Race {
		exe = strings.TrimSuffix(exe, "-race") + "-race"
	}
	lf, _ := os.Create(logf)
	args := []string{r.Prop}
	var cmd *exec.Cmd
	if o.MemMB > 0 {
		cmd = exec.Command("/bin/bash", "-c", fmt.Sprintf("ulimit -v %d; exec \"$0\" \"$@\"", o.MemMB*1024), exe, r.Prop)
	} else {
		cmd = exec.Command(exe, args...)
	}
	cmd.Env = append(os.Environ(), fmt.Sprintf("VERIF_CHILD=%s|%d|%d|%s|%s", group, lo, hi, out, prog),
		"VERIF_SEED="+strconv.FormatInt(r.Seed, 10), "VERIF_TIER="+r.Tier, "GOTRACEBACK=all")
	cmd.Env = append(cmd.Env, o.Env...)
	cmd.Stdout = lf
	cmd.Stderr = lf
	if err := cmd.Start(); err != nil {
		r.Inconclusive("cannot start child: " + err.Error())
		return hi, false
	}
	done := make(chan error, 1)
	go func() { done <- cmd.Wait() }()
	lastProg := ""
	lastChange := time.Now()
	stalled := false
	tick := time.NewTicker(2 * time.Second)
	defer tick.Stop()
	var werr error
loop:
	for {
		select {
		case werr = <-done:
			break loop
		case <-tick.C:
			b, _ := os.ReadFile(prog)
			if s := string(b); s != lastProg {
				lastProg = s
				lastChange = time.Now()
			} else if time.Since(lastChange) > time.Duration(o.StallSec)*time.Second && !stalled {
				stalled = true
				cmd.Process.Signal(syscall.SIGQUIT)
				go func() { time.Sleep(20 * time.Second); cmd.Process.Kill() }()
			}
		}
	}
	lf.Close()
	var part partial
	if b, err := os.ReadFile(out); err == nil && json.Unmarshal(b, &part) == nil && part.Done && werr == nil {
		r.merge(&part)
		return hi, true
	}
	// the child died: attribute to the case it logged last
	last := lo
	if b, err := os.ReadFile(prog); err == nil {
		if v, err := strconv.Atoi(strings.TrimSpace(string(b))); err == nil {
			last = v
		}
	}
	if b, err := os.ReadFile(out); err == nil && json.Unmarshal(b, &part) == nil {
		r.merge(&part) // partial results flushed before death, if any
	}
	logb, _ := os.ReadFile(logf)
	tail := string(logb)
	if len(tail) > 6000 {
		tail = tail[:3000] + "\n...\n" + tail[len(tail)-3000:]
	}
	if stalled {
		if o.HangIsViolation {
			r.Violation(last, group, "hang:"+PanicKey(string(logb)), fmt.Sprintf("case %s:%d made no progress for %ds", group, last, o.StallSec),
				map[string]interface{}{"log": tail})
		} else {
			r.Inconclusive(fmt.Sprintf("watchdog: case %s:%d made no progress for %ds", group, last, o.StallSec))
		}
		return last, false
	}
	fkey := "fatal:" + PanicKey(string(logb))
	for _, sub := range o.InconclusiveFatal {
		if strings.Contains(fkey, sub) {
			r.Count("child_deaths_in_test_support_code:"+sub, 1)
			return last, false
		}
	}
	r.Violation(last, group, fkey, fmt.Sprintf("process died in case %s:%d (%v)", group, last, werr),
		map[string]interface{}{"log": tail})
	return last, false
}

func (r *Run) merge(p *partial) {
	r.mu.Lock()
	atomic.AddInt64(&r.evals, p.Evals)
	for _, v := range p.Nontrivial {
		if len(r.nontrivial) < maxNontrivialKept {
			r.nontrivial[v] = struct{}{}
		} else if _, ok := r.nontrivial[v]; !ok {
			r.ntOverflow++
		}
	}
	r.ntOverflow += p.NTOverflow
	for _, s := range p.Samples {
		if len(r.samples) < maxSamples {
			r.samples = append(r.samples, s)
		}
	}
	for k, v := range p.Counters {
		r.counters[k] += v
	}
	for k, v := range p.Maxes {
		if v > r.maxes[k] {
			r.maxes[k] = v
		}
	}
	for k, vs := range p.Sets {
		m := r.sets[k]
		if m == nil {
			m = map[string]struct{}{}
			r.sets[k] = m
		}
		for _, v := range vs {
			m[v] = struct{}{}
		}
	}
	r.inconcl = append(r.inconcl, p.Inconcl...)
	vs := p.Violations
	r.mu.Unlock()
	for _, v := range vs {
		r.Violation(v.Case, v.Group, v.Key, v.What, v.Witness)
	}
}

// Finish writes the evidence file (parent) or the partial result (child) and exits.
func (r *Run) Finish() {
	if r.child {
		p := partial{Evals: r.evals, NTOverflow: r.ntOverflow, Samples: r.samples, Counters: r.counters, Maxes: r.maxes,
			Violations: r.violations, Inconcl: r.inconcl, Done: true, Sets: map[string][]string{}}
		for v := range r.nontrivial {
			p.Nontrivial = append(p.Nontrivial, v)
		}
		for k, m := range r.sets {
			for v := range m {
				p.Sets[k] = append(p.Sets[k], v)
			}
		}
		b, _ := json.Marshal(&p)
		os.WriteFile(r.childOut, b, 0644)
		os.Exit(0)
	}
	replayMode := os.Getenv("VERIF_ONLY_CASE") != ""
	// split violations into known findings and new ones
	var fresh []Violation
	sort.Slice(r.violations, func(i, j int) bool { return r.violations[i].Key < r.violations[j].Key })
	knownSeen := []string{}
	for _, v := range r.violations {
		if what, ok := r.known[v.Key]; ok {
			if r.knownHits[v.Key] == 0 {
				fmt.Printf("KNOWN-FINDING: property=%s %s [key=%s]\n", r.Prop, what, v.Key)
				knownSeen = append(knownSeen, v.Key)
			}
			r.knownHits[v.Key]++
			continue
		}
		fresh = append(fresh, v)
	}
	os.MkdirAll(filepath.Join(Root(), "replays"), 0755)
	for i, v := range fresh {
		if i >= 20 {
			fmt.Printf("(%d further violations not listed)\n", len(fresh)-i)
			break
		}
		h := fnv.New32a()
		h.Write([]byte(v.Group + "|" + v.Key))
		path := filepath.Join(Root(), "replays", fmt.Sprintf("%s-%08x.json", r.Prop, h.Sum32()))
		b, _ := json.MarshalIndent(map[string]interface{}{"property": r.Prop, "seed": r.Seed, "tier": r.Tier, "group": v.Group,
			"case": v.Case, "key": v.Key, "what": v.What, "witness": v.Witness}, "", " ")
		if !replayMode {
			os.WriteFile(path, b, 0644)
		}
		fmt.Printf("VIOLATION property=%s replay=%s\n", r.Prop, path)
		fmt.Printf("  key=%s case=%s:%d: %s\n", v.Key, v.Group, v.Case, v.What)
	}
	for _, s := range r.inconcl {
		fmt.Printf("INCONCLUSIVE property=%s reason=%s\n", r.Prop, s)
	}
	cov := map[string]interface{}{
		"evaluations":         r.evals,
		"distinct_nontrivial": int64(len(r.nontrivial)),
		"rule":                r.rule,
		"samples":             r.samples,
		"counters":            r.counters,
		"maxima":              r.maxes,
		"known_findings_hit":  knownSeen,
		"inconclusive":        nonNil(r.inconcl),
	}
	if r.ntOverflow > 0 {
		cov["distinct_nontrivial_note"] = fmt.Sprintf("fingerprint table full; %d further new fingerprints not counted", r.ntOverflow)
	}
	ds := map[string]int{}
	for k, m := range r.sets {
		ds[k] = len(m)
	}
	cov["distinct"] = ds
	for k, v := range r.extra {
		cov[k] = v
	}
	if r.exhaustive != nil {
		cov["exhaustive"] = *r.exhaustive
	}
	if r.samples == nil {
		cov["samples"] = []interface{}{}
	}
	ev := map[string]interface{}{
		"property_id": r.Prop, "tier": r.Tier, "seed": r.Seed, "level": r.Level, "coverage": cov,
		"assumptions": nonNil(r.assume), "wall_s": time.Since(r.start).Seconds(), "violations": len(fresh),
		"verdict": verdict(len(fresh), len(r.inconcl)),
		"go":      runtime.Version(),
	}
	if !replayMode {
		os.MkdirAll(filepath.Join(Root(), "evidence"), 0755)
		b, _ := json.MarshalIndent(ev, "", " ")
		os.WriteFile(filepath.Join(Root(), "evidence", r.Prop+".json"), append(b, '\n'), 0644)
	}
	fmt.Printf("%s %s seed=%d: %s; evaluations=%d distinct_nontrivial=%d wall=%.1fs\n", r.Prop, r.Tier, r.Seed,
		verdict(len(fresh), len(r.inconcl)), r.evals, len(r.nontrivial), time.Since(r.start).Seconds())
	keys := make([]string, 0, len(r.counters))
	for k := range r.counters {
		keys = append(keys, k)
	}
	sort.Strings(keys)
	var sb strings.Builder
	for _, k := range keys {
		fmt.Fprintf(&sb, " %s=%d", k, r.counters[k])
	}
	for k, v := range ds {
		fmt.Fprintf(&sb, " #%s=%d", k, v)
	}
	fmt.Println("  observed:" + sb.String())
	if r.scratch != "" {
		os.RemoveAll(r.scratch)
	}
	switch {
	case len(fresh) > 0:
		os.Exit(1)
	case len(r.inconcl) > 0:
		os.Exit(2)
	}
	os.Exit(0)
}

func nonNil(s []string) []string {
	if s == nil {
		return []string{}
	}
	return s
}

func verdict(v, inc int) string {
	switch {
	case v > 0:
		return "violated"
	case inc > 0:
		return "inconclusive"
	}
	return "held"
}

// Floor declares the run inconclusive if a counter stayed below a stated floor.
func (r *Run) Floor(counter string, min int64) {
	if r.child || os.Getenv("VERIF_ONLY_CASE") != "" {
		return
	}
	if r.Counter(counter) < min {
		r.Inconclusive(fmt.Sprintf("counter %s=%d below floor %d", counter, r.Counter(counter), min))
	}
}

// Registry of property entry points.
var registry = map[string]func(){}

func Register(prop string, fn func()) { registry[prop] = fn }

func Main() {
	if len(os.Args) < 2 {
		fmt.Fprintln(os.Stderr, "usage: vcheck <property>")
		os.Exit(3)
	}
	fn, ok := registry[os.Args[1]]
	if !ok {
		fmt.Fprintln(os.Stderr, "unknown property", os.Args[1])
		os.Exit(3)
	}
	fn()
}
