// Package c19 decides C19: evidence is accepted exactly for real double-signing, once.
package c19

import (
	"fmt"
	"time"

	"github.com/kardiachain/go-kardia/consensus"
	cstypes "github.com/kardiachain/go-kardia/consensus/types"
	"github.com/kardiachain/go-kardia/mainchain/genesis"
	kproto "github.com/kardiachain/go-kardia/proto/kardiachain/types"
	"github.com/kardiachain/go-kardia/types"

	"verifharness/c18"
	"verifharness/core"
	"verifharness/netsim"
)

func init() { core.Register("C19", Main) }

// e2e: a Byzantine validator equivocates at arbitrary heights/rounds; the evidence must be created, gossiped,
// proposed, committed exactly once; nothing invalid may be committed; the network must stay live.
func e2e(c *core.Case) {
	r, run := c.R, c.Run
	n := 4 + r.Intn(2)
	powers := make([]int64, n)
	for i := range powers {
		powers[i] = 20 + int64(r.Intn(3))*10
	}
	b := r.Intn(n)
	// keep the adversary below 1/3
	var tot int64
	for _, p := range powers {
		tot += p
	}
	for powers[b]*3 >= tot {
		powers[b] = 20
		tot = 0
		for _, p := range powers {
			tot += p
		}
	}
	net, err := netsim.NewNet(netsim.NetOpts{N: n, Powers: powers, Byz: []int{b}})
	if err != nil {
		run.Inconclusive("network build failed: " + err.Error())
		return
	}
	defer net.Close()
	net.GossipEvidence = true
	al := netsim.NewAlarms()
	hist := netsim.NewSetHistory(netsim.RefSetFrom(net.Correct()[0].CS.VerifState().Validators))
	em := netsim.NewEvidenceMonitor(al, hist)
	net.Mons = []netsim.Monitor{netsim.NewAgreementMonitor(al, hist), netsim.NewRulesMonitor(al, hist), em}
	if err := net.StartAll(); err != nil {
		run.Inconclusive("network start failed: " + err.Error())
		return
	}
	adv := netsim.NewAdversary(net)
	heights := 3 + r.Intn(3)
	var script []string
	for h := 1; h <= heights; h++ {
		// bring everybody into round 1 of the height with the proposal on the table
		for _, nd := range net.Alive() {
			if nd.CS.GetRoundState().Step == cstypes.RoundStepNewHeight {
				net.FireNode(nd)
			}
		}
		if r.Intn(3) != 0 {
			nodes := net.Alive()
			ref := nodes[0]
			rs := ref.CS.GetRoundState()
			typ := kproto.PrevoteType
			if r.Intn(2) == 0 {
				typ = kproto.PrecommitType
			}
			round := rs.Round
			hh := rs.Height
			if r.Intn(4) == 0 && hh > 1 {
				// late conflicting precommits for the previous height (while nodes wait in NewHeight of hh... they have left it; use current)
				typ = kproto.PrecommitType
			}
			ids := []types.BlockID{{}, adv.PickFakeID(1), adv.PickFakeID(2)}
			if rs.ProposalBlock != nil && rs.ProposalBlockParts != nil {
				ids[1] = types.BlockID{Hash: rs.ProposalBlock.Hash(), PartsHeader: rs.ProposalBlockParts.Header()}
			}
			// the same block hash under other part-set headers: two ids that differ behind the hash only
			o1, o2 := ids[1], ids[1]
			o1.PartsHeader.Total += 1 + uint32(r.Intn(3))
			o2.PartsHeader.Hash = adv.PickFakeID(3).PartsHeader.Hash
			ids = append(ids, o1, o2)
			i1 := r.Intn(len(ids))
			i2 := (i1 + 1 + r.Intn(len(ids)-1)) % len(ids)
			if r.Intn(3) == 0 {
				// both votes for the same hash
				pair := [][2]int{{1, 3}, {3, 1}, {1, 4}, {4, 1}, {3, 4}, {4, 3}}[r.Intn(6)]
				i1, i2 = pair[0], pair[1]
			}
			if ids[i1].Hash.Equal(ids[i2].Hash) && !ids[i1].IsZero() {
				run.Count("equivocations_for_one_block_hash_under_two_part_set_headers", 1)
			}
			v1 := adv.SignVote(ref, b, typ, hh, round, ids[i1], netsim.ClockNow())
			v2 := adv.SignVote(ref, b, typ, hh, round, ids[i2], netsim.ClockNow().Add(time.Microsecond))
			// at least one node sees both votes
			both := nodes[r.Intn(len(nodes))]
			for _, nd := range nodes {
				switch {
				case nd == both:
					net.Inject(nd, &consensus.VoteMessage{Vote: v1})
					net.Inject(nd, &consensus.VoteMessage{Vote: v2})
				case r.Intn(2) == 0:
					net.Inject(nd, &consensus.VoteMessage{Vote: v1})
				default:
					net.Inject(nd, &consensus.VoteMessage{Vote: v2})
				}
			}
			script = append(script, fmt.Sprintf("height %d round %d: validator %d equivocates (%v): %s vs %s, node %d sees both", hh, round, b, typ, netsim.ShortBID(ids[i1]), netsim.ShortBID(ids[i2]), both.Idx))
			run.Count("equivocations_injected", 1)
		}
		res := net.RunSync(net.MinHeight()+1, uint32(20*n), nil)
		if !res.Reached {
			break
		}
	}
	grace := uint64(n + 2)
	base := net.MinHeight()
	res := net.RunSync(base+grace, uint32(20*n), nil)
	em.Finish(net, grace)
	run.Eval(1)
	for k, v := range al.Counts {
		run.Count(k, v)
	}
	for k, v := range net.Stats {
		run.Count("net:"+k, v)
	}
	if c.I < 2 {
		run.Sample(map[string]interface{}{"powers": powers, "adversary": b, "script": script, "final": net.Heights()})
	}
	w := map[string]interface{}{"powers": powers, "adversary": b, "script": script, "heights": net.Heights(), "schedule_tail": net.TailSched(80)}
	for _, rej := range net.EvRejects {
		c.Violation("evidence-of-correct-node-rejected-by-correct-node", rej, w)
	}
	for _, a := range al.List {
		if a.Prop == "C19" {
			c.Violation(a.Key, a.What, w)
		} else {
			run.Count("alarm_of_other_property:"+a.Prop+":"+a.Key, 1)
		}
	}
	if !res.Reached {
		// a network stuck after an equivocation is this property's business too (evidence that cannot be committed)
		c.Violation("network-stuck-after-equivocation", fmt.Sprintf("%s %s %s", res.Deadlock, res.Stuck, net.Heights()), w)
		return
	}
	if al.Counts["evidence_committed"] > 0 {
		run.Nontrivial(fmt.Sprint(powers, b, script))
	}
	// committed evidence offered again (by a peer, or inside a later proposed block) must not come back
	for _, nd := range net.Alive() {
		for h := uint64(1); h <= nd.BO.Height(); h++ {
			blk := nd.BO.LoadBlock(h)
			if blk == nil {
				continue
			}
			for _, ev := range blk.Evidence().Evidence {
				if err := nd.EvPool.CheckEvidence(types.EvidenceList{ev}); err == nil {
					c.Violation("committed-evidence-accepted-in-a-block-again", fmt.Sprintf("node %d: CheckEvidence accepts evidence already committed in block %d", nd.Idx, h), w)
				} else {
					run.Count("recommit_attempts_refused", 1)
				}
				nd.EvPool.AddEvidence(ev)
				if list, _ := nd.EvPool.PendingEvidence(-1); len(list) > 0 {
					for _, pe := range list {
						if pe.Hash() == ev.Hash() {
							c.Violation("committed-evidence-pending-again", fmt.Sprintf("node %d: evidence committed in block %d is pending again after a peer re-sent it", nd.Idx, h), w)
						}
					}
				}
			}
		}
	}
	// the equivocator must have been punished by the application: its power changed or it left the set
	st := net.Alive()[0].CS.VerifState()
	if al.Counts["evidence_committed"] > 0 {
		_, v := st.NextValidators.GetByAddress(net.Addrs[b])
		if v == nil {
			run.Count("equivocator_removed_from_validator_set", 1)
		} else if v.VotingPower != powers[b]*netsim.PowerUnit {
			run.Count("equivocator_power_changed", 1)
		} else {
			run.Count("equivocator_power_unchanged", 1)
		}
	}
}

func smallEvidenceParams(g *genesis.Genesis) {
	g.ConsensusParams.Evidence.MaxAgeNumBlocks = 3
	g.ConsensusParams.Evidence.MaxAgeDuration = 50 * time.Millisecond
}

func Main() {
	r := core.Start("C19", "exploration")
	r.SetRule("e2e case = simulated network with one Byzantine validator that equivocates (prevotes/precommits, conflicting ids incl. nil/fake/proposal) at random heights towards random audiences; history checker: every equivocation a correct node reports is committed as evidence exactly once within n+2 heights, every committed evidence is real double-signing by a validator of that height with the stated power, evidence of a correct node is accepted by every correct node, the network stays live; unit case = evidence pool on a real chain fed valid evidence and every field mutation, compared with the property's predicate; non-trivial = evidence was committed / a mutation was judged")
	r.Assume("evidence gossip is emulated as the evidence reactor does it (pending evidence offered to peers that reached the evidence height)")
	r.Cases("unit", r.N(16, 400), core.Opts{Procs: 16, StallSec: 300}, unit)
	r.Cases("e2e", r.N(96, 3000), core.Opts{Procs: 16, StallSec: 300}, e2e)
	// the real evidence reactor's per-peer send decision against scripted peers (the e2e group emulates evidence gossip)
	r.Cases("reactor-gossip", r.N(12, 200), core.Opts{Procs: r.N(12, 16), StallSec: 300}, c18.EvidenceGossipCase)
	r.Floor("evidence_gossip_received_by_peers:conforming-peer-state:ahead", 10)
	r.Floor("equivocations_for_one_block_hash_under_two_part_set_headers", 10)
	r.Floor("evidence_committed", 10)
	r.Floor("unit_accepts", 20)
	r.Floor("unit_rejects", 100)
	r.Finish()
}
