package c19

import (
	"fmt"
	"strings"
	"time"

	"github.com/kardiachain/go-kardia/lib/common"
	kproto "github.com/kardiachain/go-kardia/proto/kardiachain/types"
	"github.com/kardiachain/go-kardia/types"

	"verifharness/core"
	"verifharness/netsim"
)

type mutation struct {
	name  string
	apply func(ev *types.DuplicateVoteEvidence, x *uctx)
}

type uctx struct {
	net   *netsim.Net
	adv   *netsim.Adversary
	b     int // equivocator
	other int // another validator index (correct)
	t     *netsim.Node
}

func cloneEv(ev *types.DuplicateVoteEvidence) *types.DuplicateVoteEvidence {
	c := *ev
	c.VoteA = ev.VoteA.Copy()
	c.VoteB = ev.VoteB.Copy()
	return &c
}

func (x *uctx) resign(v *types.Vote, idx int) {
	nv := x.adv.SignVote(x.t, idx, v.Type, v.Height, v.Round, v.BlockID, v.Timestamp)
	nv.ValidatorIndex = v.ValidatorIndex
	nv.ValidatorAddress = v.ValidatorAddress
	*v = *nv
}

var mutations = []mutation{
	{"none", func(ev *types.DuplicateVoteEvidence, x *uctx) {}},
	{"votes-swapped", func(ev *types.DuplicateVoteEvidence, x *uctx) { ev.VoteA, ev.VoteB = ev.VoteB, ev.VoteA }},
	{"validator-power+1", func(ev *types.DuplicateVoteEvidence, x *uctx) { ev.ValidatorPower++ }},
	{"validator-power-1", func(ev *types.DuplicateVoteEvidence, x *uctx) { ev.ValidatorPower-- }},
	{"total-power+1", func(ev *types.DuplicateVoteEvidence, x *uctx) { ev.TotalVotingPower++ }},
	{"total-power-1", func(ev *types.DuplicateVoteEvidence, x *uctx) { ev.TotalVotingPower-- }},
	{"same-block-id", func(ev *types.DuplicateVoteEvidence, x *uctx) {
		ev.VoteB.BlockID = ev.VoteA.BlockID
		x.resign(ev.VoteB, x.b)
	}},
	{"voteB-other-round(signed)", func(ev *types.DuplicateVoteEvidence, x *uctx) { ev.VoteB.Round++; x.resign(ev.VoteB, x.b) }},
	{"voteB-other-round(unsigned)", func(ev *types.DuplicateVoteEvidence, x *uctx) { ev.VoteB.Round++ }},
	{"voteB-other-height(signed)", func(ev *types.DuplicateVoteEvidence, x *uctx) { ev.VoteB.Height++; x.resign(ev.VoteB, x.b) }},
	{"voteB-other-type(signed)", func(ev *types.DuplicateVoteEvidence, x *uctx) {
		if ev.VoteB.Type == kproto.PrevoteType {
			ev.VoteB.Type = kproto.PrecommitType
		} else {
			ev.VoteB.Type = kproto.PrevoteType
		}
		x.resign(ev.VoteB, x.b)
	}},
	{"voteB-retyped(original signature)", func(ev *types.DuplicateVoteEvidence, x *uctx) {
		// both votes re-typed keeping the signatures
		t := kproto.PrecommitType
		if ev.VoteA.Type == kproto.PrecommitType {
			t = kproto.PrevoteType
		}
		ev.VoteA.Type, ev.VoteB.Type = t, t
	}},
	{"voteB-signed-by-another-validator", func(ev *types.DuplicateVoteEvidence, x *uctx) {
		nv := x.adv.SignVote(x.t, x.other, ev.VoteB.Type, ev.VoteB.Height, ev.VoteB.Round, ev.VoteB.BlockID, ev.VoteB.Timestamp)
		ev.VoteB.Signature = nv.Signature
	}},
	{"voteB-of-another-validator(address too)", func(ev *types.DuplicateVoteEvidence, x *uctx) {
		nv := x.adv.SignVote(x.t, x.other, ev.VoteB.Type, ev.VoteB.Height, ev.VoteB.Round, ev.VoteB.BlockID, ev.VoteB.Timestamp)
		*ev.VoteB = *nv
	}},
	{"both-votes-by-a-key-outside-the-set", func(ev *types.DuplicateVoteEvidence, x *uctx) {
		k := len(x.net.Keys) // not a validator: sign with a fresh key through a temporary slot
		_ = k
		ev.VoteA.ValidatorAddress = common.HexToAddress("0x1234567890")
		ev.VoteB.ValidatorAddress = common.HexToAddress("0x1234567890")
	}},
	{"voteB-signature-bit-flipped", func(ev *types.DuplicateVoteEvidence, x *uctx) {
		ev.VoteB.Signature = append([]byte{}, ev.VoteB.Signature...)
		ev.VoteB.Signature[10] ^= 1
	}},
	{"voteB-timestamp-altered(original signature)", func(ev *types.DuplicateVoteEvidence, x *uctx) {
		ev.VoteB.Timestamp = ev.VoteB.Timestamp.Add(time.Nanosecond)
	}},
	{"voteB-block-id-altered(original signature)", func(ev *types.DuplicateVoteEvidence, x *uctx) {
		ev.VoteB.BlockID.PartsHeader.Total++
	}},
	{"voteA-nil", func(ev *types.DuplicateVoteEvidence, x *uctx) { ev.VoteA = nil }},
	{"chain-id", func(ev *types.DuplicateVoteEvidence, x *uctx) {
		// votes signed for another chain
		for _, v := range []*types.Vote{ev.VoteA, ev.VoteB} {
			sigv := x.adv.SignVoteChain("other-chain", x.b, v)
			v.Signature = sigv
		}
	}},
}

func orderVotes(a, b *types.Vote) (*types.Vote, *types.Vote) {
	if strings.Compare(a.BlockID.Key(), b.BlockID.Key()) < 0 {
		return a, b
	}
	return b, a
}

func pendingHas(n *netsim.Node, ev types.Evidence) bool {
	list, _ := n.EvPool.PendingEvidence(-1)
	for _, e := range list {
		if e.Hash() == ev.Hash() {
			return true
		}
	}
	return false
}

func unit(c *core.Case) {
	r, run := c.R, c.Run
	n := 4
	powers := []int64{20, 30, 20, 40}
	b := r.Intn(n)
	for powers[b]*3 >= 110 {
		b = r.Intn(n)
	}
	net, err := netsim.NewNet(netsim.NetOpts{N: n, Powers: powers, Byz: []int{b}, Genesis: smallEvidenceParams})
	if err != nil {
		run.Inconclusive("network build failed: " + err.Error())
		return
	}
	defer net.Close()
	if err := net.StartAll(); err != nil {
		run.Inconclusive("network start failed: " + err.Error())
		return
	}
	head := uint64(7 + r.Intn(3))
	if res := net.RunSync(head, 200, nil); !res.Reached {
		run.Inconclusive("unit chain did not reach its height")
		return
	}
	t := net.Alive()[r.Intn(len(net.Alive()))]
	x := &uctx{net: net, adv: netsim.NewAdversary(net), b: b, other: t.Idx, t: t}
	st := t.CS.VerifState()
	headTime := st.LastBlockTime
	headH := st.LastBlockHeight
	params := st.ConsensusParams.Evidence
	round := uint32(1)
	for eh := uint64(1); eh <= headH; eh++ {
		meta := t.BO.LoadBlockMeta(eh)
		vs, err := t.Store.LoadValidators(eh)
		if meta == nil || err != nil {
			run.Inconclusive(fmt.Sprintf("no meta/validators at height %d: %v", eh, err))
			return
		}
		set := netsim.RefSetFrom(vs)
		expired := int64(headH-eh) > params.MaxAgeNumBlocks && headTime.Sub(meta.Header.Time) > params.MaxAgeDuration
		for _, typ := range []kproto.SignedMsgType{kproto.PrevoteType, kproto.PrecommitType} {
			for mi, m := range mutations {
				for _, path := range []string{"AddEvidence", "CheckEvidence"} {
					round++
					v1 := x.adv.SignVote(t, b, typ, eh, round, x.adv.PickFakeID(int(round)*2), meta.Header.Time)
					v2 := x.adv.SignVote(t, b, typ, eh, round, x.adv.PickFakeID(int(round)*2+1), meta.Header.Time)
					// validator index at THAT height
					if i, _ := vs.GetByAddress(net.Addrs[b]); i >= 0 {
						v1.ValidatorIndex, v2.ValidatorIndex = uint32(i), uint32(i)
					}
					a, bb := orderVotes(v1, v2)
					canon := &types.DuplicateVoteEvidence{VoteA: a, VoteB: bb, TotalVotingPower: vs.TotalVotingPower(), ValidatorPower: set.Power[net.Addrs[b]], Timestamp: meta.Header.Time}
					ev := cloneEv(canon)
					m.apply(ev, x)
					refErr := netsim.RefDuplicateVoteValid(net.ChainID, ev, set)
					var accepted bool
					var gotErr error
					func() {
						defer func() {
							if p := recover(); p != nil {
								gotErr = fmt.Errorf("panic: %v", p)
								c.Violation("panic-on-evidence:"+m.name, fmt.Sprintf("%s panicked on evidence mutation %q: %v", path, m.name, p), map[string]interface{}{"height": eh, "mutation": m.name})
							}
						}()
						if err := ev.ValidateBasic(); err != nil {
							gotErr = err
							return
						}
						if path == "AddEvidence" {
							gotErr = t.EvPool.AddEvidence(ev)
							accepted = gotErr == nil && pendingHas(t, ev)
						} else {
							gotErr = t.EvPool.CheckEvidence(types.EvidenceList{ev})
							accepted = gotErr == nil
						}
					}()
					run.Eval(1)
					w := map[string]interface{}{"path": path, "evidence_height": eh, "head": headH, "type": typ.String(), "mutation": m.name, "expired_by_rule": expired, "pool_error": fmt.Sprint(gotErr), "reference": fmt.Sprint(refErr)}
					if accepted {
						run.Count("unit_accepts", 1)
						if refErr != nil {
							c.Violation("forged-evidence-accepted:"+m.name, fmt.Sprintf("%s accepted evidence that is not real double-signing (%v)", path, refErr), w)
						}
						if expired {
							c.Violation("expired-evidence-accepted", fmt.Sprintf("%s accepted evidence of height %d at head %d although it is older than both age limits", path, eh, headH), w)
						}
					} else {
						run.Count("unit_rejects", 1)
						if mi == 0 && !expired {
							c.Violation("valid-evidence-rejected", fmt.Sprintf("%s rejected canonical evidence of real double-signing at height %d (head %d): %v", path, eh, headH, gotErr), w)
						}
					}
					run.Nontrivial(fmt.Sprintf("%s/%s/%d/%v/%v", path, m.name, headH-eh, typ, expired))
					if expired {
						run.Count("unit_expired_cases", 1)
					}
				}
			}
		}
		// duplicates inside one list must be refused
		round++
		v1 := x.adv.SignVote(t, b, kproto.PrevoteType, eh, round, x.adv.PickFakeID(int(round)*2), meta.Header.Time)
		v2 := x.adv.SignVote(t, b, kproto.PrevoteType, eh, round, x.adv.PickFakeID(int(round)*2+1), meta.Header.Time)
		if i, _ := vs.GetByAddress(net.Addrs[b]); i >= 0 {
			v1.ValidatorIndex, v2.ValidatorIndex = uint32(i), uint32(i)
		}
		a, bb := orderVotes(v1, v2)
		ev := &types.DuplicateVoteEvidence{VoteA: a, VoteB: bb, TotalVotingPower: vs.TotalVotingPower(), ValidatorPower: set.Power[net.Addrs[b]], Timestamp: meta.Header.Time}
		if !expired {
			if err := t.EvPool.CheckEvidence(types.EvidenceList{ev, cloneEv(ev)}); err == nil {
				c.Violation("duplicate-evidence-in-one-list-accepted", "CheckEvidence accepted a list carrying the same evidence twice", map[string]interface{}{"height": eh})
			} else {
				run.Count("unit_duplicate_lists_refused", 1)
			}
		}
	}
	if c.I == 0 {
		run.Sample(map[string]interface{}{"head": headH, "equivocator": b, "mutations": len(mutations), "params": fmt.Sprintf("%+v", params)})
	}
}
