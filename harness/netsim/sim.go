package netsim

import (
	"crypto/ecdsa"
	"fmt"
	"math/rand"
	"os"
	"path/filepath"
	"sort"
	"strings"
	"time"

	"github.com/kardiachain/go-kardia/consensus"
	cstypes "github.com/kardiachain/go-kardia/consensus/types"
	"github.com/kardiachain/go-kardia/lib/common"
	"github.com/kardiachain/go-kardia/lib/p2p"
	"github.com/kardiachain/go-kardia/mainchain/genesis"
	kproto "github.com/kardiachain/go-kardia/proto/kardiachain/types"
	"github.com/kardiachain/go-kardia/types"
)

type consensusRS = cstypes.RoundState

// AdvMsg is a message fabricated by the adversary, visible to a set of nodes.
type AdvMsg struct {
	Msg    consensus.Message
	Height uint64
	To     map[int]bool // nil = everybody
	Sent   map[int]int  // deliveries per node
	Label  string
}

type NetOpts struct {
	N       int
	Powers  []int64
	Byz     []int // validator indices controlled by the adversary
	ChainID string
	Node    func(i int) NodeOpts
	Genesis func(*genesis.Genesis)
	Root    string // scratch directory
}

// Net is a simulated network of correct nodes plus adversary-controlled validators.
type Net struct {
	Opts           NetOpts
	Gen            *genesis.Genesis
	ChainID        string
	Keys           []*ecdsa.PrivateKey
	Addrs          []common.Address
	Nodes          []*Node // index = validator index; nil for adversary-controlled validators
	IsByz          map[int]bool
	Group          []int // partition group per validator index (messages flow only within a group); nil = connected
	Adv            []*AdvMsg
	Mons           []Monitor
	Sched          []string // recorded schedule (one compact line per step)
	Steps          int
	Root           string
	ownRoot        bool
	Stats          map[string]int
	AllowRestarts  bool
	RestartErrs    []string
	GossipEvidence bool
	evSent         map[string]bool
	EvRejects      []string // a correct node's pool rejected evidence another correct node holds
	// AfterStimulus, if set, is called after every stimulus given to a node (at quiescence); it may set Halt.
	AfterStimulus func(n *Node)
	Halt          bool
	// Filter, if set, restricts what correct holders may forward (scripted attacks use it to model delays).
	Filter func(from, to *Node, m consensus.Message) bool
}

// Monitor observes node traces (online) and network-level events.
type Monitor interface {
	// Observe is called at quiescence with the new trace entries of one node.
	Observe(net *Net, node *Node, evs []Ev)
}

func NewNet(o NetOpts) (*Net, error) {
	Quiet()
	if o.ChainID == "" {
		o.ChainID = "verif-sim"
	}
	net := &Net{Opts: o, ChainID: o.ChainID, IsByz: map[int]bool{}, Stats: map[string]int{}}
	for _, b := range o.Byz {
		net.IsByz[b] = true
	}
	for i := 0; i < o.N; i++ {
		net.Keys = append(net.Keys, Key(i))
		net.Addrs = append(net.Addrs, Addr(Key(i)))
	}
	net.Gen = MakeGenesis(net.Keys, o.Powers, o.ChainID, o.Genesis)
	net.Root = o.Root
	if net.Root == "" {
		net.Root = ScratchDir()
		net.ownRoot = true
	}
	InstallClock(time.Unix(1700000100, 0).UTC())
	net.Nodes = make([]*Node, o.N)
	for i := 0; i < o.N; i++ {
		if net.IsByz[i] {
			continue
		}
		var no NodeOpts
		if o.Node != nil {
			no = o.Node(i)
		}
		if no.Dir == "" {
			no.Dir = filepath.Join(net.Root, fmt.Sprintf("n%d", i))
		}
		n, err := BuildNode(i, net.Gen, net.Keys[i], nil, nil, nil, no)
		if err != nil {
			return net, fmt.Errorf("node %d: %w", i, err)
		}
		net.Nodes[i] = n
	}
	return net, nil
}

// StartAll starts every node's consensus.
func (net *Net) StartAll() error {
	for _, n := range net.Nodes {
		if n == nil {
			continue
		}
		if err := n.Start(); err != nil {
			return fmt.Errorf("node %d: %w", n.Idx, err)
		}
		net.observe(n)
	}
	return nil
}

func (net *Net) Close() {
	for _, n := range net.Nodes {
		if n != nil {
			n.Stop(false)
		}
	}
	if net.ownRoot {
		os.RemoveAll(net.Root)
	}
}

func (net *Net) Correct() []*Node {
	var out []*Node
	for _, n := range net.Nodes {
		if n != nil {
			out = append(out, n)
		}
	}
	return out
}

func (net *Net) Alive() []*Node {
	var out []*Node
	for _, n := range net.Nodes {
		if n != nil && !n.Dead {
			out = append(out, n)
		}
	}
	return out
}

func (net *Net) note(format string, a ...interface{}) {
	if len(net.Sched) < 200000 {
		net.Sched = append(net.Sched, fmt.Sprintf(format, a...))
	}
}

// observe feeds the node's new trace entries to the monitors.
func (net *Net) observe(n *Node) {
	evs := n.Tr.Since(n.trIdx)
	first := n.trIdx == 0 && !n.observed
	n.observed = true
	n.trIdx += len(evs)
	if len(evs) == 0 && !first {
		if net.AfterStimulus != nil {
			net.AfterStimulus(n)
		}
		return
	}
	for _, m := range net.Mons {
		m.Observe(net, n, evs)
	}
	if net.AfterStimulus != nil {
		net.AfterStimulus(n)
	}
}

func (net *Net) connected(i, j int) bool {
	if net.Group == nil {
		return true
	}
	return net.Group[i] == net.Group[j]
}

func msgLabel(m consensus.Message) string {
	switch x := m.(type) {
	case *consensus.VoteMessage:
		t := "pv"
		if x.Vote.Type == kproto.PrecommitType {
			t = "pc"
		}
		return fmt.Sprintf("%s(%d/%d v%d %s)", t, x.Vote.Height, x.Vote.Round, x.Vote.ValidatorIndex, ShortBID(x.Vote.BlockID))
	case *consensus.ProposalMessage:
		return fmt.Sprintf("prop(%d/%d pol%d %s)", x.Proposal.Height, x.Proposal.Round, x.Proposal.POLRound, ShortBID(x.Proposal.POLBlockID))
	case *consensus.BlockPartMessage:
		return fmt.Sprintf("part(%d/%d #%d)", x.Height, x.Round, x.Part.Index)
	}
	return fmt.Sprintf("%T", m)
}

// ---------------------------------------------------------------- state-based gossip

type offer struct {
	Msg  consensus.Message
	From int // validator index of the holder, -1 = adversary
	adv  *AdvMsg
}

func lacksVote(vs *types.VoteSet, idx uint32) bool {
	if vs == nil {
		return true
	}
	if int(idx) >= vs.Size() {
		return false
	}
	return vs.GetByIndex(idx) == nil
}

func votesOf(vs *types.VoteSet) []*types.Vote {
	if vs == nil {
		return nil
	}
	var out []*types.Vote
	for i := 0; i < vs.Size(); i++ {
		if v := vs.GetByIndex(uint32(i)); v != nil {
			out = append(out, v)
		}
	}
	return out
}

// maj23Offers emulates the reactor's VoteSetMaj23 / VoteSetBits exchange: when the holder has a +2/3
// majority for some block id in a vote set, it claims it at the receiver (SetPeerMaj23, exactly what
// ConsensusManager.Receive does) and is then allowed to send the votes FOR THAT BLOCK ID the receiver lacks,
// even if the receiver holds a conflicting vote of the same validator.
func maj23Offers(hs *types.VoteSet, to *Node, trs *consensusRS, round uint32, typ kproto.SignedMsgType, peer string) []consensus.Message {
	if hs == nil || trs.Votes == nil {
		return nil
	}
	bid, ok := hs.TwoThirdsMajority()
	if !ok {
		return nil
	}
	trs.Votes.SetPeerMaj23(round, typ, p2p.ID(peer), bid)
	var rs *types.VoteSet
	if typ == kproto.PrevoteType {
		rs = trs.Votes.Prevotes(round)
	} else {
		rs = trs.Votes.Precommits(round)
	}
	var out []consensus.Message
	for _, v := range votesOf(hs) {
		if !v.BlockID.Equal(bid) {
			continue
		}
		if rs != nil {
			if ba := rs.BitArrayByBlockID(bid); ba != nil && ba.GetIndex(int(v.ValidatorIndex)) {
				continue
			}
		}
		out = append(out, &consensus.VoteMessage{Vote: v})
	}
	return out
}

// offersFromTo lists what node `from` holds and node `to` lacks: the product's
// gossip is state-based, so this is what the reactors would (eventually) send.
// It follows the reactor's rule about which rounds a peer is sent.
func offersFromTo(from, to *Node, frs, trs *consensusRS) []consensus.Message {
	var out []consensus.Message
	if trs.Height < frs.Height {
		h := trs.Height
		var c *types.Commit
		if h == from.BO.Height() {
			c = from.BO.LoadSeenCommit(h)
		} else {
			c = from.BO.LoadBlockCommit(h)
		}
		if c == nil {
			return nil
		}
		var pcs *types.VoteSet
		var have *common.BitArray
		if trs.Votes != nil {
			// catch-up commit: claimed through VoteSetMaj23, bits answered per block id
			trs.Votes.SetPeerMaj23(c.Round, kproto.PrecommitType, p2p.ID(fmt.Sprintf("peer%d", from.Idx)), c.BlockID)
			pcs = trs.Votes.Precommits(c.Round)
			if pcs != nil {
				have = pcs.BitArrayByBlockID(c.BlockID)
			}
		}
		for i := range c.Signatures {
			if !c.Signatures[i].ForBlock() {
				continue
			}
			if have != nil && have.GetIndex(i) {
				continue
			}
			out = append(out, &consensus.VoteMessage{Vote: c.GetVote(uint32(i))})
		}
		if meta := from.BO.LoadBlockMeta(h); meta != nil && trs.ProposalBlockParts != nil && trs.ProposalBlockParts.HasHeader(meta.BlockID.PartsHeader) && !trs.ProposalBlockParts.IsComplete() {
			for i := 0; i < int(meta.BlockID.PartsHeader.Total); i++ {
				if trs.ProposalBlockParts.GetPart(i) == nil {
					if p := from.BO.LoadBlockPart(h, i); p != nil {
						out = append(out, &consensus.BlockPartMessage{Height: h, Round: c.Round, Part: p})
					}
				}
			}
		}
		return out
	}
	if trs.Height > frs.Height {
		return nil
	}
	if frs.Proposal != nil && trs.Proposal == nil && frs.Proposal.Round == trs.Round && trs.Step <= cstypes.RoundStepPrecommitWait {
		out = append(out, &consensus.ProposalMessage{Proposal: frs.Proposal})
	}
	if frs.ProposalBlockParts != nil && trs.ProposalBlockParts != nil && !trs.ProposalBlockParts.IsComplete() &&
		trs.ProposalBlockParts.HasHeader(frs.ProposalBlockParts.Header()) {
		for i := 0; i < int(frs.ProposalBlockParts.Total()); i++ {
			if p := frs.ProposalBlockParts.GetPart(i); p != nil && trs.ProposalBlockParts.GetPart(i) == nil {
				out = append(out, &consensus.BlockPartMessage{Height: frs.Height, Round: frs.Round, Part: p})
			}
		}
	}
	if frs.Votes != nil && trs.Votes != nil {
		// A correct peer sends votes of the receiver's own rounds only (current round, earlier rounds incl. the
		// proposal's POL round), never of rounds the receiver has not reached: HeightVoteSet lets a peer open at
		// most two unknown rounds, a budget the real reactor reserves for the commit round of a lagging peer.
		for r := uint32(1); r <= trs.Round && r <= frs.Round+1; r++ {
			for _, v := range votesOf(frs.Votes.Prevotes(r)) {
				if lacksVote(trs.Votes.Prevotes(r), v.ValidatorIndex) {
					out = append(out, &consensus.VoteMessage{Vote: v})
				}
			}
			for _, v := range votesOf(frs.Votes.Precommits(r)) {
				if lacksVote(trs.Votes.Precommits(r), v.ValidatorIndex) {
					out = append(out, &consensus.VoteMessage{Vote: v})
				}
			}
		}
		peer := fmt.Sprintf("peer%d", from.Idx)
		for r := uint32(1); r <= trs.Round && r <= frs.Round+1; r++ {
			out = append(out, maj23Offers(frs.Votes.Prevotes(r), to, trs, r, kproto.PrevoteType, peer)...)
			out = append(out, maj23Offers(frs.Votes.Precommits(r), to, trs, r, kproto.PrecommitType, peer)...)
		}
		// ... except a +2/3 precommit majority for a block the holder has seen in a later round (it is in the commit
		// step waiting for the block): the lagging peer is sent exactly that round's precommits.
		if frs.Step == cstypes.RoundStepCommit && frs.CommitRound > trs.Round {
			out = append(out, maj23Offers(frs.Votes.Precommits(frs.CommitRound), to, trs, frs.CommitRound, kproto.PrecommitType, peer)...)
		}
	}
	if frs.LastCommit != nil && trs.LastCommit != nil && trs.Step == cstypes.RoundStepNewHeight {
		for _, v := range votesOf(frs.LastCommit) {
			if lacksVote(trs.LastCommit, v.ValidatorIndex) {
				out = append(out, &consensus.VoteMessage{Vote: v})
			}
		}
	}
	return out
}

// OffersTo lists everything node j could be sent now (respecting partitions
// unless all is set), from correct holders and from the adversary's messages.
func (net *Net) OffersTo(j *Node, all bool) []offer {
	var out []offer
	trs := j.CS.GetRoundState()
	for _, i := range net.Nodes {
		if i == nil || i == j || i.Dead {
			continue
		}
		if !all && !net.connected(i.Idx, j.Idx) {
			continue
		}
		frs := i.CS.GetRoundState()
		for _, m := range offersFromTo(i, j, frs, trs) {
			if net.Filter != nil && !net.Filter(i, j, m) {
				continue
			}
			out = append(out, offer{Msg: m, From: i.Idx})
		}
	}
	for _, a := range net.Adv {
		if a.To != nil && !a.To[j.Idx] {
			continue
		}
		if a.Height != trs.Height && a.Height+1 != trs.Height {
			continue
		}
		if a.Sent[j.Idx] >= 2 {
			continue
		}
		out = append(out, offer{Msg: a.Msg, From: -1, adv: a})
	}
	return out
}

func (net *Net) deliver(j *Node, o offer) {
	peer := fmt.Sprintf("peer%d", o.From)
	if o.adv != nil {
		o.adv.Sent[j.Idx]++
		peer = "adversary"
	}
	net.Steps++
	net.note("d %d<-%d %s", j.Idx, o.From, msgLabel(o.Msg))
	j.Deliver(o.Msg, peer)
	net.observe(j)
}

// Fixpoint delivers, to every alive node, everything its peers hold and it
// lacks, until nobody lacks anything (gossip reached a fixpoint). Partitions are
// ignored (the synchronous phase reconnects everybody). Returns the number of
// deliveries.
var debugFix = os.Getenv("VERIF_DEBUG_ATTACK") != ""

func (net *Net) Fixpoint(maxIter int) (int, bool) { return net.fixpoint(maxIter, true) }

// FixpointPartitioned is Fixpoint that respects the current partition.
func (net *Net) FixpointPartitioned(maxIter int) (int, bool) { return net.fixpoint(maxIter, false) }

func (net *Net) fixpoint(maxIter int, all bool) (int, bool) {
	total := 0
	for iter := 0; iter < maxIter; iter++ {
		progress := false
		for _, j := range net.Alive() {
			if net.Halt {
				return total, true
			}
			offs := net.OffersTo(j, all)
			if len(offs) == 0 {
				continue
			}
			// a message that the node keeps ignoring would loop forever: detect by fingerprint
			before := net.fingerprint(j)
			byPeer := map[string][]consensus.Message{}
			var order []string
			for _, o := range offs {
				p := fmt.Sprintf("peer%d", o.From)
				if o.adv != nil {
					o.adv.Sent[j.Idx]++
					p = "adversary"
				}
				if _, ok := byPeer[p]; !ok {
					order = append(order, p)
				}
				byPeer[p] = append(byPeer[p], o.Msg)
			}
			for _, p := range order {
				if net.Halt {
					break
				}
				j.DeliverBatch(byPeer[p], p)
				total += len(byPeer[p])
				net.Steps += len(byPeer[p])
			}
			if debugFix {
				for _, o := range offs {
					net.note("  fix %d<-%d %s", j.Idx, o.From, msgLabel(o.Msg))
				}
			}
			net.note("fix %d n=%d", j.Idx, len(offs))
			net.observe(j)
			if net.fingerprint(j) != before {
				progress = true
			}
		}
		if net.GossipEvidence && net.gossipEvidence() {
			progress = true
		}
		if !progress {
			return total, true
		}
	}
	return total, false
}

// gossipEvidence emulates the evidence reactor: every pending evidence of a node is offered to every peer
// that has reached the evidence height (the reactor waits for a lagging peer). Returns true if a pool accepted something.
func (net *Net) gossipEvidence() bool {
	progress := false
	for _, i := range net.Alive() {
		pend, _ := i.EvPool.PendingEvidence(-1)
		for _, ev := range pend {
			for _, j := range net.Alive() {
				if j == i || j.BO.Height() < ev.Height() {
					continue
				}
				k := fmt.Sprintf("%d|%x", j.Idx, ev.Hash())
				if net.evSent[k] {
					continue
				}
				if net.evSent == nil {
					net.evSent = map[string]bool{}
				}
				net.evSent[k] = true
				if err := ev.ValidateBasic(); err != nil {
					net.EvRejects = append(net.EvRejects, fmt.Sprintf("evidence of node %d fails ValidateBasic: %v", i.Idx, err))
					continue
				}
				if err := j.EvPool.AddEvidence(ev); err != nil {
					net.EvRejects = append(net.EvRejects, fmt.Sprintf("node %d rejected evidence %x (height %d) offered by node %d: %v", j.Idx, ev.Hash().Bytes()[:4], ev.Height(), i.Idx, err))
				} else {
					net.Stats["evidence_gossiped"]++
					progress = true
				}
			}
		}
	}
	return progress
}

// fingerprint summarises what a node holds (used to detect gossip fixpoints).
func (net *Net) fingerprint(n *Node) string {
	rs := n.CS.GetRoundState()
	var b strings.Builder
	fmt.Fprintf(&b, "%d/%d/%d %v %v", rs.Height, rs.Round, rs.Step, rs.Proposal != nil, rs.ProposalBlock != nil)
	if rs.ProposalBlockParts != nil {
		fmt.Fprintf(&b, " p%d/%d", rs.ProposalBlockParts.Count(), rs.ProposalBlockParts.Total())
	}
	if rs.Votes != nil {
		for r := uint32(1); r <= rs.Round+2; r++ {
			if pv := rs.Votes.Prevotes(r); pv != nil {
				b.WriteString(pv.BitArray().String())
			}
			if pc := rs.Votes.Precommits(r); pc != nil {
				b.WriteString(pc.BitArray().String())
			}
		}
	}
	if rs.LastCommit != nil {
		b.WriteString(rs.LastCommit.BitArray().String())
	}
	return b.String()
}

// FireEarliest fires the armed timeout with the smallest virtual deadline among
// alive nodes (ties: lowest index). Returns false if no timeout is armed.
func (net *Net) FireEarliest() bool {
	var best *Node
	var bestD time.Time
	for _, n := range net.Alive() {
		d, ok := n.Tick.Deadline()
		if !ok {
			continue
		}
		if best == nil || d.Before(bestD) {
			best, bestD = n, d
		}
	}
	if best == nil {
		return false
	}
	net.fire(best)
	return true
}

func (net *Net) fire(n *Node) bool {
	ti, ok := n.Tick.Pending()
	if !ok {
		return false
	}
	if d, _ := n.Tick.Deadline(); d.After(ClockNow()) {
		AdvanceClock(d.Sub(ClockNow()))
	}
	net.Steps++
	net.note("t %d %d/%d/%v", n.Idx, ti.Height, ti.Round, ti.Step)
	n.Fire()
	net.observe(n)
	return true
}

// MinHeight / MaxHeight of the block stores of alive correct nodes.
func (net *Net) MinHeight() uint64 {
	var m uint64 = 1 << 62
	for _, n := range net.Alive() {
		if h := n.BO.Height(); h < m {
			m = h
		}
	}
	return m
}

func (net *Net) MaxHeight() uint64 {
	var m uint64
	for _, n := range net.Correct() {
		if h := n.BO.Height(); h > m {
			m = h
		}
	}
	return m
}

// SyncResult of a synchronous suffix.
type SyncResult struct {
	Phases    int
	Reached   bool   // every alive node committed the target height
	Deadlock  string // non-empty: fixpoint with no pending timeout on a node that is behind
	Stuck     string // non-empty: a node exceeded the round bound
	MaxRounds uint32
}

// RunSync runs a synchronous suffix: gossip to fixpoint, then fire the earliest
// timeout, repeat, until every alive node's store reached target or a bound is hit.
// roundBound is the maximal number of rounds a node may spend in one height.
func (net *Net) RunSync(target uint64, roundBound uint32, adv func()) SyncResult {
	var res SyncResult
	net.Group = nil
	type hr struct {
		h uint64
		r uint32
	}
	start := map[int]hr{}
	lagRef := map[int]uint64{} // highest store height in the network when the node last changed its height
	for _, n := range net.Alive() {
		rs := n.CS.GetRoundState()
		start[n.Idx] = hr{rs.Height, rs.Round}
	}
	for phase := 0; phase < 100000; phase++ {
		res.Phases = phase
		if _, ok := net.Fixpoint(200); !ok {
			res.Stuck = "gossip did not reach a fixpoint in 200 iterations"
			return res
		}
		if net.Halt {
			return res
		}
		if adv != nil {
			adv()
		}
		done := true
		for _, n := range net.Alive() {
			if n.BO.Height() < target {
				done = false
			}
			rs := n.CS.GetRoundState()
			s := start[n.Idx]
			if rs.Height != s.h {
				start[n.Idx] = hr{rs.Height, rs.Round}
				lagRef[n.Idx] = net.MaxHeight()
			} else {
				if ref, ok := lagRef[n.Idx]; !ok {
					lagRef[n.Idx] = net.MaxHeight()
				} else if n.BO.Height() < target && net.MaxHeight() > ref+60 {
					res.Stuck = fmt.Sprintf("node %d does not catch up: still in height %d while the others committed %d further heights with everything delivered", n.Idx, rs.Height, net.MaxHeight()-ref)
					return res
				}
				if d := rs.Round - s.r; d > res.MaxRounds {
					res.MaxRounds = d
				}
				if rs.Round > s.r && rs.Round-s.r > roundBound {
					res.Stuck = fmt.Sprintf("node %d spent %d rounds in height %d (bound %d)", n.Idx, rs.Round-s.r, rs.Height, roundBound)
					return res
				}
			}
		}
		if len(net.Alive()) == 0 {
			res.Stuck = "no node alive"
			return res
		}
		if done {
			res.Reached = true
			return res
		}
		if os.Getenv("VERIF_DEBUG_SYNC") != "" {
			for _, l := range net.Dump() {
				fmt.Println(phase, l)
			}
		}
		if !net.FireEarliest() {
			var d []string
			for _, n := range net.Alive() {
				rs := n.CS.GetRoundState()
				d = append(d, fmt.Sprintf("node %d at %d/%d/%v store=%d", n.Idx, rs.Height, rs.Round, rs.Step, n.BO.Height()))
			}
			res.Deadlock = "gossip fixpoint with no armed timeout: " + strings.Join(d, "; ")
			return res
		}
	}
	res.Stuck = "phase bound exceeded"
	return res
}

// ---------------------------------------------------------------- adversarial phase

// AdvStep performs one random step of an adversarial (asynchronous) schedule.
func (net *Net) AdvStep(r *rand.Rand, adv *Adversary) {
	alive := net.Alive()
	if len(alive) == 0 {
		return
	}
	x := r.Intn(100)
	if net.AllowRestarts && r.Intn(120) == 0 {
		j := alive[r.Intn(len(alive))]
		if err := net.Restart(j.Idx); err != nil {
			net.RestartErrs = append(net.RestartErrs, fmt.Sprintf("node %d: %v", j.Idx, err))
		}
		return
	}
	switch {
	case x < 68: // deliver one (or a few) messages to a random node
		j := alive[r.Intn(len(alive))]
		offs := net.OffersTo(j, false)
		if len(offs) == 0 {
			net.Stats["idle_deliver"]++
			return
		}
		k := 1
		if r.Intn(4) == 0 {
			k = 1 + r.Intn(4)
		}
		for ; k > 0 && len(offs) > 0; k-- {
			i := r.Intn(len(offs))
			net.deliver(j, offs[i])
			if r.Intn(12) == 0 { // duplicate delivery
				net.deliver(j, offs[i])
				net.Stats["duplicates"]++
			}
			offs = append(offs[:i], offs[i+1:]...)
		}
		net.Stats["deliveries"]++
	case x < 82: // fire a pending timeout (possibly "early": asynchrony)
		j := alive[r.Intn(len(alive))]
		if net.fire(j) {
			net.Stats["timeouts"]++
		}
	case x < 94:
		if adv != nil {
			adv.Act(r)
		}
	case x < 97: // partition toggle
		if net.Group == nil {
			net.Group = make([]int, len(net.Nodes))
			for i := range net.Group {
				net.Group[i] = r.Intn(2)
			}
			net.note("partition %v", net.Group)
			net.Stats["partitions"]++
		} else {
			net.Group = nil
			net.note("heal")
		}
	default: // deliver everything to one node (burst)
		j := alive[r.Intn(len(alive))]
		offs := net.OffersTo(j, false)
		r.Shuffle(len(offs), func(a, b int) { offs[a], offs[b] = offs[b], offs[a] })
		for _, o := range offs {
			net.deliver(j, o)
		}
		net.Stats["bursts"]++
	}
}

// Heights returns "idx:height/round/step" of all correct nodes (for witnesses).
func (net *Net) Heights() string {
	var s []string
	for _, n := range net.Correct() {
		if n.Dead {
			s = append(s, fmt.Sprintf("%d:dead(%s)", n.Idx, n.DeadWhy))
			continue
		}
		rs := n.CS.GetRoundState()
		s = append(s, fmt.Sprintf("%d:%d/%d/%v", n.Idx, rs.Height, rs.Round, rs.Step))
	}
	sort.Strings(s)
	return strings.Join(s, " ")
}

// TailSched returns the last k schedule lines (witness).
func (net *Net) TailSched(k int) []string {
	if len(net.Sched) <= k {
		return net.Sched
	}
	return net.Sched[len(net.Sched)-k:]
}

// Dump describes every correct node's round state (debugging / witnesses).
func (net *Net) Dump() []string {
	var out []string
	for _, n := range net.Correct() {
		if n.Dead {
			out = append(out, fmt.Sprintf("node %d dead: %s", n.Idx, n.DeadWhy))
			continue
		}
		rs := n.CS.GetRoundState()
		s := fmt.Sprintf("node %d %d/%d/%v proposer=%x", n.Idx, rs.Height, rs.Round, rs.Step, rs.Validators.GetProposer().Address[:3])
		if rs.Proposal != nil {
			s += " proposal=" + ShortBID(rs.Proposal.POLBlockID) + fmt.Sprintf("(pol %d)", rs.Proposal.POLRound)
		}
		if rs.ProposalBlock != nil {
			s += fmt.Sprintf(" pblock=%x", rs.ProposalBlock.Hash().Bytes()[:4])
		}
		if rs.ProposalBlockParts != nil {
			s += fmt.Sprintf(" parts=%d/%d(%x)", rs.ProposalBlockParts.Count(), rs.ProposalBlockParts.Total(), rs.ProposalBlockParts.Header().Hash.Bytes()[:3])
		}
		if rs.LockedBlock != nil {
			s += fmt.Sprintf(" LOCKED=%x@%d", rs.LockedBlock.Hash().Bytes()[:4], rs.LockedRound)
		}
		if rs.ValidBlock != nil {
			s += fmt.Sprintf(" valid=%x@%d", rs.ValidBlock.Hash().Bytes()[:4], rs.ValidRound)
		}
		if rs.Votes != nil {
			if pv := rs.Votes.Prevotes(rs.Round); pv != nil {
				s += " pv=" + pv.BitArray().String()
				for _, v := range votesOf(pv) {
					s += fmt.Sprintf("[%d:%s]", v.ValidatorIndex, ShortBID(v.BlockID))
				}
				if b, ok := pv.TwoThirdsMajority(); ok {
					s += "maj:" + ShortBID(b)
				}
			}
			if pc := rs.Votes.Precommits(rs.Round); pc != nil {
				s += " pc=" + pc.BitArray().String()
			}
		}
		if ti, ok := n.Tick.Pending(); ok {
			s += fmt.Sprintf(" timer=%d/%d/%v", ti.Height, ti.Round, ti.Step)
		}
		out = append(out, s)
	}
	return out
}

// FireNode fires the armed timeout of one node.
func (net *Net) FireNode(n *Node) bool { return net.fire(n) }

// Restart stops node i cleanly (consensus, pool, blockchain flush) and starts a new incarnation on the same
// database and WAL through the real OnStart/catchupReplay.
func (net *Net) Restart(i int) error {
	old := net.Nodes[i]
	if old == nil || old.Dead {
		return nil
	}
	ors := old.CS.GetRoundState()
	oldLock := ""
	if ors.LockedBlock != nil {
		oldLock = fmt.Sprintf("%x@%d/%d", ors.LockedBlock.Hash().Bytes()[:4], ors.Height, ors.LockedRound)
	}
	old.Stop(true)
	o := old.Opts
	o.MemWAL = old.mem
	tr := &Trace{}
	tr.add(Ev{Kind: EvRestart})
	n, err := BuildNode(i, net.Gen, old.Key, old.Base, tr, nil, o)
	if err != nil {
		return fmt.Errorf("rebuild: %w", err)
	}
	net.Nodes[i] = n
	net.note("restart %d", i)
	net.Stats["restarts"]++
	if err := n.Start(); err != nil {
		return fmt.Errorf("start: %w", err)
	}
	net.observe(n)
	nrs := n.CS.GetRoundState()
	newLock := ""
	if nrs.LockedBlock != nil {
		newLock = fmt.Sprintf("%x@%d/%d", nrs.LockedBlock.Hash().Bytes()[:4], nrs.Height, nrs.LockedRound)
	}
	if oldLock != "" && nrs.Height == ors.Height && newLock != oldLock {
		net.Stats["lock_differs_after_restart"]++
		if os.Getenv("VERIF_DEBUG_RESTART") != "" {
			fmt.Fprintf(os.Stderr, "restart %d: lock before %s, after %q (before %d/%d/%v after %d/%d/%v)\n", i, oldLock, newLock, ors.Height, ors.Round, ors.Step, nrs.Height, nrs.Round, nrs.Step)
		}
		net.note("restart %d: lock before %s, after %q (step before %d/%d/%v after %d/%d/%v)", i, oldLock, newLock, ors.Height, ors.Round, ors.Step, nrs.Height, nrs.Round, nrs.Step)
	}
	return nil
}
