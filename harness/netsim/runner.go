package netsim

import (
	"fmt"
	"github.com/kardiachain/go-kardia/lib/common"
	"github.com/kardiachain/go-kardia/mainchain/genesis"
	"math/big"
	"os"
	"strings"
	"time"

	"github.com/kardiachain/go-kardia/types"

	"verifharness/core"
)

// RandomCase runs one random simulated case (configuration, adversarial prefix,
// synchronous suffix) with all monitors attached and reports the alarms that
// belong to property prop (alarms of other properties are only counted: they are
// reported by those properties' own checks, which run the same engine).
func RandomCase(c *core.Case, prop string, maxN int, prefixMax int) {
	r, run := c.R, c.Run
	cfg := RandomCfg(r, maxN)
	t0 := time.Now()
	// a third of the cases script validator-set changes (power rises of correct validators, so that the adversary
	// stays below 1/3), applied identically by every node on top of what the staking application returns
	var sched ValSchedule
	if cfg.N >= 2 && r.Intn(3) == 0 {
		byz := map[int]bool{}
		for _, b := range cfg.Byz {
			byz[b] = true
		}
		var correct []int
		for i := 0; i < cfg.N; i++ {
			if !byz[i] {
				correct = append(correct, i)
			}
		}
		k1, k2 := correct[r.Intn(len(correct))], correct[r.Intn(len(correct))]
		h1, h2 := uint64(1+r.Intn(3)), uint64(2+r.Intn(3))
		a1, a2 := Addr(Key(k1)), Addr(Key(k2))
		sched = func(h uint64, vals []*types.Validator) []*types.Validator {
			if len(vals) == 0 {
				return vals
			}
			out := make([]*types.Validator, len(vals))
			for i, v := range vals {
				out[i] = v.Copy()
				if h >= h1 && v.Address == a1 {
					out[i].VotingPower += 7 * PowerUnit
				}
				if h >= h2 && v.Address == a2 {
					out[i].VotingPower += 13 * PowerUnit
				}
			}
			return out
		}
		cfg.Label += fmt.Sprintf(" valchange(v%d@%d,v%d@%d)", k1, h1, k2, h2)
		run.Count("cases_with_validator_set_changes", 1)
	}
	restarts := r.Intn(3) == 0
	// a sixth of the cases start with the chain time ahead of every clock (a genesis timestamp in the future): vote
	// times are then bounded from below by the block's time, not by the clock
	// Only in networks without an adversary-controlled validator: nil votes carry the signer's clock time, and a commit
	// in which a faulty validator's (arbitrary) timestamp and one correct nil precommit together hold half of the power puts
	// the next block's time at that clock time, i.e. before its parent's - a consequence of clocks that lag the chain
	// time by more than any timeout, which is outside the timing assumption of the property (same upstream).
	var gen func(*genesis.Genesis)
	if r.Intn(6) == 0 && len(cfg.Byz) == 0 {
		gen = func(g *genesis.Genesis) { g.Timestamp = g.Timestamp.Add(time.Hour) }
		cfg.Label += " genesis-ahead-of-clocks"
		run.Count("cases_with_chain_time_ahead_of_the_clocks", 1)
	}
	net, err := NewNet(NetOpts{N: cfg.N, Powers: cfg.Powers, Byz: cfg.Byz, Genesis: gen, Node: func(i int) NodeOpts { return NodeOpts{Sched: sched} }})
	if err != nil {
		if prop == "C04" {
			c.Violation("fresh-network-build-fails", err.Error(), cfg)
		} else {
			run.Inconclusive("network build failed: " + err.Error())
		}
		return
	}
	defer net.Close()
	al := NewAlarms()
	hist := NewSetHistory(RefSetFrom(net.Correct()[0].CS.VerifState().Validators))
	net.Mons = []Monitor{NewAgreementMonitor(al, hist), NewRulesMonitor(al, hist)}
	if err := net.StartAll(); err != nil {
		if prop == "C04" {
			c.Violation("fresh-network-start-fails", err.Error(), cfg)
		} else {
			run.Inconclusive("network start failed: " + err.Error())
		}
		return
	}
	if r.Intn(8) == 0 {
		// one transaction larger than a block part in every correct node's pool: some block of this case has several
		// parts, every non-final one of exactly the part size
		k := net.Keys[0]
		payload := make([]byte, 70000+r.Intn(40000))
		for _, n := range net.Alive() {
			nonce := n.Pool.Nonce(net.Addrs[0])
			if tx, err := types.SignTx(types.HomesteadSigner{}, types.NewTransaction(nonce, common.HexToAddress("0xbeef"), big.NewInt(7), uint64(50000+len(payload)*20), big.NewInt(1), payload), k); err == nil {
				n.Pool.AddLocal(tx)
			}
		}
		cfg.Label += " big-tx"
		run.Count("cases_with_a_transaction_larger_than_one_block_part", 1)
	}
	net.AllowRestarts = restarts
	adv := NewAdversary(net)
	steps := 50 + r.Intn(prefixMax)
	for i := 0; i < steps; i++ {
		net.AdvStep(r, adv)
	}
	base := net.MaxHeight()
	res := net.RunSync(base+3, uint32(20*cfg.N), nil)
	run.Eval(1)
	run.Count("adv_steps", steps)
	run.Count("sync_phases", res.Phases)
	run.Max("max_rounds_in_suffix", int64(res.MaxRounds))
	run.Max("max_height", int64(net.MaxHeight()))
	for k, v := range al.Counts {
		run.Count(k, v)
	}
	for k, v := range adv.Stats {
		run.Count("adv:"+k, v)
	}
	for k, v := range net.Stats {
		run.Count("net:"+k, v)
	}
	for _, n := range net.Correct() {
		if !n.Dead {
			rs := n.CS.GetRoundState()
			run.Distinct("abstract_node_state", fmt.Sprintf("r%d s%d l%v v%v p%v", minU(rs.Round, 6), rs.Step, rs.LockedBlock != nil, rs.ValidBlock != nil, rs.ProposalBlock != nil))
		}
	}
	run.Distinct("config", cfg.Label)
	if c.I < 3 {
		n := len(net.Sched)
		if n > 25 {
			n = 25
		}
		run.Sample(map[string]interface{}{"cfg": cfg, "adv_steps": steps, "height_after_prefix": base, "final": net.Heights(), "sync_phases": res.Phases,
			"schedule_head": net.Sched[:n], "ms_total": time.Since(t0).Milliseconds()})
	}
	w := map[string]interface{}{"cfg": cfg, "adv_steps": steps, "heights": net.Heights(), "schedule_tail": net.TailSched(200)}
	for _, a := range al.List {
		if a.Prop == prop {
			wit := a.Witness
			if wit == nil {
				wit = w
			}
			c.Violation(a.Key, a.What, map[string]interface{}{"cfg": cfg, "detail": wit})
		} else {
			run.Count("alarm_of_other_property:"+a.Prop+":"+a.Key, 1)
			if os.Getenv("VERIF_SHOW_OTHER") != "" {
				fmt.Fprintf(os.Stderr, "OTHER case %d %s %s: %s\n", c.I, a.Prop, a.Key, a.What)
			}
		}
	}
	if prop == "C04" {
		for _, e := range net.RestartErrs {
			c.Violation("clean-restart-fails", e, w)
		}
		for _, n := range net.Correct() {
			if n.Dead {
				c.Violation("consensus-loop-terminated", fmt.Sprintf("node %d: %s", n.Idx, n.DeadWhy), w)
				return
			}
		}
		switch {
		case res.Deadlock != "":
			c.Violation("deadlock", res.Deadlock, w)
			return
		case res.Stuck != "":
			c.Violation("no-commit-within-bound", res.Stuck, w)
			return
		case !res.Reached:
			c.Violation("suffix-did-not-reach-target", net.Heights(), w)
			return
		}
	}
	if res.Reached {
		run.Nontrivial(fmt.Sprint(cfg.Label, steps, base))
	}
}

func minU(a uint32, b uint32) uint32 {
	if a < b {
		return a
	}
	return b
}

// AttackCfgs: configurations every scripted attack is instantiated for (one adversary validator B).
type AttackCfg struct {
	Powers []int64
	B      int
}

func AttackCfgs() []AttackCfg {
	eq4 := []int64{20, 20, 20, 20}
	out := []AttackCfg{{eq4, 0}, {eq4, 1}, {eq4, 2}, {eq4, 3}}
	out = append(out, AttackCfg{[]int64{104, 70, 70, 70}, 0}) // adversary just under 1/3
	out = append(out, AttackCfg{[]int64{60, 30, 30, 30}, 1})  // total divisible by 3
	out = append(out, AttackCfg{[]int64{20, 50, 80, 110, 140}, 2})
	out = append(out, AttackCfg{[]int64{20, 20, 20, 20, 20, 20, 20}, 3})
	return out
}

// AttackCase runs attack number c.I (attack x configuration) and reports alarms of property prop.
func AttackCase(c *core.Case, prop string) {
	run := c.Run
	cfgs := AttackCfgs()
	at := Attacks[c.I%len(Attacks)]
	cfg := cfgs[(c.I/len(Attacks))%len(cfgs)]
	net, err := NewNet(NetOpts{N: len(cfg.Powers), Powers: cfg.Powers, Byz: []int{cfg.B}})
	if err != nil {
		run.Inconclusive("network build failed: " + err.Error())
		return
	}
	defer net.Close()
	al := NewAlarms()
	hist := NewSetHistory(RefSetFrom(net.Correct()[0].CS.VerifState().Validators))
	net.Mons = []Monitor{NewAgreementMonitor(al, hist), NewRulesMonitor(al, hist)}
	if err := net.StartAll(); err != nil {
		run.Inconclusive("network start failed: " + err.Error())
		return
	}
	ctx := &AttackCtx{Net: net, Adv: NewAdversary(net), B: cfg.B}
	reached := at.Run(ctx)
	if os.Getenv("VERIF_DEBUG_ATTACK") != "" {
		fmt.Fprintf(os.Stderr, "attack %s cfg %v reached=%v\n  %s\n", at.Name, cfg, reached, strings.Join(ctx.Log, "\n  "))
	}
	run.Eval(1)
	base := net.MaxHeight()
	res := net.RunSync(base+2, uint32(20*len(cfg.Powers)), nil)
	for k, v := range al.Counts {
		run.Count(k, v)
	}
	if reached {
		run.Count("attacks_performed", 1)
		run.Distinct("attack", at.Name)
		run.Nontrivial(fmt.Sprintf("%s/%v/b%d", at.Name, cfg.Powers, cfg.B))
	} else {
		run.Count("attack_precondition_not_reached:"+at.Name, 1)
	}
	if c.I < 2 {
		run.Sample(map[string]interface{}{"attack": at.Name, "cfg": cfg, "log": ctx.Log, "final": net.Heights()})
	}
	w := map[string]interface{}{"attack": at.Name, "cfg": cfg, "log": ctx.Log, "heights": net.Heights(), "schedule_tail": net.TailSched(150)}
	for _, a := range al.List {
		if a.Prop == prop {
			c.Violation(a.Key+"@"+at.Name, a.What, w)
		} else {
			run.Count("alarm_of_other_property:"+a.Prop+":"+a.Key, 1)
		}
	}
	if prop == "C04" {
		for _, n := range net.Correct() {
			if n.Dead {
				c.Violation("consensus-loop-terminated@"+at.Name, fmt.Sprintf("node %d: %s", n.Idx, n.DeadWhy), w)
				return
			}
		}
		switch {
		case res.Deadlock != "":
			c.Violation("deadlock@"+at.Name, res.Deadlock, w)
		case res.Stuck != "":
			c.Violation("no-commit-within-bound@"+at.Name, res.Stuck, w)
		case !res.Reached:
			c.Violation("suffix-did-not-reach-target@"+at.Name, net.Heights(), w)
		}
	}
}

// LiveCase runs one live cluster (real reactors, switches, tickers) and reports the monitors' alarms of property prop.
func LiveCase(c *core.Case, prop string) {
	run := c.Run
	r := c.R
	n := 4 + r.Intn(4)
	powers := make([]int64, n)
	for i := range powers {
		powers[i] = 20 + 10*int64(r.Intn(3))
	}
	al := NewAlarms()
	// a third of the clusters run with one validator down and equal powers: every round needs all the others
	down := -1
	if r.Intn(3) == 0 {
		n = 4
		powers = []int64{20, 20, 20, 20}
		down = r.Intn(4)
		run.Count("live_runs_with_one_validator_down", 1)
	}
	net, res, err := RunLive(LiveOpts{N: n, Powers: powers, Heights: uint64(6 + r.Intn(12)), MaxWall: 120 * time.Second, Fuzz: false, Down: down}, al)
	if net != nil {
		defer net.Close()
	}
	if err != nil {
		run.Inconclusive("live cluster build failed: " + err.Error())
		return
	}
	run.Eval(1)
	run.Count("live_runs", 1)
	run.Count("live_heights_committed", int(res.MinHeight))
	for rd, k := range res.Rounds {
		if rd > 1 {
			run.Count("live_commits_in_round_gt1", k)
		}
	}
	for k, v := range al.Counts {
		run.Count("live:"+k, v)
	}
	if prop == "C04" && len(res.Dead) > 0 {
		c.Violation("live:consensus-loop-terminated", fmt.Sprintf("consensus routine ended in a live cluster of correct nodes: %v", res.Dead), map[string]interface{}{"validators": n, "powers": powers})
	}
	if prop == "C04" && res.Deadlock != "" {
		c.Violation("live:deadlock", "live cluster of correct, connected nodes: "+res.Deadlock, map[string]interface{}{"validators": n, "powers": powers, "down": down})
	}
	if !res.Reached {
		run.Count("live_runs_slow_not_judged", 1) // speed is never a verdict
	} else {
		run.Nontrivial(fmt.Sprint("live", c.I, n, res.MinHeight))
	}
	if c.I < 1 {
		run.Sample(map[string]interface{}{"live": true, "validators": n, "powers": powers, "heights": res.MinHeight, "wall_s": res.Wall.Seconds(), "commit_rounds": fmt.Sprint(res.Rounds)})
	}
	for _, a := range al.List {
		if a.Prop == prop {
			c.Violation("live:"+a.Key, a.What, map[string]interface{}{"validators": n, "powers": powers})
		} else {
			run.Count("alarm_of_other_property:"+a.Prop+":"+a.Key, 1)
		}
	}
}
