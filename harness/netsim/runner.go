package netsim

import (
	"fmt"
	"time"

	"verifharness/core"
)

// RandomCase runs one random simulated case (configuration, adversarial prefix,
// synchronous suffix) with all monitors attached and reports the alarms that
// belong to property prop (alarms of other properties are only counted: they are
// reported by those properties' own checks, which run the same engine).
func RandomCase(c *core.Case, prop string, maxN int, prefixMax int) {
	r, run := c.R, c.Run
	cfg := RandomCfg(r, maxN)
	t0 := time.Now()
	net, err := NewNet(NetOpts{N: cfg.N, Powers: cfg.Powers, Byz: cfg.Byz})
	if err != nil {
		if prop == "C04" {
			c.Violation("fresh-network-build-fails", err.Error(), cfg)
		} else {
			run.Inconclusive("network build failed: " + err.Error())
		}
		return
	}
	defer net.Close()
	al := NewAlarms()
	hist := NewSetHistory(RefSetFrom(net.Correct()[0].CS.VerifState().Validators))
	net.Mons = []Monitor{NewAgreementMonitor(al, hist), NewRulesMonitor(al, hist)}
	if err := net.StartAll(); err != nil {
		if prop == "C04" {
			c.Violation("fresh-network-start-fails", err.Error(), cfg)
		} else {
			run.Inconclusive("network start failed: " + err.Error())
		}
		return
	}
	adv := NewAdversary(net)
	steps := 50 + r.Intn(prefixMax)
	for i := 0; i < steps; i++ {
		net.AdvStep(r, adv)
	}
	base := net.MaxHeight()
	res := net.RunSync(base+3, uint32(20*cfg.N), nil)
	run.Eval(1)
	run.Count("adv_steps", steps)
	run.Count("sync_phases", res.Phases)
	run.Max("max_rounds_in_suffix", int64(res.MaxRounds))
	run.Max("max_height", int64(net.MaxHeight()))
	for k, v := range al.Counts {
		run.Count(k, v)
	}
	for k, v := range adv.Stats {
		run.Count("adv:"+k, v)
	}
	for k, v := range net.Stats {
		run.Count("net:"+k, v)
	}
	for _, n := range net.Correct() {
		if !n.Dead {
			rs := n.CS.GetRoundState()
			run.Distinct("abstract_node_state", fmt.Sprintf("r%d s%d l%v v%v p%v", minU(rs.Round, 6), rs.Step, rs.LockedBlock != nil, rs.ValidBlock != nil, rs.ProposalBlock != nil))
		}
	}
	run.Distinct("config", cfg.Label)
	if c.I < 3 {
		n := len(net.Sched)
		if n > 25 {
			n = 25
		}
		run.Sample(map[string]interface{}{"cfg": cfg, "adv_steps": steps, "height_after_prefix": base, "final": net.Heights(), "sync_phases": res.Phases,
			"schedule_head": net.Sched[:n], "ms_total": time.Since(t0).Milliseconds()})
	}
	w := map[string]interface{}{"cfg": cfg, "adv_steps": steps, "heights": net.Heights(), "schedule_tail": net.TailSched(200)}
	for _, a := range al.List {
		if a.Prop == prop {
			wit := a.Witness
			if wit == nil {
				wit = w
			}
			c.Violation(a.Key, a.What, map[string]interface{}{"cfg": cfg, "detail": wit})
		} else {
			run.Count("alarm_of_other_property:"+a.Prop+":"+a.Key, 1)
		}
	}
	if prop == "C04" {
		for _, n := range net.Correct() {
			if n.Dead {
				c.Violation("consensus-loop-terminated", fmt.Sprintf("node %d: %s", n.Idx, n.DeadWhy), w)
				return
			}
		}
		switch {
		case res.Deadlock != "":
			c.Violation("deadlock", res.Deadlock, w)
			return
		case res.Stuck != "":
			c.Violation("no-commit-within-bound", res.Stuck, w)
			return
		case !res.Reached:
			c.Violation("suffix-did-not-reach-target", net.Heights(), w)
			return
		}
	}
	if res.Reached {
		run.Nontrivial(fmt.Sprint(cfg.Label, steps, base))
	}
}

func minU(a uint32, b uint32) uint32 {
	if a < b {
		return a
	}
	return b
}
