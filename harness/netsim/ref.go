package netsim

import (
	"bytes"
	"fmt"
	"math/big"
	"sort"
	"time"

	"github.com/kardiachain/go-kardia/lib/common"
	"github.com/kardiachain/go-kardia/lib/crypto"
	"github.com/kardiachain/go-kardia/lib/protoio"
	kproto "github.com/kardiachain/go-kardia/proto/kardiachain/types"
	"github.com/kardiachain/go-kardia/types"
)

// Reference (independent) re-implementations used by the monitors. They are
// written from the property text: which fields a vote signature must bind, what
// "+2/3" means, how the block time is prescribed. They do not call the
// functions they judge (Vote.Verify, VoteSet, VerifyCommit, MedianTime).

// RefSet is a validator set reduced to what quorum arithmetic needs.
type RefSet struct {
	Power map[common.Address]int64
	Order []common.Address // canonical order: power descending, address ascending
}

func NewRefSet(p map[common.Address]int64) *RefSet {
	s := &RefSet{Power: map[common.Address]int64{}}
	for a, v := range p {
		if v > 0 {
			s.Power[a] = v
			s.Order = append(s.Order, a)
		}
	}
	sort.Slice(s.Order, func(i, j int) bool {
		pi, pj := s.Power[s.Order[i]], s.Power[s.Order[j]]
		if pi != pj {
			return pi > pj
		}
		return bytes.Compare(s.Order[i].Bytes(), s.Order[j].Bytes()) < 0
	})
	return s
}

func RefSetFrom(vs *types.ValidatorSet) *RefSet {
	p := map[common.Address]int64{}
	if vs != nil {
		for _, v := range vs.Validators {
			p[v.Address] = v.VotingPower
		}
	}
	return NewRefSet(p)
}

func (s *RefSet) Total() *big.Int {
	t := new(big.Int)
	for _, v := range s.Power {
		t.Add(t, big.NewInt(v))
	}
	return t
}

// MoreThanTwoThirds reports power*3 > total*2.
func (s *RefSet) MoreThanTwoThirds(power *big.Int) bool {
	l := new(big.Int).Mul(power, big.NewInt(3))
	r := new(big.Int).Mul(s.Total(), big.NewInt(2))
	return l.Cmp(r) > 0
}

func (s *RefSet) Equal(o *RefSet) bool {
	if len(s.Power) != len(o.Power) {
		return false
	}
	for a, p := range s.Power {
		if o.Power[a] != p {
			return false
		}
	}
	return true
}

func (s *RefSet) String() string {
	var b bytes.Buffer
	for _, a := range s.Order {
		fmt.Fprintf(&b, "%x:%d ", a[:3], s.Power[a])
	}
	return b.String()
}

// BIDKey is the full identity of a block id (hash, parts hash, parts total).
func BIDKey(b types.BlockID) string {
	if b.Hash.IsZero() && b.PartsHeader.Hash.IsZero() && b.PartsHeader.Total == 0 {
		return "nil"
	}
	return fmt.Sprintf("%x/%x/%d", b.Hash.Bytes(), b.PartsHeader.Hash.Bytes(), b.PartsHeader.Total)
}

func ShortBID(b types.BlockID) string {
	k := BIDKey(b)
	if k == "nil" {
		return k
	}
	return fmt.Sprintf("%x..:%x..:%d", b.Hash.Bytes()[:4], b.PartsHeader.Hash.Bytes()[:3], b.PartsHeader.Total)
}

// refVoteSigner recovers the address that signed exactly this vote content:
// chain id, type, height, round, block id (hash, parts hash, parts total) and timestamp.
func refVoteSigner(chainID string, typ kproto.SignedMsgType, height uint64, round uint32, bid types.BlockID, ts time.Time, sig []byte) (common.Address, bool) {
	cv := kproto.CanonicalVote{ChainID: chainID, Type: typ, Height: height, Round: round, Timestamp: ts}
	if BIDKey(bid) != "nil" {
		cv.BlockID = &kproto.CanonicalBlockID{Hash: bid.Hash.Bytes(),
			PartSetHeader: kproto.CanonicalPartSetHeader{Total: bid.PartsHeader.Total, Hash: bid.PartsHeader.Hash.Bytes()}}
	}
	bz, err := protoio.MarshalDelimited(&cv)
	if err != nil || len(sig) != 65 {
		return common.Address{}, false
	}
	pub, err := crypto.SigToPub(crypto.Keccak256(bz), sig)
	if err != nil || pub == nil {
		return common.Address{}, false
	}
	return crypto.PubkeyToAddress(*pub), true
}

// RefVoteValid: the vote is signed by the validator it names, over its full content.
func RefVoteValid(chainID string, v *types.Vote) bool {
	if v == nil {
		return false
	}
	a, ok := refVoteSigner(chainID, v.Type, v.Height, v.Round, v.BlockID, v.Timestamp, v.Signature)
	return ok && a == v.ValidatorAddress
}

// RefVerifyCommit: distinct validators of set holding > 2/3 of its power validly
// signed a precommit for exactly bid at (height, commit.Round).
func RefVerifyCommit(chainID string, set *RefSet, bid types.BlockID, height uint64, c *types.Commit) error {
	if c == nil {
		return fmt.Errorf("nil commit")
	}
	if c.Height != height {
		return fmt.Errorf("commit height %d, want %d", c.Height, height)
	}
	if BIDKey(c.BlockID) != BIDKey(bid) {
		return fmt.Errorf("commit is for block %s, want %s", ShortBID(c.BlockID), ShortBID(bid))
	}
	if len(c.Signatures) != len(set.Order) {
		return fmt.Errorf("commit has %d signature slots, validator set has %d", len(c.Signatures), len(set.Order))
	}
	sum := new(big.Int)
	seen := map[common.Address]bool{}
	for i, cs := range c.Signatures {
		if cs.Absent() {
			continue
		}
		val := set.Order[i]
		var voted types.BlockID
		if cs.ForBlock() {
			voted = c.BlockID
		}
		a, ok := refVoteSigner(chainID, kproto.PrecommitType, height, c.Round, voted, cs.Timestamp, cs.Signature)
		if !ok || a != val {
			return fmt.Errorf("signature #%d is not a precommit of validator %x for this commit", i, val[:4])
		}
		if cs.ForBlock() && !seen[val] {
			seen[val] = true
			sum.Add(sum, big.NewInt(set.Power[val]))
		}
	}
	if !set.MoreThanTwoThirds(sum) {
		return fmt.Errorf("only %v of %v power signed the block", sum, set.Total())
	}
	return nil
}

// RefWeightedMedian: the prescribed block time for a commit.
func RefWeightedMedian(c *types.Commit, set *RefSet) time.Time {
	type wt struct {
		t time.Time
		w int64
	}
	var ws []wt
	total := int64(0)
	for i, cs := range c.Signatures {
		if cs.Absent() || i >= len(set.Order) {
			continue
		}
		p, ok := set.Power[cs.ValidatorAddress]
		if !ok {
			continue
		}
		ws = append(ws, wt{cs.Timestamp, p})
		total += p
	}
	sort.SliceStable(ws, func(i, j int) bool { return ws[i].t.UnixNano() < ws[j].t.UnixNano() })
	median := total / 2
	for _, w := range ws {
		if median <= w.w {
			return w.t
		}
		median -= w.w
	}
	return time.Time{}
}

// Tally is the reference vote tally of one (height, round, type): per validator
// only the first valid vote counts.
type Tally struct {
	First map[common.Address]string // validator -> block id key of its first valid vote
	All   map[common.Address]map[string]bool
}

func NewTally() *Tally {
	return &Tally{First: map[common.Address]string{}, All: map[common.Address]map[string]bool{}}
}

func (t *Tally) Add(val common.Address, bid types.BlockID) {
	k := BIDKey(bid)
	if _, ok := t.First[val]; !ok {
		t.First[val] = k
	}
	if t.All[val] == nil {
		t.All[val] = map[string]bool{}
	}
	t.All[val][k] = true
}

// PowerFor sums, per distinct validator of set, the power of those that signed key at all
// (first vote or a later conflicting one: an equivocator's signature for the block is
// still a valid signature of that validator for that block).
func (t *Tally) PowerFor(set *RefSet, key string) *big.Int {
	sum := new(big.Int)
	for val, ks := range t.All {
		if ks[key] {
			if p, ok := set.Power[val]; ok {
				sum.Add(sum, big.NewInt(p))
			}
		}
	}
	return sum
}
