package netsim

import (
	"fmt"
	"time"

	"github.com/kardiachain/go-kardia/lib/common"
	kproto "github.com/kardiachain/go-kardia/proto/kardiachain/types"
	"github.com/kardiachain/go-kardia/types"
)

// Evidence history monitor (C19): every equivocation a correct node observes
// must become evidence that is committed exactly once, and every piece of
// evidence in a committed block must be real double-signing.

type evIdent struct {
	val common.Address
	h   uint64
	r   uint32
	t   kproto.SignedMsgType
}

func (e evIdent) String() string { return fmt.Sprintf("%x@%d/%d/%v", e.val[:4], e.h, e.r, e.t) }

type evSeen struct {
	firstNode   int
	atHeight    uint64 // chain height of the observing node when it reported the equivocation
	committedAt []uint64
}

type EvidenceMonitor struct {
	A         *Alarms
	Hist      *SetHistory
	Reported  map[evIdent]*evSeen
	inBlock   map[uint64]map[string]bool // height -> evidence hashes seen in that block (first node)
	BlockTime map[uint64]time.Time
}

func NewEvidenceMonitor(a *Alarms, hist *SetHistory) *EvidenceMonitor {
	return &EvidenceMonitor{A: a, Hist: hist, Reported: map[evIdent]*evSeen{}, inBlock: map[uint64]map[string]bool{}, BlockTime: map[uint64]time.Time{}}
}

// RefDuplicateVoteValid is the property's definition of acceptable duplicate-vote evidence
// (expiry and "already committed" are judged by the caller).
func RefDuplicateVoteValid(chainID string, ev *types.DuplicateVoteEvidence, set *RefSet) error {
	if ev == nil || ev.VoteA == nil || ev.VoteB == nil {
		return fmt.Errorf("missing vote")
	}
	a, b := ev.VoteA, ev.VoteB
	if a.Height != b.Height || a.Round != b.Round || a.Type != b.Type {
		return fmt.Errorf("votes are for different height/round/type")
	}
	if a.ValidatorAddress != b.ValidatorAddress {
		return fmt.Errorf("votes of different validators")
	}
	if BIDKey(a.BlockID) == BIDKey(b.BlockID) {
		return fmt.Errorf("votes are for the same block id")
	}
	if set == nil {
		return fmt.Errorf("validator set of height %d unknown", a.Height)
	}
	p, ok := set.Power[a.ValidatorAddress]
	if !ok {
		return fmt.Errorf("signer was not a validator at height %d", a.Height)
	}
	if p != ev.ValidatorPower {
		return fmt.Errorf("stated validator power %d, real %d", ev.ValidatorPower, p)
	}
	if set.Total().Int64() != ev.TotalVotingPower {
		return fmt.Errorf("stated total power %d, real %v", ev.TotalVotingPower, set.Total())
	}
	if !RefVoteValid(chainID, a) || !RefVoteValid(chainID, b) {
		return fmt.Errorf("a vote is not validly signed by the validator")
	}
	return nil
}

func (m *EvidenceMonitor) Observe(net *Net, n *Node, evs []Ev) {
	for _, e := range evs {
		switch e.Kind {
		case EvEvidence:
			dve, ok := e.Ev.(*types.DuplicateVoteEvidence)
			if !ok || dve == nil || dve.VoteA == nil {
				m.A.Counts["nil_evidence_from_consensus"]++
				continue
			}
			id := evIdent{dve.VoteA.ValidatorAddress, dve.VoteA.Height, dve.VoteA.Round, dve.VoteA.Type}
			m.A.Counts["equivocations_reported_by_consensus"]++
			if m.Reported[id] == nil {
				m.Reported[id] = &evSeen{firstNode: n.Idx, atHeight: n.BO.Height()}
				m.A.Counts["distinct_equivocations"]++
			}
		case EvSaveBlock:
			m.BlockTime[e.Height] = e.Block.Time()
			list := e.Block.Evidence().Evidence
			if len(list) == 0 {
				continue
			}
			first := m.inBlock[e.Height] == nil
			if first {
				m.inBlock[e.Height] = map[string]bool{}
			}
			for _, x := range list {
				dve, ok := x.(*types.DuplicateVoteEvidence)
				if !ok || dve == nil {
					m.A.Raise("C19", "unknown-evidence-type-committed", fmt.Sprintf("block %d carries evidence of type %T", e.Height, x), nil)
					continue
				}
				if !first {
					continue
				}
				m.A.Counts["evidence_committed"]++
				set := m.Hist.At(dve.Height())
				if err := RefDuplicateVoteValid(net.ChainID, dve, set); err != nil {
					m.A.Raise("C19", "invalid-evidence-committed", fmt.Sprintf("block %d carries evidence that is not real double-signing: %v", e.Height, err),
						map[string]interface{}{"height": e.Height, "evidence": dve.String()})
				}
				if dve.Height() >= e.Height {
					m.A.Raise("C19", "evidence-from-the-future-committed", fmt.Sprintf("block %d carries evidence of height %d", e.Height, dve.Height()), nil)
				}
				id := evIdent{dve.VoteA.ValidatorAddress, dve.VoteA.Height, dve.VoteA.Round, dve.VoteA.Type}
				s := m.Reported[id]
				if s == nil {
					s = &evSeen{firstNode: -1}
					m.Reported[id] = s
				}
				s.committedAt = append(s.committedAt, e.Height)
				if len(s.committedAt) > 1 {
					m.A.Raise("C19", "evidence-committed-twice", fmt.Sprintf("evidence %v is in blocks %v", id, s.committedAt), nil)
				}
			}
		}
	}
}

// Finish checks that everything reported at least `grace` heights ago was committed.
func (m *EvidenceMonitor) Finish(net *Net, grace uint64) {
	head := net.MinHeight()
	for id, s := range m.Reported {
		if s.firstNode < 0 {
			continue
		}
		if len(s.committedAt) == 0 {
			if head >= s.atHeight+grace {
				m.A.Raise("C19", "reported-equivocation-never-committed", fmt.Sprintf("node %d reported conflicting votes %v at chain height %d; %d heights later no block carries the evidence", s.firstNode, id, s.atHeight, head-s.atHeight),
					map[string]interface{}{"ident": id.String(), "heights": net.Heights()})
			} else {
				m.A.Counts["equivocations_still_within_grace"]++
			}
		} else {
			m.A.Counts["equivocations_committed_once"]++
		}
	}
}
