package netsim

import (
	"bytes"
	"fmt"
	"github.com/kardiachain/go-kardia/mainchain/genesis"
	"io"
	"math/big"
	"os"
	"path/filepath"
	"sort"
	"strings"
	"time"

	"github.com/kardiachain/go-kardia/configs"
	"github.com/kardiachain/go-kardia/consensus"
	cstypes "github.com/kardiachain/go-kardia/consensus/types"
	"github.com/kardiachain/go-kardia/lib/common"
	"github.com/kardiachain/go-kardia/mainchain/blockchain"
	kproto "github.com/kardiachain/go-kardia/proto/kardiachain/types"
	"github.com/kardiachain/go-kardia/types"

	"verifharness/core"
)

// Crash enumeration (C05). A case = (plan, crash point p). The plan's golden
// schedule is deterministic, so the case re-runs it until the victim has
// produced p durable units, rebuilds the victim from the images at exactly p
// (database = first p units replayed, WAL = file prefix at the last fsync <= p),
// restarts it through the real OnStart/catchupReplay and lets the network go on.

type CrashPlan struct {
	Name       string
	N          int
	Victim     int
	Flush      bool // TrieDirtyDisabled (state flushed every block) vs default dirty cache
	Heights    uint64
	WithTxs    bool
	Torn       bool // WAL image = synced prefix + part of the unsynced/next record (torn tail)
	VotesFirst bool // the victim is sent a round's block parts only after it has seen +2/3 prevotes (so that its
	// prevote and precommit are queued together)
	Rotate    int64 // WAL head size limit: the WAL rotates (checked after every stimulus); 0 = no rotation
	Second    bool  // a second crash during recovery / the following heights: SecondQ durable units after the restart
	SecondQ   int
	ValChange bool // the application reports a power rise (x5) of validator Victim+1 at height 2 (in force from height 4);
	// that validator's precommits of heights <= 3 do not reach the victim, so the seen commits the victim stores
	// lack the signer whose power changes (restarts in the window where last and current validator sets differ)
	ManyRounds bool // height 2 is decided in round 6 only (the proposals of rounds 1-5 are not forwarded): a long WAL for
	// one height, with many timeouts to replay
	ZeroCommitWait bool // timeout_commit = 0: every round start is overdue, the logged new-height timeouts have negative durations
	ViaSwitch      bool // the restarted node starts consensus through ConsensusManager.SwitchToConsensus (block sync enabled, no block synced)
	Noise          bool // in every round the victim is sent, before it votes, a proposal signed by a validator that is not the
	// round's proposer (well-formed; the state machine rejects it - after it was logged)
	Round2 bool // even heights need two rounds: the round-1 proposal and its parts are not forwarded (nil votes, timeouts
	// and a second proposer in the WAL at the crash points)
	InitialHeight uint64 // the genesis file's initial height (0: the default, 1); Heights counts from there (absolute)
	Late          bool   // crash at the LAST instant with durable prefix p: just before unit p+1 is written (everything the
	// node did since unit p - handled and gossiped messages included - is lost with the unsynced buffers)
}

func (p CrashPlan) mode() string {
	if p.Flush {
		return "flush"
	}
	return "cache"
}

func cacheFor(flush bool) *blockchain.CacheConfig {
	if flush {
		return &blockchain.CacheConfig{TrieCleanLimit: 16, TrieDirtyDisabled: true, TrieTimeLimit: 5 * time.Minute, SnapshotLimit: 16, SnapshotWait: true}
	}
	return nil
}

type signKey struct {
	h uint64
	r uint32
	t string
}

func ownSignKey(m consensus.Message) (signKey, string, bool) {
	switch x := m.(type) {
	case *consensus.VoteMessage:
		return signKey{x.Vote.Height, x.Vote.Round, x.Vote.Type.String()}, BIDKey(x.Vote.BlockID), true
	case *consensus.ProposalMessage:
		return signKey{x.Proposal.Height, x.Proposal.Round, "proposal"}, BIDKey(x.Proposal.POLBlockID), true
	}
	return signKey{}, "", false
}

func windowKind(d string) string {
	// strip variable parts
	d = strings.TrimSpace(d)
	return d
}

func injectTxs(net *Net, round int) {
	k := net.Keys[0]
	for _, n := range net.Alive() {
		nonce := n.Pool.Nonce(net.Addrs[0])
		for i := uint64(0); i < 2; i++ {
			tx, _ := types.SignTx(types.HomesteadSigner{}, types.NewTransaction(nonce+i, common.HexToAddress("0xbeef"), big.NewInt(7), 50000, big.NewInt(1), nil), k)
			n.Pool.AddLocal(tx)
		}
	}
}

// CrashCase runs one crash point. It returns the number of durable units of the
// victim in the golden prefix (so that the caller can tell points beyond the end).
func CrashCase(c *core.Case, plan CrashPlan, p int) {
	run := c.Run
	powers := make([]int64, plan.N)
	for i := range powers {
		powers[i] = 20
	}
	root := ScratchDir()
	defer os.RemoveAll(root)
	net, err := NewNet(NetOpts{N: plan.N, Powers: powers, Root: root, Genesis: planGenesis(plan), Node: func(i int) NodeOpts {
		if i == plan.Victim {
			return NodeOpts{RecordDB: true, FileWAL: true, Cache: cacheFor(plan.Flush), WALHeadLimit: plan.Rotate, Sched: valChangeSched(plan), Config: planConfig(plan)}
		}
		return NodeOpts{Cache: cacheFor(plan.Flush), Sched: valChangeSched(plan), Config: planConfig(plan)}
	}})
	if err != nil {
		run.Inconclusive("crash case: network build failed: " + err.Error())
		return
	}
	defer net.Close()
	al := NewAlarms()
	hist := NewSetHistory(RefSetFrom(net.Correct()[0].CS.VerifState().Validators))
	agree := NewAgreementMonitor(al, hist)
	net.Mons = []Monitor{agree, NewRulesMonitor(al, hist)}
	defer func() {
		// what the monitors saw in this case (commits in later rounds, justified precommits, ...)
		for _, k := range []string{"commits_in_round_gt1", "agreeing_commits", "precommits_justified_by_polka", "signed_nil_prevote", "signed_nil_precommit", "prevotes_for_locked_block"} {
			if v := al.Counts[k]; v > 0 {
				run.Count("mon:"+k, v)
			}
		}
	}()
	if err := net.StartAll(); err != nil {
		run.Inconclusive("crash case: network start failed: " + err.Error())
		return
	}
	victim := net.Nodes[plan.Victim]
	if plan.VotesFirst {
		votesFirstFilter(net, plan.Victim)
	}
	if plan.Round2 {
		round2Filter(net)
	}
	if plan.ValChange {
		valChangeFilter(net, plan)
	}
	if plan.ManyRounds {
		manyRoundsFilter(net)
	}
	startIdx := victim.Dur.Len()
	if p < startIdx {
		run.Count("points_before_consensus_start_skipped", 1)
		return
	}
	haltAt := p
	if plan.Late {
		haltAt = p + 1
	}
	net.AfterStimulus = func(n *Node) {
		if n == victim && plan.Rotate > 0 {
			victim.CheckWALRotation()
		}
		if n == victim && victim.Dur.Len() >= haltAt {
			net.Halt = true
		}
	}
	if victim.Dur.Len() >= haltAt {
		net.Halt = true
	}
	txRound := 0
	for !net.Halt && net.MinHeight() < plan.Heights {
		if plan.WithTxs {
			injectTxs(net, txRound)
			txRound++
		}
		res := net.RunSync(net.MinHeight()+1, 200, noiseFor(net, plan))
		if !res.Reached && !net.Halt {
			run.Inconclusive(fmt.Sprintf("crash case %s: golden run stuck: %+v", plan.Name, res))
			return
		}
	}
	if !net.Halt {
		run.Count("points_beyond_end_of_golden_run", 1)
		return
	}
	net.Halt = false
	net.AfterStimulus = nil
	evs := victim.Dur.Snapshot()
	if p > len(evs) {
		p = len(evs)
	}
	if plan.Second && !plan.Torn && !(p > 0 && strings.Contains(evs[p-1].Desc, "ConsensusState ")) {
		// second-crash plans take as first crash only the points right after a consensus-state save (the block is fully
		// applied; what follows is only in unsynced buffers); with torn images every point is taken (a first crash that
		// falls into a known recovery gap is skipped after the restart)
		run.Count("second_crash_first_points_skipped", 1)
		return
	}
	run.Eval(1)
	// what the victim had published (own messages whose fsync had returned) and committed before p
	published := map[signKey]string{}
	for _, e := range victim.Tr.Since(0) {
		if e.Kind == EvRecv && e.Own && e.DurIdx <= p {
			if k, bid, ok := ownSignKey(e.Msg); ok {
				published[k] = bid
			}
		}
	}
	// blocks whose SaveBlock had not become durable at p were not committed as far as the surviving files know
	for _, e := range victim.Tr.Since(0) {
		if e.Kind == EvSaveBlock && e.DurIdx >= p {
			if d, ok := agree.Decided[e.Height]; ok && d.node == victim.Idx {
				delete(agree.Decided, e.Height)
			}
		}
	}
	var committedAtP uint64
	headWrites := 0 // number of head-marker writes ("LastBlock") before p; the genesis setup writes the first
	for _, d := range evs[:p] {
		if d.Kind == "db" {
			for _, o := range d.Ops {
				if !o.Del && string(o.K) == "LastBlock" {
					headWrites++
				}
				if !o.Del && strings.HasPrefix(string(o.K), "ConsensusState") && !strings.HasPrefix(string(o.K), "ConsensusStateH") && len(o.K) == len("ConsensusState")+8 {
					var h uint64
					for _, b := range o.K[len("ConsensusState"):] {
						h = h<<8 | uint64(b)
					}
					if h > committedAtP {
						committedAtP = h
					}
				}
			}
		}
	}
	before, after := "start", "end"
	if p > 0 {
		before = windowKind(evs[p-1].Desc)
	}
	if p < len(evs) {
		after = windowKind(evs[p].Desc)
	}
	window := before + " -> " + after
	run.Distinct("crash_window:"+plan.mode(), window)
	cause := "state-consistent-after-restart"
	key := func(symptom string) string { return fmt.Sprintf("%s|%s|%s", plan.mode(), cause, symptom) }
	wit := func(extra string) interface{} {
		return map[string]interface{}{"plan": plan, "crash_point": p, "window": window, "state_after_restart": cause, "durable_units_before": descs(evs, p-6, p), "durable_units_after": descs(evs, p, p+4),
			"committed_before_crash": committedAtP, "detail": extra}
	}
	// images
	walData, _ := os.ReadFile(victim.WAL.path)
	db, walSize := ImageAt(evs, p)
	if walSize < 0 {
		walSize = 0
	}
	if walSize > int64(len(walData)) {
		walSize = int64(len(walData))
	}
	img := walData[:walSize]
	var imgFiles map[string][]byte
	if plan.Rotate > 0 {
		imgFiles, img = rotatedImage(evs, p, filepath.Dir(victim.WAL.path))
	}
	if plan.Torn {
		// part of what was written after the last fsync (up to the next fsync), cut in the middle of a record
		next := int64(len(walData))
		for _, d := range evs[p:] {
			if d.Kind == "walsync" && d.WalSize > walSize {
				next = d.WalSize
				break
			}
		}
		if next > walSize+1 {
			img = walData[:walSize+(next-walSize)/2]
		}
	}
	victim.Stop(false)
	if plan.ValChange {
		// the withheld precommits were only late: from the restart on everything is delivered (a permanent loss would
		// keep a victim that crashed before its own precommit from ever collecting +2/3 for that height)
		net.Filter = nil
	}
	curDB, curImg, curFiles := db, img, imgFiles
	var nn *Node
	var res SyncResult
	unrepaired := "" // set when the first restart left a torn record in the log (second-crash plans with torn images)
	signsJudged := 0
	// clause 3: no vote/proposal conflicting with one published before the crash
	signCheck := func(n *Node) {
		evsN := n.Tr.Since(0)
		for _, e := range evsN[signsJudgedFor(n, &signsJudged):] {
			var k signKey
			var bid string
			switch e.Kind {
			case EvSignVote:
				b, err := types.BlockIDFromProto(&e.Vote.BlockID)
				if err != nil || b == nil {
					b = &types.BlockID{}
				}
				k, bid = signKey{e.Height, e.Round, e.Vote.Type.String()}, BIDKey(*b)
			case EvSignProp:
				b, err := types.BlockIDFromProto(&e.Prop.BlockID)
				if err != nil || b == nil {
					b = &types.BlockID{}
				}
				k, bid = signKey{e.Height, e.Round, "proposal"}, BIDKey(*b)
			default:
				continue
			}
			run.Count("sign_requests_after_restart", 1)
			if old, ok := published[k]; ok {
				if old != bid {
					sym := "double-sign:"
					if !walHasOwn(curImg, k) {
						// the published message is not even in the surviving log: it was handled (and gossiped) before it was durable
						sym = "double-sign-of-a-message-published-before-it-was-durable:"
					}
					c.Violation(key(sym+strings.ToLower(strings.TrimPrefix(k.t, "SIGNED_MSG_TYPE_"))), fmt.Sprintf("after the restart the validator signed a %s at %d/%d for %s although it had published one for %s before the crash", k.t, k.h, k.r, short(bid), short(old)), wit(""))
				} else {
					run.Count("re_signed_same_content", 1)
				}
			}
		}
		signsJudged = len(evsN)
	}
	for stage := 1; ; stage++ {
		db0 := CopyDB(curDB)
		dir := filepath.Join(root, fmt.Sprintf("restarted%d", stage))
		if err := writeWALFiles(dir, curImg, curFiles); err != nil {
			run.Inconclusive("cannot write wal image: " + err.Error())
			return
		}
		record := plan.Second && stage == 1
		startErr := func() (msg string) {
			defer func() {
				if r := recover(); r != nil {
					msg = fmt.Sprintf("panic: %v", r)
				}
			}()
			tr := &Trace{}
			tr.add(Ev{Kind: EvRestart})
			n2, err := BuildNode(plan.Victim, net.Gen, net.Keys[plan.Victim], curDB, tr, nil, NodeOpts{FileWAL: true, Dir: dir, Cache: cacheFor(plan.Flush), RecordDB: record, WALHeadLimit: plan.Rotate, Sched: valChangeSched(plan), Config: planConfig(plan)})
			if err != nil {
				return "build: " + err.Error()
			}
			nn = n2
			signsJudged = 0
			// Which state did the restart find? (used to tell the known recovery gaps apart from anything else)
			headAfter := nn.BC.CurrentBlock().Height()
			headAtCrash := uint64(0)
			if headWrites > 0 {
				headAtCrash = uint64(headWrites - 1)
			}
			st := nn.Store.Load()
			cause = "state-consistent-after-restart"
			switch {
			case headAfter < headAtCrash:
				cause = "head-rewound-to-last-flushed-state"
			case st.IsEmpty() || st.LastBlockHeight != headAfter:
				cause = "head-written-consensus-state-not-saved"
			case walHasEndHeight(curImg, int64(headAfter+1)) && nn.BO.LoadBlockMeta(headAfter+1) != nil && nn.BO.LoadSeenCommit(headAfter+1) != nil:
				cause = "endheight-marked-block-not-applied"
			case walHasEndHeight(curImg, int64(headAfter+1)):
				cause = "endheight-marked-block-not-saved"
			}
			if stage == 2 {
				run.Count("second_restarts", 1)
				if unrepaired != "" {
					cause = unrepaired // the log is not decodable behind the fragment the first restart left in it
				}
			}
			run.Distinct("state_after_restart:"+plan.mode(), cause)
			run.Count("restart_state:"+cause, 1)
			// clause 2: the stores describe one chain prefix of what had been committed
			if msg := storesConsistent(nn, agree); msg != "" {
				c.Violation(key("store-mismatch"), "after restart at a crash point the stores do not describe one chain prefix: "+msg, wit(msg))
			}
			if plan.Flush && nn.BC.CurrentBlock().Height() < committedAtP {
				c.Violation(key("lost-block"), fmt.Sprintf("flush mode: head after restart is %d but block %d had been committed (state saved) before the crash", nn.BC.CurrentBlock().Height(), committedAtP), wit(""))
			}
			run.Max("blocks_dropped_after_restart", int64(committedAtP)-int64(nn.BC.CurrentBlock().Height()))
			if os.Getenv("VERIF_C05_REAL_TICKER") != "" {
				// demonstration aid: restart with the REAL timeout ticker instead of the simulator's model
				n2.CS.VerifSetTicker(consensus.NewTimeoutTicker())
			}
			startFn := n2.Start
			if plan.ViaSwitch {
				startFn = n2.StartViaSwitch
			}
			if err := startFn(); err != nil {
				return "start: " + err.Error()
			}
			return ""
		}()
		if startErr != "" {
			c.Violation(key("start-error"), "node does not restart without manual repair: "+startErr, wit(startErr))
			return
		}
		run.Count("restarts", 1)
		if os.Getenv("VERIF_DEBUG_C05") != "" {
			fmt.Fprintf(os.Stderr, "stage %d restart: cause=%s image %d bytes (synced %d)\n  image: %s\n", stage, cause, len(curImg), walSize, strings.Join(walSummary(curImg), " | "))
			if b, err := os.ReadFile(nn.WAL.path); err == nil {
				fmt.Fprintf(os.Stderr, "  file after start (%d bytes): %s\n", len(b), strings.Join(walSummary(b), " | "))
			}
			for _, e := range nn.Tr.Since(0) {
				if e.Kind == EvSignVote || e.Kind == EvSignProp || e.Kind == EvSaveBlock || e.Kind == EvCreate {
					fmt.Fprintf(os.Stderr, "  during start: kind=%v h=%d r=%d\n", e.Kind, e.Height, e.Round)
				}
			}
		}
		if plan.Second && plan.Torn && stage == 1 && cause != "state-consistent-after-restart" {
			// the first crash fell into one of the recovery gaps (judged by the single-crash plans): what a second
			// crash makes of it is not attributed
			run.Count("second_crash_after_a_first_crash_in_a_recovery_gap_skipped", 1)
			nn.Stop(false)
			return
		}
		if plan.Torn && stage == 1 && int64(len(img)) > walSize {
			// the first image ended in a torn record: did the restart repair the log (OnStart keeps a .CORRUPTED backup
			// when it does)? If not, everything the node appends from now on lies behind the fragment.
			run.Count("restarts_on_a_torn_log", 1)
			if _, err := os.Stat(nn.WAL.path + ".CORRUPTED"); err != nil {
				rh := int64(nn.CS.GetRoundState().Height)
				if walHasEndHeight(img, rh-1) {
					unrepaired = "torn-record-behind-the-end-height-marker-never-repaired"
				} else {
					unrepaired = "torn-end-height-marker-never-repaired"
				}
				run.Count("restarts_on_a_torn_log_without_repair:"+unrepaired, 1)
			} else {
				run.Count("restarts_on_a_torn_log_with_repair", 1)
			}
		}
		net.Nodes[plan.Victim] = nn
		net.observe(nn)
		target := net.MaxHeight() + 2
		if target < plan.Heights+1 {
			target = plan.Heights + 1
		}
		if record {
			// second crash: during the recovery / the following heights, at the q-th durable unit of the new incarnation
			q2 := nn.Dur.Len() + plan.SecondQ
			net.AfterStimulus = func(n *Node) {
				if n == nn && nn.Dur.Len() >= q2 {
					net.Halt = true
				}
			}
			net.Halt = nn.Dur.Len() >= q2
			if plan.WithTxs {
				injectTxs(net, 99) // the restarted node's pool holds transactions again (lost once more at the second crash)
			}
			if !net.Halt {
				res = net.RunSync(target, 200, nil)
			}
			net.AfterStimulus = nil
			if net.Halt {
				net.Halt = false
				signCheck(nn)
				evs2 := nn.Dur.Snapshot()
				if q2 > len(evs2) {
					q2 = len(evs2)
				}
				for _, e := range nn.Tr.Since(0) {
					if e.Kind == EvRecv && e.Own && e.DurIdx <= q2 {
						if k, bid, ok := ownSignKey(e.Msg); ok {
							published[k] = bid
						}
					}
					if e.Kind == EvSaveBlock && e.DurIdx >= q2 {
						if d, ok := agree.Decided[e.Height]; ok && d.node == nn.Idx {
							delete(agree.Decided, e.Height)
						}
					}
				}
				walData2, _ := os.ReadFile(nn.WAL.path)
				size2 := int64(len(curImg))
				for _, d := range evs2[:q2] {
					if d.Kind == "walsync" && d.WalSize >= 0 {
						size2 = d.WalSize
					}
					if d.Kind == "db" {
						for _, o := range d.Ops {
							if !o.Del && string(o.K) == "LastBlock" {
								headWrites++
							}
							if !o.Del && strings.HasPrefix(string(o.K), "ConsensusState") && len(o.K) == len("ConsensusState")+8 {
								var h uint64
								for _, bb := range o.K[len("ConsensusState"):] {
									h = h<<8 | uint64(bb)
								}
								if h > committedAtP {
									committedAtP = h
								}
							}
						}
					}
				}
				if size2 > int64(len(walData2)) {
					size2 = int64(len(walData2))
				}
				curImg = walData2[:size2]
				if os.Getenv("VERIF_DEBUG_C05") != "" {
					fmt.Fprintf(os.Stderr, "second crash: q2=%d units=%d wal file %d bytes, image %d bytes (first image %d bytes)\n", q2, len(evs2), len(walData2), size2, len(img))
					for i, d := range evs2 {
						fmt.Fprintf(os.Stderr, "  unit %d %s walsize=%d %s\n", i, d.Kind, d.WalSize, d.Desc)
					}
					for k, b := range published {
						fmt.Fprintf(os.Stderr, "  published %v %s inWAL=%v\n", k, short(b), walHasOwn(curImg, k))
					}
				}
				curFiles = nil
				if plan.Rotate > 0 {
					curFiles, curImg = rotatedImage(evs2, q2, filepath.Dir(nn.WAL.path))
				}
				curDB = db0
				for _, d := range evs2[:q2] {
					if d.Kind == "db" {
						for _, o := range d.Ops {
							if o.Del {
								curDB.Delete(o.K)
							} else {
								curDB.Put(o.K, o.V)
							}
						}
					}
				}
				window = fmt.Sprintf("%s; second crash after %d units of the restarted node", window, plan.SecondQ)
				nn.Stop(false)
				continue
			}
			run.Count("second_points_beyond_end", 1)
		} else {
			res = net.RunSync(target, 200, nil)
		}
		break
	}
	signCheck(nn)
	for _, a := range al.List {
		switch {
		case a.Prop == "C01":
			c.Violation(key("divergent-commit"), "after the restart: "+a.What, wit(a.What))
		default:
			run.Count("alarm_of_other_property:"+a.Prop+":"+a.Key, 1)
		}
	}
	if nn.Dead {
		c.Violation(key("loop-terminated"), "the restarted node's consensus loop terminated: "+nn.DeadWhy, wit(nn.DeadWhy))
	} else if !res.Reached {
		c.Violation(key("no-catch-up"), fmt.Sprintf("the restarted node did not catch up / the network did not go on: %s %s %s", res.Deadlock, res.Stuck, net.Heights()), wit(net.Heights()))
	} else {
		run.Nontrivial(fmt.Sprintf("%s/%d", plan.Name, p))
		run.Count("recovered_and_caught_up", 1)
	}
	if run.Counter("restarts") <= 2 {
		run.Sample(map[string]interface{}{"plan": plan.Name, "crash_point": p, "window": window, "committed_before_crash": committedAtP, "final": net.Heights()})
	}
}

func signsJudgedFor(n *Node, judged *int) int {
	if *judged > n.Tr.Len() {
		*judged = 0
	}
	return *judged
}

func short(k string) string {
	if len(k) > 12 {
		return k[:12]
	}
	return k
}

func descs(evs []DurEv, lo, hi int) []string {
	if lo < 0 {
		lo = 0
	}
	if hi > len(evs) {
		hi = len(evs)
	}
	var out []string
	for i := lo; i < hi; i++ {
		out = append(out, fmt.Sprintf("%d: %s", i, evs[i].Desc))
	}
	return out
}

// storesConsistent checks that block store, head, application state and consensus state of a freshly
// built node describe one chain prefix and that every stored block is the one the network decided.
func storesConsistent(n *Node, agree *AgreementMonitor) string {
	head := n.BC.CurrentBlock().Height()
	st := n.Store.Load()
	if st.IsEmpty() {
		return fmt.Sprintf("no consensus state for head %d", head)
	}
	if st.LastBlockHeight != head {
		return fmt.Sprintf("consensus state is at %d, head block at %d", st.LastBlockHeight, head)
	}
	if _, err := n.BC.State(); err != nil {
		return fmt.Sprintf("application state of head %d not available: %v", head, err)
	}
	for h := uint64(1); h <= head; h++ {
		b := n.BO.LoadBlock(h)
		if b == nil {
			return fmt.Sprintf("block %d missing below head %d", h, head)
		}
		if d, ok := agree.Decided[h]; ok && d.hash != b.Hash() {
			return fmt.Sprintf("stored block %d differs from the committed one", h)
		}
	}
	return ""
}

// GoldenLen runs the plan's golden schedule to the end and returns the number of
// durable units the victim wrote (crash points are 0..len) and where consensus started.
func GoldenLen(plan CrashPlan) (total int, start int, err error) {
	powers := make([]int64, plan.N)
	for i := range powers {
		powers[i] = 20
	}
	net, err := NewNet(NetOpts{N: plan.N, Powers: powers, Genesis: planGenesis(plan), Node: func(i int) NodeOpts {
		if i == plan.Victim {
			return NodeOpts{RecordDB: true, FileWAL: true, Cache: cacheFor(plan.Flush), WALHeadLimit: plan.Rotate, Sched: valChangeSched(plan), Config: planConfig(plan)}
		}
		return NodeOpts{Cache: cacheFor(plan.Flush), Sched: valChangeSched(plan), Config: planConfig(plan)}
	}})
	if err != nil {
		return 0, 0, err
	}
	defer net.Close()
	if err := net.StartAll(); err != nil {
		return 0, 0, err
	}
	start = net.Nodes[plan.Victim].Dur.Len()
	if plan.VotesFirst {
		votesFirstFilter(net, plan.Victim)
	}
	if plan.Round2 {
		round2Filter(net)
	}
	if plan.ValChange {
		valChangeFilter(net, plan)
	}
	if plan.ManyRounds {
		manyRoundsFilter(net)
	}
	if plan.Rotate > 0 {
		gv := net.Nodes[plan.Victim]
		net.AfterStimulus = func(n *Node) {
			if n == gv {
				gv.CheckWALRotation()
			}
		}
	}
	txRound := 0
	for net.MinHeight() < plan.Heights {
		if plan.WithTxs {
			injectTxs(net, txRound)
			txRound++
		}
		res := net.RunSync(net.MinHeight()+1, 200, noiseFor(net, plan))
		if !res.Reached {
			return 0, 0, fmt.Errorf("golden run stuck: %+v", res)
		}
	}
	return net.Nodes[plan.Victim].Dur.Len(), start, nil
}

// walSummary lists the records of a WAL image (debugging aid).
func walSummary(img []byte) []string {
	var out []string
	dec := consensus.NewWALDecoder(bytesReader(img))
	for {
		m, err := dec.Decode()
		if err != nil {
			out = append(out, "-> "+err.Error())
			return out
		}
		switch x := m.Msg.(type) {
		case consensus.EndHeightMessage:
			out = append(out, fmt.Sprintf("ENDHEIGHT %d", x.Height))
		case consensus.VerifMsgInfo:
			out = append(out, fmt.Sprintf("msg peer=%q %s", x.PeerID, msgLabel(x.Msg)))
		case consensus.VerifTimeoutInfo:
			out = append(out, fmt.Sprintf("timeout %d/%d/%v", x.Height, x.Round, x.Step))
		default:
			out = append(out, fmt.Sprintf("%T", m.Msg))
		}
	}
}

// walHasEndHeight reports whether the WAL image contains the end marker of height h.
func walHasEndHeight(img []byte, h int64) bool {
	dec := consensus.NewWALDecoder(bytesReader(img))
	for {
		m, err := dec.Decode()
		if err != nil {
			return false
		}
		if e, ok := m.Msg.(consensus.EndHeightMessage); ok && e.Height == h {
			return true
		}
	}
}

func bytesReader(b []byte) io.Reader { return bytes.NewReader(b) }

// votesFirstFilter delays the block parts sent to node v until it holds a +2/3 prevote majority of its round.
func votesFirstFilter(net *Net, v int) {
	net.Filter = func(from, to *Node, m consensus.Message) bool {
		if to.Idx != v {
			return true
		}
		if _, ok := m.(*consensus.BlockPartMessage); !ok {
			return true
		}
		rs := to.CS.GetRoundState()
		if rs.Votes == nil || rs.Step >= 6 { // precommit or later: let the parts through
			return true
		}
		pv := rs.Votes.Prevotes(rs.Round)
		if pv == nil {
			return false
		}
		_, ok := pv.TwoThirdsMajority()
		return ok
	}
}

// planConfig returns the consensus configuration change of a plan (nil: the simulator's defaults).
func planConfig(plan CrashPlan) func(*configs.ConsensusConfig) {
	if !plan.ZeroCommitWait {
		return nil
	}
	return func(c *configs.ConsensusConfig) { c.TimeoutCommit = 0 }
}

// valChangeSched is the schedule of ValChange plans (same on every node).
func valChangeSched(plan CrashPlan) ValSchedule {
	if !plan.ValChange {
		return nil
	}
	a := Addr(Key((plan.Victim + 1) % plan.N))
	return func(h uint64, vals []*types.Validator) []*types.Validator {
		if len(vals) == 0 || h < 2 {
			return vals
		}
		out := make([]*types.Validator, len(vals))
		for i, v := range vals {
			out[i] = v.Copy()
			if v.Address == a {
				out[i].VotingPower += 80 * PowerUnit
			}
		}
		return out
	}
}

// valChangeFilter keeps the precommits of validator Victim+1 for heights <= 3 from reaching the victim.
func valChangeFilter(net *Net, plan CrashPlan) {
	a := Addr(Key((plan.Victim + 1) % plan.N))
	net.Filter = func(from, to *Node, m consensus.Message) bool {
		if to.Idx != plan.Victim {
			return true
		}
		if vm, ok := m.(*consensus.VoteMessage); ok && vm.Vote.Type == kproto.PrecommitType && vm.Vote.Height <= 3 && vm.Vote.ValidatorAddress == a {
			return false
		}
		return true
	}
}

// manyRoundsFilter keeps the proposals and block parts of rounds 1-5 of height 2 from being forwarded.
func manyRoundsFilter(net *Net) {
	net.Filter = func(from, to *Node, m consensus.Message) bool {
		switch x := m.(type) {
		case *consensus.ProposalMessage:
			return !(x.Proposal.Height == 2 && x.Proposal.Round <= 5)
		case *consensus.BlockPartMessage:
			return !(x.Height == 2 && x.Round <= 5)
		}
		return true
	}
}

// noiseFor returns the per-phase callback of Noise plans (nil otherwise): deterministic in the run.
func noiseFor(net *Net, plan CrashPlan) func() {
	if !plan.Noise || plan.N < 2 {
		return nil
	}
	adv := NewAdversary(net)
	type hr struct {
		h uint64
		r uint32
	}
	done := map[hr]bool{}
	return func() {
		v := net.Nodes[plan.Victim]
		if v == nil || v.Dead {
			return
		}
		rs := v.CS.GetRoundState()
		k := hr{rs.Height, rs.Round}
		if done[k] || rs.Step > cstypes.RoundStepPropose || rs.Validators == nil {
			return
		}
		done[k] = true
		prop := rs.Validators.GetProposer().Address
		signer := -1
		for i, a := range net.Addrs {
			if a != prop && i != plan.Victim {
				signer = i
				break
			}
		}
		if signer < 0 {
			return
		}
		p := adv.SignProposal(signer, rs.Height, rs.Round, 0, adv.PickFakeID(int(rs.Height)*100+int(rs.Round)))
		net.Inject(v, &consensus.ProposalMessage{Proposal: p})
	}
}

// round2Filter keeps the round-1 proposal and block parts of even heights from being forwarded: those heights are
// decided in round 2 (everybody but the proposer prevotes and precommits nil in round 1).
func round2Filter(net *Net) {
	net.Filter = func(from, to *Node, m consensus.Message) bool {
		switch x := m.(type) {
		case *consensus.ProposalMessage:
			return !(x.Proposal.Height%2 == 0 && x.Proposal.Round == 1)
		case *consensus.BlockPartMessage:
			return !(x.Height%2 == 0 && x.Round == 1)
		}
		return true
	}
}

// walHasOwn reports whether the WAL image contains an own (internal) vote/proposal with the given height/round/type.
func walHasOwn(img []byte, k signKey) bool {
	dec := consensus.NewWALDecoder(bytesReader(img))
	for {
		m, err := dec.Decode()
		if err != nil {
			return false
		}
		if mi, ok := m.Msg.(consensus.VerifMsgInfo); ok && mi.PeerID == "" {
			if kk, _, ok := ownSignKey(mi.Msg); ok && kk == k {
				return true
			}
		}
	}
}

// rotatedImage builds the WAL image of a rotating group at crash point p: every file with the size it had at the
// last fsync (or rotation) at or before p. The head file of that moment may have been rotated since: it is then
// found under the rotated name with the next index. Returns the files and their concatenation in reading order.
func rotatedImage(evs []DurEv, p int, dir string) (map[string][]byte, []byte) {
	var files map[string]int64
	var headSize int64 = -1
	for _, e := range evs[:p] {
		if e.Kind == "walsync" {
			files, headSize = e.WalFiles, e.WalSize
		}
	}
	out := map[string][]byte{}
	if files == nil {
		// single file so far
		b, _ := os.ReadFile(filepath.Join(dir, "wal"))
		if _, err := os.Stat(filepath.Join(dir, "wal.000")); err == nil {
			b, _ = os.ReadFile(filepath.Join(dir, "wal.000"))
		}
		if headSize < 0 {
			headSize = 0
		}
		if headSize > int64(len(b)) {
			headSize = int64(len(b))
		}
		out["wal"] = b[:headSize]
		return out, out["wal"]
	}
	rotated := 0
	for name := range files {
		if name != "wal" {
			rotated++
		}
	}
	var names []string
	for name := range files {
		names = append(names, name)
	}
	sort.Strings(names) // "wal" < "wal.000" < ...: put the head last
	var concat []byte
	for _, name := range names {
		if name == "wal" {
			continue
		}
		b, _ := os.ReadFile(filepath.Join(dir, name))
		if sz := files[name]; sz < int64(len(b)) {
			b = b[:sz]
		}
		out[name] = b
		concat = append(concat, b...)
	}
	// the head of that moment
	src := filepath.Join(dir, fmt.Sprintf("wal.%03d", rotated))
	b, err := os.ReadFile(src)
	if err != nil {
		b, _ = os.ReadFile(filepath.Join(dir, "wal"))
	}
	if sz := files["wal"]; sz < int64(len(b)) {
		b = b[:sz]
	}
	out["wal"] = b
	concat = append(concat, b...)
	return out, concat
}

func writeWALFiles(dir string, img []byte, files map[string][]byte) error {
	if files == nil {
		return WriteWALImage(dir, img)
	}
	if err := os.MkdirAll(filepath.Join(dir, "cs.wal"), 0700); err != nil {
		return err
	}
	for name, b := range files {
		if err := os.WriteFile(filepath.Join(dir, "cs.wal", name), b, 0600); err != nil {
			return err
		}
	}
	return nil
}

// planGenesis: the plan's changes to the genesis file.
func planGenesis(plan CrashPlan) func(*genesis.Genesis) {
	if plan.InitialHeight <= 1 {
		return nil
	}
	return func(g *genesis.Genesis) { g.InitialHeight = plan.InitialHeight }
}
