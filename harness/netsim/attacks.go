package netsim

import (
	"fmt"
	"os"

	"github.com/kardiachain/go-kardia/consensus"
	cstypes "github.com/kardiachain/go-kardia/consensus/types"
	"github.com/kardiachain/go-kardia/lib/common"
	kproto "github.com/kardiachain/go-kardia/proto/kardiachain/types"
	"github.com/kardiachain/go-kardia/types"
)

// Scripted multi-node attacks (the attack corpus of C01/C04): each one is run
// against a real network with one adversary-controlled validator (< 1/3) and is
// followed by a synchronous suffix; the monitors decide.

type Attack struct {
	Name string
	// Run performs the attack; it returns false if the precondition could not be built.
	Run func(a *AttackCtx) bool
}

type AttackCtx struct {
	Net *Net
	Adv *Adversary
	B   int // the adversary's validator index
	Log []string
}

func (a *AttackCtx) logf(f string, x ...interface{}) { a.Log = append(a.Log, fmt.Sprintf(f, x...)) }

// Inject delivers a fabricated message to one node.
func (net *Net) Inject(j *Node, m consensus.Message) {
	net.deliver(j, offer{Msg: m, From: -1, adv: &AdvMsg{Sent: map[int]int{}}})
}

func (a *AttackCtx) correct() []*Node { return a.Net.Alive() }

// toByzProposerRound runs the network (synchronously) until every correct node is in the propose step of
// round 1 of a height >= minHeight whose proposer is the adversary's validator. Returns the height.
func (a *AttackCtx) toByzProposerRound(minHeight uint64, maxHeight uint64) (uint64, bool) {
	for h := a.Net.MinHeight() + 1; h <= maxHeight; h++ {
		if h > 1 {
			res := a.Net.RunSync(h-1, 200, nil)
			if !res.Reached {
				return 0, false
			}
		}
		a.Net.Fixpoint(50)
		n0 := a.correct()[0]
		rs := n0.CS.GetRoundState()
		if rs.Height != h || rs.Round != 1 {
			continue
		}
		if h >= minHeight && rs.Validators.GetProposer().Address == a.Net.Addrs[a.B] {
			// everybody enters round 1
			for _, n := range a.correct() {
				if n.CS.GetRoundState().Step == cstypes.RoundStepNewHeight {
					a.Net.fire(n)
				}
			}
			ok := true
			for _, n := range a.correct() {
				r := n.CS.GetRoundState()
				if r.Height != h || r.Round != 1 || r.Step != cstypes.RoundStepPropose {
					ok = false
				}
			}
			if ok {
				return h, true
			}
		}
	}
	return 0, false
}

func (a *AttackCtx) sendBlock(n *Node, ab *advBlock, h uint64, r, pol uint32) {
	p := a.Adv.SignProposal(a.B, h, r, pol, ab.bid)
	a.Net.Inject(n, &consensus.ProposalMessage{Proposal: p})
	for i := 0; i < int(ab.parts.Total()); i++ {
		a.Net.Inject(n, &consensus.BlockPartMessage{Height: h, Round: r, Part: ab.parts.GetPart(i)})
	}
}

func (a *AttackCtx) voteAll(typ kproto.SignedMsgType, h uint64, r uint32, bid types.BlockID, to []*Node) {
	for _, n := range to {
		v := a.Adv.SignVote(n, a.B, typ, h, r, bid, ClockNow())
		a.Net.Inject(n, &consensus.VoteMessage{Vote: v})
	}
}

var Attacks = []Attack{
	{"same-header-other-body-to-one-node", func(a *AttackCtx) bool {
		// The adversary proposes block X to all but one node and, to that node, a block with X's header (same
		// hash) but another last commit (other body, other parts, invalid). The others commit X; the singled-out
		// node must fetch the genuine parts and commit X too.
		h, ok := a.toByzProposerRound(2, 7)
		if !ok {
			return false
		}
		ref := a.correct()[0]
		x := a.Adv.MakeBlock(ref, a.B, 0)
		if x == nil {
			return false
		}
		x9 := SameHeaderOtherCommit(x)
		if x9 == nil {
			return false
		}
		nodes := a.correct()
		a.sendBlock(nodes[0], x9, h, 1, 0)
		for _, n := range nodes[1:] {
			a.sendBlock(n, x, h, 1, 0)
		}
		// the singled-out node is cut off while the others decide X with the adversary's help; it then only
		// learns the commit (the precommits), never the polka
		a.Net.Group = make([]int, len(a.Net.Nodes))
		a.Net.Group[nodes[0].Idx] = 1
		a.voteAll(kproto.PrevoteType, h, 1, x.bid, nodes[1:])
		a.voteAll(kproto.PrecommitType, h, 1, x.bid, nodes[1:])
		a.Net.FixpointPartitioned(50)
		a.Net.Group = nil
		a.logf("height %d: X=%s to nodes 1.., same-header variant %s to node %d", h, ShortBID(x.bid), ShortBID(x9.bid), nodes[0].Idx)
		return true
	}},
	{"equivocating-proposer-split-audience", func(a *AttackCtx) bool {
		h, ok := a.toByzProposerRound(1, 6)
		if !ok {
			return false
		}
		ref := a.correct()[0]
		x, y := a.Adv.MakeBlock(ref, a.B, 0), a.Adv.MakeBlock(ref, a.B, 1)
		if x == nil || y == nil {
			return false
		}
		nodes := a.correct()
		half := len(nodes) / 2
		for i, n := range nodes {
			if i < half {
				a.sendBlock(n, x, h, 1, 0)
			} else {
				a.sendBlock(n, y, h, 1, 0)
			}
		}
		// the adversary votes for X towards the first half and for Y towards the second (equivocation)
		a.voteAll(kproto.PrevoteType, h, 1, x.bid, nodes[:half])
		a.voteAll(kproto.PrevoteType, h, 1, y.bid, nodes[half:])
		a.voteAll(kproto.PrecommitType, h, 1, x.bid, nodes[:half])
		a.voteAll(kproto.PrecommitType, h, 1, y.bid, nodes[half:])
		return true
	}},
	{"prevotes-retyped-as-precommits", func(a *AttackCtx) bool {
		// Node A precommits X on a polka; the others do not see the polka, time out and precommit nil; the adversary
		// re-types the others' PREVOTES for X as precommits (original signatures) and shows them to A only.
		nodes := a.correct()
		if len(nodes) < 3 {
			return false
		}
		for _, n := range nodes {
			if n.CS.GetRoundState().Step == cstypes.RoundStepNewHeight {
				a.Net.fire(n)
			}
		}
		A := nodes[0]
		isVote := func(m consensus.Message, typ kproto.SignedMsgType) (*types.Vote, bool) {
			if vm, ok := m.(*consensus.VoteMessage); ok && vm.Vote.Type == typ {
				return vm.Vote, true
			}
			return nil, false
		}
		// phase 1: proposal and parts reach everybody; prevotes reach A only, except that A's prevote reaches nobody
		a.Net.Filter = func(from, to *Node, m consensus.Message) bool {
			if _, ok := isVote(m, kproto.PrecommitType); ok {
				return false
			}
			if _, ok := isVote(m, kproto.PrevoteType); ok {
				return to == A
			}
			return true
		}
		a.Net.Fixpoint(50)
		rs := A.CS.GetRoundState()
		h, r := rs.Height, rs.Round
		if rs.ProposalBlock == nil || rs.LockedBlock == nil {
			// no polka at A yet (the proposer may be the adversary, or A lacks one prevote): help with the adversary's prevote
			if rs.ProposalBlock == nil {
				a.Net.Filter = nil
				return false
			}
			bid := types.BlockID{Hash: rs.ProposalBlock.Hash(), PartsHeader: rs.ProposalBlockParts.Header()}
			a.voteAll(kproto.PrevoteType, h, r, bid, []*Node{A})
			rs = A.CS.GetRoundState()
		}
		if rs.LockedBlock == nil {
			a.Net.Filter = nil
			return false
		}
		bid := types.BlockID{Hash: rs.LockedBlock.Hash(), PartsHeader: rs.LockedBlockParts.Header()}
		// phase 2: the others see each other's prevotes but not A's, plus a nil prevote of the adversary: +2/3 any, no polka
		a.Net.Filter = func(from, to *Node, m consensus.Message) bool {
			if _, ok := isVote(m, kproto.PrecommitType); ok {
				return false
			}
			if v, ok := isVote(m, kproto.PrevoteType); ok {
				return to != A && v.ValidatorAddress != A.Addr
			}
			return true
		}
		a.voteAll(kproto.PrevoteType, h, r, types.BlockID{}, nodes[1:])
		a.Net.Fixpoint(50)
		for _, n := range nodes[1:] {
			if n.CS.GetRoundState().Step == cstypes.RoundStepPrevoteWait {
				a.Net.fire(n) // they precommit nil
			}
		}
		// phase 3: the adversary re-types the others' prevotes for X as precommits and shows them to A only
		n := 0
		for _, v := range votesOf(A.CS.GetRoundState().Votes.Prevotes(r)) {
			if v.ValidatorAddress == A.Addr || !v.BlockID.Equal(bid) {
				continue
			}
			c := v.Copy()
			c.Type = kproto.PrecommitType
			a.Net.Inject(A, &consensus.VoteMessage{Vote: c})
			n++
		}
		a.logf("node %d locked on %s at %d/%d; %d prevotes re-typed as precommits and shown to it; the others precommitted nil", A.Idx, ShortBID(bid), h, r, n)
		// phase 4: A stays cut off from the others' real precommits while they go on (they may decide another block)
		a.Net.Filter = func(from, to *Node, m consensus.Message) bool { return to != A && from != A }
		a.Net.Group = make([]int, len(a.Net.Nodes))
		a.Net.Group[A.Idx] = 1
		for i := 0; i < 12; i++ {
			a.Net.FixpointPartitioned(50)
			// the adversary helps the others to decide quickly: it votes for whatever they propose
			for _, o := range nodes[1:] {
				ors := o.CS.GetRoundState()
				if ors.Height == h && ors.ProposalBlock != nil && ors.Round > r {
					ob := types.BlockID{Hash: ors.ProposalBlock.Hash(), PartsHeader: ors.ProposalBlockParts.Header()}
					a.voteAll(kproto.PrevoteType, h, ors.Round, ob, nodes[1:])
					a.voteAll(kproto.PrecommitType, h, ors.Round, ob, nodes[1:])
				}
			}
			a.Net.FixpointPartitioned(50)
			if nodes[1].BO.Height() >= h {
				break
			}
			fired := false
			for _, o := range nodes[1:] {
				if a.Net.fire(o) {
					fired = true
				}
			}
			if !fired {
				break
			}
		}
		a.Net.Filter = nil
		a.Net.Group = nil
		return n > 0
	}},
	{"stale-polka-then-amnesia-fork", func(a *AttackCtx) bool {
		// Three correct nodes X, Y, Z and the adversary F (< 1/3). Round 1: everybody prevotes A but nobody sees the
		// polka in time (one prevote to Y is delayed). Round 2: Y sees a polka for B and locks; X also collects +2/3
		// precommits for B (with F's) and commits B; Y and Z do not. Later the delayed round-1 prevote reaches Y: a
		// polka for A dated BEFORE Y's lock. In a later round a fresh block C is proposed, F "forgets" its precommit
		// for B and votes C. Y must stay locked on B; if it does not, C gets +2/3 and Y, Z commit C against X's B.
		nodes := a.correct()
		miss := func(s string) bool { a.logf("miss %s: %s", s, a.Net.Dump()); a.Net.Filter = nil; return false }
		if len(nodes) != 3 || len(a.Net.Nodes) != 4 {
			return miss("cfg")
		}
		X, Y, Z := nodes[0], nodes[1], nodes[2]
		for _, n := range nodes {
			if n.CS.GetRoundState().Step == cstypes.RoundStepNewHeight {
				a.Net.fire(n)
			}
		}
		h := X.CS.GetRoundState().Height
		voteOf := func(m consensus.Message) *types.Vote {
			if vm, ok := m.(*consensus.VoteMessage); ok {
				return vm.Vote
			}
			return nil
		}
		byzProposes := func(variant int) *advBlock {
			ab := a.Adv.MakeBlock(Y, a.B, variant)
			if ab == nil {
				return nil
			}
			rs := Y.CS.GetRoundState()
			for _, n := range a.correct() {
				if n.CS.GetRoundState().Height == h {
					a.sendBlock(n, ab, h, rs.Round, 0)
				}
			}
			return ab
		}
		isProposer := func(n *Node) bool {
			return Y.CS.GetRoundState().Validators.GetProposer().Address == n.Addr
		}
		byzTurn := func() bool {
			return Y.CS.GetRoundState().Validators.GetProposer().Address == a.Net.Addrs[a.B]
		}
		// ---- round 1: block A, prevotes seen pairwise only
		r1 := Y.CS.GetRoundState().Round
		allow := map[[2]int]bool{{Y.Idx, X.Idx}: true, {Z.Idx, Y.Idx}: true, {X.Idx, Z.Idx}: true} // from -> to
		a.Net.Filter = func(from, to *Node, m consensus.Message) bool {
			if v := voteOf(m); v != nil && v.Height == h && v.Round == r1 && v.Type == kproto.PrevoteType {
				// only the sender's OWN prevote travels, and only along the allowed pairs
				return v.ValidatorAddress == from.Addr && allow[[2]int{from.Idx, to.Idx}]
			}
			return true
		}
		if byzTurn() {
			if byzProposes(0) == nil {
				return miss("m1")
			}
		}
		a.Net.Fixpoint(50)
		a.voteAll(kproto.PrevoteType, h, r1, types.BlockID{}, nodes) // F prevotes nil: +2/3 any everywhere, no polka
		a.Net.Fixpoint(50)
		for _, n := range nodes {
			rs := n.CS.GetRoundState()
			if rs.LockedBlock != nil || rs.Height != h {
				return miss("m2")
			}
			if rs.Step == cstypes.RoundStepPrevoteWait {
				a.Net.fire(n) // precommit nil
			}
		}
		a.Net.Fixpoint(50) // nil precommits travel freely: +2/3 nil
		for _, n := range nodes {
			if rs := n.CS.GetRoundState(); rs.Round == r1 && rs.Height == h {
				a.Net.fire(n) // precommit wait -> round 2
			}
		}
		// the block everybody prevoted in round 1
		var blockA types.BlockID
		if pv := Y.CS.GetRoundState().Votes.Prevotes(r1); pv != nil {
			for _, v := range votesOf(pv) {
				if !v.BlockID.IsZero() {
					blockA = v.BlockID
				}
			}
		}
		if blockA.IsZero() {
			return miss("m3")
		}
		// ---- round 2: block B; X and Y see the polka, Z does not; precommits: X gets Y's and F's, Y gets X's and Z's
		r2 := r1 + 1
		for _, n := range nodes {
			if rs := n.CS.GetRoundState(); rs.Round != r2 || rs.Height != h {
				return miss("m4")
			}
		}
		a.Net.Filter = func(from, to *Node, m consensus.Message) bool {
			v := voteOf(m)
			if v == nil || v.Height != h {
				return true
			}
			if v.Round == r1 && v.Type == kproto.PrevoteType {
				return false // the delayed round-1 prevotes stay delayed
			}
			if v.Round == r2 && v.Type == kproto.PrevoteType {
				if to == Z {
					return v.ValidatorAddress == X.Addr // Z sees one other prevote only (+ F's nil below): no polka
				}
				return true
			}
			if v.Round == r2 && v.Type == kproto.PrecommitType {
				if v.ValidatorAddress == a.Net.Addrs[a.B] {
					return false // F's precommit for B is for X's eyes only and X does not pass it on
				}
				if to == X {
					return v.ValidatorAddress == Y.Addr
				}
				if to == Y {
					return v.ValidatorAddress == X.Addr || v.ValidatorAddress == Z.Addr
				}
				return true
			}
			return true
		}
		if byzTurn() {
			if byzProposes(1) == nil {
				return miss("m5")
			}
		}
		a.Net.Fixpoint(50)
		rsY := Y.CS.GetRoundState()
		if rsY.ProposalBlock == nil {
			return miss("m6")
		}
		blockB := types.BlockID{Hash: rsY.ProposalBlock.Hash(), PartsHeader: rsY.ProposalBlockParts.Header()}
		if blockB.Equal(blockA) {
			return miss("m7")
		}
		a.voteAll(kproto.PrevoteType, h, r2, types.BlockID{}, []*Node{Z}) // F: nil towards Z (+2/3 any there)
		a.Net.Fixpoint(50)
		if Z.CS.GetRoundState().Step == cstypes.RoundStepPrevoteWait {
			a.Net.fire(Z) // Z precommits nil
		}
		a.Net.Fixpoint(50)
		a.voteAll(kproto.PrecommitType, h, r2, blockB, []*Node{X}) // F precommits B towards X only: X commits B
		a.Net.Fixpoint(50)
		if X.BO.Height() < h || Y.CS.GetRoundState().LockedBlock == nil || Y.BO.Height() >= h {
			return miss("m8")
		}
		a.logf("height %d: round %d all prevoted A=%s (no polka seen); round %d: X committed B=%s, Y locked on B, Z not", h, r1, ShortBID(blockA), r2, ShortBID(blockB))
		// Y and Z leave round 2 through the precommit-wait timeout
		for _, n := range []*Node{Y, Z} {
			if rs := n.CS.GetRoundState(); rs.Round == r2 && rs.Height == h {
				a.Net.fire(n)
			}
		}
		// ---- later: the delayed round-1 prevote reaches Y (stale polka for A), X stays silent for this height
		a.Net.Filter = func(from, to *Node, m consensus.Message) bool {
			if from == X || to == X {
				return false // X has decided; what it knows stays with it for now
			}
			if v := voteOf(m); v != nil && to == Z && v.Height == h && v.Round <= r2 && v.Type == kproto.PrevoteType {
				return false // Z never learns of the polka for B
			}
			return true
		}
		// X's own round-1 prevote for A, taken from Z (which received it)
		for _, v := range votesOf(Z.CS.GetRoundState().Votes.Prevotes(r1)) {
			if v.ValidatorAddress == X.Addr {
				a.Net.Inject(Y, &consensus.VoteMessage{Vote: v})
			}
		}
		// rounds go by until a round whose proposer is Z (not locked) or F; F then votes for the fresh block C
		for i := 0; i < 8; i++ {
			rs := Y.CS.GetRoundState()
			if rs.Height != h {
				break
			}
			rr := rs.Round
			a.Net.Fixpoint(50)
			var c *types.BlockID
			switch {
			case byzTurn():
				if ab := byzProposes(1 - i%2); ab != nil {
					c = &ab.bid
				}
			case isProposer(Z):
				if zr := Z.CS.GetRoundState(); zr.ProposalBlock != nil {
					id := types.BlockID{Hash: zr.ProposalBlock.Hash(), PartsHeader: zr.ProposalBlockParts.Header()}
					c = &id
				}
			}
			a.Net.Fixpoint(50)
			fireIn := func(step cstypes.RoundStepType) {
				for _, n := range []*Node{Y, Z} {
					if ti, ok := n.Tick.Pending(); ok && ti.Height == h && ti.Round == rr && ti.Step == step {
						a.Net.fire(n)
					}
				}
				a.Net.Fixpoint(50)
			}
			fireIn(cstypes.RoundStepPropose) // nothing (acceptable) was proposed
			vote := types.BlockID{}
			if c != nil && !c.Equal(blockB) {
				vote = *c // amnesia: F forgets its precommit for B
				a.logf("round %d: fresh block C=%s proposed, F votes for it", rr, ShortBID(*c))
			} else {
				a.logf("round %d: no fresh block (proposer %x)", rr, rs.Validators.GetProposer().Address[:3])
			}
			a.voteAll(kproto.PrevoteType, h, rr, vote, []*Node{Y, Z})
			a.Net.Fixpoint(50)
			fireIn(cstypes.RoundStepPrevoteWait)
			a.voteAll(kproto.PrecommitType, h, rr, vote, []*Node{Y, Z})
			a.Net.Fixpoint(50)
			if os.Getenv("VERIF_DEBUG_ATTACK") != "" {
				a.logf("after round %d: %v", rr, a.Net.Dump())
			}
			if Y.BO.Height() >= h || Z.BO.Height() >= h {
				break
			}
			fireIn(cstypes.RoundStepPrecommitWait)
		}
		a.Net.Filter = nil
		return true
	}},
	{"amnesia-after-lock", func(a *AttackCtx) bool {
		// The adversary precommits X in round 1 towards one half and then prevotes/precommits another block in
		// round 2 (no POL) towards everybody.
		h, ok := a.toByzProposerRound(1, 6)
		if !ok {
			return false
		}
		ref := a.correct()[0]
		x, y := a.Adv.MakeBlock(ref, a.B, 0), a.Adv.MakeBlock(ref, a.B, 1)
		if x == nil || y == nil {
			return false
		}
		nodes := a.correct()
		for _, n := range nodes {
			a.sendBlock(n, x, h, 1, 0)
		}
		a.voteAll(kproto.PrevoteType, h, 1, x.bid, nodes)
		a.voteAll(kproto.PrecommitType, h, 1, x.bid, nodes[:1])
		a.voteAll(kproto.PrevoteType, h, 2, y.bid, nodes)
		a.voteAll(kproto.PrecommitType, h, 2, y.bid, nodes)
		return true
	}},
	{"votes-for-block-id-differing-in-parts-total", func(a *AttackCtx) bool {
		nodes := a.correct()
		for _, n := range nodes {
			if n.CS.GetRoundState().Step == cstypes.RoundStepNewHeight {
				a.Net.fire(n)
			}
		}
		// only the proposal and its parts travel
		a.Net.Filter = func(from, to *Node, m consensus.Message) bool {
			_, isVote := m.(*consensus.VoteMessage)
			return !isVote
		}
		a.Net.Fixpoint(50)
		a.Net.Filter = nil
		rs := nodes[0].CS.GetRoundState()
		if rs.ProposalBlock == nil {
			return false
		}
		bid := types.BlockID{Hash: rs.ProposalBlock.Hash(), PartsHeader: rs.ProposalBlockParts.Header()}
		bad := bid
		bad.PartsHeader.Total += 3
		a.voteAll(kproto.PrevoteType, rs.Height, rs.Round, bad, nodes)
		a.voteAll(kproto.PrecommitType, rs.Height, rs.Round, bad, nodes)
		a.logf("adversary votes for %s (parts total altered) at %d/%d", ShortBID(bad), rs.Height, rs.Round)
		return true
	}},
	{"one-signature-under-every-validator-index", func(a *AttackCtx) bool {
		// The adversary proposes X to one half and Y to the other and sends every node its own, genuinely signed
		// prevote and precommit for the node's block once per validator index (its own address, its own signature,
		// another validator's slot): one validator's power must count once whatever slots its votes claim.
		h, ok := a.toByzProposerRound(1, 6)
		if !ok {
			return false
		}
		ref := a.correct()[0]
		x, y := a.Adv.MakeBlock(ref, a.B, 0), a.Adv.MakeBlock(ref, a.B, 1)
		if x == nil || y == nil {
			return false
		}
		nodes := a.correct()
		half := len(nodes) / 2
		size := ref.CS.GetRoundState().Validators.Size()
		for i, n := range nodes {
			blk := x
			if i >= half {
				blk = y
			}
			a.sendBlock(n, blk, h, 1, 0)
			for _, typ := range []kproto.SignedMsgType{kproto.PrevoteType, kproto.PrecommitType} {
				v := a.Adv.SignVote(n, a.B, typ, h, 1, blk.bid, ClockNow())
				a.Net.Inject(n, &consensus.VoteMessage{Vote: v})
				for idx := 0; idx < size; idx++ {
					if uint32(idx) == v.ValidatorIndex {
						continue
					}
					w := v.Copy()
					w.ValidatorIndex = uint32(idx)
					a.Net.Inject(n, &consensus.VoteMessage{Vote: w})
				}
			}
		}
		a.logf("adversary sent its votes for X resp. Y at %d/1 under every one of the %d validator indices", h, size)
		return true
	}},
	{"late-conflicting-precommits-for-previous-height", func(a *AttackCtx) bool {
		res := a.Net.RunSync(a.Net.MinHeight()+1, 200, nil)
		if !res.Reached {
			return false
		}
		nodes := a.correct()
		h := nodes[0].CS.GetRoundState().Height
		if h < 2 {
			return false
		}
		for r := uint32(1); r <= 2; r++ {
			a.voteAll(kproto.PrecommitType, h-1, r, types.BlockID{}, nodes)
			a.voteAll(kproto.PrecommitType, h-1, r, a.Adv.pickFake(), nodes)
		}
		return true
	}},
}

func (a *Adversary) pickFake() types.BlockID {
	return types.BlockID{Hash: common.BytesToHash([]byte("fake block")), PartsHeader: types.PartSetHeader{Total: 1, Hash: common.BytesToHash([]byte("fake parts"))}}
}
