package netsim

import (
	"fmt"

	"github.com/kardiachain/go-kardia/consensus"
	cstypes "github.com/kardiachain/go-kardia/consensus/types"
	"github.com/kardiachain/go-kardia/lib/common"
	kproto "github.com/kardiachain/go-kardia/proto/kardiachain/types"
	"github.com/kardiachain/go-kardia/types"
)

// Scripted multi-node attacks (the attack corpus of C01/C04): each one is run
// against a real network with one adversary-controlled validator (< 1/3) and is
// followed by a synchronous suffix; the monitors decide.

type Attack struct {
	Name string
	// Run performs the attack; it returns false if the precondition could not be built.
	Run func(a *AttackCtx) bool
}

type AttackCtx struct {
	Net *Net
	Adv *Adversary
	B   int // the adversary's validator index
	Log []string
}

func (a *AttackCtx) logf(f string, x ...interface{}) { a.Log = append(a.Log, fmt.Sprintf(f, x...)) }

// Inject delivers a fabricated message to one node.
func (net *Net) Inject(j *Node, m consensus.Message) {
	net.deliver(j, offer{Msg: m, From: -1, adv: &AdvMsg{Sent: map[int]int{}}})
}

func (a *AttackCtx) correct() []*Node { return a.Net.Alive() }

// toByzProposerRound runs the network (synchronously) until every correct node is in the propose step of
// round 1 of a height >= minHeight whose proposer is the adversary's validator. Returns the height.
func (a *AttackCtx) toByzProposerRound(minHeight uint64, maxHeight uint64) (uint64, bool) {
	for h := a.Net.MinHeight() + 1; h <= maxHeight; h++ {
		if h > 1 {
			res := a.Net.RunSync(h-1, 200, nil)
			if !res.Reached {
				return 0, false
			}
		}
		a.Net.Fixpoint(50)
		n0 := a.correct()[0]
		rs := n0.CS.GetRoundState()
		if rs.Height != h || rs.Round != 1 {
			continue
		}
		if h >= minHeight && rs.Validators.GetProposer().Address == a.Net.Addrs[a.B] {
			// everybody enters round 1
			for _, n := range a.correct() {
				if n.CS.GetRoundState().Step == cstypes.RoundStepNewHeight {
					a.Net.fire(n)
				}
			}
			ok := true
			for _, n := range a.correct() {
				r := n.CS.GetRoundState()
				if r.Height != h || r.Round != 1 || r.Step != cstypes.RoundStepPropose {
					ok = false
				}
			}
			if ok {
				return h, true
			}
		}
	}
	return 0, false
}

func (a *AttackCtx) sendBlock(n *Node, ab *advBlock, h uint64, r, pol uint32) {
	p := a.Adv.SignProposal(a.B, h, r, pol, ab.bid)
	a.Net.Inject(n, &consensus.ProposalMessage{Proposal: p})
	for i := 0; i < int(ab.parts.Total()); i++ {
		a.Net.Inject(n, &consensus.BlockPartMessage{Height: h, Round: r, Part: ab.parts.GetPart(i)})
	}
}

func (a *AttackCtx) voteAll(typ kproto.SignedMsgType, h uint64, r uint32, bid types.BlockID, to []*Node) {
	for _, n := range to {
		v := a.Adv.SignVote(n, a.B, typ, h, r, bid, ClockNow())
		a.Net.Inject(n, &consensus.VoteMessage{Vote: v})
	}
}

var Attacks = []Attack{
	{"same-header-other-body-to-one-node", func(a *AttackCtx) bool {
		// The adversary proposes block X to all but one node and, to that node, a block with X's header (same
		// hash) but another last commit (other body, other parts, invalid). The others commit X; the singled-out
		// node must fetch the genuine parts and commit X too.
		h, ok := a.toByzProposerRound(2, 7)
		if !ok {
			return false
		}
		ref := a.correct()[0]
		x := a.Adv.MakeBlock(ref, a.B, 0)
		if x == nil {
			return false
		}
		x9 := SameHeaderOtherCommit(x)
		if x9 == nil {
			return false
		}
		nodes := a.correct()
		a.sendBlock(nodes[0], x9, h, 1, 0)
		for _, n := range nodes[1:] {
			a.sendBlock(n, x, h, 1, 0)
		}
		// the singled-out node is cut off while the others decide X with the adversary's help; it then only
		// learns the commit (the precommits), never the polka
		a.Net.Group = make([]int, len(a.Net.Nodes))
		a.Net.Group[nodes[0].Idx] = 1
		a.voteAll(kproto.PrevoteType, h, 1, x.bid, nodes[1:])
		a.voteAll(kproto.PrecommitType, h, 1, x.bid, nodes[1:])
		a.Net.FixpointPartitioned(50)
		a.Net.Group = nil
		a.logf("height %d: X=%s to nodes 1.., same-header variant %s to node %d", h, ShortBID(x.bid), ShortBID(x9.bid), nodes[0].Idx)
		return true
	}},
	{"equivocating-proposer-split-audience", func(a *AttackCtx) bool {
		h, ok := a.toByzProposerRound(1, 6)
		if !ok {
			return false
		}
		ref := a.correct()[0]
		x, y := a.Adv.MakeBlock(ref, a.B, 0), a.Adv.MakeBlock(ref, a.B, 1)
		if x == nil || y == nil {
			return false
		}
		nodes := a.correct()
		half := len(nodes) / 2
		for i, n := range nodes {
			if i < half {
				a.sendBlock(n, x, h, 1, 0)
			} else {
				a.sendBlock(n, y, h, 1, 0)
			}
		}
		// the adversary votes for X towards the first half and for Y towards the second (equivocation)
		a.voteAll(kproto.PrevoteType, h, 1, x.bid, nodes[:half])
		a.voteAll(kproto.PrevoteType, h, 1, y.bid, nodes[half:])
		a.voteAll(kproto.PrecommitType, h, 1, x.bid, nodes[:half])
		a.voteAll(kproto.PrecommitType, h, 1, y.bid, nodes[half:])
		return true
	}},
	{"prevotes-retyped-as-precommits", func(a *AttackCtx) bool {
		// Node A precommits X on a polka; the others do not see the polka, time out and precommit nil; the adversary
		// re-types the others' PREVOTES for X as precommits (original signatures) and shows them to A only.
		nodes := a.correct()
		if len(nodes) < 3 {
			return false
		}
		for _, n := range nodes {
			if n.CS.GetRoundState().Step == cstypes.RoundStepNewHeight {
				a.Net.fire(n)
			}
		}
		A := nodes[0]
		isVote := func(m consensus.Message, typ kproto.SignedMsgType) (*types.Vote, bool) {
			if vm, ok := m.(*consensus.VoteMessage); ok && vm.Vote.Type == typ {
				return vm.Vote, true
			}
			return nil, false
		}
		// phase 1: proposal and parts reach everybody; prevotes reach A only, except that A's prevote reaches nobody
		a.Net.Filter = func(from, to *Node, m consensus.Message) bool {
			if _, ok := isVote(m, kproto.PrecommitType); ok {
				return false
			}
			if _, ok := isVote(m, kproto.PrevoteType); ok {
				return to == A
			}
			return true
		}
		a.Net.Fixpoint(50)
		rs := A.CS.GetRoundState()
		h, r := rs.Height, rs.Round
		if rs.ProposalBlock == nil || rs.LockedBlock == nil {
			// no polka at A yet (the proposer may be the adversary, or A lacks one prevote): help with the adversary's prevote
			if rs.ProposalBlock == nil {
				a.Net.Filter = nil
				return false
			}
			bid := types.BlockID{Hash: rs.ProposalBlock.Hash(), PartsHeader: rs.ProposalBlockParts.Header()}
			a.voteAll(kproto.PrevoteType, h, r, bid, []*Node{A})
			rs = A.CS.GetRoundState()
		}
		if rs.LockedBlock == nil {
			a.Net.Filter = nil
			return false
		}
		bid := types.BlockID{Hash: rs.LockedBlock.Hash(), PartsHeader: rs.LockedBlockParts.Header()}
		// phase 2: the others see each other's prevotes but not A's, plus a nil prevote of the adversary: +2/3 any, no polka
		a.Net.Filter = func(from, to *Node, m consensus.Message) bool {
			if _, ok := isVote(m, kproto.PrecommitType); ok {
				return false
			}
			if v, ok := isVote(m, kproto.PrevoteType); ok {
				return to != A && v.ValidatorAddress != A.Addr
			}
			return true
		}
		a.voteAll(kproto.PrevoteType, h, r, types.BlockID{}, nodes[1:])
		a.Net.Fixpoint(50)
		for _, n := range nodes[1:] {
			if n.CS.GetRoundState().Step == cstypes.RoundStepPrevoteWait {
				a.Net.fire(n) // they precommit nil
			}
		}
		// phase 3: the adversary re-types the others' prevotes for X as precommits and shows them to A only
		n := 0
		for _, v := range votesOf(A.CS.GetRoundState().Votes.Prevotes(r)) {
			if v.ValidatorAddress == A.Addr || !v.BlockID.Equal(bid) {
				continue
			}
			c := v.Copy()
			c.Type = kproto.PrecommitType
			a.Net.Inject(A, &consensus.VoteMessage{Vote: c})
			n++
		}
		a.logf("node %d locked on %s at %d/%d; %d prevotes re-typed as precommits and shown to it; the others precommitted nil", A.Idx, ShortBID(bid), h, r, n)
		// phase 4: A stays cut off from the others' real precommits while they go on (they may decide another block)
		a.Net.Filter = func(from, to *Node, m consensus.Message) bool { return to != A && from != A }
		a.Net.Group = make([]int, len(a.Net.Nodes))
		a.Net.Group[A.Idx] = 1
		for i := 0; i < 12; i++ {
			a.Net.FixpointPartitioned(50)
			// the adversary helps the others to decide quickly: it votes for whatever they propose
			for _, o := range nodes[1:] {
				ors := o.CS.GetRoundState()
				if ors.Height == h && ors.ProposalBlock != nil && ors.Round > r {
					ob := types.BlockID{Hash: ors.ProposalBlock.Hash(), PartsHeader: ors.ProposalBlockParts.Header()}
					a.voteAll(kproto.PrevoteType, h, ors.Round, ob, nodes[1:])
					a.voteAll(kproto.PrecommitType, h, ors.Round, ob, nodes[1:])
				}
			}
			a.Net.FixpointPartitioned(50)
			if nodes[1].BO.Height() >= h {
				break
			}
			fired := false
			for _, o := range nodes[1:] {
				if a.Net.fire(o) {
					fired = true
				}
			}
			if !fired {
				break
			}
		}
		a.Net.Filter = nil
		a.Net.Group = nil
		return n > 0
	}},
	{"amnesia-after-lock", func(a *AttackCtx) bool {
		// The adversary precommits X in round 1 towards one half and then prevotes/precommits another block in
		// round 2 (no POL) towards everybody.
		h, ok := a.toByzProposerRound(1, 6)
		if !ok {
			return false
		}
		ref := a.correct()[0]
		x, y := a.Adv.MakeBlock(ref, a.B, 0), a.Adv.MakeBlock(ref, a.B, 1)
		if x == nil || y == nil {
			return false
		}
		nodes := a.correct()
		for _, n := range nodes {
			a.sendBlock(n, x, h, 1, 0)
		}
		a.voteAll(kproto.PrevoteType, h, 1, x.bid, nodes)
		a.voteAll(kproto.PrecommitType, h, 1, x.bid, nodes[:1])
		a.voteAll(kproto.PrevoteType, h, 2, y.bid, nodes)
		a.voteAll(kproto.PrecommitType, h, 2, y.bid, nodes)
		return true
	}},
	{"votes-for-block-id-differing-in-parts-total", func(a *AttackCtx) bool {
		nodes := a.correct()
		for _, n := range nodes {
			if n.CS.GetRoundState().Step == cstypes.RoundStepNewHeight {
				a.Net.fire(n)
			}
		}
		// only the proposal and its parts travel
		a.Net.Filter = func(from, to *Node, m consensus.Message) bool {
			_, isVote := m.(*consensus.VoteMessage)
			return !isVote
		}
		a.Net.Fixpoint(50)
		a.Net.Filter = nil
		rs := nodes[0].CS.GetRoundState()
		if rs.ProposalBlock == nil {
			return false
		}
		bid := types.BlockID{Hash: rs.ProposalBlock.Hash(), PartsHeader: rs.ProposalBlockParts.Header()}
		bad := bid
		bad.PartsHeader.Total += 3
		a.voteAll(kproto.PrevoteType, rs.Height, rs.Round, bad, nodes)
		a.voteAll(kproto.PrecommitType, rs.Height, rs.Round, bad, nodes)
		a.logf("adversary votes for %s (parts total altered) at %d/%d", ShortBID(bad), rs.Height, rs.Round)
		return true
	}},
	{"late-conflicting-precommits-for-previous-height", func(a *AttackCtx) bool {
		res := a.Net.RunSync(a.Net.MinHeight()+1, 200, nil)
		if !res.Reached {
			return false
		}
		nodes := a.correct()
		h := nodes[0].CS.GetRoundState().Height
		if h < 2 {
			return false
		}
		for r := uint32(1); r <= 2; r++ {
			a.voteAll(kproto.PrecommitType, h-1, r, types.BlockID{}, nodes)
			a.voteAll(kproto.PrecommitType, h-1, r, a.Adv.pickFake(), nodes)
		}
		return true
	}},
}

func (a *Adversary) pickFake() types.BlockID {
	return types.BlockID{Hash: common.BytesToHash([]byte("fake block")), PartsHeader: types.PartSetHeader{Total: 1, Hash: common.BytesToHash([]byte("fake parts"))}}
}
