// Package netsim is the deterministic multi-node simulator (engine E-sim): N real
// ConsensusStates with real block store, block executor, staking application,
// evidence pool and tx pool on recording in-memory databases; every node runs its
// own real receiveRoutine; the harness injects one stimulus at a time and detects
// quiescence with sentinel messages seen by a recording WAL wrapper.
package netsim

import (
	"bytes"
	"fmt"
	"io"
	"os"
	"path/filepath"
	"sync"
	"sync/atomic"
	"time"

	"github.com/kardiachain/go-kardia/consensus"
	"github.com/kardiachain/go-kardia/kai/kaidb"
	"github.com/kardiachain/go-kardia/kai/state/cstate"
	"github.com/kardiachain/go-kardia/lib/common"
	"github.com/kardiachain/go-kardia/lib/log"
	"github.com/kardiachain/go-kardia/mainchain/blockchain"
	stypes "github.com/kardiachain/go-kardia/mainchain/staking/types"
	kproto "github.com/kardiachain/go-kardia/proto/kardiachain/types"
	"github.com/kardiachain/go-kardia/types"
)

// ---------------------------------------------------------------- event trace

type EvKind int

const (
	EvRecv      EvKind = iota // a message picked up by the node's loop (peer or own)
	EvTimeout                 // a timeout picked up by the loop
	EvStep                    // newStep(): round-step entry written to the WAL
	EvEndHeight               // #ENDHEIGHT written
	EvSignVote                // sign request for a vote
	EvSignProp                // sign request for a proposal
	EvSaveBlock               // BlockOperations.SaveBlock
	EvApply                   // CommitAndValidateBlockTxs (block executed and head written)
	EvCreate                  // CreateProposalBlock
	EvWALStop                 // WAL.Stop() (loop terminated)
	EvEvidence                // AddEvidenceFromConsensus
	EvRestart                 // harness marker: node restarted here
)

// Ev is one entry of a node's ordered trace. It is appended from the node's own
// loop goroutine (WAL, signer and block-operation callbacks), so its order is the
// order in which the node consumed inputs and produced outputs.
type Ev struct {
	Seq     int64
	Kind    EvKind
	Msg     consensus.Message
	Own     bool
	Peer    string
	TI      consensus.VerifTimeoutInfo
	Height  uint64
	Round   uint32
	Step    string
	Vote    *kproto.Vote
	Prop    *kproto.Proposal
	Block   *types.Block
	BID     types.BlockID
	Commit  *types.Commit
	AppHash common.Hash
	ValUpd  []*types.Validator
	Err     string
	Ev      types.Evidence
	DurIdx  int // number of durable units written before this event
}

var globalSeq int64

type Trace struct {
	mu  sync.Mutex
	evs []Ev
	dur *DurLog
}

func (t *Trace) add(e Ev) {
	e.Seq = atomic.AddInt64(&globalSeq, 1)
	if t.dur != nil {
		e.DurIdx = t.dur.Len()
	}
	t.mu.Lock()
	t.evs = append(t.evs, e)
	t.mu.Unlock()
}

func (t *Trace) Len() int { t.mu.Lock(); defer t.mu.Unlock(); return len(t.evs) }

// Since returns the events from index i on (a copy of the slice header is enough:
// entries are never modified after they are appended).
func (t *Trace) Since(i int) []Ev {
	t.mu.Lock()
	defer t.mu.Unlock()
	if i >= len(t.evs) {
		return nil
	}
	return t.evs[i:len(t.evs):len(t.evs)]
}

// ---------------------------------------------------------------- durable log

type DBOp struct {
	Del  bool
	K, V []byte
}

// DurEv is one durable unit: a DB put/delete/batch (atomic) or a WAL fsync.
type DurEv struct {
	Kind     string // "db" | "walsync"
	Ops      []DBOp
	WalSize  int64            // for walsync: size of the WAL head file after the sync
	WalFiles map[string]int64 // for walsync: size of every file of the WAL group after the sync (rotation)
	Desc     string
}

type DurLog struct {
	mu  sync.Mutex
	evs []DurEv
}

func (l *DurLog) add(e DurEv) { l.mu.Lock(); l.evs = append(l.evs, e); l.mu.Unlock() }
func (l *DurLog) Len() int    { l.mu.Lock(); defer l.mu.Unlock(); return len(l.evs) }
func (l *DurLog) Snapshot() []DurEv {
	l.mu.Lock()
	defer l.mu.Unlock()
	return append([]DurEv(nil), l.evs...)
}

// KeyKind classifies a database key by its schema prefix (for crash-window keys).
func KeyKind(k []byte) string {
	s := string(k)
	for _, p := range []string{"ConsensusStateH", "ConsensusState", "ConsensusValSetAtHeight", "ConsensusValidatorsInfo", "ConsensusParamsInfo",
		"LastBlock", "LastHeader", "evidence", "secure-key-", "SnapshotRoot", "SnapshotJournal", "SnapshotGenerator", "SnapshotRecovery"} {
		if len(s) >= len(p) && s[:len(p)] == p {
			return p
		}
	}
	if len(k) == 32 {
		return "trie-node"
	}
	if len(s) > 0 {
		// single-letter / short prefixes of rawdb
		n := 1
		for n < len(s) && n < 12 && ((s[n] >= 'a' && s[n] <= 'z') || (s[n] >= 'A' && s[n] <= 'Z') || s[n] == '-') {
			n++
		}
		return fmt.Sprintf("%q", s[:n])
	}
	return "empty"
}

// RecDB records every Put, Delete and batch Write as one durable unit.
type RecDB struct {
	kaidb.Database
	Log *DurLog
}

func cp(b []byte) []byte { return append([]byte{}, b...) }

func (d *RecDB) Put(k, v []byte) error {
	d.Log.add(DurEv{Kind: "db", Ops: []DBOp{{false, cp(k), cp(v)}}, Desc: "put " + KeyKind(k)})
	return d.Database.Put(k, v)
}
func (d *RecDB) Delete(k []byte) error {
	d.Log.add(DurEv{Kind: "db", Ops: []DBOp{{true, cp(k), nil}}, Desc: "del " + KeyKind(k)})
	return d.Database.Delete(k)
}
func (d *RecDB) NewBatch() kaidb.Batch { return &recBatch{Batch: d.Database.NewBatch(), d: d} }

type recBatch struct {
	kaidb.Batch
	d   *RecDB
	ops []DBOp
}

func (b *recBatch) Put(k, v []byte) error {
	b.ops = append(b.ops, DBOp{false, cp(k), cp(v)})
	return b.Batch.Put(k, v)
}
func (b *recBatch) Delete(k []byte) error {
	b.ops = append(b.ops, DBOp{true, cp(k), nil})
	return b.Batch.Delete(k)
}
func (b *recBatch) Write() error {
	if len(b.ops) > 0 {
		kinds := map[string]bool{}
		desc := "batch"
		for _, o := range b.ops {
			k := KeyKind(o.K)
			if !kinds[k] && len(kinds) < 6 {
				kinds[k] = true
				desc += " " + k
			}
		}
		b.d.Log.add(DurEv{Kind: "db", Ops: b.ops, Desc: desc})
	}
	b.ops = nil
	return b.Batch.Write()
}
func (b *recBatch) Reset() { b.ops = nil; b.Batch.Reset() }

// ---------------------------------------------------------------- sentinel + WALs

// Sentinel is a harness-defined consensus.Message used to detect quiescence.
type Sentinel struct{ N int }

func (Sentinel) ValidateBasic() error { return nil }

// memWAL is an in-memory WAL built on the real encoder/decoder (used where no
// crash images are needed; restarts replay it through the real decoder).
type memWAL struct {
	mu  sync.Mutex
	buf bytes.Buffer
}

func newMemWAL() *memWAL {
	w := &memWAL{}
	w.Write(consensus.EndHeightMessage{Height: 0})
	return w
}

func (w *memWAL) Write(m consensus.WALMessage) error {
	w.mu.Lock()
	defer w.mu.Unlock()
	return consensus.NewWALEncoder(&w.buf).Encode(&consensus.TimedWALMessage{Time: time.Unix(1700000000, 0).UTC(), Msg: m})
}
func (w *memWAL) WriteSync(m consensus.WALMessage) error { return w.Write(m) }
func (w *memWAL) FlushAndSync() error                    { return nil }
func (w *memWAL) Start() error                           { return nil }
func (w *memWAL) Stop() error                            { return nil }
func (w *memWAL) Wait()                                  {}
func (w *memWAL) SearchForEndHeight(height int64, o *consensus.WALSearchOptions) (io.ReadCloser, bool, error) {
	w.mu.Lock()
	data := append([]byte(nil), w.buf.Bytes()...)
	w.mu.Unlock()
	// last occurrence wins, as in the file WAL (it scans files backwards but the marker is unique per height)
	rd := bytes.NewReader(data)
	dec := consensus.NewWALDecoder(rd)
	for {
		msg, err := dec.Decode()
		if err == io.EOF {
			return nil, false, nil
		}
		if err != nil {
			if o != nil && o.IgnoreDataCorruptionErrors && consensus.IsDataCorruptionError(err) {
				continue
			}
			return nil, false, err
		}
		if m, ok := msg.Msg.(consensus.EndHeightMessage); ok && m.Height == height {
			rest, _ := io.ReadAll(rd)
			return io.NopCloser(bytes.NewReader(rest)), true, nil
		}
	}
}

// RecWAL wraps the node's WAL: it records everything the loop consumes, hides
// sentinels from the inner WAL, and logs every fsync as a durable unit.
type RecWAL struct {
	inner       consensus.WAL
	path        string // head file of a file WAL ("" for memWAL)
	tr          *Trace
	dur         *DurLog
	seen        chan int
	mu          sync.Mutex
	internal    int  // own (internal-queue) messages seen since the counter was reset
	stopped     bool // Stop() called
	harnessStop bool
}

func (w *RecWAL) syncPoint(desc string) {
	if w.dur == nil {
		return
	}
	var sz int64 = -1
	var files map[string]int64
	if w.path != "" {
		if fi, err := os.Stat(w.path); err == nil {
			sz = fi.Size()
		}
		if ents, err := os.ReadDir(filepath.Dir(w.path)); err == nil && len(ents) > 1 {
			files = map[string]int64{}
			for _, e := range ents {
				if fi, err := e.Info(); err == nil && !e.IsDir() {
					files[e.Name()] = fi.Size()
				}
			}
		}
	}
	w.dur.add(DurEv{Kind: "walsync", WalSize: sz, WalFiles: files, Desc: desc})
}

func (w *RecWAL) record(m consensus.WALMessage, own bool) {
	switch x := m.(type) {
	case consensus.VerifMsgInfo:
		w.tr.add(Ev{Kind: EvRecv, Msg: x.Msg, Peer: string(x.PeerID), Own: x.PeerID == ""})
	case consensus.VerifTimeoutInfo:
		w.tr.add(Ev{Kind: EvTimeout, TI: x, Height: x.Height, Round: x.Round})
	case types.EventDataRoundState:
		w.tr.add(Ev{Kind: EvStep, Height: x.Height, Round: x.Round, Step: x.Step})
	case consensus.EndHeightMessage:
		w.tr.add(Ev{Kind: EvEndHeight, Height: uint64(x.Height)})
	}
}

func (w *RecWAL) Write(m consensus.WALMessage) error {
	if mi, ok := m.(consensus.VerifMsgInfo); ok {
		if s, ok := mi.Msg.(Sentinel); ok {
			w.seen <- s.N
			return nil
		}
	}
	err := w.inner.Write(m)
	w.record(m, false)
	return err
}

func (w *RecWAL) WriteSync(m consensus.WALMessage) error {
	w.mu.Lock()
	w.internal++
	w.mu.Unlock()
	err := w.inner.WriteSync(m)
	desc := fmt.Sprintf("walsync %T", m)
	if mi, ok := m.(consensus.VerifMsgInfo); ok {
		desc = fmt.Sprintf("walsync own %T", mi.Msg)
	}
	// the durable unit is logged BEFORE the trace entry, so that "published" (trace entry present with
	// DurIdx > index of its sync) means the fsync had returned
	w.syncPoint(desc)
	w.record(m, true)
	return err
}

func (w *RecWAL) FlushAndSync() error {
	err := w.inner.FlushAndSync()
	w.syncPoint("walsync flush")
	return err
}
func (w *RecWAL) SearchForEndHeight(h int64, o *consensus.WALSearchOptions) (io.ReadCloser, bool, error) {
	return w.inner.SearchForEndHeight(h, o)
}
func (w *RecWAL) Start() error { return w.inner.Start() }
func (w *RecWAL) Stop() error {
	w.mu.Lock()
	w.stopped = true
	hs := w.harnessStop
	w.mu.Unlock()
	if !hs {
		w.tr.add(Ev{Kind: EvWALStop})
	}
	return w.inner.Stop()
}
func (w *RecWAL) Wait() { w.inner.Wait() }

// ---------------------------------------------------------------- signer

// RecPV logs every sign request (the content to be signed, before signing).
type RecPV struct {
	types.PrivValidator
	tr *Trace
}

func (p *RecPV) SignVote(chainID string, v *kproto.Vote) error {
	c := *v
	p.tr.add(Ev{Kind: EvSignVote, Vote: &c, Height: v.Height, Round: v.Round})
	return p.PrivValidator.SignVote(chainID, v)
}
func (p *RecPV) SignProposal(chainID string, v *kproto.Proposal) error {
	c := *v
	p.tr.add(Ev{Kind: EvSignProp, Prop: &c, Height: v.Height, Round: v.Round})
	return p.PrivValidator.SignProposal(chainID, v)
}

// ---------------------------------------------------------------- virtual ticker

// VTicker implements consensus.TimeoutTicker in virtual time: it keeps the
// timeout that the real ticker would have armed (same "ignore older
// height/round/step" filter, reference = last armed timeout, fired or not); the
// scheduler decides when it fires.
type VTicker struct {
	mu       sync.Mutex
	last     consensus.VerifTimeoutInfo
	pending  bool
	deadline time.Time // virtual time at which the armed timeout expires
	ch       chan consensus.VerifTimeoutInfo
	started  bool // Start() was called: the real ticker's routine reads the schedule channel from then on
	queued   int  // schedules made before Start (the real schedule channel buffers TickerBuffer of them)
}

// TickerBuffer is the capacity of the real ticker's schedule channel (consensus/ticker.go tickTockBufferSize): a
// ScheduleTimeout call made before Start, with that many already queued, blocks forever in the real ticker.
const TickerBuffer = 10

// ErrTickerWouldBlock is the panic value of a schedule the real ticker would never return from.
const ErrTickerWouldBlock = "ScheduleTimeout before the ticker was started with 10 timeouts already queued: the real ticker blocks forever here (its schedule channel is full and its routine is not running)"

func NewVTicker() *VTicker {
	t := &VTicker{ch: make(chan consensus.VerifTimeoutInfo, 1)}
	t.last = *consensus.EmptyTimeoutInfo()
	return t
}
func (t *VTicker) Start() error {
	t.mu.Lock()
	t.started = true
	t.mu.Unlock()
	return nil
}
func (t *VTicker) Stop() error                             { return nil }
func (t *VTicker) Chan() <-chan consensus.VerifTimeoutInfo { return t.ch }
func (t *VTicker) SetLogger(log.Logger)                    {}
func (t *VTicker) ScheduleTimeout(ti consensus.VerifTimeoutInfo) {
	t.mu.Lock()
	defer t.mu.Unlock()
	if !t.started {
		t.queued++
		if t.queued > TickerBuffer {
			panic(ErrTickerWouldBlock)
		}
	}
	p := t.last
	if ti.Height < p.Height {
		return
	} else if ti.Height == p.Height {
		if ti.Round < p.Round {
			return
		} else if ti.Round == p.Round {
			if p.Step > 0 && ti.Step <= p.Step {
				return
			}
		}
	}
	t.last = ti
	t.pending = true
	t.deadline = ClockNow().Add(ti.Duration)
}

// Deadline returns the virtual expiry time of the armed timeout.
func (t *VTicker) Deadline() (time.Time, bool) {
	t.mu.Lock()
	defer t.mu.Unlock()
	return t.deadline, t.pending
}

// Pending returns the armed timeout, if any.
func (t *VTicker) Pending() (consensus.VerifTimeoutInfo, bool) {
	t.mu.Lock()
	defer t.mu.Unlock()
	return t.last, t.pending
}
func (t *VTicker) take() (consensus.VerifTimeoutInfo, bool) {
	t.mu.Lock()
	defer t.mu.Unlock()
	p := t.pending
	t.pending = false
	return t.last, p
}

// ---------------------------------------------------------------- block operations

// ValSchedule scripts validator-set changes by height (same on every node): it
// receives the full validator list the application returned for that block and
// may return a modified list.
type ValSchedule func(height uint64, appVals []*types.Validator) []*types.Validator

// RecBO wraps the real BlockOperations (consensus.BaseBlockOperations and
// cstate.BlockStore) and logs SaveBlock / CreateProposalBlock / block execution.
type RecBO struct {
	*blockchain.BlockOperations
	tr    *Trace
	sched ValSchedule
}

func (b *RecBO) SaveBlock(block *types.Block, ps *types.PartSet, seen *types.Commit) {
	b.tr.add(Ev{Kind: EvSaveBlock, Height: block.Height(), Block: block, BID: types.BlockID{Hash: block.Hash(), PartsHeader: ps.Header()}, Commit: seen})
	b.BlockOperations.SaveBlock(block, ps, seen)
}

func (b *RecBO) CreateProposalBlock(height uint64, st cstate.LatestBlockState, proposer common.Address, commit *types.Commit) (*types.Block, *types.PartSet) {
	blk, ps := b.BlockOperations.CreateProposalBlock(height, st, proposer, commit)
	if blk != nil {
		b.tr.add(Ev{Kind: EvCreate, Height: height, Block: blk, BID: types.BlockID{Hash: blk.Hash(), PartsHeader: ps.Header()}})
	}
	return blk, ps
}

func (b *RecBO) CommitAndValidateBlockTxs(block *types.Block, lc stypes.LastCommitInfo, byz []stypes.Evidence) ([]*types.Validator, common.Hash, error) {
	vals, root, err := b.BlockOperations.CommitAndValidateBlockTxs(block, lc, byz)
	if err == nil && b.sched != nil {
		vals = b.sched(block.Height(), vals)
	}
	e := Ev{Kind: EvApply, Height: block.Height(), Block: block, AppHash: root, ValUpd: vals}
	if err != nil {
		e.Err = err.Error()
	}
	b.tr.add(e)
	return vals, root, err
}

// RecEvPool logs evidence created by consensus.
type RecEvPool struct {
	inner interface {
		AddEvidenceFromConsensus(ev types.Evidence) error
	}
	tr *Trace
}

func (p *RecEvPool) AddEvidenceFromConsensus(ev types.Evidence) error {
	err := p.inner.AddEvidenceFromConsensus(ev)
	e := Ev{Kind: EvEvidence, Ev: ev}
	if dve, ok := ev.(*types.DuplicateVoteEvidence); ok && dve != nil {
		e.Height = dve.Height()
	} else {
		e.Ev = nil
		e.Err = "nil evidence from consensus"
	}
	if err != nil {
		e.Err = err.Error()
	}
	p.tr.add(e)
	return err
}
