package netsim

import (
	"fmt"
	"math/rand"
)

// Config of one simulated case.
type CaseCfg struct {
	N      int
	Powers []int64
	Byz    []int
	Label  string
}

// PowerVectors returns the power vectors used for n validators.
func PowerVectors(n int) [][]int64 {
	eq := make([]int64, n)
	for i := range eq {
		eq[i] = 20
	}
	out := [][]int64{eq}
	if n >= 2 {
		sk := make([]int64, n)
		for i := range sk {
			sk[i] = int64(20 + i*30)
		}
		out = append(out, sk)
	}
	if n >= 4 {
		// one validator just under 1/3: p/(p+rest) < 1/3  => rest = 2p+1
		j := make([]int64, n)
		rest := int64(n - 1)
		for i := 1; i < n; i++ {
			j[i] = 70
		}
		rest = 70 * int64(n-1)
		j[0] = (rest - 1) / 2
		out = append(out, j)
		// total divisible by 3
		d := make([]int64, n)
		for i := range d {
			d[i] = 30
		}
		d[0] = 60
		if (int64(n)*3+3)%3 == 0 {
			out = append(out, d)
		}
	}
	return out
}

// ByzSubsets returns all subsets of validator indices with total power strictly below 1/3.
func ByzSubsets(powers []int64) [][]int {
	n := len(powers)
	var total int64
	for _, p := range powers {
		total += p
	}
	var out [][]int
	for mask := 0; mask < 1<<uint(n); mask++ {
		var s int64
		var idx []int
		for i := 0; i < n; i++ {
			if mask&(1<<uint(i)) != 0 {
				s += powers[i]
				idx = append(idx, i)
			}
		}
		if s*3 < total && len(idx) < n {
			out = append(out, idx)
		}
	}
	return out
}

// RandomCfg draws a configuration: validator count, power vector, adversary set.
func RandomCfg(r *rand.Rand, maxN int) CaseCfg {
	ns := []int{1, 2, 3, 4, 4, 4, 5, 5, 7}
	n := ns[r.Intn(len(ns))]
	for n > maxN {
		n = ns[r.Intn(len(ns))]
	}
	pvs := PowerVectors(n)
	pi := r.Intn(len(pvs))
	p := pvs[pi]
	subs := ByzSubsets(p)
	// prefer non-empty adversary sets with as much power as allowed
	var byz []int
	if len(subs) > 1 && r.Intn(5) != 0 {
		byz = subs[1+r.Intn(len(subs)-1)]
	}
	return CaseCfg{N: n, Powers: p, Byz: byz, Label: fmt.Sprintf("n=%d pv=%d byz=%v", n, pi, byz)}
}
