package netsim

import (
	"fmt"
	"time"

	"github.com/kardiachain/go-kardia/consensus"
	cstypes "github.com/kardiachain/go-kardia/consensus/types"

	"verifharness/core"
)

// TickerCase drives the REAL consensus timeout ticker with a generated sequence of ScheduleTimeout calls and
// compares what it fires with the virtual ticker the simulator uses (same sequence): a schedule for a later
// height/round/step must be armed and fire, an older or equal one must be ignored. This both validates the
// simulator's ticker model (trusted base of C04) and catches defects of the real ticker that the simulator,
// which substitutes its own ticker, cannot see.
// Wall-clock is used only to wait: "must fire" waits up to 60 s for a 1 ms timer (a timeout of the wait is a
// violation only then); "must be ignored" is judged by an arrival, never by its absence.
func TickerCase(c *core.Case) {
	r, run := c.R, c.Run
	real := consensus.NewTimeoutTicker()
	real.Start()
	defer real.Stop()
	model := NewVTicker()
	h, rd, st := uint64(1), uint32(1), cstypes.RoundStepNewHeight
	var script []string
	steps := 12 + r.Intn(25)
	for i := 0; i < steps; i++ {
		// next schedule: mostly forward along the protocol's own order, sometimes stale
		nh, nr, ns := h, rd, st
		switch x := r.Intn(10); {
		case x < 4: // next step in the round
			if ns < cstypes.RoundStepPrecommitWait {
				ns++
			} else {
				nr, ns = nr+1, cstypes.RoundStepPropose // round ended through precommit-wait: propose of the next round
			}
		case x < 6: // next round, some step
			nr, ns = nr+1, []cstypes.RoundStepType{cstypes.RoundStepNewRound, cstypes.RoundStepPropose, cstypes.RoundStepPrevoteWait, cstypes.RoundStepPrecommitWait}[r.Intn(4)]
		case x < 7: // next height
			nh, nr, ns = nh+1, 1, cstypes.RoundStepNewHeight
		case x < 8: // stale: earlier step of the same round
			if ns > cstypes.RoundStepNewHeight {
				ns = cstypes.RoundStepType(1 + r.Intn(int(ns)))
			}
		case x < 9: // stale: earlier round
			if nr > 1 {
				nr--
				ns = cstypes.RoundStepPrecommitWait
			}
		default: // stale: earlier height
			if nh > 1 {
				nh--
			}
		}
		ti := consensus.VerifTimeoutInfo{Duration: time.Millisecond, Height: nh, Round: nr, Step: ns}
		before, _ := model.Pending()
		model.take()
		model.ScheduleTimeout(ti)
		after, armed := model.Pending()
		_ = before
		real.ScheduleTimeout(ti)
		run.Eval(1)
		desc := fmt.Sprintf("%d/%d/%v", nh, nr, ns)
		if armed && after == ti {
			script = append(script, "schedule "+desc+" -> must fire")
			select {
			case got := <-real.Chan():
				if got.Height != nh || got.Round != nr || got.Step != ns {
					c.Violation("ticker:fired-another-timeout", fmt.Sprintf("scheduled %s, the ticker fired %d/%d/%v", desc, got.Height, got.Round, got.Step), script)
					return
				}
				run.Count("ticker_timeouts_fired_as_expected", 1)
			case <-time.After(60 * time.Second):
				c.Violation("ticker:later-timeout-not-armed", fmt.Sprintf("a timeout for %s, later than everything scheduled before, never fired (1 ms timer, waited 60 s)", desc), script)
				return
			}
			h, rd, st = nh, nr, ns
		} else {
			script = append(script, "schedule "+desc+" -> must be ignored")
			select {
			case got := <-real.Chan():
				c.Violation("ticker:stale-timeout-fired", fmt.Sprintf("a stale schedule for %s made the ticker fire %d/%d/%v", desc, got.Height, got.Round, got.Step), script)
				return
			case <-time.After(30 * time.Millisecond):
				run.Count("ticker_stale_schedules_ignored", 1)
			}
		}
	}
	run.Nontrivial(fmt.Sprint("ticker", c.I, len(script)))
	if c.I == 0 {
		run.Sample(map[string]interface{}{"ticker_script": script})
	}
}
