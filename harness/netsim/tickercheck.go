package netsim

import (
	"fmt"
	"time"

	"github.com/kardiachain/go-kardia/consensus"
	cstypes "github.com/kardiachain/go-kardia/consensus/types"

	"verifharness/core"
)

// TickerCase drives the REAL consensus timeout ticker with a generated sequence of ScheduleTimeout calls and
// compares what it fires with the virtual ticker the simulator uses (same sequence). What liveness needs from the
// ticker is judged: a schedule for a later height/round/step than everything before must fire unless an even later
// one supersedes it - also when a stale schedule arrives while it is pending - and the ticker must not fire a
// timeout nobody scheduled. A STALE timeout that fires (an older schedule, or the ticker's initial empty value: the
// constructor's time.NewTimer(0) + Stop can leave one tick behind) is counted, not judged: handleTimeout ignores
// timeouts older than the state, so they cannot hurt the property. This both validates the simulator's ticker model
// (trusted base of C04) and catches defects of the real ticker that the simulator, which substitutes its own
// ticker, cannot see.
// Wall-clock is used only to wait: "must fire" waits up to 60 s for a 1 ms / 150 ms timer and only the expiry of
// that wait is a violation; nothing is concluded from the absence of an event within a short time.
func TickerCase(c *core.Case) {
	r, run := c.R, c.Run
	real := consensus.NewTimeoutTicker()
	real.Start()
	defer real.Stop()
	model := NewVTicker()
	model.Start()
	h, rd, st := uint64(1), uint32(1), cstypes.RoundStepNewHeight
	var script []string
	empty := *consensus.EmptyTimeoutInfo()
	scheduled := map[string]bool{}
	id := func(t consensus.VerifTimeoutInfo) string { return fmt.Sprintf("%d/%d/%v", t.Height, t.Round, t.Step) }
	older := func(a, b consensus.VerifTimeoutInfo) bool { // a strictly before b
		if a.Height != b.Height {
			return a.Height < b.Height
		}
		if a.Round != b.Round {
			return a.Round < b.Round
		}
		return a.Step < b.Step
	}
	// expect waits until the real ticker fires want; stale timeouts are skipped (counted), others are violations
	expect := func(want consensus.VerifTimeoutInfo, key, why string) bool {
		deadline := time.After(60 * time.Second)
		for {
			select {
			case got := <-real.Chan():
				if got.Height == want.Height && got.Round == want.Round && got.Step == want.Step {
					run.Count("ticker_timeouts_fired_as_expected", 1)
					return true
				}
				g := consensus.VerifTimeoutInfo{Height: got.Height, Round: got.Round, Step: got.Step}
				if (scheduled[id(g)] || id(g) == id(empty)) && older(g, want) {
					run.Count("ticker_stale_timeouts_fired_not_judged", 1)
					if id(g) == id(empty) {
						run.Count("ticker_initial_empty_timeout_fired", 1)
					}
					script = append(script, "  (stale timeout "+id(g)+" fired: the state machine ignores it)")
					continue
				}
				c.Violation("ticker:fired-unscheduled-timeout", fmt.Sprintf("waiting for %s the ticker fired %s, which was never scheduled or is later than everything scheduled", id(want), id(g)), script)
				return false
			case <-deadline:
				c.Violation(key, fmt.Sprintf("a timeout for %s %s never fired (waited 60 s)", id(want), why), script)
				return false
			}
		}
	}
	next := func() (uint64, uint32, cstypes.RoundStepType) {
		nh, nr, ns := h, rd, st
		switch x := r.Intn(10); {
		case x < 4: // next step in the round
			if ns < cstypes.RoundStepPrecommitWait {
				ns++
			} else {
				nr, ns = nr+1, cstypes.RoundStepPropose // round ended through precommit-wait: propose of the next round
			}
		case x < 6: // next round, some step
			nr, ns = nr+1, []cstypes.RoundStepType{cstypes.RoundStepNewRound, cstypes.RoundStepPropose, cstypes.RoundStepPrevoteWait, cstypes.RoundStepPrecommitWait}[r.Intn(4)]
		case x < 7: // next height
			nh, nr, ns = nh+1, 1, cstypes.RoundStepNewHeight
		case x < 8: // stale: earlier step of the same round
			if ns > cstypes.RoundStepNewHeight {
				ns = cstypes.RoundStepType(1 + r.Intn(int(ns)))
			}
		case x < 9: // stale: earlier round
			if nr > 1 {
				nr--
				ns = cstypes.RoundStepPrecommitWait
			}
		default: // stale: earlier height
			if nh > 1 {
				nh--
			}
		}
		return nh, nr, ns
	}
	sched := func(ti consensus.VerifTimeoutInfo) (armed bool) {
		model.ScheduleTimeout(ti)
		p, ok := model.Pending()
		armed = ok && p.Height == ti.Height && p.Round == ti.Round && p.Step == ti.Step && p.Duration == ti.Duration
		scheduled[id(ti)] = true
		real.ScheduleTimeout(ti)
		run.Eval(1)
		return armed
	}
	steps := 12 + r.Intn(25)
	for i := 0; i < steps; i++ {
		nh, nr, ns := next()
		mode := r.Intn(4)
		dur := time.Millisecond
		if mode >= 2 {
			dur = 150 * time.Millisecond // stays pending while the next schedule arrives
		}
		ti := consensus.VerifTimeoutInfo{Duration: dur, Height: nh, Round: nr, Step: ns}
		model.take() // whatever was pending has fired (we waited for it) or is superseded below
		if !sched(ti) {
			script = append(script, "schedule "+id(ti)+" (stale: the model ignores it)")
			run.Count("ticker_stale_schedules", 1)
			continue
		}
		h, rd, st = nh, nr, ns
		switch {
		case mode < 2:
			script = append(script, "schedule "+id(ti)+" -> must fire")
			if !expect(ti, "ticker:later-timeout-not-armed", "later than everything scheduled before") {
				return
			}
		case mode == 2:
			// a stale schedule arrives while ti is pending: ti must still fire
			sh, sr, ss := h, rd, st
			switch r.Intn(3) {
			case 0:
				if ss > cstypes.RoundStepNewHeight {
					ss = cstypes.RoundStepType(1 + r.Intn(int(ss)-1+1))
					if ss >= st {
						ss = st - 1
					}
				}
			case 1:
				if sr > 1 {
					sr--
					ss = cstypes.RoundStepPrecommitWait
				}
			default:
				if sh > 1 {
					sh--
					sr = rd + 1
				}
			}
			stale := consensus.VerifTimeoutInfo{Duration: time.Millisecond, Height: sh, Round: sr, Step: ss}
			if sched(stale) {
				// not stale after all (nothing earlier exists at the start): it superseded ti
				script = append(script, "schedule "+id(ti)+" (150 ms), then "+id(stale)+" -> the second must fire")
				h, rd, st = sh, sr, ss
				if !expect(stale, "ticker:later-timeout-not-armed", "later than everything scheduled before") {
					return
				}
				break
			}
			script = append(script, "schedule "+id(ti)+" (150 ms), then stale "+id(stale)+" while it is pending -> the first must still fire")
			run.Count("ticker_stale_schedules_while_pending", 1)
			if !expect(ti, "ticker:pending-timeout-lost-after-stale-schedule", "pending when a stale schedule arrived,") {
				return
			}
		default:
			// a later schedule supersedes the pending one
			lh, lr, ls := h, rd+1, cstypes.RoundStepPropose
			if r.Intn(3) == 0 {
				lh, lr, ls = h+1, 1, cstypes.RoundStepNewHeight
			} else if st < cstypes.RoundStepPrecommitWait && r.Intn(2) == 0 {
				lh, lr, ls = h, rd, st+1
			}
			later := consensus.VerifTimeoutInfo{Duration: time.Millisecond, Height: lh, Round: lr, Step: ls}
			model.take()
			if !sched(later) {
				run.Inconclusive("ticker model ignored a later schedule " + id(later) + " after " + id(ti))
				return
			}
			script = append(script, "schedule "+id(ti)+" (150 ms), then later "+id(later)+" -> the later one must fire")
			run.Count("ticker_pending_superseded", 1)
			h, rd, st = lh, lr, ls
			if !expect(later, "ticker:later-timeout-not-armed", "superseding a pending earlier one,") {
				return
			}
		}
	}
	run.Nontrivial(fmt.Sprint("ticker", c.I, len(script)))
	if c.I == 0 {
		run.Sample(map[string]interface{}{"ticker_script": script})
	}
}
