package netsim

import (
	"crypto/ecdsa"
	"fmt"
	"math/big"
	"os"
	"path/filepath"
	"sync"
	"time"

	"github.com/kardiachain/go-kardia/configs"
	"github.com/kardiachain/go-kardia/consensus"
	"github.com/kardiachain/go-kardia/kai/kaidb"
	"github.com/kardiachain/go-kardia/kai/kaidb/memorydb"
	"github.com/kardiachain/go-kardia/kai/state/cstate"
	"github.com/kardiachain/go-kardia/lib/autofile"
	"github.com/kardiachain/go-kardia/lib/common"
	"github.com/kardiachain/go-kardia/lib/crypto"
	"github.com/kardiachain/go-kardia/lib/log"
	"github.com/kardiachain/go-kardia/lib/p2p"
	"github.com/kardiachain/go-kardia/mainchain/blockchain"
	"github.com/kardiachain/go-kardia/mainchain/genesis"
	"github.com/kardiachain/go-kardia/mainchain/staking"
	"github.com/kardiachain/go-kardia/mainchain/tx_pool"
	"github.com/kardiachain/go-kardia/types"
	"github.com/kardiachain/go-kardia/types/evidence"
	ktime "github.com/kardiachain/go-kardia/types/time"
)

// ---------------------------------------------------------------- virtual clock

var clockMu sync.Mutex
var clockNow time.Time

// InstallClock installs the virtual clock: every reading advances it by 1 us (so that timeout durations, not activity, order the deadlines),
// so block times, vote times and evidence expiry are functions of the schedule.
func InstallClock(start time.Time) {
	clockMu.Lock()
	clockNow = start
	clockMu.Unlock()
	ktime.VerifSetNow(func() time.Time {
		clockMu.Lock()
		defer clockMu.Unlock()
		clockNow = clockNow.Add(time.Microsecond)
		return clockNow
	})
}

// AdvanceClock moves the virtual clock forward.
func AdvanceClock(d time.Duration) {
	clockMu.Lock()
	clockNow = clockNow.Add(d)
	clockMu.Unlock()
}

func ClockNow() time.Time { clockMu.Lock(); defer clockMu.Unlock(); return clockNow }

// ---------------------------------------------------------------- genesis

var genesisOnce sync.Once

func initContracts() {
	genesisOnce.Do(func() {
		configs.AddDefaultContract()
		for key, contract := range configs.GetContracts() {
			configs.LoadGenesisContract(key, contract.Address, contract.ByteCode, contract.ABI)
		}
	})
}

// Key returns the deterministic key of validator/account i.
func Key(i int) *ecdsa.PrivateKey {
	k, err := crypto.ToECDSA(common.Hex2Bytes(fmt.Sprintf("%064x", 0x1000+i)))
	if err != nil {
		panic(err)
	}
	return k
}

func Addr(k *ecdsa.PrivateKey) common.Address { return crypto.PubkeyToAddress(k.PublicKey) }

// PowerUnit: the staking contract demands a minimal self delegation of 1e25 wei,
// i.e. a voting power of 1e15 (PowerReduction is 1e10). A validator with weight w
// (w >= 10) gets self delegation w*1e24 wei and voting power w*PowerUnit.
const PowerUnit = int64(100000000000000)

// MakeGenesis builds a genesis with the staking contracts and one validator per
// key whose voting power is powers[i]*PowerUnit.
func MakeGenesis(keys []*ecdsa.PrivateKey, powers []int64, chainID string, params func(*genesis.Genesis)) *genesis.Genesis {
	initContracts()
	initValue, _ := big.NewInt(0).SetString("1000000000000000000000000000000", 10)
	alloc := map[string]*big.Int{}
	var vals []*genesis.GenesisValidator
	for i, k := range keys {
		addr := Addr(k)
		alloc[addr.Hex()] = initValue
		self := new(big.Int).Mul(big.NewInt(powers[i]), new(big.Int).Mul(big.NewInt(PowerUnit), configs.PowerReduction))
		vals = append(vals, &genesis.GenesisValidator{Name: fmt.Sprintf("validator-%02d-padding-to-32-bytes-xxxxxxxxxxxx", i), Address: addr.Hex(),
			CommissionRate: "100000000000000000", MaxRate: "250000000000000000", MaxChangeRate: "50000000000000000",
			SelfDelegate: self.String(), StartWithGenesis: true})
	}
	g := genesis.DefaulTestnetFullGenesisBlock(alloc, map[string]string{})
	g.ChainID = chainID
	g.Validators = vals
	g.Timestamp = time.Unix(1700000000, 0).UTC()
	g.ConsensusParams = configs.TestConsensusParams()
	if params != nil {
		params(g)
	}
	return g
}

// ---------------------------------------------------------------- node

type NodeOpts struct {
	Cache        *blockchain.CacheConfig
	FileWAL      bool // real BaseWAL on disk (needed for crash images); otherwise in-memory WAL on the real codec
	Dir          string
	Sched        ValSchedule
	Config       func(*configs.ConsensusConfig)
	RecordDB     bool        // record durable units (C05)
	NoKey        bool        // observer (no validator key)
	WALHeadLimit int64       // file WAL: head size limit (forces rotation; checked deterministically by CheckWALRotation)
	MemWAL       interface{} // in-memory WAL to reuse across a clean restart (internal)
	PoolCfg      *tx_pool.TxPoolConfig
}

type Node struct {
	Idx                    int
	Key                    *ecdsa.PrivateKey
	Addr                   common.Address
	Gen                    *genesis.Genesis
	Opts                   NodeOpts
	Base                   kaidb.Database // underlying store (survives restarts)
	DB                     kaidb.Database // what the node uses (RecDB when recording)
	Dur                    *DurLog
	Tr                     *Trace
	BC                     *blockchain.BlockChain
	Pool                   *tx_pool.TxPool
	Store                  cstate.Store
	EvPool                 *evidence.Pool
	BO                     *RecBO
	Exec                   *cstate.BlockExecutor
	CS                     *consensus.ConsensusState
	WAL                    *RecWAL
	mem                    *memWAL
	Tick                   *VTicker
	Bus                    *types.EventBus
	sent                   int
	Dead                   bool // consensus loop terminated (CONSENSUS FAILURE) or start failed
	DeadWhy                string
	trIdx                  int // trace cursor of the network
	observed               bool
	DroppedByValidateBasic int
}

var logger = func() log.Logger {
	l := log.New()
	l.SetHandler(log.DiscardHandler())
	if os.Getenv("VERIF_DEBUG_LOG") != "" {
		l.SetHandler(log.LvlFilterHandler(log.LvlInfo, log.StreamHandler(os.Stdout, log.TerminalFormat(false))))
	}
	return l
}()

// Quiet silences go-kardia's root logger.
func Quiet() {
	if os.Getenv("VERIF_DEBUG_LOG") != "" {
		log.Root().SetHandler(log.LvlFilterHandler(log.LvlInfo, log.StreamHandler(os.Stdout, log.TerminalFormat(false))))
		return
	}
	log.Root().SetHandler(log.DiscardHandler())
}

// ScratchDir returns a new scratch directory (tmpfs if available).
func ScratchDir() string {
	base := os.Getenv("VERIF_SCRATCH")
	if base == "" {
		if fi, err := os.Stat("/dev/shm"); err == nil && fi.IsDir() {
			base = "/dev/shm"
		}
	}
	d, err := os.MkdirTemp(base, "verifsim")
	if err != nil {
		panic(err)
	}
	return d
}

// BuildNode wires a node exactly as mainchain/backend.go New() does, on top of the
// given base store (fresh or an image). It does not start consensus.
func BuildNode(idx int, g *genesis.Genesis, key *ecdsa.PrivateKey, base kaidb.Database, tr *Trace, dur *DurLog, o NodeOpts) (n *Node, err error) {
	if base == nil {
		base = memorydb.New()
	}
	if tr == nil {
		tr = &Trace{}
	}
	n = &Node{Idx: idx, Key: key, Gen: g, Opts: o, Base: base, Tr: tr, Dur: dur}
	if key != nil {
		n.Addr = Addr(key)
	}
	n.DB = base
	if o.RecordDB {
		if n.Dur == nil {
			n.Dur = &DurLog{}
		}
		n.DB = &RecDB{Database: base, Log: n.Dur}
		tr.dur = n.Dur
	}
	bc, err := blockchain.NewBlockChain(n.DB, o.Cache, g)
	if err != nil {
		return nil, fmt.Errorf("NewBlockChain: %w", err)
	}
	n.BC = bc
	st, err := staking.NewSmcStakingUtil()
	if err != nil {
		return nil, fmt.Errorf("staking util: %w", err)
	}
	pc := tx_pool.TxPoolConfig{GlobalSlots: 64, GlobalQueue: 512}
	if o.PoolCfg != nil {
		pc = *o.PoolCfg
	}
	n.Pool = tx_pool.NewTxPool(pc, bc.Config(), bc)
	n.Store = cstate.NewStore(n.DB)
	n.EvPool, err = evidence.NewPool(n.Store, n.DB, bc)
	if err != nil {
		return nil, fmt.Errorf("evidence pool: %w", err)
	}
	bo := blockchain.NewBlockOperations(logger, bc, n.Pool, n.EvPool, st)
	n.BO = &RecBO{BlockOperations: bo, tr: tr, sched: o.Sched}
	n.Exec = cstate.NewBlockExecutor(n.Store, logger, n.EvPool, n.BO)
	state, err := n.Store.LoadStateFromDBOrGenesisDoc(g)
	if err != nil {
		return nil, fmt.Errorf("load state: %w", err)
	}
	cfg := configs.TestConsensusConfig()
	cfg.RootDir = o.Dir
	if o.Config != nil {
		o.Config(cfg)
	}
	n.CS = consensus.NewConsensusState(logger, cfg, state, n.BO, n.Exec, &RecEvPool{inner: n.EvPool, tr: tr})
	if key != nil && !o.NoKey {
		n.CS.SetPrivValidator(&RecPV{PrivValidator: types.NewDefaultPrivValidator(key), tr: tr})
	}
	n.Bus = types.NewEventBus()
	n.Bus.Start()
	n.CS.SetEventBus(n.Bus)
	n.Tick = NewVTicker()
	n.WAL = &RecWAL{tr: tr, dur: n.Dur, seen: make(chan int, 64)}
	if o.FileWAL {
		var inner consensus.WAL
		if o.WALHeadLimit > 0 {
			bw, err := consensus.NewWAL(cfg.WalFile(), autofile.GroupHeadSizeLimit(o.WALHeadLimit), autofile.GroupCheckDuration(time.Hour))
			if err != nil {
				return nil, fmt.Errorf("open wal: %w", err)
			}
			bw.SetLogger(logger)
			if err := bw.Start(); err != nil {
				return nil, fmt.Errorf("start wal: %w", err)
			}
			inner = bw
		} else {
			w, err := n.CS.OpenWAL(cfg.WalFile())
			if err != nil {
				return nil, fmt.Errorf("open wal: %w", err)
			}
			inner = w
		}
		n.WAL.inner = inner
		n.WAL.path = cfg.WalFile()
	} else {
		if mw, ok := o.MemWAL.(*memWAL); ok && mw != nil {
			n.mem = mw
		} else {
			n.mem = newMemWAL()
		}
		n.WAL.inner = n.mem
	}
	n.CS.VerifSetWAL(n.WAL)
	n.CS.VerifSetTicker(n.Tick)
	return n, nil
}

// Start starts consensus through the real OnStart (WAL catch-up replay included).
func (n *Node) Start() error { return n.StartWith(n.CS.Start) }

// StartViaSwitch starts consensus the way a node with block sync enabled does: the block-sync reactor hands over to
// ConsensusManager.SwitchToConsensus (here: no block was synced, so the WAL must be replayed).
func (n *Node) StartViaSwitch() error {
	return n.StartWith(func() (err error) {
		defer func() {
			if p := recover(); p != nil {
				err = fmt.Errorf("panic: %v", p)
			}
		}()
		mgr := consensus.NewConsensusManager(n.CS, &configs.FastSyncConfig{Enable: true})
		mgr.SetEventBus(n.Bus)
		mgr.SwitchToConsensus(n.CS.VerifState(), false)
		return nil
	})
}

// StartWith starts consensus through start (which must end up in the real OnStart).
func (n *Node) StartWith(start func() error) error {
	if err := start(); err != nil {
		n.Dead, n.DeadWhy = true, "start: "+err.Error()
		return err
	}
	// OnStart may have replaced the WAL after a repair: re-wrap it.
	if w := n.CS.VerifWAL(); w != consensus.WAL(n.WAL) {
		n.WAL.inner = w
		n.CS.VerifSetWAL(n.WAL)
	}
	if !n.Quiesce() {
		return fmt.Errorf("no quiescence after start: %s", n.DeadWhy)
	}
	return nil
}

// Quiesce waits until the node's loop is idle: two consecutive sentinels were
// consumed with no own message in between and the internal queue is empty.
func (n *Node) Quiesce() bool {
	if n.Dead {
		return false
	}
	for i := 0; i < 2000; i++ {
		n.WAL.mu.Lock()
		n.WAL.internal = 0
		n.WAL.mu.Unlock()
		for k := 0; k < 2; k++ {
			n.sent++
			select {
			case n.CS.VerifPeerQueue() <- consensus.VerifNewMsgInfo(Sentinel{n.sent}, "sentinel"):
			case <-n.CS.VerifDone():
				n.Dead, n.DeadWhy = true, "consensus loop terminated"
				return false
			case <-time.After(60 * time.Second):
				n.Dead, n.DeadWhy = true, "watchdog: peer queue blocked for 60s"
				return false
			}
			select {
			case <-n.WAL.seen:
			case <-n.CS.VerifDone():
				n.Dead, n.DeadWhy = true, "consensus loop terminated"
				return false
			case <-time.After(120 * time.Second):
				n.Dead, n.DeadWhy = true, "watchdog: no sentinel for 120s"
				return false
			}
		}
		n.WAL.mu.Lock()
		is := n.WAL.internal
		n.WAL.mu.Unlock()
		if is == 0 && n.CS.VerifInternalQueueLen() == 0 {
			return true
		}
	}
	n.Dead, n.DeadWhy = true, "never quiescent (2000 sentinel rounds)"
	return false
}

// Deliver hands one message to the node as coming from peer and waits for quiescence.
func (n *Node) Deliver(m consensus.Message, peer string) bool {
	if n.Dead {
		return false
	}
	// the reactor validates every message before it queues it for the consensus routine (ConsensusManager.Receive)
	if err := m.ValidateBasic(); err != nil {
		n.DroppedByValidateBasic++
		return true
	}
	select {
	case n.CS.VerifPeerQueue() <- consensus.VerifNewMsgInfo(m, p2p.ID(peer)):
	case <-n.CS.VerifDone():
		n.Dead, n.DeadWhy = true, "consensus loop terminated"
		return false
	}
	return n.Quiesce()
}

// DeliverBatch queues several messages, then waits for quiescence once.
func (n *Node) DeliverBatch(ms []consensus.Message, peer string) bool {
	if n.Dead {
		return false
	}
	for _, m := range ms {
		if err := m.ValidateBasic(); err != nil {
			n.DroppedByValidateBasic++
			continue
		}
		select {
		case n.CS.VerifPeerQueue() <- consensus.VerifNewMsgInfo(m, p2p.ID(peer)):
		case <-n.CS.VerifDone():
			n.Dead, n.DeadWhy = true, "consensus loop terminated"
			return false
		}
	}
	return n.Quiesce()
}

// Fire fires the armed timeout (if any) and waits for quiescence.
func (n *Node) Fire() bool {
	if n.Dead {
		return false
	}
	ti, ok := n.Tick.take()
	if !ok {
		return false
	}
	n.Tick.ch <- ti
	n.Quiesce()
	return true
}

// RS returns the node's round state (shallow copy, taken at quiescence).
func (n *Node) RS() *consensusRS { return (*consensusRS)(n.CS.GetRoundState()) }

// Stop stops the node cleanly (consensus loop, WAL, blockchain flush).
func (n *Node) Stop(flush bool) {
	n.WAL.mu.Lock()
	n.WAL.harnessStop = true
	n.WAL.mu.Unlock()
	if n.CS.IsRunning() {
		n.CS.Stop()
		select {
		case <-n.CS.VerifDone():
		case <-time.After(10 * time.Second):
		}
	}
	n.Pool.Stop()
	if flush {
		n.BC.Stop()
	}
	n.Bus.Stop()
}

// CopyDB returns a deep copy of a memorydb-backed store.
func CopyDB(src kaidb.Database) kaidb.Database {
	dst := memorydb.New()
	it := src.NewIterator(nil, nil)
	for it.Next() {
		dst.Put(cp(it.Key()), cp(it.Value()))
	}
	it.Release()
	return dst
}

// ImageAt rebuilds the database image after the first p durable units of a log.
func ImageAt(evs []DurEv, p int) (db kaidb.Database, walSize int64) {
	d := memorydb.New()
	walSize = -1
	for _, e := range evs[:p] {
		if e.Kind == "db" {
			for _, o := range e.Ops {
				if o.Del {
					d.Delete(o.K)
				} else {
					d.Put(o.K, o.V)
				}
			}
		} else {
			walSize = e.WalSize
		}
	}
	return d, walSize
}

// WriteWALImage writes the given bytes as the WAL head file under dir.
func WriteWALImage(dir string, data []byte) error {
	if err := os.MkdirAll(filepath.Join(dir, "cs.wal"), 0700); err != nil {
		return err
	}
	return os.WriteFile(filepath.Join(dir, "cs.wal", "wal"), data, 0600)
}

// CheckWALRotation runs the WAL group's limit check (what its ticker does periodically) and records a rotation
// as a durable unit.
func (n *Node) CheckWALRotation() {
	bw, ok := n.WAL.inner.(*consensus.BaseWAL)
	if !ok || n.WAL.path == "" {
		return
	}
	count := func() int { e, _ := os.ReadDir(filepath.Dir(n.WAL.path)); return len(e) }
	before := count()
	bw.Group().VerifCheckLimits()
	if count() != before {
		n.WAL.syncPoint("walsync rotate")
	}
}

// WALPath: the head file of the node's on-disk WAL ("" for in-memory WALs).
func (n *Node) WALPath() string { return n.WAL.path }
