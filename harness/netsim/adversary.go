package netsim

import (
	"fmt"
	"math/big"
	"math/rand"
	"time"

	"github.com/gogo/protobuf/proto"
	"github.com/kardiachain/go-kardia/consensus"
	"github.com/kardiachain/go-kardia/lib/common"
	"github.com/kardiachain/go-kardia/lib/crypto"
	"github.com/kardiachain/go-kardia/lib/merkle"
	"github.com/kardiachain/go-kardia/lib/rlp"
	kproto "github.com/kardiachain/go-kardia/proto/kardiachain/types"
	"github.com/kardiachain/go-kardia/trie"
	"github.com/kardiachain/go-kardia/types"
)

// Adversary controls the validators listed in Net.IsByz: it signs anything with
// their keys and may re-send anybody's signed messages with altered fields.
type Adversary struct {
	Net    *Net
	Blocks map[uint64][]*advBlock // blocks the adversary knows/fabricated per height
	Stats  map[string]int
}

type advBlock struct {
	block *types.Block
	parts *types.PartSet
	bid   types.BlockID
	valid bool
}

func NewAdversary(net *Net) *Adversary {
	return &Adversary{Net: net, Blocks: map[uint64][]*advBlock{}, Stats: map[string]int{}}
}

func (a *Adversary) byz() []int {
	var out []int
	for i := range a.Net.Keys {
		if a.Net.IsByz[i] {
			out = append(out, i)
		}
	}
	return out
}

func (a *Adversary) post(m consensus.Message, h uint64, to map[int]bool, label string) *AdvMsg {
	am := &AdvMsg{Msg: m, Height: h, To: to, Sent: map[int]int{}, Label: label}
	a.Net.Adv = append(a.Net.Adv, am)
	a.Stats[label]++
	if len(a.Net.Adv) > 400 {
		a.Net.Adv = a.Net.Adv[len(a.Net.Adv)-300:]
	}
	return am
}

// SignVote makes a vote of validator idx (any content) signed with its key.
func (a *Adversary) SignVote(ref *Node, idx int, typ kproto.SignedMsgType, h uint64, r uint32, bid types.BlockID, ts time.Time) *types.Vote {
	vi := -1
	if ref != nil {
		st := ref.CS.VerifState()
		set := st.Validators
		if h == st.LastBlockHeight && st.LastValidators != nil {
			set = st.LastValidators
		}
		vi, _ = set.GetByAddress(a.Net.Addrs[idx])
	}
	if vi < 0 {
		vi = idx
	}
	v := &types.Vote{ValidatorAddress: a.Net.Addrs[idx], ValidatorIndex: uint32(vi), Height: h, Round: r, Timestamp: ts, Type: typ, BlockID: bid}
	sig, err := crypto.Sign(crypto.Keccak256(types.VoteSignBytes(a.Net.ChainID, v.ToProto())), a.Net.Keys[idx])
	if err != nil {
		panic(err)
	}
	v.Signature = sig
	return v
}

func (a *Adversary) SignProposal(idx int, h uint64, r, pol uint32, bid types.BlockID) *types.Proposal {
	p := types.NewProposal(h, r, pol, bid)
	sig, err := crypto.Sign(crypto.Keccak256(types.ProposalSignBytes(a.Net.ChainID, p.ToProto())), a.Net.Keys[idx])
	if err != nil {
		panic(err)
	}
	p.Signature = sig
	return p
}

func subset(r *rand.Rand, nodes []*Node) map[int]bool {
	s := map[int]bool{}
	for _, n := range nodes {
		if r.Intn(2) == 0 {
			s[n.Idx] = true
		}
	}
	if len(s) == 0 && len(nodes) > 0 {
		s[nodes[r.Intn(len(nodes))].Idx] = true
	}
	return s
}

func complement(nodes []*Node, s map[int]bool) map[int]bool {
	c := map[int]bool{}
	for _, n := range nodes {
		if !s[n.Idx] {
			c[n.Idx] = true
		}
	}
	return c
}

// learn collects the blocks correct nodes currently propose (so the adversary can vote for them).
func (a *Adversary) learn() {
	for _, n := range a.Net.Alive() {
		rs := n.CS.GetRoundState()
		if rs.ProposalBlock != nil && rs.ProposalBlockParts != nil && rs.ProposalBlockParts.IsComplete() {
			bid := types.BlockID{Hash: rs.ProposalBlock.Hash(), PartsHeader: rs.ProposalBlockParts.Header()}
			a.addBlock(rs.Height, &advBlock{rs.ProposalBlock, rs.ProposalBlockParts, bid, true})
		}
	}
}

func (a *Adversary) addBlock(h uint64, b *advBlock) {
	for _, x := range a.Blocks[h] {
		if BIDKey(x.bid) == BIDKey(b.bid) {
			return
		}
	}
	a.Blocks[h] = append(a.Blocks[h], b)
	for k := range a.Blocks {
		if k+3 < h {
			delete(a.Blocks, k)
		}
	}
}

// MakeBlock builds a block for height h on top of ref's state with proposer idx.
// variant 0 = what an honest proposer would build; other variants differ in the
// transaction list (still valid) or break one validation clause (invalid).
func (a *Adversary) MakeBlock(ref *Node, idx int, variant int) *advBlock {
	st := ref.CS.VerifState()
	rs := ref.CS.GetRoundState()
	h := st.LastBlockHeight + 1
	var commit *types.Commit
	if h == st.InitialHeight {
		commit = types.NewCommit(0, 0, types.BlockID{}, nil)
	} else if rs.LastCommit != nil && rs.LastCommit.HasTwoThirdsMajority() {
		commit = rs.LastCommit.MakeCommit()
	} else {
		return nil
	}
	base, _ := ref.BO.BlockOperations.CreateProposalBlock(h, st, a.Net.Addrs[idx], commit)
	if base == nil {
		return nil
	}
	hd := base.Header()
	txs := []*types.Transaction(base.Transactions())
	valid := true
	switch variant {
	case 0:
	case 1: // another valid block: one extra (harmless) transaction
		tx, _ := types.SignTx(types.HomesteadSigner{}, types.NewTransaction(uint64(1000+h), common.HexToAddress("0xadad"), big.NewInt(1), 50000, big.NewInt(1), nil), a.Net.Keys[idx])
		txs = append(txs, tx)
	case 2:
		hd.AppHash = common.BytesToHash([]byte("bogus app hash"))
		valid = false
	case 3:
		hd.ValidatorsHash = common.BytesToHash([]byte("bogus validators"))
		valid = false
	case 4:
		hd.NextValidatorsHash = common.BytesToHash([]byte("bogus next validators"))
		valid = false
	case 5:
		hd.Time = hd.Time.Add(time.Second)
		valid = false
	case 6:
		hd.LastBlockID = types.BlockID{Hash: common.BytesToHash([]byte("other parent")), PartsHeader: types.PartSetHeader{Total: 1, Hash: common.BytesToHash([]byte("x"))}}
		valid = false
	case 7:
		hd.Height = h + 1
		valid = false
	case 8: // last commit with one signature blanked so that it may fall under 2/3
		if len(commit.Signatures) == 0 {
			return nil
		}
		c := commit.Copy()
		sigs := append([]types.CommitSig(nil), c.Signatures...)
		for i := range sigs {
			sigs[i] = types.NewCommitSigAbsent()
			if i >= len(sigs)/3 {
				break
			}
		}
		commit = types.NewCommit(c.Height, c.Round, c.BlockID, sigs) // (Copy would keep the cached hash of the original)
		hd.LastCommitHash = common.Hash{}
		valid = false
	case 9: // last commit claims another round (signatures no longer match)
		if len(commit.Signatures) == 0 {
			return nil
		}
		c := commit.Copy()
		c.Round += 3
		commit = c
		hd.LastCommitHash = common.Hash{}
		valid = false
	case 10: // proposer unknown to the validator set
		hd.ProposerAddress = common.HexToAddress("0xdeadbeef")
		valid = false
	case 11: // last commit whose LAST present signature is forged (the adversary's key) over a doctored timestamp;
		// everything else is made consistent with it (block time = weighted median, commit hash): only checking
		// every signature - also those after the point where +2/3 is reached - rejects the block
		if len(commit.Signatures) == 0 || st.LastValidators == nil {
			return nil
		}
		c := commit.Copy()
		sigs := append([]types.CommitSig(nil), c.Signatures...)
		k := -1
		for i := range sigs {
			if !sigs[i].Absent() {
				k = i
			}
		}
		if k < 0 {
			return nil
		}
		var voted types.BlockID
		if sigs[k].ForBlock() {
			voted = c.BlockID
		}
		ts := sigs[k].Timestamp.Add(37 * time.Millisecond)
		v := &types.Vote{Type: kproto.PrecommitType, Height: c.Height, Round: c.Round, BlockID: voted, Timestamp: ts,
			ValidatorAddress: sigs[k].ValidatorAddress, ValidatorIndex: uint32(k)}
		sigs[k].Timestamp = ts
		sigs[k].Signature = a.SignVoteChain(a.Net.ChainID, idx, v)
		commit = types.NewCommit(c.Height, c.Round, c.BlockID, sigs) // (Copy would keep the cached hash of the original)
		hd.LastCommitHash = common.Hash{}
		hd.Time = RefWeightedMedian(commit, RefSetFrom(st.LastValidators))
		valid = false
	}
	blk := types.NewBlock(hd, txs, commit, base.Evidence().Evidence, trie.NewStackTrie(nil))
	ps := blk.MakePartSet(types.BlockPartSizeBytes)
	ab := &advBlock{blk, ps, types.BlockID{Hash: blk.Hash(), PartsHeader: ps.Header()}, valid}
	a.addBlock(h, ab)
	return ab
}

func (a *Adversary) postBlock(ab *advBlock, idx int, h uint64, r, pol uint32, to map[int]bool, label string) {
	p := a.SignProposal(idx, h, r, pol, ab.bid)
	a.post(&consensus.ProposalMessage{Proposal: p}, h, to, label)
	for i := 0; i < int(ab.parts.Total()); i++ {
		a.post(&consensus.BlockPartMessage{Height: h, Round: r, Part: ab.parts.GetPart(i)}, h, to, label+"-part")
	}
}

func (a *Adversary) pickBID(r *rand.Rand, h uint64) types.BlockID {
	bs := a.Blocks[h]
	switch x := r.Intn(10); {
	case x < 2 || len(bs) == 0 && x < 8:
		return types.BlockID{}
	case x < 8:
		return bs[r.Intn(len(bs))].bid
	case x == 8 && len(bs) > 0: // same block, other parts total
		b := bs[r.Intn(len(bs))].bid
		b.PartsHeader.Total += 1 + uint32(r.Intn(2))
		return b
	}
	return types.BlockID{Hash: common.BytesToHash([]byte(fmt.Sprint("fake", r.Intn(3)))), PartsHeader: types.PartSetHeader{Total: 1, Hash: common.BytesToHash([]byte("fp"))}}
}

// Act performs one random adversary action.
func (a *Adversary) Act(r *rand.Rand) {
	byz := a.byz()
	alive := a.Net.Alive()
	if len(alive) == 0 {
		return
	}
	a.learn()
	ref := alive[r.Intn(len(alive))]
	rs := ref.CS.GetRoundState()
	h := rs.Height
	if len(byz) == 0 {
		// no validator key: only replay / garbage
		a.replay(r, ref, rs.Height)
		return
	}
	b := byz[r.Intn(len(byz))]
	round := rs.Round
	switch r.Intn(6) {
	case 0:
		if round > 1 {
			round--
		}
	case 1:
		round += 1 + uint32(r.Intn(2))
	}
	typ := kproto.PrevoteType
	if r.Intn(2) == 0 {
		typ = kproto.PrecommitType
	}
	ts := ClockNow()
	switch x := r.Intn(100); {
	case x < 30: // a vote to everybody or a subset
		var to map[int]bool
		if r.Intn(2) == 0 {
			to = subset(r, alive)
		}
		v := a.SignVote(ref, b, typ, h, round, a.pickBID(r, h), ts)
		a.post(&consensus.VoteMessage{Vote: v}, h, to, "vote")
	case x < 50: // equivocation: different votes to disjoint audiences
		s1 := subset(r, alive)
		v1 := a.SignVote(ref, b, typ, h, round, a.pickBID(r, h), ts)
		v2 := a.SignVote(ref, b, typ, h, round, a.pickBID(r, h), ts.Add(time.Millisecond))
		a.post(&consensus.VoteMessage{Vote: v1}, h, s1, "equivocation")
		to2 := complement(alive, s1)
		if r.Intn(3) == 0 {
			to2 = nil // ... or show the second one to everybody
		}
		a.post(&consensus.VoteMessage{Vote: v2}, h, to2, "equivocation")
	case x < 62: // the adversary proposes when it is (or is not) its turn
		prop := rs.Validators.GetProposer().Address
		turn := prop == a.Net.Addrs[b]
		if !turn && r.Intn(4) != 0 {
			// find a byzantine validator whose turn it is in ref's view
			for _, k := range byz {
				if a.Net.Addrs[k] == prop {
					b, turn = k, true
				}
			}
		}
		variant := 0
		switch y := r.Intn(10); {
		case y < 4:
			variant = 0
		case y < 6:
			variant = 1
		default:
			variant = 2 + r.Intn(10)
		}
		ab := a.MakeBlock(ref, b, variant)
		if ab == nil {
			return
		}
		pol := uint32(0)
		if r.Intn(5) == 0 && rs.Round > 1 {
			pol = 1 + uint32(r.Intn(int(rs.Round)))
		}
		if turn && r.Intn(2) == 0 {
			// equivocating proposer: two blocks, disjoint audiences
			ab2 := a.MakeBlock(ref, b, 1-variant%2)
			if ab2 != nil && BIDKey(ab2.bid) != BIDKey(ab.bid) {
				s1 := subset(r, alive)
				a.postBlock(ab, b, h, rs.Round, pol, s1, "proposal-equivocation")
				a.postBlock(ab2, b, h, rs.Round, pol, complement(alive, s1), "proposal-equivocation")
				return
			}
		}
		label := "proposal"
		if !ab.valid {
			label = "invalid-block-proposal"
		}
		if !turn {
			label = "proposal-out-of-turn"
		}
		a.postBlock(ab, b, h, rs.Round, pol, nil, label)
	case x < 74:
		a.replay(r, ref, h)
	case x < 82: // bogus block parts for the block the node is collecting
		if rs.ProposalBlockParts == nil || rs.ProposalBlockParts.Total() == 0 {
			return
		}
		tot := rs.ProposalBlockParts.Total()
		var src *types.Part
		for _, ab := range a.Blocks[h] {
			if ab.parts.HasHeader(rs.ProposalBlockParts.Header()) {
				src = ab.parts.GetPart(r.Intn(int(tot)))
			}
		}
		p := &types.Part{Index: uint32(r.Intn(int(tot))), Bytes: []byte("bogus part")}
		if src != nil {
			c := *src
			switch r.Intn(4) {
			case 0:
				c.Index = (c.Index + 1) % tot // genuine bytes and proof offered at another index
			case 1:
				c.Bytes = append(append([]byte{}, c.Bytes...), 0)
			case 2:
				c.Proof = merkle.SimpleProof{Total: c.Proof.Total, Index: c.Proof.Index, LeafHash: c.Proof.LeafHash}
			case 3:
				if len(c.Bytes) > 1 {
					c.Bytes = c.Bytes[:len(c.Bytes)-1]
				}
			}
			p = &c
		}
		a.post(&consensus.BlockPartMessage{Height: h, Round: rs.Round, Part: p}, h, nil, "bogus-part")
	case x < 92: // push a whole step: all byzantine validators vote the same way (helps rounds move)
		bid := a.pickBID(r, h)
		for _, k := range byz {
			v := a.SignVote(ref, k, typ, h, round, bid, ts)
			a.post(&consensus.VoteMessage{Vote: v}, h, nil, "bloc-vote")
		}
	default: // precommit for the previous height (late, possibly conflicting)
		if h > 1 {
			v := a.SignVote(ref, b, kproto.PrecommitType, h-1, 1+uint32(r.Intn(2)), a.pickBID(r, h-1), ts)
			a.post(&consensus.VoteMessage{Vote: v}, h, nil, "late-precommit")
		}
	}
}

// replay re-sends a signed vote of ANY validator (correct ones included) with one
// field changed and the original signature.
func (a *Adversary) replay(r *rand.Rand, ref *Node, h uint64) {
	rs := ref.CS.GetRoundState()
	if rs.Votes == nil {
		return
	}
	var pool []*types.Vote
	for rr := uint32(1); rr <= rs.Round+1; rr++ {
		pool = append(pool, votesOf(rs.Votes.Prevotes(rr))...)
		pool = append(pool, votesOf(rs.Votes.Precommits(rr))...)
	}
	if rs.LastCommit != nil {
		pool = append(pool, votesOf(rs.LastCommit)...)
	}
	if len(pool) == 0 {
		return
	}
	v := pool[r.Intn(len(pool))].Copy()
	label := "replay"
	switch r.Intn(6) {
	case 0:
		if v.Type == kproto.PrevoteType {
			v.Type = kproto.PrecommitType
		} else {
			v.Type = kproto.PrevoteType
		}
		label = "replay-retyped"
	case 1:
		v.Round++
		label = "replay-round"
	case 2:
		v.Height = h
		if v.Height == pool[0].Height {
			v.Height++
		}
		label = "replay-height"
	case 3:
		v.BlockID = a.pickBID(r, h)
		label = "replay-blockid"
	case 4:
		v.Timestamp = v.Timestamp.Add(time.Second)
		label = "replay-time"
	case 5:
		v.BlockID.PartsHeader.Total++
		label = "replay-total"
	}
	a.post(&consensus.VoteMessage{Vote: v}, rs.Height, nil, label)
}

// AdvBlock is the exported name of a fabricated block.
type AdvBlock = advBlock

// BlockIDOf returns the block id of a fabricated block.
func BlockIDOf(b *advBlock) types.BlockID { return b.bid }

// SameHeaderOtherCommit returns a block with b's header (hence the same header hash) whose last commit
// carries the same signatures but an altered round: the last-commit hash covers the signatures only.
func SameHeaderOtherCommit(b *advBlock) *advBlock {
	lc := b.block.LastCommit()
	if lc == nil || len(lc.Signatures) == 0 {
		return nil
	}
	c := lc.Copy()
	c.Round += 7
	hd := b.block.Header()
	blk := types.NewBlock(hd, b.block.Transactions(), c, b.block.Evidence().Evidence, trie.NewStackTrie(nil))
	if blk.Hash() != b.block.Hash() {
		return nil
	}
	ps := blk.MakePartSet(types.BlockPartSizeBytes)
	return &advBlock{blk, ps, types.BlockID{Hash: blk.Hash(), PartsHeader: ps.Header()}, false}
}

// SameHeaderOtherBody returns a block with b's header (so: b's hash) whose body differs: kind 0 appends a copy of a
// transaction (or a junk one), kind 1 drops the transactions, kind 2 appends the block's own last evidence again (or
// nothing if it has none -> nil). The bytes are well-formed protobuf; only the header's hashes no longer cover them.
func SameHeaderOtherBody(b *advBlock, kind int) *advBlock {
	pb, err := b.block.ToProto()
	if err != nil {
		return nil
	}
	switch kind {
	case 0:
		if n := len(pb.Data.Txs); n > 0 {
			pb.Data.Txs = append(pb.Data.Txs, append([]byte{}, pb.Data.Txs[n-1]...))
		} else {
			tx := types.NewTransaction(7, common.BytesToAddress([]byte("other body")), big.NewInt(1), 21000, big.NewInt(1), nil)
			bz, err := rlp.EncodeToBytes(tx)
			if err != nil {
				return nil
			}
			pb.Data.Txs = [][]byte{bz}
		}
	case 1:
		if len(pb.Data.Txs) == 0 {
			return nil
		}
		pb.Data.Txs = nil
	default:
		if n := len(pb.Evidence.Evidence); n > 0 {
			pb.Evidence.Evidence = append(pb.Evidence.Evidence, pb.Evidence.Evidence[n-1])
		} else {
			return nil
		}
	}
	bz, err := proto.Marshal(pb)
	if err != nil {
		return nil
	}
	blk, err := types.BlockFromProtoUnsafe(pb)
	if err != nil || blk.Hash() != b.block.Hash() {
		return nil
	}
	ps := types.NewPartSetFromData(bz, types.BlockPartSizeBytes)
	return &advBlock{blk, ps, types.BlockID{Hash: b.block.Hash(), PartsHeader: ps.Header()}, false}
}

// PickFakeID returns the k-th fabricated block id.
func (a *Adversary) PickFakeID(k int) types.BlockID {
	return types.BlockID{Hash: common.BytesToHash([]byte(fmt.Sprint("fake block ", k))), PartsHeader: types.PartSetHeader{Total: 1, Hash: common.BytesToHash([]byte(fmt.Sprint("fake parts ", k)))}}
}

// SignVoteChain signs vote v of validator idx for another chain id and returns the signature.
func (a *Adversary) SignVoteChain(chainID string, idx int, v *types.Vote) []byte {
	sig, err := crypto.Sign(crypto.Keccak256(types.VoteSignBytes(chainID, v.ToProto())), a.Net.Keys[idx])
	if err != nil {
		panic(err)
	}
	return sig
}
