package netsim

import (
	"fmt"
	"os"
	"path/filepath"
	"regexp"
	"sort"
	"strings"
	"time"

	"github.com/kardiachain/go-kardia/configs"
	"github.com/kardiachain/go-kardia/consensus"
	"github.com/kardiachain/go-kardia/lib/p2p"
	ktime "github.com/kardiachain/go-kardia/types/time"
)

// E-live: the same nodes with real tickers, the real ConsensusManager reactors
// and real switches over in-process connections; real goroutine concurrency.
// It is run under the race detector. Nothing about speed is ever a verdict:
// the monitors (agreement, signing rules) judge what happened, the race
// detector judges the interleavings that occurred.

type LiveOpts struct {
	N       int
	Powers  []int64
	Heights uint64
	MaxWall time.Duration
	Fuzz    bool // FuzzedConnection delays on the peer connections
	Down    int  // >= 0: that validator is never started (participation N-1 of N); -1: everybody runs
}

type LiveResult struct {
	Reached   bool
	MinHeight uint64
	Wall      time.Duration
	Dead      []string
	Rounds    map[uint32]int // commit rounds seen
	Deadlock  string         // non-empty: no node changed its height/round/step during 4000 consecutive polls although the poller itself kept being scheduled
}

// BuildLiveNode builds a node that keeps the real ticker and is driven by its reactor.
func buildLiveNode(idx int, net *Net, o NodeOpts) (*Node, *consensus.ConsensusManager, error) {
	n, err := BuildNode(idx, net.Gen, net.Keys[idx], nil, nil, nil, o)
	if err != nil {
		return nil, nil, err
	}
	// real ticker again (BuildNode installed the virtual one)
	n.CS.VerifSetTicker(consensus.NewTimeoutTicker())
	mgr := consensus.NewConsensusManager(n.CS, &configs.FastSyncConfig{Enable: false})
	mgr.SetEventBus(n.Bus)
	return n, mgr, nil
}

// RunLive runs a live cluster until every node stored `Heights` blocks or the wall budget is used up.
func RunLive(o LiveOpts, al *Alarms) (*Net, LiveResult, error) {
	Quiet()
	ktime.VerifSetNow(nil)
	res := LiveResult{Rounds: map[uint32]int{}}
	net := &Net{ChainID: "verif-live", IsByz: map[int]bool{}, Stats: map[string]int{}}
	for i := 0; i < o.N; i++ {
		net.Keys = append(net.Keys, Key(i))
		net.Addrs = append(net.Addrs, Addr(Key(i)))
	}
	net.Gen = MakeGenesis(net.Keys, o.Powers, net.ChainID, nil)
	net.Gen.Timestamp = time.Now().Add(-time.Second).UTC()
	net.Root = ScratchDir()
	net.ownRoot = true
	net.Nodes = make([]*Node, o.N)
	mgrs := make([]*consensus.ConsensusManager, o.N)
	for i := 0; i < o.N; i++ {
		n, mgr, err := buildLiveNode(i, net, NodeOpts{Dir: filepath.Join(net.Root, fmt.Sprintf("n%d", i)), Config: func(c *configs.ConsensusConfig) {
			// production-shaped timeouts, shortened commit wait; the p2p flush throttle below is small
			c.TimeoutPropose = 400 * time.Millisecond
			c.TimeoutProposeDelta = 100 * time.Millisecond
			c.TimeoutPrevote = 200 * time.Millisecond
			c.TimeoutPrevoteDelta = 100 * time.Millisecond
			c.TimeoutPrecommit = 200 * time.Millisecond
			c.TimeoutPrecommitDelta = 100 * time.Millisecond
			c.TimeoutCommit = 100 * time.Millisecond
			c.PeerGossipSleepDuration = 10 * time.Millisecond
			c.PeerQueryMaj23SleepDuration = 200 * time.Millisecond
		}})
		if err != nil {
			return net, res, err
		}
		net.Nodes[i] = n
		mgrs[i] = mgr
	}
	hist := NewSetHistory(RefSetFrom(net.Nodes[0].CS.VerifState().Validators))
	net.Mons = []Monitor{NewAgreementMonitor(al, hist), NewRulesMonitor(al, hist)}
	// the validators that run (o.Down, if any, is in the genesis set but never starts: participation N-1 of N)
	var up []*Node
	var upMgrs []*consensus.ConsensusManager
	for i, n := range net.Nodes {
		if o.Down >= 0 && i == o.Down {
			continue
		}
		up = append(up, n)
		upMgrs = append(upMgrs, mgrs[i])
	}
	for _, n := range up {
		net.observe(n) // state snapshot before anything happens
	}
	p2pcfg := configs.DefaultP2PConfig()
	p2pcfg.FlushThrottleTimeout = 5 * time.Millisecond
	p2pcfg.HandshakeTimeout = 5 * time.Minute // the machine may be heavily loaded and the binary is race-instrumented
	p2pcfg.DialTimeout = 5 * time.Minute
	if o.Fuzz {
		p2pcfg.TestFuzz = true
		fc := configs.DefaultFuzzConnConfig()
		fc.MaxDelay = 30 * time.Millisecond
		fc.ProbDropRW = 0
		fc.ProbDropConn = 0
		fc.ProbSleep = 0.2
		p2pcfg.TestFuzzConfig = fc
	}
	sws := p2p.MakeConnectedSwitches(p2pcfg, len(up), func(i int, sw *p2p.Switch) *p2p.Switch {
		sw.AddReactor("CONSENSUS", upMgrs[i])
		return sw
	}, p2p.Connect2Switches)
	t0 := time.Now()
	// The target test is cheap and comes first; the monitors (slow under the race detector) look at one node per
	// iteration, so that observing cannot fall behind a cluster that keeps committing: what they have not seen
	// when the target is reached they see from the recorded traces after the switches are stopped.
	// Deadlock detection counts polls, not seconds: the poller sleeps 10 ms per iteration, so 4000 iterations in which
	// no node changed its height/round/step mean that the scheduler kept running this goroutine for at least 40 s while
	// every consensus routine sat still (the longest timeout of this configuration is well under a second).
	lastState, sinceChange := "", 0
	for it := 0; time.Since(t0) < o.MaxWall; it++ {
		min := uint64(1 << 62)
		state := ""
		for _, n := range up {
			if h := n.BO.Height(); h < min {
				min = h
			}
			rs := n.CS.GetRoundState()
			state += fmt.Sprintf("%d/%d/%d ", rs.Height, rs.Round, rs.Step)
		}
		res.MinHeight = min
		if min >= o.Heights {
			res.Reached = true
			break
		}
		if state != lastState {
			lastState, sinceChange = state, 0
		} else if sinceChange++; sinceChange >= 4000 {
			res.Deadlock = "no node changed its height/round/step during 4000 consecutive polls: " + strings.Join(net.Dump(), "; ")
			break
		}
		net.observe(up[it%len(up)])
		time.Sleep(10 * time.Millisecond)
	}
	// a consensus routine that ended while the cluster was still running
	for _, n := range up {
		select {
		case <-n.CS.VerifDone():
			res.Dead = append(res.Dead, fmt.Sprintf("node %d", n.Idx))
		default:
		}
	}
	for _, sw := range sws {
		sw.Stop()
	}
	for _, n := range up {
		net.observe(n)
		for h := uint64(1); h <= n.BO.Height(); h++ {
			if c := n.BO.LoadBlockCommit(h); c != nil {
				res.Rounds[c.Round]++
			}
		}
	}
	res.Wall = time.Since(t0)
	return net, res, nil
}

// ---------------------------------------------------------------- race reports

var raceFrame = regexp.MustCompile(`^\s+((?:github\.com/kardiachain/go-kardia|verifharness)/[^\s(]+(?:\([^)]*\))?[^\s(]*)\(`)

// RaceKeys parses race-detector log files (GORACE log_path=prefix) and returns the de-duplicated report keys:
// the unordered pair of the innermost go-kardia/harness frames of the two accesses.
func RaceKeys(prefix string) (keys map[string]int, reports int) {
	keys = map[string]int{}
	files, _ := filepath.Glob(prefix + "*")
	for _, f := range files {
		b, err := os.ReadFile(f)
		if err != nil {
			continue
		}
		for _, rep := range strings.Split(string(b), "WARNING: DATA RACE")[1:] {
			reports++
			var tops []string
			// the two access stacks come first ("Write at"/"Read at"/"Previous write at"/...), each followed by frames
			sections := regexp.MustCompile(`(?m)^(?:Write|Read|Previous write|Previous read|Atomic|Previous atomic)[^\n]*\n`).Split(rep, -1)
			for _, sec := range sections[1:] {
				top := ""
				for _, line := range strings.Split(sec, "\n") {
					if strings.TrimSpace(line) == "" {
						break
					}
					if m := raceFrame.FindStringSubmatch(line); m != nil {
						top = m[1]
						break
					}
				}
				if top != "" {
					tops = append(tops, top)
				}
				if len(tops) == 2 {
					break
				}
			}
			for len(tops) < 2 {
				tops = append(tops, "unknown")
			}
			sort.Strings(tops)
			keys[tops[0]+" <-> "+tops[1]]++
		}
	}
	return keys, reports
}
