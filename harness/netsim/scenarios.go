package netsim

import (
	"fmt"
	"strings"

	cstypes "github.com/kardiachain/go-kardia/consensus/types"
	kproto "github.com/kardiachain/go-kardia/proto/kardiachain/types"
	"github.com/kardiachain/go-kardia/types"

	"verifharness/core"
)

// A scenario steers the victim into a state and offers a tempting input. It
// returns whether the intended state was reached (the monitors do the judging).
type scenario struct {
	name string
	run  func(s *Script, height uint64) bool
}

var nilID = types.BlockID{}

// lockOn: the victim ends up locked on a block in its current round (polka delivered,
// precommit signed), then the round is finished with nil precommits of the others.
func lockOn(s *Script) (types.BlockID, bool) {
	s.ToHarnessProposerRound()
	b := s.Block(0)
	if b == nil || !s.Propose(b, 0, true) {
		return nilID, false
	}
	bid := BlockIDOf(b)
	r := s.RS().Round
	s.Votes(kproto.PrevoteType, r, bid, s.Others)
	if s.RS().LockedBlock == nil {
		return bid, false
	}
	s.Votes(kproto.PrecommitType, r, nilID, s.Others)
	if s.RS().Round == r {
		s.Fire()
	}
	return bid, s.RS().LockedBlock != nil && s.RS().Round == r+1
}

var scenarios = []scenario{
	{"locked-then-other-proposal-without-polka", func(s *Script, h uint64) bool {
		_, ok := lockOn(s)
		if !ok {
			return false
		}
		s.ToHarnessProposerRound()
		b2 := s.Block(1)
		if b2 == nil {
			return false
		}
		s.Propose(b2, 0, true) // must prevote the locked block
		if s.RS().Step <= cstypes.RoundStepPropose {
			s.Fire()
		}
		return s.RS().Step >= cstypes.RoundStepPrevote
	}},
	{"locked-then-polka-for-other-block-in-later-round", func(s *Script, h uint64) bool {
		_, ok := lockOn(s)
		if !ok {
			return false
		}
		s.ToHarnessProposerRound()
		b2 := s.Block(1)
		if b2 == nil {
			return false
		}
		s.Propose(b2, 0, true)
		r := s.RS().Round
		s.Votes(kproto.PrevoteType, r, BlockIDOf(b2), s.Others) // may unlock and precommit b2
		s.Votes(kproto.PrecommitType, r, nilID, s.Others)
		if s.RS().Round == r {
			s.Fire()
		}
		return true
	}},
	{"locked-then-stale-polka-from-earlier-round", func(s *Script, h uint64) bool {
		// round A: proposal B1, the victim prevotes it, only ONE other prevote for B1 plus one nil -> no polka, no lock
		s.ToHarnessProposerRound()
		b1 := s.Block(1)
		if b1 == nil || !s.Propose(b1, 0, true) {
			return false
		}
		rA := s.RS().Round
		s.Votes(kproto.PrevoteType, rA, BlockIDOf(b1), s.Others[:1])
		s.Votes(kproto.PrevoteType, rA, nilID, s.Others[2:])
		if s.RS().Step == cstypes.RoundStepPrevoteWait {
			s.Fire()
		}
		s.Votes(kproto.PrecommitType, rA, nilID, s.Others)
		if s.RS().Round == rA {
			s.Fire()
		}
		if s.RS().LockedBlock != nil || s.RS().Round == rA {
			return false
		}
		// later round: lock on B0
		b0id, ok := lockOn(s)
		if !ok {
			return false
		}
		_ = b0id
		// now the missing prevote of round A arrives: a polka for B1 dated BEFORE the lock round
		s.Votes(kproto.PrevoteType, rA, BlockIDOf(b1), s.Others[1:2])
		stillLocked := s.RS().LockedBlock != nil
		// and B1 is proposed again: the victim must prevote its locked block
		s.ToHarnessProposerRound()
		s.Propose(b1, rA, true)
		if s.RS().Step <= cstypes.RoundStepPropose {
			s.Fire()
		}
		_ = stillLocked
		return true
	}},
	{"polka-for-a-block-it-does-not-hold", func(s *Script, h uint64) bool {
		s.ToHarnessProposerRound()
		b := s.Block(1)
		if b == nil || !s.Propose(b, 0, false) { // proposal without parts
			return false
		}
		r := s.RS().Round
		s.Fire() // propose timeout: prevote nil
		s.Votes(kproto.PrevoteType, r, BlockIDOf(b), s.Others)
		// must have precommitted nil; now the parts arrive and everybody precommits: fetch, validate, commit
		s.Parts(b)
		s.Votes(kproto.PrecommitType, r, BlockIDOf(b), s.Others)
		return true
	}},
	{"two-thirds-any-prevotes-but-no-polka", func(s *Script, h uint64) bool {
		s.ToHarnessProposerRound()
		b := s.Block(0)
		if b == nil || !s.Propose(b, 0, true) {
			return false
		}
		r := s.RS().Round
		s.Votes(kproto.PrevoteType, r, nilID, s.Others[:2])
		if s.RS().Step == cstypes.RoundStepPrevoteWait {
			s.Fire() // must precommit nil
		}
		return s.RS().Step >= cstypes.RoundStepPrecommit
	}},
	{"precommits-split-over-two-rounds", func(s *Script, h uint64) bool {
		s.ToHarnessProposerRound()
		b := s.Block(0)
		if b == nil || !s.Propose(b, 0, true) {
			return false
		}
		r := s.RS().Round
		bid := BlockIDOf(b)
		s.Votes(kproto.PrecommitType, r, bid, s.Others[:1])
		s.Votes(kproto.PrecommitType, r+1, bid, s.Others[1:2])
		s.Votes(kproto.PrecommitType, r+1, nilID, s.Others[2:])
		// 1 precommit in r, 1 in r+1 (+ maybe the victim's own): must not commit
		return s.RS().Height == h
	}},
	{"commit-for-a-block-it-does-not-hold", func(s *Script, h uint64) bool {
		s.ToHarnessProposerRound()
		b := s.Block(1)
		if b == nil {
			return false
		}
		r := s.RS().Round
		s.Votes(kproto.PrecommitType, r, BlockIDOf(b), s.Others) // +2/3 precommits, block unknown
		if s.RS().Height != h {
			return false
		}
		s.Parts(b) // now it may validate and commit
		return s.RS().Height == h+1
	}},
	{"second-proposal-in-a-round", func(s *Script, h uint64) bool {
		s.ToHarnessProposerRound()
		b0, b1 := s.Block(0), s.Block(1)
		if b0 == nil || b1 == nil {
			return false
		}
		s.Propose(b0, 0, true)
		s.Propose(b1, 0, true)
		return true
	}},
	{"future-round-polka", func(s *Script, h uint64) bool {
		s.ToHarnessProposerRound()
		b := s.Block(0)
		if b == nil || !s.Propose(b, 0, true) {
			return false
		}
		r := s.RS().Round
		s.Votes(kproto.PrevoteType, r+1, BlockIDOf(b), s.Others) // round skip by +2/3 prevotes of a higher round
		return s.RS().Round >= r
	}},
	{"own-turn-with-valid-block-from-earlier-polka", func(s *Script, h uint64) bool {
		// a polka for B in round r (the victim holds B, precommits it); nobody else precommits; rounds pass
		// until the victim proposes: it must re-propose B with a POL round that really has a polka
		_, ok := lockOn(s)
		if !ok {
			return false
		}
		for i := 0; i < 6 && !s.VictimProposes(); i++ {
			s.SkipRound()
		}
		return s.VictimProposes()
	}},
}

// invalid-block scenarios: every invalid variant offered before the prevote, and again with a polka.
func invalidBlockScenario(variant int, viaPolka bool) scenario {
	name := fmt.Sprintf("invalid-block-variant-%d", variant)
	if viaPolka {
		name += "-with-polka"
	}
	return scenario{name, func(s *Script, h uint64) bool {
		s.ToHarnessProposerRound()
		b := s.Block(variant)
		if b == nil || !s.Propose(b, 0, true) {
			return false
		}
		r := s.RS().Round
		if s.RS().Step <= cstypes.RoundStepPropose {
			s.Fire()
		}
		if viaPolka {
			s.Votes(kproto.PrevoteType, r, BlockIDOf(b), s.Others)   // > 2/3 prevote the invalid block
			s.Votes(kproto.PrecommitType, r, BlockIDOf(b), s.Others) // ... and precommit it
		}
		return true
	}}
}

// cache-primed validation: after the victim validated block X, a block with X's header but an altered
// last commit (same signatures, so same header hash) is offered in a later round.
var cachePrimed = scenario{"same-header-altered-last-commit", func(s *Script, h uint64) bool {
	if h < 2 {
		return false
	}
	s.ToHarnessProposerRound()
	b := s.Block(0)
	if b == nil || !s.Propose(b, 0, true) {
		return false
	}
	r := s.RS().Round
	// the victim validated and prevoted b; finish the round without decision
	s.Votes(kproto.PrevoteType, r, nilID, s.Others)
	if s.RS().Step == cstypes.RoundStepPrevoteWait {
		s.Fire()
	}
	s.Votes(kproto.PrecommitType, r, nilID, s.Others)
	if s.RS().Round == r {
		s.Fire()
	}
	s.ToHarnessProposerRound()
	x := SameHeaderOtherCommit(b)
	if x == nil {
		return false
	}
	s.Propose(x, 0, true)
	if s.RS().Step <= cstypes.RoundStepPropose {
		s.Fire()
	}
	return true
}}

// a block that was validated (and prevoted) at the previous height but lost there is proposed again one height later
var staleBlock = scenario{"block-of-the-previous-height-proposed-again", func(s *Script, h uint64) bool {
	s.ToHarnessProposerRound()
	b1 := s.Block(1)
	if b1 == nil || !s.Propose(b1, 0, true) {
		return false
	}
	r := s.RS().Round
	// the victim validated and prevoted b1; the round ends without decision, another block is committed at this height
	s.Votes(kproto.PrevoteType, r, nilID, s.Others)
	if s.RS().Step == cstypes.RoundStepPrevoteWait {
		s.Fire()
	}
	s.Votes(kproto.PrecommitType, r, nilID, s.Others)
	if s.RS().Round == r {
		s.Fire()
	}
	for i := 0; i < 4 && s.RS().Height == h; i++ {
		s.ToHarnessProposerRound()
		b0 := s.Block(0)
		if b0 == nil {
			return false
		}
		s.Propose(b0, 0, true)
		rr := s.RS().Round
		s.Votes(kproto.PrevoteType, rr, BlockIDOf(b0), s.Others)
		s.Votes(kproto.PrecommitType, rr, BlockIDOf(b0), s.Others)
	}
	if s.RS().Height != h+1 {
		return false
	}
	// next height: the old block again (wrong height, wrong parent)
	s.ToHarnessProposerRound()
	if !s.Propose(b1, 0, true) {
		return false
	}
	if s.RS().Step <= cstypes.RoundStepPropose {
		s.Fire()
	}
	return true
}}

// commit step, waiting for the parts of a block known from votes only; then a proposal of the current round arrives
var commitThenProposal = scenario{"commit-step-then-proposal-of-the-current-round", func(s *Script, h uint64) bool {
	s.ToHarnessProposerRound()
	b, other := s.Block(1), s.Block(0)
	if b == nil || other == nil {
		return false
	}
	r := s.RS().Round
	s.Votes(kproto.PrecommitType, r, BlockIDOf(b), s.Others) // +2/3 precommits, block unknown: commit step, waiting for parts
	if s.RS().Step != cstypes.RoundStepCommit {
		return false
	}
	s.Propose(other, 0, false) // the round's proposer proposed another block (only the proposal message arrives)
	s.Parts(b)                 // the committed block's parts must still complete it
	return s.RS().Height == h+1
}}

// cache-primed validation, body variant: after the victim validated and prevoted block X (round undecided), a block
// with X's header - hence X's hash - but another body (transactions added/dropped, evidence repeated) is proposed.
func otherBodyScenario(kind int) scenario {
	return scenario{fmt.Sprintf("same-header-other-body-%d-after-validation", kind), func(s *Script, h uint64) bool {
		s.ToHarnessProposerRound()
		b := s.Block(0)
		if b == nil || !s.Propose(b, 0, true) {
			return false
		}
		r := s.RS().Round
		s.Votes(kproto.PrevoteType, r, nilID, s.Others)
		if s.RS().Step == cstypes.RoundStepPrevoteWait {
			s.Fire()
		}
		s.Votes(kproto.PrecommitType, r, nilID, s.Others)
		if s.RS().Round == r {
			s.Fire()
		}
		s.ToHarnessProposerRound()
		x := SameHeaderOtherBody(b, kind)
		if x == nil {
			return false
		}
		s.Propose(x, 0, true)
		if s.RS().Step <= cstypes.RoundStepPropose {
			s.Fire()
		}
		// the others vote for it: a victim that accepted it would go all the way
		rr := s.RS().Round
		s.Votes(kproto.PrevoteType, rr, x.bid, s.Others)
		return true
	}}
}

// A newer polka learnt late, with one validator down: the victim is locked on B (round r1); in round r2 the others
// lock on C, but the victim sees the polka for C only after it has left round r2; from then on one of the others is
// down, so the victim's vote is needed: it must unlock (the polka is from a later round than its lock) and go with C.
var lateNewerPolka = scenario{"newer-polka-learnt-late-one-validator-down", func(s *Script, h uint64) bool {
	if _, ok := lockOn(s); !ok {
		return false
	}
	down, up := s.Others[0], s.Others[1:]
	s.ToHarnessProposerRound()
	r2 := s.RS().Round
	c := s.Block(1)
	if c == nil || !s.Propose(c, 0, true) {
		return false
	}
	// the victim prevoted its lock; it sees two of the three prevotes for C (no polka yet), precommits nil; the two
	// others that stay up precommit C (they saw the polka); the round ends without decision
	s.Votes(kproto.PrevoteType, r2, c.bid, up)
	if s.RS().Step == cstypes.RoundStepPrevoteWait {
		s.Fire()
	}
	s.Votes(kproto.PrecommitType, r2, c.bid, up)
	if s.RS().Round == r2 {
		s.Fire()
	}
	if s.RS().Round <= r2 || s.RS().Height != h || s.RS().LockedBlock == nil {
		return false
	}
	// now the third prevote of round r2 arrives (its sender goes down afterwards): polka for C in r2 > lock round
	s.Votes(kproto.PrevoteType, r2, c.bid, []int{down})
	contains := func(l []int, x int) bool {
		for _, y := range l {
			if y == x {
				return true
			}
		}
		return false
	}
	for i := 0; i < 12 && s.RS().Height == h && !s.V.Dead; i++ {
		s.EnterRound()
		r := s.RS().Round
		if contains(up, s.proposerIdx()) {
			s.Propose(c, r2, true) // locked proposers re-propose C with its proof-of-lock round
		}
		if s.RS().Step <= cstypes.RoundStepPropose {
			s.Fire()
		}
		s.Votes(kproto.PrevoteType, r, c.bid, up)
		if s.RS().Height != h {
			break
		}
		if s.RS().Step == cstypes.RoundStepPrevoteWait {
			s.Fire()
		}
		// the others precommit C only if they saw a polka for it in this round, i.e. if the victim prevoted it
		pc := nilID
		for _, v := range votesOf(s.RS().Votes.Prevotes(r)) {
			if v.ValidatorAddress == s.V.Addr && BIDKey(v.BlockID) == BIDKey(c.bid) {
				pc = c.bid
			}
		}
		s.Votes(kproto.PrecommitType, r, pc, up)
		if s.RS().Height == h && s.RS().Round == r {
			s.Fire()
		}
	}
	if s.RS().Height == h && !s.V.Dead {
		s.Fail = fmt.Sprintf("locked on a block in round %d, the validator learnt of the polka for another block of round %d after leaving that round; with one validator down its vote is needed, but 12 rounds later (the two others proposing, prevoting and - after a polka - precommitting that block) height %d is not committed: %s", r2-1, r2, h, s.Net.Dump())
	}
	// the generic finish below would commit with all three others: the judgement is made here
	return true
}}

func allScenarios() []scenario {
	out := append([]scenario{}, scenarios...)
	out = append(out, commitThenProposal)
	out = append(out, staleBlock)
	for v := 2; v <= 11; v++ {
		out = append(out, invalidBlockScenario(v, false), invalidBlockScenario(v, true))
	}
	out = append(out, cachePrimed)
	out = append(out, otherBodyScenario(0), otherBodyScenario(1))
	out = append(out, lateNewerPolka)
	return out
}

// scenarioCase: case index -> (scenario, victim position, height at which it is played)
// NumScenarioCases is the size of the scenario corpus (scenario x victim position x height).
func NumScenarioCases() int { return len(allScenarios()) * 8 }

// ScenarioCase plays scenario case c.I; alarms of property prop are reported. For C04 the victim must be able to
// finish the height once the harness-controlled validators cooperate again.
func ScenarioCase(c *core.Case, prop string) {
	all := allScenarios()
	sc := all[c.I%len(all)]
	variantIdx := c.I / len(all) // 0..7: victim position x height
	victim := variantIdx % 4
	atHeight := uint64(1 + (variantIdx/4)%2)
	run := c.Run
	s, err := NewScript(4, victim, []int64{20, 20, 20, 20})
	_ = prop
	if err != nil {
		run.Inconclusive("script network: " + err.Error())
		return
	}
	defer s.Close()
	for s.RS().Height < atHeight {
		if !s.CommitHeight() {
			run.Count("scenario_setup_failed", 1)
			return
		}
	}
	h := s.RS().Height
	if atHeight == 1 && sc.name == cachePrimed.name {
		return
	}
	reached := sc.run(s, h)
	run.Eval(1)
	if reached && !s.V.Dead {
		run.Count("scenario_reached", 1)
		run.Nontrivial(fmt.Sprintf("%s/v%d/h%d", sc.name, victim, atHeight))
		run.Distinct("scenario", sc.name)
	} else {
		run.Count("scenario_not_reached:"+sc.name, 1)
	}
	if s.Fail != "" {
		run.Count("scenario_own_liveness_judgement_failed:"+sc.name, 1)
		if prop == "C04" {
			c.Violation("victim-cannot-finish-height@"+scenarioClass(sc.name), s.Fail, map[string]interface{}{"scenario": sc.name, "victim": victim, "height": atHeight, "script": s.Log})
		}
	}
	// let the height finish normally afterwards (the victim must still be able to commit)
	if !s.V.Dead && s.RS().Height == h && s.Fail == "" {
		for i := 0; i < 6 && s.RS().Height == h; i++ {
			s.ToHarnessProposerRound()
			if s.RS().Height != h {
				break
			}
			s.CommitHeight()
			if s.RS().Height == h {
				s.SkipRound()
			}
		}
		if s.RS().Height == h && !s.V.Dead {
			run.Count("height_not_finished_after_scenario:"+sc.name, 1)
			if prop == "C04" && !strings.HasPrefix(sc.name, "invalid-block") {
				c.Violation("victim-cannot-finish-height@"+scenarioClass(sc.name), fmt.Sprintf("after scenario %q the validator does not commit height %d although all other validators propose, prevote and precommit valid blocks for several rounds: %s", sc.name, h, s.Net.Dump()), map[string]interface{}{"scenario": sc.name, "victim": victim, "height": atHeight, "script": s.Log})
			}
		}
	}
	for k, v := range s.A.Counts {
		run.Count(k, v)
	}
	if c.I < 2 {
		run.Sample(map[string]interface{}{"scenario": sc.name, "victim": victim, "height": atHeight, "script": s.Log})
	}
	if prop == "C04" && s.V.Dead && !strings.HasPrefix(sc.name, "invalid-block") {
		c.Violation("consensus-loop-terminated@"+scenarioClass(sc.name), "the validator's consensus routine ended: "+s.V.DeadWhy, map[string]interface{}{"scenario": sc.name, "victim": victim, "height": atHeight, "script": s.Log})
	}
	for _, a := range s.Alarms(prop) {
		c.Violation(a.Key+"@"+scenarioClass(sc.name), a.What, map[string]interface{}{"scenario": sc.name, "victim": victim, "height": atHeight, "script": s.Log})
	}
	if s.V.Dead {
		run.Count("victim_loop_terminated:"+sc.name, 1)
	}
}

// scenarioClass groups scenario names for violation keys (one key per rule and class, not per variant).
func scenarioClass(name string) string {
	if len(name) > 13 && name[:13] == "invalid-block" {
		if len(name) > 11 && name[len(name)-10:] == "with-polka" {
			return "invalid-block-with-polka"
		}
		return "invalid-block"
	}
	return name
}
