package netsim

import (
	"fmt"
	"time"

	"github.com/kardiachain/go-kardia/consensus"
	cstypes "github.com/kardiachain/go-kardia/consensus/types"
	kproto "github.com/kardiachain/go-kardia/proto/kardiachain/types"
	"github.com/kardiachain/go-kardia/types"
)

// Script steers a single correct validator (the victim) that is surrounded by
// harness-controlled validators holding more than 2/3 of the power: the harness
// can build any lock / unlock / relock / valid-block / round-skip / catch-up
// state and then offer the tempting input. The monitors judge what the victim signs.
type Script struct {
	Net    *Net
	V      *Node
	Adv    *Adversary
	Others []int  // harness-controlled validator indices
	Peer   string // peer id the deliveries come from ("harness" if empty)
	Fail   string // set by a scenario that judges liveness itself (C04): why the victim cannot finish the height
	A      *Alarms
	Log    []string
}

// NewScript builds a network of n equal validators in which only `victim` is a real node.
func NewScript(n, victim int, powers []int64) (*Script, error) {
	var byz []int
	for i := 0; i < n; i++ {
		if i != victim {
			byz = append(byz, i)
		}
	}
	net, err := NewNet(NetOpts{N: n, Powers: powers, Byz: byz})
	if err != nil {
		return nil, err
	}
	s := &Script{Net: net, V: net.Nodes[victim], Others: byz, A: NewAlarms()}
	hist := NewSetHistory(RefSetFrom(s.V.CS.VerifState().Validators))
	net.Mons = []Monitor{NewAgreementMonitor(s.A, hist), NewRulesMonitor(s.A, hist)}
	if err := net.StartAll(); err != nil {
		net.Close()
		return nil, err
	}
	s.Adv = NewAdversary(net)
	return s, nil
}

func (s *Script) Close() { s.Net.Close() }

func (s *Script) logf(f string, a ...interface{}) {
	s.Log = append(s.Log, fmt.Sprintf(f, a...))
}

func (s *Script) RS() *consensusRS { return s.V.CS.GetRoundState() }

// Send delivers one message to the victim.
func (s *Script) Send(m consensus.Message) {
	s.Net.note("s %s", msgLabel(m))
	s.logf("deliver %s", msgLabel(m))
	peer := s.Peer
	if peer == "" {
		peer = "harness"
	}
	s.V.Deliver(m, peer)
	s.Net.observe(s.V)
}

// Fire fires the victim's armed timeout.
func (s *Script) Fire() bool {
	ti, ok := s.V.Tick.Pending()
	if !ok {
		return false
	}
	s.logf("timeout %d/%d/%v", ti.Height, ti.Round, ti.Step)
	return s.Net.fire(s.V)
}

// EnterRound makes sure the victim has left the NewHeight step.
func (s *Script) EnterRound() {
	if s.RS().Step == cstypes.RoundStepNewHeight {
		s.Fire()
	}
}

func (s *Script) VictimProposes() bool {
	rs := s.RS()
	return rs.Validators.GetProposer().Address == s.V.Addr
}

// proposerIdx returns the validator index (key index) of the current proposer.
func (s *Script) proposerIdx() int {
	a := s.RS().Validators.GetProposer().Address
	for i, x := range s.Net.Addrs {
		if x == a {
			return i
		}
	}
	return -1
}

// Block returns a block for the victim's current height: variant as in Adversary.MakeBlock.
func (s *Script) Block(variant int) *advBlock {
	p := s.proposerIdx()
	if p == s.V.Idx {
		p = s.Others[0]
	}
	return s.Adv.MakeBlock(s.V, p, variant)
}

// OwnProposal returns the block the victim itself proposed in this round (nil if none).
func (s *Script) OwnProposal() *advBlock {
	rs := s.RS()
	if rs.Proposal == nil || rs.ProposalBlock == nil || rs.ProposalBlockParts == nil || !rs.ProposalBlockParts.IsComplete() {
		return nil
	}
	return &advBlock{rs.ProposalBlock, rs.ProposalBlockParts, types.BlockID{Hash: rs.ProposalBlock.Hash(), PartsHeader: rs.ProposalBlockParts.Header()}, true}
}

// Propose offers block ab as the proposal of the victim's current round, signed by
// the round's proposer (must be harness-controlled), optionally without the parts.
func (s *Script) Propose(ab *advBlock, pol uint32, withParts bool) bool {
	rs := s.RS()
	p := s.proposerIdx()
	if p == s.V.Idx || p < 0 {
		return false
	}
	// re-sign for the right proposer: the block's header names the proposer address but validation only
	// requires a known validator there; the proposal signature must be the round proposer's
	prop := s.Adv.SignProposal(p, rs.Height, rs.Round, pol, ab.bid)
	s.Send(&consensus.ProposalMessage{Proposal: prop})
	if withParts {
		s.Parts(ab)
	}
	return true
}

func (s *Script) Parts(ab *advBlock) {
	rs := s.RS()
	for i := 0; i < int(ab.parts.Total()); i++ {
		s.Send(&consensus.BlockPartMessage{Height: rs.Height, Round: rs.Round, Part: ab.parts.GetPart(i)})
	}
}

// Votes delivers votes of the given harness validators.
func (s *Script) Votes(typ kproto.SignedMsgType, round uint32, bid types.BlockID, from []int) {
	h := s.RS().Height
	for _, k := range from {
		v := s.Adv.SignVote(s.V, k, typ, h, round, bid, ClockNow().Add(time.Duration(k)*time.Microsecond))
		s.Send(&consensus.VoteMessage{Vote: v})
	}
}

// SkipRound takes the victim from the propose/prevote step of its current round to the
// next round without any decision: nil prevotes and nil precommits from the others.
func (s *Script) SkipRound() {
	rs := s.RS()
	r := rs.Round
	if rs.Step <= cstypes.RoundStepPropose {
		s.Fire() // propose timeout -> prevote (nil or own/locked block)
	}
	s.Votes(kproto.PrevoteType, r, types.BlockID{}, s.Others)
	if s.RS().Step == cstypes.RoundStepPrevoteWait {
		s.Fire()
	}
	s.Votes(kproto.PrecommitType, r, types.BlockID{}, s.Others)
	if s.RS().Round == r {
		s.Fire() // precommit wait
	}
}

// ToHarnessProposerRound skips rounds until the proposer of the victim's current round is harness-controlled.
func (s *Script) ToHarnessProposerRound() {
	s.EnterRound()
	for i := 0; i < 8 && s.VictimProposes(); i++ {
		s.SkipRound()
	}
}

// CommitHeight drives one ordinary height to a commit (valid block, polka, precommits of everybody).
func (s *Script) CommitHeight() bool {
	h := s.RS().Height
	s.EnterRound()
	var ab *advBlock
	if s.VictimProposes() {
		ab = s.OwnProposal()
	} else {
		ab = s.Block(0)
		if ab != nil {
			s.Propose(ab, 0, true)
		}
	}
	if ab == nil {
		return false
	}
	r := s.RS().Round
	s.Votes(kproto.PrevoteType, r, ab.bid, s.Others)
	s.Votes(kproto.PrecommitType, r, ab.bid, s.Others)
	return s.RS().Height == h+1
}

// Report transfers the alarms of property prop to the case.
func (s *Script) Alarms(prop string) []Alarm { return s.A.For(prop) }
