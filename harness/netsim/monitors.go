package netsim

import (
	"fmt"
	"io"
	"math/big"
	"sort"

	"github.com/gogo/protobuf/proto"
	"github.com/kardiachain/go-kardia/consensus"
	"github.com/kardiachain/go-kardia/kai/state/cstate"
	"github.com/kardiachain/go-kardia/lib/common"
	kproto "github.com/kardiachain/go-kardia/proto/kardiachain/types"
	"github.com/kardiachain/go-kardia/trie"
	"github.com/kardiachain/go-kardia/types"
)

// Alarm is a refutation observed by a monitor.
type Alarm struct {
	Prop    string
	Key     string
	What    string
	Witness interface{}
}

// Alarms collects what the monitors of one network observed.
type Alarms struct {
	List   []Alarm
	Counts map[string]int // observed events (coverage)
	Seen   map[string]bool
}

func NewAlarms() *Alarms { return &Alarms{Counts: map[string]int{}, Seen: map[string]bool{}} }

func (a *Alarms) Raise(prop, key, what string, w interface{}) {
	if a.Seen[prop+"|"+key] {
		return
	}
	a.Seen[prop+"|"+key] = true
	a.List = append(a.List, Alarm{prop, key, what, w})
}

func (a *Alarms) For(prop string) []Alarm {
	var out []Alarm
	for _, x := range a.List {
		if x.Prop == prop {
			out = append(out, x)
		}
	}
	return out
}

// ---------------------------------------------------------------- validator-set history (monitor-derived)

// SetHistory derives, from the chain's own history, the validator set entitled
// to sign each height: V(1)=V(2)=genesis; executing block h with a non-empty
// validator list L makes V(h+2)=L, otherwise V(h+2)=V(h+1).
type SetHistory struct {
	byHeight map[uint64]*RefSet
	applied  map[uint64]bool
}

func NewSetHistory(genesis *RefSet) *SetHistory {
	return &SetHistory{byHeight: map[uint64]*RefSet{1: genesis, 2: genesis}, applied: map[uint64]bool{}}
}

// Applied records the validator list the application returned for block h.
// Returns false if two nodes disagree about it.
func (s *SetHistory) Applied(h uint64, vals []*types.Validator) bool {
	next := s.byHeight[h+1]
	if next == nil {
		return true // history gap (node far ahead of the monitor): ignore
	}
	n := next
	if len(vals) > 0 {
		p := map[common.Address]int64{}
		for _, v := range vals {
			p[v.Address] = v.VotingPower
		}
		n = NewRefSet(p)
	}
	if s.applied[h] {
		return s.byHeight[h+2].Equal(n)
	}
	s.applied[h] = true
	s.byHeight[h+2] = n
	return true
}

func (s *SetHistory) At(h uint64) *RefSet { return s.byHeight[h] }

// ---------------------------------------------------------------- C01: agreement

type decided struct {
	bid  string
	node int
	hash common.Hash
}

// AgreementMonitor: no two correct nodes persist different blocks at one height,
// and every persisted block carries a seen commit with > 2/3 of that height's
// power for exactly that block id.
type AgreementMonitor struct {
	A       *Alarms
	Hist    *SetHistory
	Decided map[uint64]decided
	Applied map[uint64]common.Hash // app hash per height (first executor)
	ApplBy  map[uint64]int
}

func NewAgreementMonitor(a *Alarms, hist *SetHistory) *AgreementMonitor {
	return &AgreementMonitor{A: a, Hist: hist, Decided: map[uint64]decided{}, Applied: map[uint64]common.Hash{}, ApplBy: map[uint64]int{}}
}

func (m *AgreementMonitor) Observe(net *Net, n *Node, evs []Ev) {
	for _, e := range evs {
		switch e.Kind {
		case EvSaveBlock:
			m.A.Counts["blocks_saved"]++
			k := BIDKey(e.BID)
			if d, ok := m.Decided[e.Height]; ok {
				if d.bid != k {
					m.A.Raise("C01", "disagreement", fmt.Sprintf("height %d: node %d committed %s, node %d committed %s", e.Height, d.node, d.bid[:16], n.Idx, k[:16]),
						map[string]interface{}{"height": e.Height, "schedule_tail": net.TailSched(120)})
				} else {
					m.A.Counts["agreeing_commits"]++
				}
			} else {
				m.Decided[e.Height] = decided{k, n.Idx, e.Block.Hash()}
			}
			if set := m.Hist.At(e.Height); set != nil {
				if err := RefVerifyCommit(net.ChainID, set, e.BID, e.Height, e.Commit); err != nil {
					m.A.Raise("C01", "commit-without-quorum", fmt.Sprintf("node %d persisted block %d with a seen commit that does not justify it: %v", n.Idx, e.Height, err),
						map[string]interface{}{"height": e.Height, "schedule_tail": net.TailSched(120)})
				} else {
					m.A.Counts["seen_commits_verified"]++
				}
				if e.Commit != nil && e.Commit.Round > 1 {
					m.A.Counts["commits_in_round_gt1"]++
				}
			}
		case EvApply:
			if e.Err != "" {
				m.A.Counts["apply_errors"]++
				continue
			}
			if !m.Hist.Applied(e.Height, e.ValUpd) {
				m.A.Raise("C06", "validator-updates-differ", fmt.Sprintf("height %d: node %d got different validator updates from the application than an earlier node", e.Height, n.Idx), nil)
			}
			if h, ok := m.Applied[e.Height]; ok {
				if h != e.AppHash {
					m.A.Raise("C06", "app-hash-differs", fmt.Sprintf("height %d: node %d computed app hash %x, node %d computed %x", e.Height, n.Idx, e.AppHash[:6], m.ApplBy[e.Height], h[:6]), nil)
				} else {
					m.A.Counts["app_hash_agreements"]++
				}
			} else {
				m.Applied[e.Height] = e.AppHash
				m.ApplBy[e.Height] = n.Idx
			}
		}
	}
}

// ---------------------------------------------------------------- C03: signing and locking rules

type hrt struct {
	h uint64
	r uint32
	t kproto.SignedMsgType
}

type knownBlock struct {
	block *types.Block
	bid   types.BlockID
}

// nodeView is what the monitor knows about one correct node: only what was
// delivered to the node's loop (its trace), never the node's own data structures.
type nodeView struct {
	tallies          map[hrt]*Tally
	parts            map[uint64]map[string]map[uint32]*types.Part // height -> parts root -> index -> part
	blocks           map[string]*knownBlock                       // block-id key -> complete block
	byHash           map[common.Hash]*knownBlock
	signed           map[hrt]string
	signedTS         map[hrt]int
	proposed         map[hrt]string
	lockBID          string // last precommitted non-nil block of the current height
	lockRound        uint32
	lockH            uint64
	states           map[uint64]*cstate.LatestBlockState // consensus state the node had when working on height h
	appHash          map[uint64]common.Hash
	incarn           int
	restartSinceLock bool // the node was restarted after it last precommitted a block (and is still in that height)
}

func newNodeView() *nodeView {
	return &nodeView{tallies: map[hrt]*Tally{}, parts: map[uint64]map[string]map[uint32]*types.Part{}, blocks: map[string]*knownBlock{},
		byHash: map[common.Hash]*knownBlock{}, signed: map[hrt]string{}, signedTS: map[hrt]int{}, proposed: map[hrt]string{},
		states: map[uint64]*cstate.LatestBlockState{}, appHash: map[uint64]common.Hash{}}
}

// RulesMonitor checks every signature request and every commit of a correct
// node against the messages the node had received at that moment.
type RulesMonitor struct {
	A     *Alarms
	Hist  *SetHistory
	Views map[int]*nodeView
}

func NewRulesMonitor(a *Alarms, hist *SetHistory) *RulesMonitor {
	return &RulesMonitor{A: a, Hist: hist, Views: map[int]*nodeView{}}
}

func (m *RulesMonitor) view(i int) *nodeView {
	v := m.Views[i]
	if v == nil {
		v = newNodeView()
		m.Views[i] = v
	}
	return v
}

// proofRoot computes the Merkle root a part's proof commits to (independent of
// lib/merkle's verifier: plain RFC-6962 style recomputation with the split rule).
func proofRoot(p *types.Part) (string, bool) {
	root := p.Proof.ComputeRootHash()
	if root == nil {
		return "", false
	}
	return fmt.Sprintf("%x", root), true
}

func (v *nodeView) addPart(h uint64, p *types.Part) *knownBlock {
	if p == nil || p.Proof.Total == 0 || p.Proof.Total > 10000 || uint64(p.Index) != p.Proof.Index {
		return nil
	}
	// the part must hash to the proof's leaf
	root, ok := proofRoot(p)
	if !ok || p.Proof.Verify(common.Hex2Bytes(root), p.Bytes) != nil {
		return nil
	}
	if v.parts[h] == nil {
		v.parts[h] = map[string]map[uint32]*types.Part{}
	}
	key := fmt.Sprintf("%s/%d", root, p.Proof.Total)
	if v.parts[h][key] == nil {
		v.parts[h][key] = map[uint32]*types.Part{}
	}
	set := v.parts[h][key]
	set[p.Index] = p
	if uint64(len(set)) != p.Proof.Total {
		return nil
	}
	var data []byte
	for i := uint32(0); uint64(i) < p.Proof.Total; i++ {
		data = append(data, set[i].Bytes...)
	}
	pbb := new(kproto.Block)
	if proto.Unmarshal(data, pbb) != nil {
		return nil
	}
	blk, err := types.BlockFromProto(pbb, trie.NewStackTrie(nil))
	if err != nil {
		return nil
	}
	kb := &knownBlock{block: blk, bid: types.BlockID{Hash: blk.Hash(), PartsHeader: types.PartSetHeader{Total: uint32(p.Proof.Total), Hash: common.BytesToHash(common.Hex2Bytes(root))}}}
	v.blocks[BIDKey(kb.bid)] = kb
	v.byHash[blk.Hash()] = kb
	return kb
}

// errNoSnapshot: the monitor did not see the node's state for that height (only possible when it polls a live
// node that passes through a whole height between two polls): validity is then not judged.
var errNoSnapshot = fmt.Errorf("no state snapshot")

// validBlock is the property's definition of "valid extension of its own chain".
func (m *RulesMonitor) validBlock(net *Net, v *nodeView, blk *types.Block) error {
	h := blk.Height()
	st := v.states[h]
	if st == nil {
		return errNoSnapshot
	}
	if h != st.LastBlockHeight+1 {
		return fmt.Errorf("height %d is not last+1 (%d)", h, st.LastBlockHeight+1)
	}
	hd := blk.Header()
	if BIDKey(hd.LastBlockID) != BIDKey(st.LastBlockID) {
		return fmt.Errorf("parent id %s, own chain has %s", ShortBID(hd.LastBlockID), ShortBID(st.LastBlockID))
	}
	if hd.AppHash != st.AppHash {
		return fmt.Errorf("app hash %x, own state %x", hd.AppHash[:4], st.AppHash[:4])
	}
	if hd.ValidatorsHash != st.Validators.Hash() {
		return fmt.Errorf("validators hash differs from own state")
	}
	if hd.NextValidatorsHash != st.NextValidators.Hash() {
		return fmt.Errorf("next validators hash differs from own state")
	}
	if err := blk.ValidateBasic(trie.NewStackTrie(nil)); err != nil {
		return fmt.Errorf("internally inconsistent: %v", err)
	}
	if h == st.InitialHeight {
		if len(blk.LastCommit().Signatures) != 0 {
			return fmt.Errorf("first block carries a last commit")
		}
		if !blk.Time().Equal(st.LastBlockTime) {
			return fmt.Errorf("first block time is not the genesis time")
		}
		return nil
	}
	prev := RefSetFrom(st.LastValidators)
	if err := RefVerifyCommit(net.ChainID, prev, st.LastBlockID, h-1, blk.LastCommit()); err != nil {
		return fmt.Errorf("last commit does not verify against the previous validator set: %v", err)
	}
	if want := RefWeightedMedian(blk.LastCommit(), prev); !blk.Time().Equal(want) {
		return fmt.Errorf("time %v is not the weighted median %v of the last commit", blk.Time(), want)
	}
	if !blk.Time().After(st.LastBlockTime) {
		return fmt.Errorf("time not after the previous block's")
	}
	return nil
}

func (m *RulesMonitor) snapshotState(n *Node, v *nodeView) {
	if n.Dead {
		return
	}
	st := n.CS.VerifState()
	h := st.LastBlockHeight + 1
	if v.states[h] == nil {
		c := st
		v.states[h] = &c
	}
}

func (m *RulesMonitor) Observe(net *Net, n *Node, evs []Ev) {
	v := m.view(n.Idx)
	m.snapshotState(n, v)
	wit := func() interface{} {
		return map[string]interface{}{"node": n.Idx, "schedule_tail": net.TailSched(150)}
	}
	for _, e := range evs {
		switch e.Kind {
		case EvRestart:
			// a restarted validator may re-sign what it signed before (C05 judges conflicts across the crash)
			v.signed = map[hrt]string{}
			v.proposed = map[hrt]string{}
			v.incarn++
			if v.lockBID != "" {
				v.restartSinceLock = true
			}
		case EvRecv:
			switch msg := e.Msg.(type) {
			case *consensus.VoteMessage:
				vt := msg.Vote
				if vt == nil {
					continue
				}
				set := m.Hist.At(vt.Height)
				if set == nil {
					continue
				}
				if _, member := set.Power[vt.ValidatorAddress]; !member {
					continue
				}
				if !RefVoteValid(net.ChainID, vt) {
					m.A.Counts["invalid_votes_delivered"]++
					continue
				}
				k := hrt{vt.Height, vt.Round, vt.Type}
				if v.tallies[k] == nil {
					v.tallies[k] = NewTally()
				}
				v.tallies[k].Add(vt.ValidatorAddress, vt.BlockID)
				m.A.Counts["valid_votes_delivered"]++
			case *consensus.BlockPartMessage:
				if msg.Part != nil {
					if kb := v.addPart(msg.Height, msg.Part); kb != nil {
						m.A.Counts["blocks_reassembled_by_monitor"]++
					}
				}
			}
		case EvSignProp:
			m.A.Counts["sign_requests_proposal"]++
			k := hrt{e.Height, e.Round, kproto.ProposalType}
			bid, err := types.BlockIDFromProto(&e.Prop.BlockID)
			key := "?"
			if err == nil && bid != nil {
				key = BIDKey(*bid)
			}
			if old, ok := v.proposed[k]; ok && old != key {
				m.A.Raise("C03", "two-proposals-one-round", fmt.Sprintf("node %d signed two different proposals at %d/%d", n.Idx, e.Height, e.Round), wit())
			} else if ok {
				m.A.Raise("C03", "proposal-signed-twice", fmt.Sprintf("node %d signed a proposal twice at %d/%d", n.Idx, e.Height, e.Round), wit())
			}
			v.proposed[k] = key
		case EvSignVote:
			m.A.Counts["sign_requests_vote"]++
			m.checkVoteSign(net, n, v, e, wit)
		case EvSaveBlock:
			m.checkCommit(net, n, v, e, wit)
		case EvApply:
			if e.Err == "" {
				v.appHash[e.Height] = e.AppHash
			}
		}
	}
	m.snapshotState(n, v)
}

func (m *RulesMonitor) polkaFor(net *Net, v *nodeView, h uint64, r uint32, key string) bool {
	t := v.tallies[hrt{h, r, kproto.PrevoteType}]
	set := m.Hist.At(h)
	if t == nil || set == nil {
		return false
	}
	return set.MoreThanTwoThirds(t.PowerFor(set, key))
}

// polkaOther: a +2/3 prevote set for a value different from key at round r.
func (m *RulesMonitor) polkaOther(net *Net, v *nodeView, h uint64, r uint32, key string) bool {
	t := v.tallies[hrt{h, r, kproto.PrevoteType}]
	set := m.Hist.At(h)
	if t == nil || set == nil {
		return false
	}
	keys := map[string]bool{}
	for _, ks := range t.All {
		for k := range ks {
			keys[k] = true
		}
	}
	for k := range keys {
		if k != key && set.MoreThanTwoThirds(t.PowerFor(set, k)) {
			return true
		}
	}
	return false
}

func (m *RulesMonitor) checkVoteSign(net *Net, n *Node, v *nodeView, e Ev, wit func() interface{}) {
	bidp, err := types.BlockIDFromProto(&e.Vote.BlockID)
	var bid types.BlockID
	if err == nil && bidp != nil {
		bid = *bidp
	}
	key := BIDKey(bid)
	k := hrt{e.Height, e.Round, e.Vote.Type}
	tname := "prevote"
	if e.Vote.Type == kproto.PrecommitType {
		tname = "precommit"
	}
	if old, ok := v.signed[k]; ok {
		if old != key {
			m.A.Raise("C03", "equivocation:"+tname, fmt.Sprintf("node %d signed two different %ss at %d/%d: %s and %s", n.Idx, tname, e.Height, e.Round, old, key), wit())
		} else {
			m.A.Raise("C03", "signed-twice:"+tname, fmt.Sprintf("node %d signed a %s twice at %d/%d", n.Idx, tname, e.Height, e.Round), wit())
		}
	}
	v.signed[k] = key
	if v.lockH != e.Height {
		v.lockH, v.lockBID, v.lockRound = e.Height, "", 0
		v.restartSinceLock = false
	}
	if key == "nil" {
		m.A.Counts["signed_nil_"+tname]++
		return
	}
	m.A.Counts["signed_block_"+tname]++
	// must hold the complete block and it must be a valid extension of the node's chain
	kb := v.blocks[key]
	if kb != nil && kb.block.Height() != e.Height {
		m.A.Raise("C03", tname+"-for-block-of-another-height", fmt.Sprintf("node %d signed a %s at height %d (round %d) for a block of height %d", n.Idx, tname, e.Height, e.Round, kb.block.Height()), wit())
	} else if kb == nil {
		m.A.Raise("C03", tname+"-without-block", fmt.Sprintf("node %d signed a %s for %s at %d/%d without having received all parts of that block", n.Idx, tname, ShortBID(bid), e.Height, e.Round), wit())
	} else if err := m.validBlock(net, v, kb.block); err == errNoSnapshot {
		m.A.Counts["validity_not_judged_no_snapshot"]++
	} else if err != nil {
		m.A.Raise("C03", tname+"-for-invalid-block", fmt.Sprintf("node %d signed a %s at %d/%d for a block that is not a valid extension of its chain: %v", n.Idx, tname, e.Height, e.Round, err), wit())
	} else {
		m.A.Counts["block_validity_checks_passed"]++
	}
	if e.Vote.Type == kproto.PrecommitType {
		if !m.polkaFor(net, v, e.Height, e.Round, key) {
			m.A.Raise("C03", "precommit-without-polka", fmt.Sprintf("node %d precommitted %s at %d/%d without +2/3 prevotes for it in that round among the votes delivered to it", n.Idx, ShortBID(bid), e.Height, e.Round), wit())
		} else {
			m.A.Counts["precommits_justified_by_polka"]++
		}
		if v.lockBID != "" && v.lockBID != key {
			m.A.Counts["relock_on_other_block"]++
		}
		v.lockBID, v.lockRound = key, e.Round
		v.restartSinceLock = false
		return
	}
	// prevote for a block while locked on another one
	if v.lockBID != "" && v.lockBID != key && e.Round > v.lockRound {
		ok := false
		for r := v.lockRound + 1; r <= e.Round; r++ {
			if m.polkaOther(net, v, e.Height, r, v.lockBID) {
				ok = true
				break
			}
		}
		if !ok {
			k := "prevote-against-lock"
			if v.restartSinceLock {
				k = "prevote-against-lock:after-restart-in-the-same-height"
			}
			m.A.Raise("C03", k, fmt.Sprintf("node %d, having precommitted %s in round %d, prevoted %s in round %d of height %d without a later +2/3 prevote set for another value", n.Idx, v.lockBID[:12], v.lockRound, key[:12], e.Round, e.Height), wit())
		} else {
			m.A.Counts["unlock_prevotes_justified"]++
		}
	} else if v.lockBID != "" && v.lockBID == key && e.Round > v.lockRound {
		m.A.Counts["prevotes_for_locked_block"]++
	}
}

func (m *RulesMonitor) checkCommit(net *Net, n *Node, v *nodeView, e Ev, wit func() interface{}) {
	key := BIDKey(e.BID)
	set := m.Hist.At(e.Height)
	if set == nil {
		return
	}
	// +2/3 precommits for the block delivered to the node in a single round
	ok := false
	var rounds []int
	for k, t := range v.tallies {
		if k.h == e.Height && k.t == kproto.PrecommitType {
			rounds = append(rounds, int(k.r))
			if set.MoreThanTwoThirds(t.PowerFor(set, key)) {
				ok = true
			}
		}
	}
	sort.Ints(rounds)
	if !ok {
		m.A.Raise("C03", "commit-without-precommits", fmt.Sprintf("node %d committed block %d (%s) without +2/3 precommits for it in a single round among the votes delivered to it (rounds seen %v)", n.Idx, e.Height, ShortBID(e.BID), rounds), wit())
	} else {
		m.A.Counts["commits_justified_by_precommits"]++
	}
	if err := m.validBlock(net, v, e.Block); err == errNoSnapshot {
		m.A.Counts["validity_not_judged_no_snapshot"]++
	} else if err != nil {
		m.A.Raise("C03", "commit-of-invalid-block", fmt.Sprintf("node %d committed block %d that is not a valid extension of its chain: %v", n.Idx, e.Height, err), wit())
	}
	// forget the finished height
	for k := range v.tallies {
		if k.h+2 < e.Height {
			delete(v.tallies, k)
		}
	}
	for h := range v.parts {
		if h+2 < e.Height {
			delete(v.parts, h)
		}
	}
	_ = big.NewInt
	_ = io.EOF
}
